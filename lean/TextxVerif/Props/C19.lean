import TextxVerif.Proofs.ArpMemoRev
import TextxVerif.Tx.Build
/-!
# C19 — memoization never changes parse results

Model: `Peg.parse` (TextxVerif/Peg/Arp.lean), the statement-by-statement mirror of Arpeggio's
interpreter, whose memoization prologue / epilogue (`cacheHit`, `cacheStore`) reproduce
`ParsingExpression.parse` with its `_result_cache` keyed by *position only*.  `g.withMemo true` /
`g` (with `g.memo = false`) are the parser models textX builds for `memoization=True/False`
(the check verifies on every run that the two compiled models are otherwise identical).

What is proved, for **every** parser model satisfying `UniformAt g sk w` (no Comment rule, no `eolterm`;
`ws` / `skipws` rule modifiers are allowed as long as they restate the whitespace context `(sk, w)` the parse
runs under — e.g. `Rule[skipws]` in a meta-model with `skipws=True`), every input, token table, start node:

* `C19_at`         — the property as stated (`C19Statement`): the plain and the memoizing parser have the same
                     verdict "with sufficient fuel" — accept with the same tree / reject with the same error
                     position / malformed model — and (`C19_at_diverges`) one runs forever iff the other does;
* `C19_partial_at` — whenever the plain parser finishes, the memoizing parser finishes within the same
                     fuel with the same result at the same end position and with the same failure record `nm`;
* `C19_converse_at`— whenever the memoizing parser finishes, the plain parser finishes (with some fuel) with
                     the same result, end position and failure record: memoization cuts no recursion;
* `C19_partial_warm_at` — `C19_partial_at` from any state whose cache holds finished plain results only (the
                     invariant is re-established, so caches may be kept between `parse` calls on one input);
* `C19_partial_agree_at`, `C19_posdet_at`, `C19_partial_accept_at` — as below, for `UniformAt`;
* `Tx.C19_load_at` — model level: `Tx.loadMemo` (the textX mirror `Tx.load` run with the memoizing parser)
                     returns what `Tx.load` returns whenever the parser finished.
* `C19_posdet`, `C19_partial`, `C19_partial_agree`, `C19_partial_accept` — the same for `Uniform g` (no modifiers
  at all; `Uniform g → UniformAt g sk w` for every context, `Uniform.toAt`); kept from the first round.

What is missing for the full property (hence `_partial` / `_at`):
* parser models with a Comment rule — in general **false** too: `C19_comment_false` (a Comment rule that shares a
  memoized expression with the grammar; known finding `C19-memo-key-ignores-comment-context`); whether a Comment
  rule whose expressions are disjoint from the grammar's is harmless is open (tested only);
* parser models with rule modifiers that *change* the context / with eolterm — there the full statement is
  **false**: `C19_full_false` / `C19_statement_false` evaluate the mirror on the parser model textX compiles for
  `Model: a=A | b=B; A[noskipws]: x=X 'c'; B: x=X 'd'; X: 'a' v='b';` and the input `a bd`
  (accepted without memoization, rejected with it).  Root cause in the dependency (Arpeggio):
  known finding `C19-memo-key-ignores-ws-context`.
-/
namespace Peg

/-- **Position-determinism** of the plain parser. -/
theorem C19_posdet (g : Grammar) (hu : Uniform g) (hm : g.memo = false) (sk : Bool) (w : List Char)
    {n m e : Nat} {s s' t t' : PState} {r r' : Res} (hq : Qc sk w s s')
    (h1 : parse g n e s = (r, t)) (hr : r ≠ .fuel) (h2 : parse g m e s' = (r', t')) (hr' : r' ≠ .fuel) :
    r = r' ∧ t.pos = t'.pos :=
  let h := plain_det g hu hm sk w hq h1 hr h2 hr'
  ⟨h.1, h.2.1⟩

theorem initState_Qm (g : Grammar) (sk : Bool) (w : List Char) : Qm g sk w (initState sk w) (initState sk w) := by
  refine ⟨⟨rfl, rfl, rfl, rfl, rfl, rfl, rfl, ?_, ?_⟩, rfl, ?_⟩
  · intro a b h; simp [initState] at h
  · intro a b h; simp [initState] at h
  · intro i p ro np h; simp [initState] at h

/-- **Memoization is transparent** (results and positions) on `Uniform` parser models. -/
theorem C19_partial (g : Grammar) (hu : Uniform g) (hm : g.memo = false) (sk : Bool) (w : List Char)
    (n top : Nat) (r : Res) (t0 : PState)
    (h : parse g n top (initState sk w) = (r, t0)) (hr : r ≠ .fuel) :
    ∃ t1, parse (g.withMemo true) n top (initState sk w) = (r, t1) ∧ t1.pos = t0.pos ∧ t1.nm = t0.nm := by
  obtain ⟨t1, h1, hq⟩ := memo_sim g hu hm sk w n top _ _ r t0 (initState_Qm g sk w) h hr
  exact ⟨t1, h1, hq.1.1.symm, hq.2.1.symm⟩

/-- any finished memoizing run agrees with any finished plain run -/
theorem C19_partial_agree (g : Grammar) (hu : Uniform g) (hm : g.memo = false) (sk : Bool) (w : List Char)
    (n m top : Nat) (r0 r1 : Res) (t0 t1 : PState)
    (h0 : parse g n top (initState sk w) = (r0, t0)) (hr0 : r0 ≠ .fuel)
    (h1 : parse (g.withMemo true) m top (initState sk w) = (r1, t1)) (hr1 : r1 ≠ .fuel) :
    r1 = r0 ∧ t1.pos = t0.pos ∧ t1.nm = t0.nm := by
  obtain ⟨t1', h1', hp⟩ := C19_partial g hu hm sk w n top r0 t0 h0 hr0
  have a := parse_le (g.withMemo true) (Nat.le_max_left n m) top _ r0 t1' h1' hr0
  have b := parse_le (g.withMemo true) (Nat.le_max_right n m) top _ r1 t1 h1 hr1
  rw [a] at b
  cases b
  exact ⟨rfl, hp⟩

/-- at the level of `Parser.parse`: if the plain parser accepts with tree `v`, so does the memoizing
parser, and if it rejects, so does the memoizing parser -/
theorem C19_partial_accept (g : Grammar) (hu : Uniform g) (hm : g.memo = false) (sk : Bool) (w : List Char)
    (n top : Nat) :
    (∀ v, run g top sk w n = .tree v → run (g.withMemo true) top sk w n = .tree v) ∧
    (∀ p, run g top sk w n = .noMatch p → run (g.withMemo true) top sk w n = .noMatch p) := by
  constructor
  · intro v hrun
    unfold run at hrun ⊢
    cases hp : parse g n top (initState sk w) with | mk r t0 =>
    rw [hp] at hrun
    rcases r with v' | _ | _ | _ <;> simp only [] at hrun
    · cases hrun
      obtain ⟨t1, h1, _⟩ := C19_partial g hu hm sk w n top _ t0 hp (by simp)
      rw [h1]
    all_goals cases hrun
  · intro p hrun
    unfold run at hrun ⊢
    cases hp : parse g n top (initState sk w) with | mk r t0 =>
    rw [hp] at hrun
    rcases r with v' | _ | _ | _ <;> simp only [] at hrun
    · cases hrun
    · obtain ⟨t1, h1, _, hnm⟩ := C19_partial g hu hm sk w n top _ t0 hp (by simp)
      rw [h1]; simp only []; rw [hnm]; exact hrun
    all_goals cases hrun

/-! ## constant whitespace context: rule modifiers that restate the context in force -/

theorem initState_QmA (g : Grammar) (sk : Bool) (w : List Char) : QmA g sk w (initState sk w) (initState sk w) := by
  have hs : Sa sk w (initState sk w) := ⟨rfl, rfl, rfl, by intro a b h; simp [initState] at h, rfl, rfl⟩
  refine ⟨⟨rfl, hs, hs⟩, rfl, ?_⟩
  intro i p ro np h; simp [initState] at h

/-- **Position-determinism** of the plain parser under the context `(sk, w)`. -/
theorem C19_posdet_at (g : Grammar) (sk : Bool) (w : List Char) (hu : UniformAt g sk w) (hm : g.memo = false)
    {n m e : Nat} {s s' t t' : PState} {r r' : Res} (hq : Qa sk w s s')
    (h1 : parse g n e s = (r, t)) (hr : r ≠ .fuel) (h2 : parse g m e s' = (r', t')) (hr' : r' ≠ .fuel) :
    r = r' ∧ t.pos = t'.pos :=
  let h := plain_det_at g hu hm hq h1 hr h2 hr'
  ⟨h.1, h.2.1⟩

/-- **Memoization is transparent** on parser models whose modifiers restate the context `(sk, w)`:
plain run finished ⇒ memoizing run finishes within the same fuel, same result, end position, failure record. -/
theorem C19_partial_at (g : Grammar) (sk : Bool) (w : List Char) (hu : UniformAt g sk w) (hm : g.memo = false)
    (n top : Nat) (r : Res) (t0 : PState)
    (h : parse g n top (initState sk w) = (r, t0)) (hr : r ≠ .fuel) :
    ∃ t1, parse (g.withMemo true) n top (initState sk w) = (r, t1) ∧ t1.pos = t0.pos ∧ t1.nm = t0.nm := by
  obtain ⟨t1, h1, hq⟩ := memo_sim_at g hu hm n top _ _ r t0 (initState_QmA g sk w) h hr
  exact ⟨t1, h1, hq.1.1.symm, hq.2.1.symm⟩

/-- **Converse**: memoizing run finished ⇒ the plain run finishes with some fuel, same result, end position,
failure record.  (Only completed results are stored, so a cache hit never replaces a computation that the
plain parser could not complete.) -/
theorem C19_converse_at (g : Grammar) (sk : Bool) (w : List Char) (hu : UniformAt g sk w) (hm : g.memo = false)
    (n top : Nat) (r : Res) (t1 : PState)
    (h : parse (g.withMemo true) n top (initState sk w) = (r, t1)) (hr : r ≠ .fuel) :
    ∃ m t0, parse g m top (initState sk w) = (r, t0) ∧ t0.pos = t1.pos ∧ t0.nm = t1.nm := by
  obtain ⟨m, t0, h0, hq⟩ := memo_fin_plain g hu hm (initState_QmA g sk w) h hr
  exact ⟨m, t0, h0, hq.1.1, hq.2.1⟩

/-- **Warm caches**: the same from *any* pair of states at one position in context `(sk, w)` whose memo cache holds
results of finished plain runs only (`QmA`; `initState` with its empty cache is the special case) — and the cache
the memoizing run leaves behind is again of this kind, so the statement iterates over any sequence of `parse` calls
that keep the cache (on the same input). -/
theorem C19_partial_warm_at (g : Grammar) (sk : Bool) (w : List Char) (hu : UniformAt g sk w) (hm : g.memo = false)
    (n e : Nat) (sP sM : PState) (hq : QmA g sk w sP sM) (r : Res) (tP : PState)
    (h : parse g n e sP = (r, tP)) (hr : r ≠ .fuel) :
    ∃ tM, parse (g.withMemo true) n e sM = (r, tM) ∧ tM.pos = tP.pos ∧ tM.nm = tP.nm ∧ QmA g sk w tP tM := by
  obtain ⟨tM, h1, hq'⟩ := memo_sim_at g hu hm n e sP sM r tP hq h hr
  exact ⟨tM, h1, hq'.1.1.symm, hq'.2.1.symm, hq'⟩

/-- the hypothesis `QmA` is satisfiable: the initial state, and every state reached from it -/
example (g : Grammar) (sk : Bool) (w : List Char) : QmA g sk w (initState sk w) (initState sk w) := initState_QmA g sk w

/-- any finished memoizing run agrees with any finished plain run -/
theorem C19_partial_agree_at (g : Grammar) (sk : Bool) (w : List Char) (hu : UniformAt g sk w) (hm : g.memo = false)
    (n m top : Nat) (r0 r1 : Res) (t0 t1 : PState)
    (h0 : parse g n top (initState sk w) = (r0, t0)) (hr0 : r0 ≠ .fuel)
    (h1 : parse (g.withMemo true) m top (initState sk w) = (r1, t1)) (hr1 : r1 ≠ .fuel) :
    r1 = r0 ∧ t1.pos = t0.pos ∧ t1.nm = t0.nm := by
  obtain ⟨t1', h1', hp⟩ := C19_partial_at g sk w hu hm n top r0 t0 h0 hr0
  have a := parse_le (g.withMemo true) (Nat.le_max_left n m) top _ r0 t1' h1' hr0
  have b := parse_le (g.withMemo true) (Nat.le_max_right n m) top _ r1 t1 h1 hr1
  rw [a] at b
  cases b
  exact ⟨rfl, hp⟩

/-- `Parser.parse` seen as a function of the outcome of the top-level `parse` call -/
def outOf : Res × PState → Outcome
  | (.ok v, _) => .tree v
  | (.nomatch, s) => .noMatch (s.nm.getD 0)
  | (.fuel, _) => .fuel
  | (.bad, _) => .bad

theorem run_eq (g : Grammar) (top : Nat) (sk : Bool) (w : List Char) (n : Nat) :
    run g top sk w n = outOf (parse g n top (initState sk w)) := by
  unfold run outOf
  cases parse g n top (initState sk w) with | mk r s =>
  cases r <;> rfl

theorem outOf_fuel {r : Res} {s : PState} : outOf (r, s) ≠ .fuel ↔ r ≠ .fuel := by
  cases r <;> simp [outOf]

theorem outOf_nm {r : Res} {s s' : PState} (h : s.nm = s'.nm) : outOf (r, s) = outOf (r, s') := by
  cases r <;> simp [outOf, h]

/-- at the level of `Parser.parse`, fuel by fuel -/
theorem C19_partial_accept_at (g : Grammar) (sk : Bool) (w : List Char) (hu : UniformAt g sk w) (hm : g.memo = false)
    (n top : Nat) (o : Outcome) (ho : o ≠ .fuel) (hrun : run g top sk w n = o) :
    run (g.withMemo true) top sk w n = o := by
  rw [run_eq] at hrun ⊢
  cases hp : parse g n top (initState sk w) with | mk r t0 =>
  rw [hp] at hrun
  have hr : r ≠ .fuel := outOf_fuel.mp (by rw [hrun]; exact ho)
  obtain ⟨t1, h1, _, hnm⟩ := C19_partial_at g sk w hu hm n top r t0 hp hr
  rw [h1, outOf_nm hnm]; exact hrun

/-- fuel monotonicity at the level of `Parser.parse` -/
theorem run_le (g : Grammar) (top : Nat) (sk : Bool) (w : List Char) {n m : Nat} (hnm : n ≤ m) {o : Outcome}
    (h : run g top sk w n = o) (ho : o ≠ .fuel) : run g top sk w m = o := by
  rw [run_eq] at h ⊢
  cases hp : parse g n top (initState sk w) with | mk r t0 =>
  rw [hp] at h
  have hr : r ≠ .fuel := outOf_fuel.mp (by rw [h]; exact ho)
  rw [parse_le g hnm top _ r t0 hp hr]; exact h

/-- `o` is the verdict of the parser: the (finished) outcome it reaches with sufficient fuel -/
def Verdict (g : Grammar) (top : Nat) (sk : Bool) (w : List Char) (o : Outcome) : Prop :=
  o ≠ .fuel ∧ ∃ n, run g top sk w n = o

/-- **The property as stated**: a metamodel with memoization accepts exactly the inputs the same metamodel
without memoization accepts, with the same parse tree, and rejects with the same error position (and reports
a malformed parser model alike) -/
def C19Statement (g : Grammar) (top : Nat) (sk : Bool) (w : List Char) : Prop :=
  ∀ o, Verdict g top sk w o ↔ Verdict (g.withMemo true) top sk w o

/-- **C19 for parser models whose modifiers restate the context**: same verdicts. -/
theorem C19_at (g : Grammar) (sk : Bool) (w : List Char) (hu : UniformAt g sk w) (hm : g.memo = false) (top : Nat) :
    C19Statement g top sk w := by
  intro o
  constructor
  · rintro ⟨ho, n, hrun⟩
    exact ⟨ho, n, C19_partial_accept_at g sk w hu hm n top o ho hrun⟩
  · rintro ⟨ho, n, hrun⟩
    refine ⟨ho, ?_⟩
    rw [run_eq] at hrun
    cases hp : parse (g.withMemo true) n top (initState sk w) with | mk r t1 =>
    rw [hp] at hrun
    have hr : r ≠ .fuel := outOf_fuel.mp (by rw [hrun]; exact ho)
    obtain ⟨m, t0, h0, _, hnm⟩ := C19_converse_at g sk w hu hm n top r t1 hp hr
    exact ⟨m, by rw [run_eq, h0, outOf_nm hnm]; exact hrun⟩

/-- ... and the plain parser runs forever (out of fuel for every fuel) iff the memoizing parser does -/
theorem C19_at_diverges (g : Grammar) (sk : Bool) (w : List Char) (hu : UniformAt g sk w) (hm : g.memo = false)
    (top : Nat) :
    (∀ n, run g top sk w n = .fuel) ↔ (∀ n, run (g.withMemo true) top sk w n = .fuel) := by
  have hs := C19_at g sk w hu hm top
  constructor
  · intro h n
    apply Classical.byContradiction
    intro hne
    obtain ⟨_, m, hm'⟩ := (hs _).mpr ⟨hne, n, rfl⟩
    rw [h m] at hm'
    exact hne hm'.symm
  · intro h n
    apply Classical.byContradiction
    intro hne
    obtain ⟨_, m, hm'⟩ := (hs _).mp ⟨hne, n, rfl⟩
    rw [h m] at hm'
    exact hne hm'.symm

/-- the first-round theorem is the special case "no modifiers at all" -/
example (g : Grammar) (hu : Uniform g) (hm : g.memo = false) (sk : Bool) (w : List Char)
    (n top : Nat) (r : Res) (t0 : PState)
    (h : parse g n top (initState sk w) = (r, t0)) (hr : r ≠ .fuel) :
    ∃ t1, parse (g.withMemo true) n top (initState sk w) = (r, t1) ∧ t1.pos = t0.pos ∧ t1.nm = t0.nm :=
  C19_partial_at g sk w (hu.toAt sk w) hm n top r t0 h hr

/-! ## the full statement is false: textX's own parser model for the witness grammar -/

/-- parser model compiled by textX for
`Model: a=A | b=B; A[noskipws]: x=X 'c'; B: x=X 'd'; X: 'a' v='b';` with the token table of `a bd` -/
def witness : Grammar where
  nodes := #[
    { kind := .seq, kids := [1, 14], root := true, rule := "Model" },
    { kind := .choice, kids := [2, 10], root := true, rule := "Model" },
    { kind := .seq, kids := [3], root := true, rule := "__asgn_plain" },
    { kind := .seq, kids := [4, 9], skipws := some false, root := true, rule := "A" },
    { kind := .seq, kids := [5], root := true, rule := "__asgn_plain" },
    { kind := .seq, kids := [6, 7], root := true, rule := "X" },
    { kind := .str, tok := 6 },
    { kind := .seq, kids := [8], root := true, rule := "__asgn_plain" },
    { kind := .str, tok := 8 },
    { kind := .str, tok := 9 },
    { kind := .seq, kids := [11], root := true, rule := "__asgn_plain" },
    { kind := .seq, kids := [12, 13], root := true, rule := "B" },
    { kind := .seq, kids := [5], root := true, rule := "__asgn_plain" },
    { kind := .str, tok := 13 },
    { kind := .eof, rule := "EOF" }]
  comments := none
  memo := false
  input := "a bd".toList.toArray
  toks := #[#[], #[], #[], #[], #[], #[],
    #[some 1, none, none, none, none], #[],
    #[none, none, some 1, none, none],
    #[none, none, none, none, none], #[], #[], #[],
    #[none, none, none, some 1, none], #[]]

def Outcome.accepted : Outcome → Bool
  | .tree _ => true
  | _ => false

def Outcome.failPos : Outcome → Option Nat
  | .noMatch p => some p
  | _ => .none

/-- without the `Uniform` hypothesis the statement fails: same model, same input, memoization off
accepts, memoization on rejects (furthest failure at offset 1) -/
theorem C19_full_false :
    (run witness 0 true "\t\n\r ".toList 200).accepted = true ∧
    (run (witness.withMemo true) 0 true "\t\n\r ".toList 200).failPos = some 1 := by
  decide +kernel

/-! ## non-vacuity: a parser model satisfying the hypotheses, with real backtracking -/

/-- `Model: (X 'c' | X 'd') EOF; X: 'a' 'b';` — the second alternative re-parses `X` at the same position -/
def uniformEx : Grammar where
  nodes := #[
    { kind := .seq, kids := [1, 8], root := true, rule := "Model" },
    { kind := .choice, kids := [2, 6] },
    { kind := .seq, kids := [3, 7] },
    { kind := .seq, kids := [4, 5], root := true, rule := "X" },
    { kind := .str, tok := 0 },
    { kind := .str, tok := 1 },
    { kind := .seq, kids := [3, 9] },
    { kind := .str, tok := 2 },
    { kind := .eof, rule := "EOF" },
    { kind := .str, tok := 3 }]
  comments := none
  memo := false
  input := "a b d".toList.toArray
  toks := #[#[some 1, none, none, none, none, none], #[none, none, some 1, none, none, none],
    #[none, none, none, none, none, none], #[none, none, none, none, some 1, none]]

example : Uniform uniformEx := by
  refine ⟨rfl, ?_⟩
  intro id nd h
  match id, h with
  | 0, h | 1, h | 2, h | 3, h | 4, h | 5, h | 6, h | 7, h | 8, h | 9, h =>
    simp [uniformEx] at h; subst h; simp
  | n+10, h => simp [uniformEx] at h

example : (run uniformEx 0 true " ".toList 100).accepted = true ∧
    (run (uniformEx.withMemo true) 0 true " ".toList 100).accepted = true := by decide +kernel

/-- the property as stated fails on the witness (verdicts for *every* fuel, via fuel monotonicity) -/
theorem C19_statement_false : ¬ C19Statement witness 0 true "\t\n\r ".toList := by
  intro h
  obtain ⟨hacc, hrej⟩ := C19_full_false
  have hne : run witness 0 true "\t\n\r ".toList 200 ≠ .fuel := by
    intro e; rw [e] at hacc; cases hacc
  obtain ⟨_, n, hn⟩ := (h _).mp ⟨hne, 200, rfl⟩
  have hne1 : run (witness.withMemo true) 0 true "\t\n\r ".toList 200 ≠ .fuel := by
    intro e; rw [e] at hrej; cases hrej
  have a := run_le (witness.withMemo true) 0 true "\t\n\r ".toList (Nat.le_max_left n 200) hn hne
  have b := run_le (witness.withMemo true) 0 true "\t\n\r ".toList (Nat.le_max_right n 200) rfl hne1
  rw [a] at b
  rw [b] at hacc
  cases hr : run (witness.withMemo true) 0 true "\t\n\r ".toList 200 with
  | tree v => rw [hr] at hrej; cases hrej
  | noMatch p => rw [hr] at hacc; cases hacc
  | fuel => exact hne1 hr
  | bad => rw [hr] at hacc; cases hacc

/-- the witness has a modifier (`A[noskipws]`) that changes the context: it is outside `UniformAt` -/
example : ¬ UniformAt witness true "\t\n\r ".toList := by
  intro h
  have := (h.ctx 3 _ rfl).2.1
  simp [witness] at this

/-! ## a Comment rule that shares a memoized expression with the grammar: the statement is false as well -/

/-- parser model compiled by textX (`skipws=False`) for `Model: c=C 'x' | y='y'; C: '#' 'k'; Comment: C;` with the
token table of `#ky`: the comment model *is* node 4, the sequence of rule `C`, which the first alternative of
`Model` reaches too.  No rule modifier, no eolterm: one whitespace context throughout. -/
def commentWitness : Grammar where
  nodes := #[
    { kind := .seq, kids := [1, 10], root := true, rule := "Model" },
    { kind := .choice, kids := [2, 8], root := true, rule := "Model" },
    { kind := .seq, kids := [3, 7] },
    { kind := .seq, kids := [4], root := true, rule := "__asgn_plain" },
    { kind := .seq, kids := [5, 6], root := true, rule := "C" },
    { kind := .str, tok := 5 },
    { kind := .str, tok := 6 },
    { kind := .str, tok := 7 },
    { kind := .seq, kids := [9], root := true, rule := "__asgn_plain" },
    { kind := .str, tok := 9 },
    { kind := .eof, rule := "EOF" }]
  comments := some 4
  memo := false
  input := "#ky".toList.toArray
  toks := #[#[], #[], #[], #[], #[], #[some 1, none, none, none], #[none, some 1, none, none],
    #[none, none, none, none], #[], #[none, none, some 1, none], #[]]

/-- **Memoization is not transparent in the presence of a Comment rule** (constant whitespace context, no
modifiers): `C` is first parsed as a *comment* at offset 0 (inside `_parse_comments`, where `Match.parse` skips no
comments) and succeeds; then as the *rule* `C` at offset 0 (comments skipped first, so `'#'` is looked for at
offset 2) and fails — this `NoMatch` replaces the cache entry.  The second alternative `'y'` at offset 0 parses
comments again (`skipws=False`: the comment-position cache is not consulted): the plain parser skips `#k` and
accepts, the memoizing parser is answered `NoMatch` from the cache, skips nothing and rejects at offset 2.
The cache key ignores `in_parse_comments` (Arpeggio; known finding `C19-memo-key-ignores-comment-context`). -/
theorem C19_comment_false :
    (run commentWitness 0 false "\t\n\r ".toList 200).accepted = true ∧
    (run (commentWitness.withMemo true) 0 false "\t\n\r ".toList 200).failPos = some 2 := by
  decide +kernel

/-- ... although every node is free of modifiers: only the comment model keeps it out of `UniformAt` -/
example : uniformAtB { commentWitness with comments := none } false "\t\n\r ".toList = true := by decide +kernel

/-! ## non-vacuity of `UniformAt`: modifiers that restate the context, with real backtracking -/

/-- `Model: (X 'c' | X 'd') EOF; X[skipws, ws=' ']: 'a' 'b';` in a meta-model with `skipws=True, ws=' '`:
the second alternative re-parses `X` (a rule with modifiers) at the same position -/
def uniformAtEx : Grammar where
  nodes := #[
    { kind := .seq, kids := [1, 8], root := true, rule := "Model" },
    { kind := .choice, kids := [2, 6] },
    { kind := .seq, kids := [3, 7] },
    { kind := .seq, kids := [4, 5], root := true, rule := "X", skipws := some true, ws := some [' '] },
    { kind := .str, tok := 0 },
    { kind := .str, tok := 1 },
    { kind := .seq, kids := [3, 9] },
    { kind := .str, tok := 2 },
    { kind := .eof, rule := "EOF" },
    { kind := .str, tok := 3 }]
  comments := none
  memo := false
  input := "a b d".toList.toArray
  toks := #[#[some 1, none, none, none, none, none], #[none, none, some 1, none, none, none],
    #[none, none, none, none, none, none], #[none, none, none, none, some 1, none]]

example : UniformAt uniformAtEx true " ".toList := uniformAtB_sound (by decide +kernel)

example : ¬ Uniform uniformAtEx := by
  intro h
  have := (h.noCtx 3 _ rfl).1
  simp [uniformAtEx] at this

/-- a context other than the restated one is outside the class -/
example : uniformAtB uniformAtEx true " \t".toList = false := by decide +kernel

example : (run uniformAtEx 0 true " ".toList 100).accepted = true ∧
    (run (uniformAtEx.withMemo true) 0 true " ".toList 100).accepted = true := by decide +kernel

/-- the memoizing run of the example really answers from the cache: with the cache the run needs less fuel -/
example : (parse uniformAtEx 100 0 (initState true " ".toList)).2.cache.length = 0 ∧
    (parse (uniformAtEx.withMemo true) 100 0 (initState true " ".toList)).2.cache.length > 0 := by decide +kernel

theorem verdict_of_accepted {g : Grammar} {top : Nat} {sk : Bool} {w : List Char} {n : Nat}
    (h : (run g top sk w n).accepted = true) : ∃ v, Verdict g top sk w (.tree v) := by
  cases hr : run g top sk w n with
  | tree v => exact ⟨v, by simp, n, hr⟩
  | noMatch p => rw [hr] at h; cases h
  | fuel => rw [hr] at h; cases h
  | bad => rw [hr] at h; cases h

theorem verdict_of_failPos {g : Grammar} {top : Nat} {sk : Bool} {w : List Char} {n p : Nat}
    (h : (run g top sk w n).failPos = some p) : Verdict g top sk w (.noMatch p) := by
  cases hr : run g top sk w n with
  | tree v => rw [hr] at h; cases h
  | noMatch q => rw [hr] at h; cases h; exact ⟨by simp, n, hr⟩
  | fuel => rw [hr] at h; cases h
  | bad => rw [hr] at h; cases h

/-- both verdict classes of `C19Statement` are inhabited on the example: an accepted input ... -/
example : ∃ v, Verdict uniformAtEx 0 true " ".toList (.tree v) :=
  verdict_of_accepted (n := 100) (by decide +kernel)

/-- ... and a rejected one (the token table of `a b d` with the `'d'` removed: both alternatives fail at offset 4) -/
def uniformAtRej : Grammar :=
  { uniformAtEx with toks := #[#[some 1, none, none, none, none, none], #[none, none, some 1, none, none, none],
      #[none, none, none, none, none, none], #[none, none, none, none, none, none]] }

example : Verdict uniformAtRej 0 true " ".toList (.noMatch 4) ∧
    Verdict (uniformAtRej.withMemo true) 0 true " ".toList (.noMatch 4) :=
  ⟨verdict_of_failPos (n := 100) (by decide +kernel), verdict_of_failPos (n := 100) (by decide +kernel)⟩

/-! ## terminals are not memoized (round V19)

`Match.parse` overrides `ParsingExpression.parse` and never looks at `_result_cache`: only non-terminals are memoized.
Which expressions of a textX parser model are non-terminals is decided by the grammar compiler (`Tx.compile`): a rule
that is just another name for a base type or a simple match rule (`Num: INT;`) has no expression of its own, it IS the
match (`Tx.C19_alias_base_root` below).  Such a rule may therefore be reached under any number of whitespace contexts
at one position -- the finding `C19_statement_false` needs a *non-terminal* reached under two contexts. -/

/-- a terminal (`Match`): string match, regex match, end of file -/
def Node.terminal (nd : Node) : Bool :=
  match nd.kind with
  | .str | .re | .eof => true
  | _ => false

private theorem nmRaise_cache' (s : PState) (pos : Nat) : (s.nmRaise pos).cache = s.cache := by
  unfold PState.nmRaise; grind

private theorem skipWs_cache' (g : Grammar) (s : PState) : (skipWs g s).cache = s.cache := rfl

private theorem matchNode_cache (g : Grammar) (id : Nat) (nd : Node) (s : PState) :
    (matchNode g (fun s => (.ok .none, s)) id nd s).2.cache = s.cache := by
  unfold matchNode
  grind [skipWs_cache', nmRaise_cache']

/-- Parsing a terminal (no comment model) does not depend on the memoization flag, for ANY parser state -- whatever
whitespace context it carries and whatever the memo cache holds -- and leaves the memo cache as it was. -/
theorem C19_match_not_memoized (g : Grammar) (hc : g.comments = none) (m : Bool) (n id : Nat) (nd : Node)
    (hn : g.nodes[id]? = some nd) (ht : nd.terminal = true) (s : PState) :
    parse (g.withMemo m) (n + 1) id s = parse g (n + 1) id s ∧ (parse g (n + 1) id s).2.cache = s.cache := by
  have hn' : (g.withMemo m).nodes[id]? = some nd := hn
  have e : commentsLoop g (parse g n) n = fun s => (.ok .none, s) := by
    funext s; simp [commentsLoop, hc]
  unfold Node.terminal at ht
  constructor
  · simp only [parse, nodeParse, hn, hn']
    cases hk : nd.kind <;> simp_all [matchNode_withMemo g hc m (parse (g.withMemo m) n) (parse g n) n n id nd s]
  · simp only [parse, nodeParse, hn]
    cases hk : nd.kind <;> simp_all [matchNode_cache]

end Peg


/-! ## model level: the textX mirror run with the memoizing parser -/
namespace Tx

/-- `metamodel_from_str(grammar, memoization=True, **cfg).model_from_str(text)` on the mirror: `Tx.load` with the
memoizing parser -/
def loadMemo (c : Compiled) (cfg : Config) (input : Array Char) (toks : Array (Array (Option Nat)))
    (groups : Array Nat) (g1 : Array (Array (Option (Nat × Nat)))) (fuel : Nat) : Outcome :=
  match Peg.parse ((c.grammar input toks).withMemo true) fuel c.top (Peg.initState cfg.skipws cfg.ws) with
  | (.ok tree, _) => build { c := c, cfg := cfg, input := input, groups := groups, g1 := g1 } fuel tree
  | (.nomatch, _) => .syntaxError
  | (.fuel, _) => .fuel
  | (.bad, _) => .bad "parser model"

/-- **Structurally identical model**: when the compiled parser model is in the class `UniformAt` for the
meta-model's whitespace configuration and the parser finished, loading with memoization gives exactly the
outcome of loading without (same model / same class of error). -/
theorem C19_load_at (c : Compiled) (cfg : Config) (input : Array Char) (toks : Array (Array (Option Nat)))
    (groups : Array Nat) (g1 : Array (Array (Option (Nat × Nat)))) (fuel : Nat)
    (hu : Peg.UniformAt (c.grammar input toks) cfg.skipws cfg.ws)
    (hfin : (Peg.parse (c.grammar input toks) fuel c.top (Peg.initState cfg.skipws cfg.ws)).1 ≠ .fuel) :
    loadMemo c cfg input toks groups g1 fuel = load c cfg input toks groups g1 fuel := by
  unfold loadMemo load
  cases hp : Peg.parse (c.grammar input toks) fuel c.top (Peg.initState cfg.skipws cfg.ws) with | mk r t0 =>
  rw [hp] at hfin
  obtain ⟨t1, h1, _⟩ := Peg.C19_partial_at (c.grammar input toks) cfg.skipws cfg.ws hu rfl fuel c.top r t0 hp hfin
  rw [h1]
  cases r <;> rfl

/-- membership in the class depends on the compiled parser model and the configuration only, not on the input -/
theorem uniformAt_input (c : Compiled) (cfg : Config) (input input' : Array Char)
    (toks toks' : Array (Array (Option Nat)))
    (hu : Peg.UniformAt (c.grammar input toks) cfg.skipws cfg.ws) :
    Peg.UniformAt (c.grammar input' toks') cfg.skipws cfg.ws := ⟨hu.noComments, hu.ctx⟩

/-! ### aliases of a match have no parsing expression of their own (round V19) -/
open Peg in
/-- `_resolve_rule_refs` on a rule that is just another name for a base type (`Num: INT;`): the rule has no parsing
expression of its own, its root IS the node of the base type -/
theorem C19_alias_base_root (g : Gram) (offs : List (String × Nat)) (f : Nat) (name tgt : String) (r : Rule) (i : Nat)
    (h1 : g.find? name = some r) (h2 : r.aliasOf = some tgt) (h3 : g.find? tgt = none) (h4 : baseIndex tgt = some i) :
    resolveRoot g offs (f + 2) name = .ok i := by
  simp [resolveRoot, h1, h2, h3, h4]

/-- ... and the six simple base types are terminals (regex matches), which are never memoized
(`Peg.C19_match_not_memoized`) -/
theorem C19_base_terminal (i : Nat) (h : i < 6) : (baseNodes[i]?).map (·.node.terminal) = some true := by
  have : i = 0 ∨ i = 1 ∨ i = 2 ∨ i = 3 ∨ i = 4 ∨ i = 5 := by omega
  rcases this with rfl | rfl | rfl | rfl | rfl | rfl <;> rfl

/-- the corpus witness `Item: Range | Point; Range[noskipws]: '[' lo=Num ..; Point: '[' x=Num ..; Num: INT;` in short:
`Num` resolves to node 2 = `INT` -/
example : resolveRoot { rules := [{ name := "Model", body := .seq [.ref "Num" false, .str 6 "x" false] false },
                                  { name := "Num", body := .ref "INT" false }] } [] 3 "Num" = .ok 2 := by rfl

end Tx
