import TextxVerif.Proofs.ArpMemo
/-!
# C19 — memoization never changes parse results

Model: `Peg.parse` (TextxVerif/Peg/Arp.lean), the statement-by-statement mirror of Arpeggio's
interpreter, whose memoization prologue / epilogue (`cacheHit`, `cacheStore`) reproduce
`ParsingExpression.parse` with its `_result_cache` keyed by *position only*.  `g.withMemo true` /
`g` (with `g.memo = false`) are the parser models textX builds for `memoization=True/False`
(the check verifies on every run that the two compiled models are otherwise identical).

What is proved, for **every** parser model satisfying `Uniform` (no Comment rule; no `ws` / `skipws`
rule modifier and no `eolterm` on any node), every input, token table, whitespace configuration,
start node and fuel:

* `C19_posdet`   — results of the plain parser depend only on the position (not on the comment cache,
                   the failure record or the history), for runs of any two fuels;
* `C19_partial`  — whenever the plain parser finishes, the memoizing parser finishes within the same
                   fuel with the same result (same parse tree, or the same rejection) at the same
                   end position and with the same furthest-failure record `nm` (= error position);
* `C19_partial_agree` — any two finished runs (plain / memoizing, any fuels) agree;
* `C19_partial_accept` — at the level of `Parser.parse`: same tree on acceptance, same error position
                   on rejection.

What is missing for the full property (hence `_partial`):
* the converse direction "memoizing parser finishes ⇒ plain parser finishes" (termination of the plain
  parser is not implied; the real plain parser ends with RecursionError at worst);
* parser models with a Comment rule;
* parser models with rule modifiers / eolterm — there the full statement is **false**:
  `C19_full_false` evaluates the mirror on the parser model textX compiles for
  `Model: a=A | b=B; A[noskipws]: x=X 'c'; B: x=X 'd'; X: 'a' v='b';` and the input `a bd`
  (accepted without memoization, rejected with it).  Root cause in the dependency (Arpeggio):
  known finding `C19-memo-key-ignores-ws-context`.
-/
namespace Peg

/-- **Position-determinism** of the plain parser. -/
theorem C19_posdet (g : Grammar) (hu : Uniform g) (hm : g.memo = false) (sk : Bool) (w : List Char)
    {n m e : Nat} {s s' t t' : PState} {r r' : Res} (hq : Qc sk w s s')
    (h1 : parse g n e s = (r, t)) (hr : r ≠ .fuel) (h2 : parse g m e s' = (r', t')) (hr' : r' ≠ .fuel) :
    r = r' ∧ t.pos = t'.pos :=
  let h := plain_det g hu hm sk w hq h1 hr h2 hr'
  ⟨h.1, h.2.1⟩

theorem initState_Qm (g : Grammar) (sk : Bool) (w : List Char) : Qm g sk w (initState sk w) (initState sk w) := by
  refine ⟨⟨rfl, rfl, rfl, rfl, rfl, rfl, rfl, ?_, ?_⟩, rfl, ?_⟩
  · intro a b h; simp [initState] at h
  · intro a b h; simp [initState] at h
  · intro i p ro np h; simp [initState] at h

/-- **Memoization is transparent** (results and positions) on `Uniform` parser models. -/
theorem C19_partial (g : Grammar) (hu : Uniform g) (hm : g.memo = false) (sk : Bool) (w : List Char)
    (n top : Nat) (r : Res) (t0 : PState)
    (h : parse g n top (initState sk w) = (r, t0)) (hr : r ≠ .fuel) :
    ∃ t1, parse (g.withMemo true) n top (initState sk w) = (r, t1) ∧ t1.pos = t0.pos ∧ t1.nm = t0.nm := by
  obtain ⟨t1, h1, hq⟩ := memo_sim g hu hm sk w n top _ _ r t0 (initState_Qm g sk w) h hr
  exact ⟨t1, h1, hq.1.1.symm, hq.2.1.symm⟩

/-- any finished memoizing run agrees with any finished plain run -/
theorem C19_partial_agree (g : Grammar) (hu : Uniform g) (hm : g.memo = false) (sk : Bool) (w : List Char)
    (n m top : Nat) (r0 r1 : Res) (t0 t1 : PState)
    (h0 : parse g n top (initState sk w) = (r0, t0)) (hr0 : r0 ≠ .fuel)
    (h1 : parse (g.withMemo true) m top (initState sk w) = (r1, t1)) (hr1 : r1 ≠ .fuel) :
    r1 = r0 ∧ t1.pos = t0.pos ∧ t1.nm = t0.nm := by
  obtain ⟨t1', h1', hp⟩ := C19_partial g hu hm sk w n top r0 t0 h0 hr0
  have a := parse_le (g.withMemo true) (Nat.le_max_left n m) top _ r0 t1' h1' hr0
  have b := parse_le (g.withMemo true) (Nat.le_max_right n m) top _ r1 t1 h1 hr1
  rw [a] at b
  cases b
  exact ⟨rfl, hp⟩

/-- at the level of `Parser.parse`: if the plain parser accepts with tree `v`, so does the memoizing
parser, and if it rejects, so does the memoizing parser -/
theorem C19_partial_accept (g : Grammar) (hu : Uniform g) (hm : g.memo = false) (sk : Bool) (w : List Char)
    (n top : Nat) :
    (∀ v, run g top sk w n = .tree v → run (g.withMemo true) top sk w n = .tree v) ∧
    (∀ p, run g top sk w n = .noMatch p → run (g.withMemo true) top sk w n = .noMatch p) := by
  constructor
  · intro v hrun
    unfold run at hrun ⊢
    cases hp : parse g n top (initState sk w) with | mk r t0 =>
    rw [hp] at hrun
    rcases r with v' | _ | _ | _ <;> simp only [] at hrun
    · cases hrun
      obtain ⟨t1, h1, _⟩ := C19_partial g hu hm sk w n top _ t0 hp (by simp)
      rw [h1]
    all_goals cases hrun
  · intro p hrun
    unfold run at hrun ⊢
    cases hp : parse g n top (initState sk w) with | mk r t0 =>
    rw [hp] at hrun
    rcases r with v' | _ | _ | _ <;> simp only [] at hrun
    · cases hrun
    · obtain ⟨t1, h1, _, hnm⟩ := C19_partial g hu hm sk w n top _ t0 hp (by simp)
      rw [h1]; simp only []; rw [hnm]; exact hrun
    all_goals cases hrun

/-! ## the full statement is false: textX's own parser model for the witness grammar -/

/-- parser model compiled by textX for
`Model: a=A | b=B; A[noskipws]: x=X 'c'; B: x=X 'd'; X: 'a' v='b';` with the token table of `a bd` -/
def witness : Grammar where
  nodes := #[
    { kind := .seq, kids := [1, 14], root := true, rule := "Model" },
    { kind := .choice, kids := [2, 10], root := true, rule := "Model" },
    { kind := .seq, kids := [3], root := true, rule := "__asgn_plain" },
    { kind := .seq, kids := [4, 9], skipws := some false, root := true, rule := "A" },
    { kind := .seq, kids := [5], root := true, rule := "__asgn_plain" },
    { kind := .seq, kids := [6, 7], root := true, rule := "X" },
    { kind := .str, tok := 6 },
    { kind := .seq, kids := [8], root := true, rule := "__asgn_plain" },
    { kind := .str, tok := 8 },
    { kind := .str, tok := 9 },
    { kind := .seq, kids := [11], root := true, rule := "__asgn_plain" },
    { kind := .seq, kids := [12, 13], root := true, rule := "B" },
    { kind := .seq, kids := [5], root := true, rule := "__asgn_plain" },
    { kind := .str, tok := 13 },
    { kind := .eof, rule := "EOF" }]
  comments := none
  memo := false
  input := "a bd".toList.toArray
  toks := #[#[], #[], #[], #[], #[], #[],
    #[some 1, none, none, none, none], #[],
    #[none, none, some 1, none, none],
    #[none, none, none, none, none], #[], #[], #[],
    #[none, none, none, some 1, none], #[]]

def Outcome.accepted : Outcome → Bool
  | .tree _ => true
  | _ => false

def Outcome.failPos : Outcome → Option Nat
  | .noMatch p => some p
  | _ => .none

/-- without the `Uniform` hypothesis the statement fails: same model, same input, memoization off
accepts, memoization on rejects (furthest failure at offset 1) -/
theorem C19_full_false :
    (run witness 0 true "\t\n\r ".toList 200).accepted = true ∧
    (run (witness.withMemo true) 0 true "\t\n\r ".toList 200).failPos = some 1 := by
  decide +kernel

/-! ## non-vacuity: a parser model satisfying the hypotheses, with real backtracking -/

/-- `Model: (X 'c' | X 'd') EOF; X: 'a' 'b';` — the second alternative re-parses `X` at the same position -/
def uniformEx : Grammar where
  nodes := #[
    { kind := .seq, kids := [1, 8], root := true, rule := "Model" },
    { kind := .choice, kids := [2, 6] },
    { kind := .seq, kids := [3, 7] },
    { kind := .seq, kids := [4, 5], root := true, rule := "X" },
    { kind := .str, tok := 0 },
    { kind := .str, tok := 1 },
    { kind := .seq, kids := [3, 9] },
    { kind := .str, tok := 2 },
    { kind := .eof, rule := "EOF" },
    { kind := .str, tok := 3 }]
  comments := none
  memo := false
  input := "a b d".toList.toArray
  toks := #[#[some 1, none, none, none, none, none], #[none, none, some 1, none, none, none],
    #[none, none, none, none, none, none], #[none, none, none, none, some 1, none]]

example : Uniform uniformEx := by
  refine ⟨rfl, ?_⟩
  intro id nd h
  match id, h with
  | 0, h | 1, h | 2, h | 3, h | 4, h | 5, h | 6, h | 7, h | 8, h | 9, h =>
    simp [uniformEx] at h; subst h; simp
  | n+10, h => simp [uniformEx] at h

example : (run uniformEx 0 true " ".toList 100).accepted = true ∧
    (run (uniformEx.withMemo true) 0 true " ".toList 100).accepted = true := by decide +kernel

end Peg
