import TextxVerif.Proofs.History
/-!
# C16 — loading is independent of the metamodel's history

Model: `History` (TextxVerif/Load/History.lean): operations `new k` (`metamodel_from_str`) and
`load k files` (`model_from_str` / `model_from_file`) over the state that survives an operation —
Arpeggio's memo caches on the (partly shared) rule objects, the parser blueprints with the
aliasing of `copy.copy`, the instrumentation of user classes, the grammar-parser cache, the
`_tx_class` back-pointers of the shared base-type rules.  Parsing is computed by the Arpeggio mirror
on the surviving caches; the semantic phases are arbitrary functions (`Sem`) of what the code reads.

`pureLoad W sem k m files` is the outcome of a load written without any surviving state; `specRun`
replays a history knowing only *which metamodels exist*.  Helper lemmas: `Proofs/History.lean`
(invariant `Rest`, frame of the heap, the counting argument for the instrumentation) and
`Proofs/HistoryCache.lean` (a non-memoizing parser never touches the caches, through the whole mirror).
-/
namespace History
open Peg

/-- the metamodels that exist after `new k` -/
def createdAfter (W : World) (cr : Nat → Bool) (k : Nat) : Nat → Bool :=
  if (W.mms[k]?).isSome then upd cr k true else cr

/-- outcome of a load, given only whether its metamodel exists -/
def specOut (W : World) (sem : Sem) (cr : Nat → Bool) (k : Nat) (files : List Inp) : Out :=
  match W.mms[k]?, cr k with
  | some m, true => pureLoad W sem k m files
  | _, _ => skipOut

/-- a history replayed without any hidden state -/
def specRun (W : World) (sem : Sem) : List Op → (Nat → Bool) → List (Option Out)
  | [], _ => []
  | .new k :: ops, cr => none :: specRun W sem ops (createdAfter W cr k)
  | .load k files :: ops, cr => some (specOut W sem cr k files) :: specRun W sem ops cr

def exists_ (H : Hidden) : Nat → Bool := fun k => (H.blue k).isSome

theorem exists_create (W : World) (k : Nat) (H : Hidden) :
    exists_ (create W k H) = createdAfter W (exists_ H) k := by
  funext j
  unfold createdAfter exists_
  cases hk : W.mms[k]? with
  | none => simp [create_none W k H hk]
  | some m =>
    by_cases hj : j = k
    · subst hj; simp [upd, create_blue W j H m hk]
    · simp [upd, hj, create_blue_other W k j H hj]

/-- one load from a state at rest: outcome given by `specOut`, state at rest again, same metamodels -/
theorem load_spec (W : World) (sem : Sem) (k : Nat) (files : List Inp) (H : Hidden) (hr : Rest H) :
    (load real W sem k files H).1 = specOut W sem (exists_ H) k files ∧
      Rest (load real W sem k files H).2 ∧ exists_ (load real W sem k files H).2 = exists_ H := by
  unfold specOut exists_
  cases hk : W.mms[k]? with
  | none =>
    rw [load_skip real W sem k files H (Or.inl hk)]
    exact ⟨rfl, hr, rfl⟩
  | some m =>
    cases hb : H.blue k with
    | none =>
      rw [load_skip real W sem k files H (Or.inr hb)]
      simp
      exact hr
    | some b =>
      obtain ⟨h1, h2, h3⟩ := load_real W sem k m b files H hr hk hb
      refine ⟨by simpa using h1, h2, ?_⟩
      rw [h3]

/-- **History.**  For every history — loads from strings and files, successful or failing at any
phase, interleaved over any metamodels, with metamodels created in between — started in a state at
rest, the outcome of every operation is the one `specRun` computes without any hidden state, and
the final state is at rest. -/
theorem C16_history (W : World) (sem : Sem) : ∀ (ops : List Op) (H : Hidden), Rest H →
    (run real W sem ops H).1 = specRun W sem ops (exists_ H) ∧ Rest (run real W sem ops H).2 := by
  intro ops
  induction ops with
  | nil => intro H hr; exact ⟨rfl, hr⟩
  | cons op ops ih =>
    intro H hr
    cases op with
    | new k =>
      obtain ⟨h1, h2⟩ := ih (create W k H) (rest_create W k H hr)
      simp only [run, step, specRun]
      rw [exists_create] at h1
      exact ⟨by rw [h1], h2⟩
    | load k files =>
      obtain ⟨l1, l2, l3⟩ := load_spec W sem k files H hr
      obtain ⟨h1, h2⟩ := ih (load real W sem k files H).2 l2
      simp only [run, step, specRun]
      rw [l3] at h1
      exact ⟨by rw [h1, l1], h2⟩

/-- every state reachable from a fresh process (`import textx`) is at rest -/
theorem C16_reachable_rest (W : World) (sem : Sem) (ops : List Op) : Rest (run real W sem ops empty).2 :=
  (C16_history W sem ops empty rest_empty).2

/-- **Non-interference.**  Two states at rest in which metamodel `k` exists (or does not) give the
same outcome for the same load: every component of the surviving state is reset before it is read,
or what is read from it is the same in every reachable state. -/
theorem C16_noninterference (W : World) (sem : Sem) (k : Nat) (files : List Inp) (H₁ H₂ : Hidden)
    (h₁ : Rest H₁) (h₂ : Rest H₂) (hk : exists_ H₁ k = exists_ H₂ k) :
    (load real W sem k files H₁).1 = (load real W sem k files H₂).1 := by
  rw [(load_spec W sem k files H₁ h₁).1, (load_spec W sem k files H₂ h₂).1]
  unfold specOut
  rw [hk]

/-- **The statement, literally.**  After any history from a fresh process, a load with an existing
metamodel returns what the same metamodel configuration returns in a fresh process that created
only this metamodel. -/
theorem C16_same_as_fresh (W : World) (sem : Sem) (ops : List Op) (k : Nat) (m : MM) (files : List Inp)
    (hm : W.mms[k]? = some m) (hk : exists_ (run real W sem ops empty).2 k = true) :
    (load real W sem k files (run real W sem ops empty).2).1 = (load real W sem k files (create W k empty)).1 := by
  apply C16_noninterference W sem k files _ _ (C16_reachable_rest W sem ops) (rest_create W k empty rest_empty)
  rw [hk]
  exact (create_blue W k empty m hm).symm

/-- **History over a pool created up front** (the reading of DESIGN.md).  In a history that
consists of loads only, started in any state at rest `H0` (e.g. "pool created, nothing loaded"),
every load returns exactly what the same load returns when it is run alone on `H0`. -/
theorem C16_history_pool (W : World) (sem : Sem) (H0 : Hidden) (hr : Rest H0) :
    ∀ ops : List Op, (∀ op ∈ ops, ∃ k fs, op = .load k fs) →
      (run real W sem ops H0).1 = ops.map (fun op => (step real W sem op H0).1) := by
  intro ops hall
  rw [(C16_history W sem ops H0 hr).1]
  induction ops with
  | nil => rfl
  | cons op ops ih =>
    obtain ⟨k, fs, rfl⟩ := hall op (by simp)
    rw [show specRun W sem (Op.load k fs :: ops) (exists_ H0)
          = some (specOut W sem (exists_ H0) k fs) :: specRun W sem ops (exists_ H0) from rfl,
        List.map_cons, ih (fun o ho => hall o (by simp [ho])),
        show (step real W sem (Op.load k fs) H0).1 = some (load real W sem k fs H0).1 from rfl,
        (load_spec W sem k fs H0 hr).1]

/-- **Memo caches and non-memoizing parsers.**  A parser without memoization returns the memo caches
of all rule objects — also of the base-type rules it shares with memoizing metamodels — exactly as it
found them, for every parser model, input and amount of fuel. -/
theorem C16_memo_frame (g : Grammar) (hm : g.memo = false) (n id : Nat) (s : PState) :
    (parse g n id s).2.cache = s.cache :=
  parse_keeps g hm n id s

/-! ## the resets are needed: two variants of the machine for which the property is false -/

/-- `Model: 'a';` — node 0 = `Sequence('a', EOF)`, 1 = `StrMatch('a')`, 2 = `EOF` -/
def wNodes : Array Node := #[
  { kind := .seq, kids := [1, 2], root := true, rule := "Model" },
  { kind := .str, tok := 1 },
  { kind := .eof }]

def wWorld (memo : Bool) : World :=
  { nodes := wNodes, mms := [{ top := 0, comments := none, memo := memo, skipws := true, ws := [' '] }] }

/-- the texts `a` and `b` -/
def inA : Inp := { input := #['a'], toks := #[#[], #[some 1, none], #[]], fuel := 6 }
def inB : Inp := { input := #['b'], toks := #[#[], #[none, none], #[]], fuel := 6 }

/-- a semantics whose dump shows what the build found in `_instances` -/
def wSem : Sem :=
  { file := fun _ _ => { ok := true, dump := 0, allocs := 1, stack := [], instances := [7], crossrefs := [] },
    final := fun _ rs _ => (.ok, (rs.map (fun r => r.instances0.length)).sum) }

/-- `Parser.parse` without the `finally: self._clear_caches()` -/
def noClear : Variant := { real with clear := false }

/-- `clone()` without `the_clone._instances = {}` -/
def shareInstances : Variant := { real with resets := [true, false, true, true, true, true] }

def phases (os : List (Option Out)) : List (Option Phase) := os.map (Option.map (·.phase))
def dumps (os : List (Option Out)) : List (Option Nat) := os.map (Option.map (·.dump))

/-- without clearing the caches, `b` is accepted after `a` has been loaded (the cached result of the
top rule at position 0 is reused), while a fresh process rejects it -/
theorem C16_noClear_false :
    phases (run noClear (wWorld true) wSem [.new 0, .load 0 [inA], .load 0 [inB]] empty).1
        = [none, some .ok, some .ok] ∧
    phases (run noClear (wWorld true) wSem [.new 0, .load 0 [inB]] empty).1 = [none, some (.parse 0)] := by
  decide +kernel

/-- with a clone that shares `_instances` with the blueprint, the second load finds the objects of
the first one -/
theorem C16_shareInstances_false :
    dumps (run shareInstances (wWorld false) wSem [.new 0, .load 0 [inA], .load 0 [inA]] empty).1
        = [none, some 0, some 1] := by
  decide +kernel

/-! ## non-vacuity: the real machine on the same world; failing and successful loads interleaved -/

example : phases (run real (wWorld true) wSem [.new 0, .load 0 [inA], .load 0 [inB], .load 0 [inA], .load 1 [inA]] empty).1
    = [none, some .ok, some (.parse 0), some .ok, some .skip] := by decide +kernel

example : dumps (run real (wWorld false) wSem [.new 0, .load 0 [inA], .load 0 [inA]] empty).1
    = [none, some 0, some 0] := by decide +kernel

example : ((run real (wWorld true) wSem [.new 0, .load 0 [inA, inA]] empty).1.map (Option.map (·.initCounts)))
    = [none, some [1, 0]] := by decide +kernel

end History
