import TextxVerif.Proofs.HistoryWalk
import TextxVerif.Load.SearchPath
/-!
# C16 — loading is independent of the metamodel's history

Model: `History` (TextxVerif/Load/History.lean): operations `new k` (`metamodel_from_str`) and
`load k files` (`model_from_str` / `model_from_file`) over the state that survives an operation —
Arpeggio's memo caches on the (partly shared) rule objects, the parser blueprints with the
aliasing of `copy.copy`, the instrumentation of user classes, the grammar-parser cache, the
`_tx_class` back-pointers of the shared base-type rules.  Parsing is computed by the Arpeggio mirror
on the surviving caches; the semantic phases are arbitrary functions (`Sem`) of what the code reads.

`pureLoad W sem k m files` is the outcome of a load written without any surviving state; `specRun`
replays a history knowing only *which metamodels exist*.  Helper lemmas: `Proofs/History.lean`
(invariant `Rest`, frame of the heap, the counting argument for the instrumentation) and
`Proofs/HistoryCache.lean` (a non-memoizing parser never touches the caches, through the whole mirror).

Clearing the caches: the machine `real` drops every memo entry; Arpeggio walks the parser model along
`ParsingExpression.nodes` (`walk`, `walkClear`, variant `realWalk`).  `Proofs/HistoryReach.lean` (stores only
hit walked rule objects, through the whole mirror) and `Proofs/HistoryWalk.lean` (the walk computes
reachability; `run realWalk = run real`) justify the abstraction — section "clearing by walking" below.
-/
namespace History
open Peg

/-- the metamodels that exist after `new k` -/
def createdAfter (W : World) (cr : Nat → Bool) (k : Nat) : Nat → Bool :=
  if (W.mms[k]?).isSome then upd cr k true else cr

/-- outcome of a load, given only whether its metamodel exists -/
def specOut (W : World) (sem : Sem) (cr : Nat → Bool) (k : Nat) (files : List Inp) : Out :=
  match W.mms[k]?, cr k with
  | some m, true => pureLoad W sem k m files
  | _, _ => skipOut

/-- a history replayed without any hidden state -/
def specRun (W : World) (sem : Sem) : List Op → (Nat → Bool) → List (Option Out)
  | [], _ => []
  | .new k :: ops, cr => none :: specRun W sem ops (createdAfter W cr k)
  | .load k files :: ops, cr => some (specOut W sem cr k files) :: specRun W sem ops cr

def exists_ (H : Hidden) : Nat → Bool := fun k => (H.blue k).isSome

theorem exists_create (W : World) (k : Nat) (H : Hidden) :
    exists_ (create W k H) = createdAfter W (exists_ H) k := by
  funext j
  unfold createdAfter exists_
  cases hk : W.mms[k]? with
  | none => simp [create_none W k H hk]
  | some m =>
    by_cases hj : j = k
    · subst hj; simp [upd, create_blue W j H m hk]
    · simp [upd, hj, create_blue_other W k j H hj]

/-- one load from a state at rest: outcome given by `specOut`, state at rest again, same metamodels -/
theorem load_spec (W : World) (sem : Sem) (k : Nat) (files : List Inp) (H : Hidden) (hr : Rest H) :
    (load real W sem k files H).1 = specOut W sem (exists_ H) k files ∧
      Rest (load real W sem k files H).2 ∧ exists_ (load real W sem k files H).2 = exists_ H := by
  unfold specOut exists_
  cases hk : W.mms[k]? with
  | none =>
    rw [load_skip real W sem k files H (Or.inl hk)]
    exact ⟨rfl, hr, rfl⟩
  | some m =>
    cases hb : H.blue k with
    | none =>
      rw [load_skip real W sem k files H (Or.inr hb)]
      simp
      exact hr
    | some b =>
      obtain ⟨h1, h2, h3⟩ := load_real W sem k m b files H hr hk hb
      refine ⟨by simpa using h1, h2, ?_⟩
      rw [h3]

/-- **History.**  For every history — loads from strings and files, successful or failing at any
phase, interleaved over any metamodels, with metamodels created in between — started in a state at
rest, the outcome of every operation is the one `specRun` computes without any hidden state, and
the final state is at rest. -/
theorem C16_history (W : World) (sem : Sem) : ∀ (ops : List Op) (H : Hidden), Rest H →
    (run real W sem ops H).1 = specRun W sem ops (exists_ H) ∧ Rest (run real W sem ops H).2 := by
  intro ops
  induction ops with
  | nil => intro H hr; exact ⟨rfl, hr⟩
  | cons op ops ih =>
    intro H hr
    cases op with
    | new k =>
      obtain ⟨h1, h2⟩ := ih (create W k H) (rest_create W k H hr)
      simp only [run, step, specRun]
      rw [exists_create] at h1
      exact ⟨by rw [h1], h2⟩
    | load k files =>
      obtain ⟨l1, l2, l3⟩ := load_spec W sem k files H hr
      obtain ⟨h1, h2⟩ := ih (load real W sem k files H).2 l2
      simp only [run, step, specRun]
      rw [l3] at h1
      exact ⟨by rw [h1, l1], h2⟩

/-- every state reachable from a fresh process (`import textx`) is at rest -/
theorem C16_reachable_rest (W : World) (sem : Sem) (ops : List Op) : Rest (run real W sem ops empty).2 :=
  (C16_history W sem ops empty rest_empty).2

/-- **Non-interference.**  Two states at rest in which metamodel `k` exists (or does not) give the
same outcome for the same load: every component of the surviving state is reset before it is read,
or what is read from it is the same in every reachable state. -/
theorem C16_noninterference (W : World) (sem : Sem) (k : Nat) (files : List Inp) (H₁ H₂ : Hidden)
    (h₁ : Rest H₁) (h₂ : Rest H₂) (hk : exists_ H₁ k = exists_ H₂ k) :
    (load real W sem k files H₁).1 = (load real W sem k files H₂).1 := by
  rw [(load_spec W sem k files H₁ h₁).1, (load_spec W sem k files H₂ h₂).1]
  unfold specOut
  rw [hk]

/-- **The statement, literally.**  After any history from a fresh process, a load with an existing
metamodel returns what the same metamodel configuration returns in a fresh process that created
only this metamodel. -/
theorem C16_same_as_fresh (W : World) (sem : Sem) (ops : List Op) (k : Nat) (m : MM) (files : List Inp)
    (hm : W.mms[k]? = some m) (hk : exists_ (run real W sem ops empty).2 k = true) :
    (load real W sem k files (run real W sem ops empty).2).1 = (load real W sem k files (create W k empty)).1 := by
  apply C16_noninterference W sem k files _ _ (C16_reachable_rest W sem ops) (rest_create W k empty rest_empty)
  rw [hk]
  exact (create_blue W k empty m hm).symm

/-- **History over a pool created up front** (the reading of DESIGN.md).  In a history that
consists of loads only, started in any state at rest `H0` (e.g. "pool created, nothing loaded"),
every load returns exactly what the same load returns when it is run alone on `H0`. -/
theorem C16_history_pool (W : World) (sem : Sem) (H0 : Hidden) (hr : Rest H0) :
    ∀ ops : List Op, (∀ op ∈ ops, ∃ k fs, op = .load k fs) →
      (run real W sem ops H0).1 = ops.map (fun op => (step real W sem op H0).1) := by
  intro ops hall
  rw [(C16_history W sem ops H0 hr).1]
  induction ops with
  | nil => rfl
  | cons op ops ih =>
    obtain ⟨k, fs, rfl⟩ := hall op (by simp)
    rw [show specRun W sem (Op.load k fs :: ops) (exists_ H0)
          = some (specOut W sem (exists_ H0) k fs) :: specRun W sem ops (exists_ H0) from rfl,
        List.map_cons, ih (fun o ho => hall o (by simp [ho])),
        show (step real W sem (Op.load k fs) H0).1 = some (load real W sem k fs H0).1 from rfl,
        (load_spec W sem k fs H0 hr).1]

/-- **Memo caches and non-memoizing parsers.**  A parser without memoization returns the memo caches
of all rule objects — also of the base-type rules it shares with memoizing metamodels — exactly as it
found them, for every parser model, input and amount of fuel. -/
theorem C16_memo_frame (g : Grammar) (hm : g.memo = false) (n id : Nat) (s : PState) :
    (parse g n id s).2.cache = s.cache :=
  parse_keeps g hm n id s

/-! ## the resets are needed: two variants of the machine for which the property is false -/

/-- `Model: 'a';` — node 0 = `Sequence('a', EOF)`, 1 = `StrMatch('a')`, 2 = `EOF` -/
def wNodes : Array Node := #[
  { kind := .seq, kids := [1, 2], root := true, rule := "Model" },
  { kind := .str, tok := 1 },
  { kind := .eof }]

def wWorld (memo : Bool) : World :=
  { nodes := wNodes, mms := [{ top := 0, comments := none, memo := memo, skipws := true, ws := [' '] }] }

/-- the texts `a` and `b` -/
def inA : Inp := { input := #['a'], toks := #[#[], #[some 1, none], #[]], fuel := 6 }
def inB : Inp := { input := #['b'], toks := #[#[], #[none, none], #[]], fuel := 6 }

/-- a semantics whose dump shows what the build found in `_instances` -/
def wSem : Sem :=
  { file := fun _ _ => { ok := true, dump := 0, allocs := 1, stack := [], instances := [7], crossrefs := [] },
    final := fun _ rs _ => (.ok, (rs.map (fun r => r.instances0.length)).sum) }

/-- `Parser.parse` without the `finally: self._clear_caches()` -/
def noClear : Variant := { real with clear := false }

/-- `clone()` without `the_clone._instances = {}` -/
def shareInstances : Variant := { real with resets := [true, false, true, true, true, true] }

def phases (os : List (Option Out)) : List (Option Phase) := os.map (Option.map (·.phase))
def dumps (os : List (Option Out)) : List (Option Nat) := os.map (Option.map (·.dump))

/-- without clearing the caches, `b` is accepted after `a` has been loaded (the cached result of the
top rule at position 0 is reused), while a fresh process rejects it -/
theorem C16_noClear_false :
    phases (run noClear (wWorld true) wSem [.new 0, .load 0 [inA], .load 0 [inB]] empty).1
        = [none, some .ok, some .ok] ∧
    phases (run noClear (wWorld true) wSem [.new 0, .load 0 [inB]] empty).1 = [none, some (.parse 0)] := by
  decide +kernel

/-- with a clone that shares `_instances` with the blueprint, the second load finds the objects of
the first one -/
theorem C16_shareInstances_false :
    dumps (run shareInstances (wWorld false) wSem [.new 0, .load 0 [inA], .load 0 [inA]] empty).1
        = [none, some 0, some 1] := by
  decide +kernel

/-! ## non-vacuity: the real machine on the same world; failing and successful loads interleaved -/

example : phases (run real (wWorld true) wSem [.new 0, .load 0 [inA], .load 0 [inB], .load 0 [inA], .load 1 [inA]] empty).1
    = [none, some .ok, some (.parse 0), some .ok, some .skip] := by decide +kernel

example : dumps (run real (wWorld false) wSem [.new 0, .load 0 [inA], .load 0 [inA]] empty).1
    = [none, some 0, some 0] := by decide +kernel

example : ((run real (wWorld true) wSem [.new 0, .load 0 [inA, inA]] empty).1.map (Option.map (·.initCounts)))
    = [none, some [1, 0]] := by decide +kernel

/-! ## clearing by walking: `Parser._clear_caches` follows `nodes` from the parser model and the comments model -/

/-- the rule objects Arpeggio's `_clear_caches` can get to: reachable along `nodes` from the parser
model or from the comments model -/
def Walked (nodes : Array Node) (top : Nat) (comments : Option Nat) (i : Nat) : Prop :=
  Reach nodes top i ∨ ∃ c, comments = some c ∧ Reach nodes c i

/-- **The walk computes reachability**: the executable mirror of `_clear_cache` (explicit stack, fuel
`edges + 1` — never exhausted) visits exactly the nodes reachable along `nodes`. -/
theorem C16_walk_is_reach (nodes : Array Node) (top : Nat) (comments : Option Nat) (i : Nat) :
    i ∈ clearedBy nodes top comments ↔ Walked nodes top comments i :=
  mem_clearedBy_iff nodes top comments i

theorem walkOK_of_walked (g : Grammar) (top : Nat)
    (hsep : ∀ i, Walked g.nodes top g.comments i → sepTerm g.nodes i = true) :
    walkOK g.nodes top g.comments = true :=
  List.all_eq_true.mpr fun i hi => hsep i ((mem_clearedBy_iff g.nodes top g.comments i).mp hi)

/-- **Memo stores only hit walked rule objects** (assumption 2 of the notes, now a theorem).  For every
parser model, memoization flag, input, fuel and start state: if the separators of the repetitions
reachable from the parser model / comments model are `Match` objects (`Match.parse` never memoizes; the
walk does not follow `Repetition.sep`), every memo entry present after parsing `top` was present before
or belongs to a rule object reachable along `nodes` — one that `_clear_caches` empties. -/
theorem C16_stores_reachable (g : Grammar) (top n : Nat) (s : PState)
    (hsep : ∀ i, Walked g.nodes top g.comments i → sepTerm g.nodes i = true) :
    ∀ e ∈ (parse g n top s).2.cache, e ∈ s.cache ∨ Walked g.nodes top g.comments e.1.1 := by
  intro e he
  have hw := walkOK_of_walked g top hsep
  rcases parse_stores_in (closed_cleared g top hw) n top s (Or.inl (top_cleared g.nodes top g.comments)) e he
    with h | h
  · exact .inl h
  · exact .inr ((mem_clearedBy_iff g.nodes top g.comments e.1.1).mp ((clearedSet_iff _ _ _ _).mp h))

/-- the form suggested by the review: started on empty caches, every entry is at a walked node -/
theorem C16_stores_reachable_fresh (g : Grammar) (top n : Nat) (s : PState)
    (hsep : ∀ i, Walked g.nodes top g.comments i → sepTerm g.nodes i = true) :
    ∀ e ∈ (parse g n top { s with cache := [] }).2.cache, Walked g.nodes top g.comments e.1.1 := by
  intro e he
  rcases C16_stores_reachable g top n { s with cache := [] } hsep e he with h | h
  · simp at h
  · exact h

/-- hence Arpeggio's walk leaves nothing behind after a parse that started on empty caches … -/
theorem C16_walk_clears (g : Grammar) (top n : Nat) (s : PState)
    (hsep : ∀ i, Walked g.nodes top g.comments i → sepTerm g.nodes i = true) :
    walkClear g.nodes top g.comments (parse g n top { s with cache := [] }).2.cache = [] := by
  rw [walkClear_parse g top (walkOK_of_walked g top hsep)]
  rfl

/-- … and in general it leaves exactly what it would have left of the caches the parse started on
(entries of rule objects of *other* parsers are neither dropped nor added). -/
theorem C16_walk_frame (g : Grammar) (top n : Nat) (s : PState)
    (hsep : ∀ i, Walked g.nodes top g.comments i → sepTerm g.nodes i = true) :
    walkClear g.nodes top g.comments (parse g n top s).2.cache = walkClear g.nodes top g.comments s.cache :=
  walkClear_parse g top (walkOK_of_walked g top hsep) n s

/-- **Walking = dropping everything.**  The machine that clears the way Arpeggio does (`realWalk`) is the
machine `real` of the theorems above: same outcomes, same surviving states, for every history from every
state with empty caches — on every world whose walked repetitions have `Match` separators (`walkOK`,
evaluated by the driver on every dumped pool; textX's grammar language allows no other separators). -/
theorem C16_walk_run (W : World) (sem : Sem) (hW : W.walkOK = true) (ops : List Op) (H : Hidden)
    (hc : H.cache = []) : run realWalk W sem ops H = run real W sem ops H :=
  run_walk W sem hW ops H hc

/-- `C16_history` for the machine with Arpeggio's cache walk -/
theorem C16_history_walk (W : World) (sem : Sem) (hW : W.walkOK = true) (ops : List Op) (H : Hidden)
    (hr : Rest H) :
    (run realWalk W sem ops H).1 = specRun W sem ops (exists_ H) ∧ Rest (run realWalk W sem ops H).2 := by
  rw [run_walk W sem hW ops H hr.cache]
  exact C16_history W sem ops H hr

/-- `C16_same_as_fresh` (the statement, literally) for the machine with Arpeggio's cache walk -/
theorem C16_same_as_fresh_walk (W : World) (sem : Sem) (hW : W.walkOK = true) (ops : List Op) (k : Nat) (m : MM)
    (files : List Inp) (hm : W.mms[k]? = some m) (hk : exists_ (run realWalk W sem ops empty).2 k = true) :
    (load realWalk W sem k files (run realWalk W sem ops empty).2).1
      = (load realWalk W sem k files (create W k empty)).1 := by
  rw [run_walk W sem hW ops empty rfl] at hk ⊢
  rw [(load_walk W sem k files _ hW (C16_reachable_rest W sem ops).cache).1,
      (load_walk W sem k files _ hW (rest_create W k empty rest_empty).cache).1]
  exact C16_same_as_fresh W sem ops k m files hm hk

/-! ### the separator hypothesis is needed

`Model: 'a'+[SEP]` with `SEP` a *Sequence* `(',')` instead of a `Match`: node 0 = `Sequence(1, EOF)`,
1 = `OneOrMore('a', sep=3)`, 2 = `'a'`, 3 = `Sequence(',')`, 4 = `EOF`, 5 = `','`.  Node 3 is parsed (and
memoized) but hangs on `Repetition.sep`, which `_clear_cache` does not follow. -/
def sepNodes (sepKind : Kind) : Array Node := #[
  { kind := .seq, kids := [1, 4], root := true, rule := "Model" },
  { kind := .plus, kids := [2], sep := some 3 },
  { kind := .str, tok := 2 },
  { kind := sepKind, kids := if sepKind == .seq then [5] else [], tok := 5 },
  { kind := .eof },
  { kind := .str, tok := 5 }]

def sepWorld (sepKind : Kind) : World :=
  { nodes := sepNodes sepKind,
    mms := [{ top := 0, comments := none, memo := true, skipws := true, ws := [' '] }] }

/-- the texts `a,a` and `a;a` -/
def inAcA : Inp :=
  { input := #['a', ',', 'a'], fuel := 8,
    toks := #[#[], #[], #[some 1, none, some 1, none], #[], #[], #[none, some 1, none, none]] }
def inAsA : Inp :=
  { input := #['a', ';', 'a'], fuel := 8,
    toks := #[#[], #[], #[some 1, none, some 1, none], #[], #[], #[none, none, none, none]] }

/-- with a non-`Match` separator Arpeggio's walk misses the separator's cache: `a;a` is accepted after
`a,a` was loaded (the memoized separator match at position 1 is reused), a fresh process rejects it —
and the clear-everything machine `real` does not show this.  (Not reachable from a textX grammar.) -/
theorem C16_walk_sep_false :
    (sepWorld .seq).walkOK = false ∧
    phases (run realWalk (sepWorld .seq) wSem [.new 0, .load 0 [inAcA], .load 0 [inAsA]] empty).1
        = [none, some .ok, some .ok] ∧
    phases (run realWalk (sepWorld .seq) wSem [.new 0, .load 0 [inAsA]] empty).1 = [none, some (.parse 0)] ∧
    phases (run real (sepWorld .seq) wSem [.new 0, .load 0 [inAcA], .load 0 [inAsA]] empty).1
        = [none, some .ok, some (.parse 0)] := by
  decide +kernel

/-! non-vacuity of `walkOK`: worlds that satisfy it, with memo stores that the walk has to find -/

example : (wWorld true).walkOK = true := by decide +kernel

example : (sepWorld .str).walkOK = true ∧
    ((run realWalk (sepWorld .str) wSem [.new 0, .load 0 [inAcA], .load 0 [inAsA]] empty).1.map
        (Option.map fun o => (o.phase, o.stores))) = [none, some (.ok, [2]), some (.parse 0, [2])] ∧
    (run realWalk (sepWorld .str) wSem [.new 0, .load 0 [inAcA], .load 0 [inAsA]] empty).2.cache = [] := by
  decide +kernel

/-- the walk visits the nodes reachable along `nodes` only: 0, 1, 2, 4 — not the separator 3 and its child 5 -/
example : clearedBy (sepNodes .seq) 0 none = [4, 2, 1, 0] := by decide +kernel

/-- non-vacuity of the hypothesis of `C16_stores_reachable` -/
example : ∀ i, Walked (sepNodes .str) 0 none i → sepTerm (sepNodes .str) i = true := by
  intro i hi
  have h := (C16_walk_is_reach (sepNodes .str) 0 none i).mpr hi
  have hall : (clearedBy (sepNodes .str) 0 none).all (sepTerm (sepNodes .str)) = true := by decide +kernel
  exact List.all_eq_true.mp hall i h

/-! ## what a load reads of the metamodel-creation history -/

/-- **Frame of the creation state.**  For every variant of the machine, every state (at rest or not) and
every load: replacing the grammar-parser cache `textX_parsers` by anything and the owner of the shared
base-type rules by any other owner changes neither the outcome nor the rest of the surviving state — the
load commutes with the replacement.  (Of `baseOwner` only "is there an owner" is read:
`process_node` looks at the rule *type* of the owner's class, which is the same for every owner.) -/
theorem C16_creation_frame (v : Variant) (W : World) (sem : Sem) (k : Nat) (files : List Inp) (H : Hidden)
    (gp : List (Bool × Bool)) (bo : Option Nat) (h : bo.isSome = H.baseOwner.isSome) :
    load v W sem k files { H with gp := gp, baseOwner := bo } =
      ((load v W sem k files H).1, { (load v W sem k files H).2 with gp := gp, baseOwner := bo }) :=
  load_sw v W sem k files H gp bo h

/-- a semantics that shows what it read of the base-type back-pointer -/
def ownerSem : Sem :=
  { file := fun _ _ => { ok := true, dump := 0, allocs := 0, stack := [], instances := [], crossrefs := [] },
    final := fun _ rs _ => (.ok, (rs.map (fun r => if r.baseIsMatch then 1 else 0)).sum) }

/-- non-vacuity of `C16_creation_frame`: another owner and another parser cache, same outcome; and the
hypothesis is needed — without any owner the read differs -/
example :
    let H := create (wWorld false) 0 empty
    (load real (wWorld false) ownerSem 0 [inA] { H with gp := [(true, true)], baseOwner := some 7 }).1.dump = 1 ∧
    (load real (wWorld false) ownerSem 0 [inA] H).1.dump = 1 ∧
    (load real (wWorld false) ownerSem 0 [inA] { H with baseOwner := none }).1.dump = 0 := by
  decide +kernel

/-! ## which files a load reads: imports through a search path (round V)

`Load/SearchPath.lean`: the work-list mirror of `ImportURI._load_referenced_models` /
`load_model_using_search_path`.  The provider's `search_path` list is the only thing that survives a load
there; the code builds a new list per import (`[dirname(...)] + self.search_path`). -/

theorem searchDirs_real (d : Nat) (sp : SPath) : (searchDirs false d sp).2 = sp := by
  cases sp <;> simp [searchDirs]

theorem dfs_real_sp (fs : FSys) : ∀ (fuel : Nat) (todo : List (Nat × String)) (acc : List Nat) (sp : SPath),
    (dfs false fs fuel todo acc sp).2.2 = sp := by
  intro fuel
  induction fuel with
  | zero => intro todo acc sp; simp [dfs]
  | succ n ih =>
    intro todo acc sp
    cases todo with
    | nil => simp [dfs]
    | cons h t =>
      obtain ⟨d, nm⟩ := h
      have hs := searchDirs_real d sp
      simp only [dfs]
      generalize searchDirs false d sp = r at hs
      obtain ⟨path, sp'⟩ := r
      simp only at hs
      subst hs
      simp only
      split
      · rfl
      · split
        · exact ih _ _ _
        · split
          · rfl
          · exact ih _ _ _

/-- **A load leaves the provider as it found it**: whatever the file system, the main file and the
configured search path (or none). -/
theorem C16_imports_provider_unchanged (fs : FSys) (main : Nat) (sp : SPath) :
    (loadOrder false fs main sp).2.2 = sp := by
  unfold loadOrder
  split
  · rfl
  · exact dfs_real_sp fs _ _ _ _

/-- **The files a load reads do not depend on the loads before it**: in every history of file loads
through one provider — models from any directories, imports found next to the importing file, through the
search path, or not at all — each load parses exactly the files, in the order, that it parses as the first
load of a freshly created provider; the provider's list is the configured one at the end. -/
theorem C16_imports_history (fs : FSys) (ms : List Nat) (sp : SPath) :
    runOrders false fs ms sp =
      (ms.map fun m => ((loadOrder false fs m sp).1, (loadOrder false fs m sp).2.1), sp) := by
  induction ms with
  | nil => rfl
  | cons m ms ih =>
    have h := C16_imports_provider_unchanged fs m sp
    simp only [runOrders, List.map_cons]
    generalize loadOrder false fs m sp = r at h
    obtain ⟨o, ok, sp'⟩ := r
    simp only at h
    subst h
    simp [ih]

/-- file system of the witnesses: directory 0 = the search-path directory (`units`), directory 1 = plant a
(`main` imports `units`; own `units`, `extra`), directory 2 = plant b (`main` imports `units`),
directory 3 = plant c (`main` imports `extra`, which exists only in plant a) -/
def fsW : FSys := #[
  { dir := 0, name := "units", imps := [] },
  { dir := 1, name := "units", imps := [] }, { dir := 1, name := "extra", imps := [] },
  { dir := 1, name := "main", imps := ["units"] },
  { dir := 2, name := "main", imps := ["units"] },
  { dir := 3, name := "main", imps := ["extra"] }]

/-- non-vacuity: local file first, then the search path; a missing import ends the load -/
example : runOrders false fsW [3, 4, 5] (some [0]) = ([([3, 1], true), ([4, 0], true), ([5], false)], some [0]) := by
  decide

/-- **The per-import copy of the list is needed**: when the importer's directory is pushed onto the
provider's own list (the aliasing variant), plant b's `units` resolves to plant a's file after plant a was
loaded, and plant c's missing import is found — neither happens on a fresh provider. -/
theorem C16_imports_alias_false :
    (runOrders true fsW [3, 4, 5] (some [0])).1 = [([3, 1], true), ([4, 1], true), ([5, 2], true)] ∧
    (loadOrder true fsW 4 (some [0])).1 = [4, 0] ∧ (loadOrder true fsW 5 (some [0])).2.1 = false := by
  decide

end History
