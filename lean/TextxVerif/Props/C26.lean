import TextxVerif.Proofs.RegFile
/-!
# C26 — the language and generator registries behave as case-insensitive maps

Model: `Reg.step` / `Reg.run` (TextxVerif/Reg.lean) mirror
`textx/registration.py:114-396` call by call: the lazily loaded registries
(`languages`, `generators` are `None` until first touched), `lower()` keys,
duplicate refusal, clearing, the `metamodels` cache with its keyword-argument
rule, `languages_for_file` / `language_for_file`.

The environment `E : Env` supplies `str.lower`, `fnmatch.fnmatch` and the entry
points.  All theorems hold for every environment with `E.Ok`: `lower` is
idempotent and the installed entry points do not clash among themselves.  No
theorem bounds the length of the history, the number of names, or anything else.

* `after E ops`      — the machine state after the history `ops` from module import;
* `answer E ops op`  — what the call `op` answers then;
* `live E ops`       — the registered languages as a function of the history alone:
  the entry points plus, since the last clear, each registration whose
  case-folded name was free (`gLive` for generators);
* `Spec`             — the abstract registry: maps over the case-folded name.

* `UniqueMatch E l f d` — `d` is the one language of `l` whose pattern accepts `f`;
* `sparesAll E k l ops'` — no call of `ops'` (made when the live languages are `l`) can
  replace the cache entry under the folded name `k` (computed from the history alone).

Only property theorems and non-vacuity examples live here; lemmas are in
`Proofs/Reg.lean` and `Proofs/RegFile.lean`.
-/
namespace Reg

/-- **Refinement.** Every history of API calls, run on the machine from the
import-time state, is a history of the abstract specification `Spec` (maps over
the case-folded name that always contain the entry points, a cache map, no lazy
loading, no dictionary order) with the same answers, and ends in the
abstraction of the machine state. -/
theorem C26_refines (E : Env) (hE : E.Ok) (ops : List Op) :
    Spec.Run E (Spec.init E) ops (run E St.init ops).2 ((after E ops).abs E) :=
  (after_sim E hE ops).1

/-- **Lookup is a case-insensitive map over the history.** After any history,
`language_description(n)` returns the descriptor `d` exactly when `d` is live
(an entry point, or registered since the last clear under a then-free name) and
`n` equals `d.name` up to case; it raises exactly when no live language has
that name up to case. -/
theorem C26_lookup_iff (E : Env) (hE : E.Ok) (ops : List Op) (n : String) :
    (∀ d, answer E ops (.lang n) = .desc d ↔ (d ∈ live E ops ∧ E.lower d.name = E.lower n)) ∧
    (answer E ops (.lang n) = .regError ↔ ∀ d, d ∈ live E ops → E.lower d.name ≠ E.lower n) := by
  obtain ⟨_, hw⟩ := after_sim E hE ops
  have hl := after_live E hE ops
  obtain ⟨⟨_, hr⟩, _⟩ := step_sim E hE (after E ops) hw (.lang n)
  unfold answer
  rw [hr]
  cases hk : ((after E ops).abs E).L (E.lower n) with
  | some x =>
    obtain ⟨h1, h2⟩ := (hl _ x).1 hk
    simp only [Res.desc.injEq, reduceCtorEq, false_iff]
    refine ⟨fun d => ⟨fun e => e ▸ ⟨h1, h2.symm⟩, fun ⟨hd, he⟩ => ?_⟩, fun hall => hall x h1 h2.symm⟩
    have := (hl (E.lower n) d).2 ⟨hd, he.symm⟩
    rw [hk] at this
    exact Option.some.inj this
  | none =>
    simp only [reduceCtorEq, false_iff, not_and, true_iff]
    refine ⟨fun d hd he => ?_, fun d hd he => ?_⟩ <;>
    · have := (hl (E.lower n) d).2 ⟨hd, he.symm⟩
      rw [hk] at this; cases this

/-- **Duplicates are refused, whatever the case.** After any history,
`register_language(d)` raises exactly when a live language has the same name up
to case — then the registry content is unchanged — and otherwise succeeds, after
which `d` is live. -/
theorem C26_dup_refused (E : Env) (hE : E.Ok) (ops : List Op) (d : LangDesc) :
    (answer E ops (.regLang d) = .regError ↔ ∃ d', d' ∈ live E ops ∧ E.lower d'.name = E.lower d.name) ∧
    (answer E ops (.regLang d) = .unit ↔ ¬ ∃ d', d' ∈ live E ops ∧ E.lower d'.name = E.lower d.name) ∧
    (answer E ops (.regLang d) = .regError →
      (step E (after E ops) (.regLang d)).1.abs E = (after E ops).abs E) ∧
    (answer E ops (.regLang d) = .unit → d ∈ live E (ops ++ [.regLang d])) := by
  obtain ⟨_, hw⟩ := after_sim E hE ops
  have hl := after_live E hE ops
  obtain ⟨hs, _⟩ := step_sim E hE (after E ops) hw (.regLang d)
  have hany := LiveRel_any E _ _ hl (E.lower d.name)
  have hex : (∃ d', d' ∈ live E ops ∧ E.lower d'.name = E.lower d.name) ↔
      (((after E ops).abs E).L (E.lower d.name)).isSome = true := by
    rw [← hany]; simp
  have hlive : live E (ops ++ [.regLang d]) = liveStep E (live E ops) (.regLang d) := by
    simp [live, List.foldl_append]
  unfold answer
  rcases hs with ⟨h1, h2, h3⟩ | ⟨h1, h2, h3⟩
  · rw [h2]
    refine ⟨⟨fun _ => hex.2 h1, fun _ => rfl⟩, ⟨(fun e => by cases e), fun hn => absurd (hex.2 h1) hn⟩,
      fun _ => h3, (fun e => by cases e)⟩
  · rw [h2]
    have hno : ¬ ∃ d', d' ∈ live E ops ∧ E.lower d'.name = E.lower d.name := by
      rw [hex, h1]; simp
    refine ⟨⟨(fun e => by cases e), fun h => absurd h hno⟩, ⟨fun _ => hno, fun _ => rfl⟩,
      (fun e => by cases e), fun _ => ?_⟩
    rw [hlive]
    simp only [liveStep, hany, h1, Option.isSome_none, Bool.false_eq_true, if_false]
    simp

/-- **A registration is found under every spelling until the next clear.** If
`register_language(d)` succeeded, then after any further calls that do not clear
the language registry, looking `d` up under any case variant `n` of its name
returns `d`, and registering any `d'` whose name is a case variant is refused. -/
theorem C26_lookup_any_case (E : Env) (hE : E.Ok) (ops ops' : List Op) (d : LangDesc)
    (hok : answer E ops (.regLang d) = .unit) (hnc : Op.clearLangs ∉ ops') :
    (∀ n, E.lower n = E.lower d.name → answer E (ops ++ .regLang d :: ops') (.lang n) = .desc d) ∧
    (∀ d', E.lower d'.name = E.lower d.name →
      answer E (ops ++ .regLang d :: ops') (.regLang d') = .regError) := by
  obtain ⟨_, hw⟩ := after_sim E hE ops
  obtain ⟨hs, hw1⟩ := step_sim E hE (after E ops) hw (.regLang d)
  have h1 : ((step E (after E ops) (.regLang d)).1.abs E).L (E.lower d.name) = some d := by
    rcases hs with ⟨_, h2, _⟩ | ⟨_, _, h3⟩
    · unfold answer at hok; rw [hok] at h2; cases h2
    · rw [h3]; simp [fupd]
  obtain ⟨hr, hw2⟩ := run_sim E hE ops' _ hw1
  have h2 := Spec.Run_L_keep E ops' _ _ _ hr hnc _ _ h1
  rw [← after_snoc_cons] at h2 hw2
  refine ⟨fun n hn => ?_, fun d' hd' => ?_⟩
  · obtain ⟨⟨_, hres⟩, _⟩ := step_sim E hE _ hw2 (.lang n)
    unfold answer
    rw [hres, hn, h2]
  · obtain ⟨hres, _⟩ := step_sim E hE _ hw2 (.regLang d')
    unfold answer
    rcases hres with ⟨_, h, _⟩ | ⟨h, _, _⟩
    · exact h
    · rw [hd', h2] at h; cases h

/-- **Generators: lookup is a case-insensitive map over the history**, with the
documented `any` fall-back.  Without `any_permitted` the generator `g` is
returned exactly when it is live and both names agree up to case; with it, the
generator registered for language `any` and the target is returned when (and
only when) no live generator matches the language itself. -/
theorem C26_gen_lookup_iff (E : Env) (hE : E.Ok) (ops : List Op) (l t : String) (g : GenDesc) :
    (answer E ops (.gen l t false) = .gen g ↔
      (g ∈ gLive E ops ∧ E.lower g.language = E.lower l ∧ E.lower g.target = E.lower t)) ∧
    (answer E ops (.gen l t true) = .gen g ↔
      ((g ∈ gLive E ops ∧ E.lower g.language = E.lower l ∧ E.lower g.target = E.lower t) ∨
       ((∀ g', g' ∈ gLive E ops → ¬ (E.lower g'.language = E.lower l ∧ E.lower g'.target = E.lower t)) ∧
         g ∈ gLive E ops ∧ E.lower g.language = "any" ∧ E.lower g.target = E.lower t))) := by
  obtain ⟨_, hw⟩ := after_sim E hE ops
  have hl := after_glive E hE ops
  have key : ∀ x y g', ((after E ops).abs E).G x y = some g' ↔
      (g' ∈ gLive E ops ∧ E.lower g'.language = x ∧ E.lower g'.target = y) := by
    intro x y g'
    rw [hl x y g']
    constructor
    · rintro ⟨a, b, c⟩; exact ⟨a, b.symm, c.symm⟩
    · rintro ⟨a, b, c⟩; exact ⟨a, b.symm, c.symm⟩
  have none_iff : ∀ x y, ((after E ops).abs E).G x y = none ↔
      ∀ g', g' ∈ gLive E ops → ¬ (E.lower g'.language = x ∧ E.lower g'.target = y) := by
    intro x y
    constructor
    · intro h g' hg' hxy
      have := (key x y g').2 ⟨hg', hxy⟩
      rw [h] at this; cases this
    · intro h
      cases hk : ((after E ops).abs E).G x y with
      | none => rfl
      | some g' => exact absurd ((key x y g').1 hk).2 (h g' ((key x y g').1 hk).1)
  constructor
  · obtain ⟨⟨_, hr⟩, _⟩ := step_sim E hE (after E ops) hw (.gen l t false)
    unfold answer
    rw [hr, ← key]
    simp only [Spec.generator]
    cases ((after E ops).abs E).G (E.lower l) (E.lower t) with
    | some x => simp
    | none => simp
  · obtain ⟨⟨_, hr⟩, _⟩ := step_sim E hE (after E ops) hw (.gen l t true)
    unfold answer
    rw [hr, ← key, ← none_iff, ← key]
    simp only [Spec.generator]
    cases ((after E ops).abs E).G (E.lower l) (E.lower t) with
    | some x => simp
    | none =>
      simp only [if_true]
      cases ((after E ops).abs E).G "any" (E.lower t) with
      | some y => simp
      | none => simp

/-- **Generators: duplicates are refused, whatever the case**, and a refused
registration leaves the registry content unchanged. -/
theorem C26_gen_dup_refused (E : Env) (hE : E.Ok) (ops : List Op) (g : GenDesc) :
    (answer E ops (.regGen g) = .regError ↔
      ∃ g', g' ∈ gLive E ops ∧ E.lower g'.language = E.lower g.language ∧ E.lower g'.target = E.lower g.target) ∧
    (answer E ops (.regGen g) = .unit ↔
      ¬ ∃ g', g' ∈ gLive E ops ∧ E.lower g'.language = E.lower g.language ∧ E.lower g'.target = E.lower g.target) ∧
    (answer E ops (.regGen g) = .regError →
      (step E (after E ops) (.regGen g)).1.abs E = (after E ops).abs E) ∧
    (answer E ops (.regGen g) = .unit → g ∈ gLive E (ops ++ [.regGen g])) := by
  obtain ⟨_, hw⟩ := after_sim E hE ops
  have hl := after_glive E hE ops
  obtain ⟨hs, _⟩ := step_sim E hE (after E ops) hw (.regGen g)
  have hany := GLiveRel_any E _ _ hl (E.lower g.language) (E.lower g.target)
  have hex : (∃ g', g' ∈ gLive E ops ∧ E.lower g'.language = E.lower g.language ∧
        E.lower g'.target = E.lower g.target) ↔
      (((after E ops).abs E).G (E.lower g.language) (E.lower g.target)).isSome = true := by
    rw [← hany]; simp
  have hlive : gLive E (ops ++ [.regGen g]) = gLiveStep E (gLive E ops) (.regGen g) := by
    simp [gLive, List.foldl_append]
  unfold answer
  rcases hs with ⟨h1, h2, h3⟩ | ⟨h1, h2, h3⟩
  · rw [h2]
    refine ⟨⟨fun _ => hex.2 h1, fun _ => rfl⟩, ⟨(fun e => by cases e), fun hn => absurd (hex.2 h1) hn⟩,
      fun _ => h3, (fun e => by cases e)⟩
  · rw [h2]
    have hno : ¬ ∃ g', g' ∈ gLive E ops ∧ E.lower g'.language = E.lower g.language ∧
        E.lower g'.target = E.lower g.target := by
      rw [hex, h1]; simp
    refine ⟨⟨(fun e => by cases e), fun h => absurd h hno⟩, ⟨fun _ => hno, fun _ => rfl⟩,
      (fun e => by cases e), fun _ => ?_⟩
    rw [hlive]
    simp only [gLiveStep, hany, h1, Option.isSome_none, Bool.false_eq_true, if_false]
    simp

/-- **Entry-point registrations survive clearing.** After *any* history — in
particular one that ends with, or is full of, `clear_language_registrations()` —
every entry-point language is found under every case variant of its name. -/
theorem C26_entrypoints_survive_clear (E : Env) (hE : E.Ok) (ops : List Op) (ep : LangDesc)
    (hep : ep ∈ E.eps) (n : String) (hn : E.lower n = E.lower ep.name) :
    answer E ops (.lang n) = .desc ep :=
  ((C26_lookup_iff E hE ops n).1 ep).2 ⟨eps_sub_live E ops ep hep, hn.symm⟩

/-- …and so does every entry-point generator (with or without `any_permitted`). -/
theorem C26_gen_entrypoints_survive_clear (E : Env) (hE : E.Ok) (ops : List Op) (g : GenDesc)
    (hg : g ∈ E.geps) (l t : String) (hl : E.lower l = E.lower g.language)
    (ht : E.lower t = E.lower g.target) (any : Bool) :
    answer E ops (.gen l t any) = .gen g := by
  have h := geps_sub_gLive E ops g hg
  cases any with
  | false => exact ((C26_gen_lookup_iff E hE ops l t g).1).2 ⟨h, hl.symm, ht.symm⟩
  | true => exact ((C26_gen_lookup_iff E hE ops l t g).2).2 (Or.inl ⟨h, hl.symm, ht.symm⟩)

/-- **`languages_for_file` is exact.** After any history it returns, each
once, exactly the live languages whose pattern matches the file name (a language
without pattern matches nothing). -/
theorem C26_for_file_exact (E : Env) (hE : E.Ok) (ops : List Op) (f : String) :
    ∃ ds, answer E ops (.langsForFile f) = .descs ds ∧ ds.Nodup ∧
      ∀ d, d ∈ ds ↔ (d ∈ live E ops ∧ patMatches E f d = true) := by
  obtain ⟨_, hw⟩ := after_sim E hE ops
  have hl := after_live E hE ops
  obtain ⟨⟨_, ds, hr, hnd, hmem⟩, _⟩ := step_sim E hE (after E ops) hw (.langsForFile f)
  refine ⟨ds, hr, hnd, fun d => ?_⟩
  rw [hmem d, registered_live E _ _ hl]

/-- **`language_for_file` succeeds iff exactly one language matches.** It
returns `d` exactly when `d` is live, matches, and is the only live language
that matches; in every other case (none or several) it raises
`TextXRegistrationError`. -/
theorem C26_language_for_file_unique (E : Env) (hE : E.Ok) (ops : List Op) (f : String) :
    (∀ d, answer E ops (.langForFile f) = .desc d ↔
      (d ∈ live E ops ∧ patMatches E f d = true ∧
        ∀ d', d' ∈ live E ops → patMatches E f d' = true → d' = d)) ∧
    (answer E ops (.langForFile f) = .regError ↔
      ¬ ∃ d, d ∈ live E ops ∧ patMatches E f d = true ∧
        ∀ d', d' ∈ live E ops → patMatches E f d' = true → d' = d) := by
  obtain ⟨_, hw⟩ := after_sim E hE ops
  have hl := after_live E hE ops
  have hen : ∀ d, Spec.Enumerates E ((after E ops).abs E) f [d] ↔
      (d ∈ live E ops ∧ patMatches E f d = true ∧
        ∀ d', d' ∈ live E ops → patMatches E f d' = true → d' = d) := by
    intro d
    constructor
    · rintro ⟨_, hmem⟩
      have hd := (hmem d).1 (by simp)
      rw [registered_live E _ _ hl] at hd
      refine ⟨hd.1, hd.2, fun d' h1 h2 => ?_⟩
      have := (hmem d').2 ⟨(registered_live E _ _ hl d').2 h1, h2⟩
      simpa using this
    · rintro ⟨h1, h2, h3⟩
      refine ⟨by simp, fun d' => ?_⟩
      rw [registered_live E _ _ hl]
      constructor
      · intro h; simp only [List.mem_singleton] at h; subst h; exact ⟨h1, h2⟩
      · rintro ⟨a, b⟩; simp only [List.mem_singleton]; exact h3 d' a b
  obtain ⟨⟨_, hs⟩, _⟩ := step_sim E hE (after E ops) hw (.langForFile f)
  unfold answer
  rcases hs with ⟨d0, hd0, hr⟩ | ⟨hno, hr⟩
  · rw [hr]
    refine ⟨fun d => ?_, ?_⟩
    · simp only [Res.desc.injEq]
      constructor
      · intro e; subst e; exact (hen d0).1 hd0
      · intro h
        have := ((hen d).1 ((hen d).2 h)).2.2 d0 ((hen d0).1 hd0).1 ((hen d0).1 hd0).2.1
        exact this
    · simp only [reduceCtorEq, false_iff]
      exact fun hn => hn ⟨d0, (hen d0).1 hd0⟩
  · rw [hr]
    refine ⟨fun d => ?_, ?_⟩
    · simp only [reduceCtorEq, false_iff]
      intro h
      exact hno ⟨d, (hen d).2 h⟩
    · simp only [true_iff]
      rintro ⟨d, h⟩
      exact hno ⟨d, (hen d).2 h⟩

/-- **The cached instance is returned until something replaces it.** If
`metamodel_for_language(n, **kw)` returned the meta-model `m`, then after any
further calls `ops'` that spare the entry — no clear of the language registry,
no `metamodel_for_language` with keyword arguments *for that name* (up to case),
no `metamodel_for_file` with keyword arguments that resolves to the one language
*of that name*; keyword-argument requests for other languages, registrations,
lookups, generator calls are all allowed — `metamodel_for_language(n')` without
arguments, for any case variant `n'`, returns the same object `m` and changes
nothing at all.  The condition `sparesAll` is computed from the history
(`live`, `liveStep`) alone. -/
theorem C26_cache_hit_until (E : Env) (hE : E.Ok) (ops ops' : List Op) (n n' : String) (kw : Nat) (m : MM)
    (hcase : E.lower n' = E.lower n) (hq : sparesAll E (E.lower n) (live E ops) ops' = true)
    (h : answer E ops (.mmLang n kw) = .mm m) :
    step E (after E (ops ++ .mmLang n kw :: ops')) (.mmLang n' 0)
      = (after E (ops ++ .mmLang n kw :: ops'), .mm m) := by
  obtain ⟨_, hw⟩ := after_sim E hE ops
  obtain ⟨⟨ha, hr⟩, _⟩ := step_sim E hE (after E ops) hw (.mmLang n kw)
  have hok : (Spec.metamodel E ((after E ops).abs E) n kw).2 = .ok m := by
    unfold answer at h
    rw [hr] at h
    cases ho : (Spec.metamodel E ((after E ops).abs E) n kw).2 with
    | ok m' => rw [ho] at h; simp only [Out.res, Res.mm.injEq] at h; rw [h]
    | raise r =>
      rw [ho] at h
      simp only [Out.res] at h
      have := Spec.metamodel_raise E _ n kw r ho
      rw [h] at this; simp [Res.mmObjs] at this
  have h1 := Spec.metamodel_ok_cached E _ n kw m hok
  rw [← ha] at h1
  exact cache_hit_core E hE ops ops' (.mmLang n kw) (E.lower n) m rfl h1 hq n' hcase

/-- **The cached instance is returned when called without arguments** (the coarser
form of `C26_cache_hit_until`, kept as its corollary). If
`metamodel_for_language(n, **kw)` returned the meta-model `m`, then after any
further calls that neither clear the language registry nor ask for a meta-model
with keyword arguments, `metamodel_for_language(n')` without arguments — for any
case variant `n'` — returns the same object `m` and changes nothing at all. -/
theorem C26_cache_hit (E : Env) (hE : E.Ok) (ops ops' : List Op) (n n' : String) (kw : Nat) (m : MM)
    (hcase : E.lower n' = E.lower n) (hq : ∀ op, op ∈ ops' → op.keepsCache = true)
    (h : answer E ops (.mmLang n kw) = .mm m) :
    step E (after E (ops ++ .mmLang n kw :: ops')) (.mmLang n' 0)
      = (after E (ops ++ .mmLang n kw :: ops'), .mm m) :=
  C26_cache_hit_until E hE ops ops' n n' kw m hcase (sparesAll_of_keepsCache E _ ops' _ hq) h

/-- **With arguments, a factory-registered language gets a fresh, then-cached
instance.** If `d` is live with a factory as meta-model and `n` is any case
variant of its name, `metamodel_for_language(n, **kw)` with non-empty `kw`
returns an object made by `d`'s factory from exactly `kw`, different from every
meta-model object handed out earlier in the history; by `C26_cache_hit` it is
what later argument-less calls return. -/
theorem C26_cache_fresh (E : Env) (hE : E.Ok) (ops : List Op) (n : String) (kw : Nat) (d : LangDesc)
    (hkw : kw ≠ 0) (hd : d ∈ live E ops) (hn : E.lower n = E.lower d.name) (hf : d.mm = .factory) :
    ∃ i, answer E ops (.mmLang n kw) = .mm (.made i d.uid kw) ∧
      ∀ r, r ∈ (run E St.init ops).2 → ∀ i' b w, MM.made i' b w ∈ r.mmObjs → i' ≠ i := by
  obtain ⟨_, hw⟩ := after_sim E hE ops
  have hl := after_live E hE ops
  obtain ⟨⟨_, hr⟩, _⟩ := step_sim E hE (after E ops) hw (.mmLang n kw)
  have hL : ((after E ops).abs E).L (E.lower n) = some d := (hl _ d).2 ⟨hd, hn⟩
  refine ⟨(after E ops).serial, ?_, ?_⟩
  · unfold answer
    rw [hr, Spec.metamodel_slow E _ n kw (fun _ _ e => hkw e)]
    simp only [hL, hf, Out.res]
    rfl
  · intro r hr' i' b w hm
    have := (after_bound E hE ops).2 r hr' i' b w hm
    omega

/-- For a language registered with a meta-model *instance* the instance itself
is returned, whatever the arguments. -/
theorem C26_cache_instance (E : Env) (hE : E.Ok) (ops : List Op) (n : String) (kw : Nat) (d : LangDesc)
    (u : Nat) (hkw : kw ≠ 0) (hd : d ∈ live E ops) (hn : E.lower n = E.lower d.name) (hf : d.mm = .inst u) :
    answer E ops (.mmLang n kw) = .mm (.given u) := by
  obtain ⟨_, hw⟩ := after_sim E hE ops
  have hl := after_live E hE ops
  obtain ⟨⟨_, hr⟩, _⟩ := step_sim E hE (after E ops) hw (.mmLang n kw)
  have hL : ((after E ops).abs E).L (E.lower n) = some d := (hl _ d).2 ⟨hd, hn⟩
  unfold answer
  rw [hr, Spec.metamodel_slow E _ n kw (fun _ _ e => hkw e)]
  simp only [hL, hf, Out.res]

/-- **No stale cache.** Whatever the history (registrations, clears, cached
and argument-carrying requests in any order), a meta-model answered by
`metamodel_for_language(n, **kw)` belongs to the language that is registered
*now* under `n` up to case: it is that language's given instance or a product
of that language's factory — never an object cached for a language that has
since been cleared away or replaced. -/
theorem C26_cache_not_stale (E : Env) (hE : E.Ok) (ops : List Op) (n : String) (kw : Nat) (m : MM)
    (h : answer E ops (.mmLang n kw) = .mm m) :
    ∃ d, d ∈ live E ops ∧ E.lower d.name = E.lower n ∧ Owns d m := by
  obtain ⟨_, hw⟩ := after_sim E hE ops
  have hl := after_live E hE ops
  obtain ⟨⟨_, hr⟩, _⟩ := step_sim E hE (after E ops) hw (.mmLang n kw)
  unfold answer at h
  rw [hr] at h
  cases ho : (Spec.metamodel E ((after E ops).abs E) n kw).2 with
  | ok m' =>
    rw [ho] at h
    simp only [Out.res, Res.mm.injEq] at h
    subst h
    obtain ⟨d, h1, h2⟩ := (Spec.metamodel_coh E _ n kw (after_coh E hE ops)).2 m' ho
    obtain ⟨h3, h4⟩ := (hl _ d).1 h1
    exact ⟨d, h3, h4.symm, h2⟩
  | raise r =>
    rw [ho] at h
    simp only [Out.res] at h
    have := Spec.metamodel_raise E _ n kw r ho
    rw [h] at this; simp [Res.mmObjs] at this

/-- **`metamodel_for_file` is `metamodel_for_language` of the one matching language.**
After any history: (1) if `d` is the one live language whose pattern accepts `f`,
the call `metamodel_for_file(f, **kw)` *is* the call
`metamodel_for_language(d.name, **kw)` — same answer and same resulting state,
hence the same cache rule (cached instance without arguments, fresh then-cached
instance with arguments: `C26_cache_hit_until`, `C26_cache_fresh`,
`C26_cache_instance` apply verbatim); (2) if no live language, or more than one,
accepts `f`, it raises `TextXRegistrationError` and leaves the registry content
as it is; (3) whatever it answers belongs to that one matching language (no
stale object, no object of another language). -/
theorem C26_mm_for_file (E : Env) (hE : E.Ok) (ops : List Op) (f : String) (kw : Nat) :
    (∀ d, UniqueMatch E (live E ops) f d →
      step E (after E ops) (.mmForFile f kw) = step E (after E ops) (.mmLang d.name kw)) ∧
    ((¬ ∃ d, UniqueMatch E (live E ops) f d) →
      answer E ops (.mmForFile f kw) = .regError ∧
      (step E (after E ops) (.mmForFile f kw)).1.abs E = (after E ops).abs E) ∧
    (∀ m, answer E ops (.mmForFile f kw) = .mm m →
      ∃ d, UniqueMatch E (live E ops) f d ∧ Owns d m) := by
  obtain ⟨_, hw⟩ := after_sim E hE ops
  have hl := after_live E hE ops
  have p1 : ∀ d, UniqueMatch E (live E ops) f d →
      step E (after E ops) (.mmForFile f kw) = step E (after E ops) (.mmLang d.name kw) :=
    fun d hu => mmForFile_eq_mmLang E hE _ hw (after_loaded E hE ops) f kw d
      ((enumerates_single_iff E _ _ hl f d).2 hu)
  have p2 : (¬ ∃ d, UniqueMatch E (live E ops) f d) →
      answer E ops (.mmForFile f kw) = .regError ∧
      (step E (after E ops) (.mmForFile f kw)).1.abs E = (after E ops).abs E := by
    intro hno
    have := mmForFile_none E hE _ hw f kw
      (fun ⟨d, hd⟩ => hno ⟨d, (enumerates_single_iff E _ _ hl f d).1 hd⟩)
    unfold answer
    rw [this]
    exact ⟨rfl, rfl⟩
  refine ⟨p1, p2, fun m h => ?_⟩
  by_cases hex : ∃ d, UniqueMatch E (live E ops) f d
  · obtain ⟨d, hu⟩ := hex
    have h' : answer E ops (.mmLang d.name kw) = .mm m := by
      unfold answer at h ⊢
      rw [← p1 d hu]; exact h
    obtain ⟨d', h1, h2, h3⟩ := C26_cache_not_stale E hE ops d.name kw m h'
    have := LiveRel_inj E _ _ hl d d' hu.1 h1 h2
    subst this
    exact ⟨_, hu, h3⟩
  · rw [(p2 hex).1] at h; cases h

/-- …so the two calls are interchangeable in every history: all answers, before and after, agree. -/
theorem C26_mm_for_file_history (E : Env) (hE : E.Ok) (ops ops' : List Op) (f : String) (kw : Nat)
    (d : LangDesc) (hu : UniqueMatch E (live E ops) f d) :
    run E St.init (ops ++ .mmForFile f kw :: ops') = run E St.init (ops ++ .mmLang d.name kw :: ops') := by
  have e := (C26_mm_for_file E hE ops f kw).1 d hu
  unfold after at e
  rw [run_append, run_append]
  simp only [run, e]

/-- **The instance cached through `metamodel_for_file` is returned until something
replaces it**: `C26_cache_hit_until` for an entry made by `metamodel_for_file(f, **kw)`
resolving to `d`. -/
theorem C26_cache_hit_file (E : Env) (hE : E.Ok) (ops ops' : List Op) (f : String) (d : LangDesc)
    (n' : String) (kw : Nat) (m : MM) (hu : UniqueMatch E (live E ops) f d)
    (hcase : E.lower n' = E.lower d.name)
    (hq : sparesAll E (E.lower d.name) (live E ops) ops' = true)
    (h : answer E ops (.mmForFile f kw) = .mm m) :
    step E (after E (ops ++ .mmForFile f kw :: ops')) (.mmLang n' 0)
      = (after E (ops ++ .mmForFile f kw :: ops'), .mm m) := by
  have e := (C26_mm_for_file E hE ops f kw).1 d hu
  have ea : after E (ops ++ .mmForFile f kw :: ops') = after E (ops ++ .mmLang d.name kw :: ops') := by
    rw [after_snoc_cons, after_snoc_cons, e]
  have h' : answer E ops (.mmLang d.name kw) = .mm m := by
    unfold answer at h ⊢
    rw [← e]; exact h
  rw [ea]
  exact C26_cache_hit_until E hE ops ops' d.name n' kw m hcase hq h'

/-- **With arguments, `metamodel_for_file` gives a factory-registered language a fresh,
then-cached instance**: if `d`, the one live language accepting `f`, has a factory,
`metamodel_for_file(f, **kw)` with non-empty `kw` answers an object made by `d`'s factory from
exactly `kw`, different from every meta-model object handed out earlier, and that object is
what `metamodel_for_language(n')` answers right afterwards under any spelling. -/
theorem C26_cache_fresh_file (E : Env) (hE : E.Ok) (ops : List Op) (f : String) (kw : Nat) (d : LangDesc)
    (hkw : kw ≠ 0) (hu : UniqueMatch E (live E ops) f d) (hf : d.mm = .factory) :
    ∃ i, answer E ops (.mmForFile f kw) = .mm (.made i d.uid kw) ∧
      (∀ r, r ∈ (run E St.init ops).2 → ∀ i' b w, MM.made i' b w ∈ r.mmObjs → i' ≠ i) ∧
      ∀ n', E.lower n' = E.lower d.name →
        answer E (ops ++ [.mmForFile f kw]) (.mmLang n' 0) = .mm (.made i d.uid kw) := by
  obtain ⟨i, h1, h2⟩ := C26_cache_fresh E hE ops d.name kw d hkw hu.1 rfl hf
  have e := (C26_mm_for_file E hE ops f kw).1 d hu
  have h1' : answer E ops (.mmForFile f kw) = .mm (.made i d.uid kw) := by
    unfold answer at h1 ⊢
    rw [e]; exact h1
  refine ⟨i, h1', h2, fun n' hn' => ?_⟩
  have := C26_cache_hit_file E hE ops [] f d n' kw _ hu hn' rfl h1'
  unfold answer
  rw [this]

/-- **`metamodels_for_file` element by element.** After any history let `ds` be
what `languages_for_file(f)` answers (by `C26_for_file_exact`: each live language
accepting `f`, once).  Then `metamodels_for_file(f)` answers a list exactly when
every language of `ds` has a usable meta-model (an instance or a factory of
meta-models) — otherwise it raises —, and the list answered has one meta-model
per language of `ds`, in that order, each belonging to its language (`Owns`, so
nothing stale) and each being what `metamodel_for_language(d.name)` answers from
then on (then-cached); in fact the call is the run of `languages_for_file(f)`
followed by `metamodel_for_language(d.name)` for each `d` of `ds`: same answers,
same final state — so cached instances are returned and missing ones are made
as `C26_cache_hit_until` / `C26_cache_fresh` say. -/
theorem C26_mms_for_file (E : Env) (hE : E.Ok) (ops : List Op) (f : String) :
    ∃ ds, answer E ops (.langsForFile f) = .descs ds ∧
      ((∀ d, d ∈ ds → d.mm.usable = true) ↔ ∃ ms, answer E ops (.mmsForFile f) = .mms ms) ∧
      ((¬ ∀ d, d ∈ ds → d.mm.usable = true) →
        answer E ops (.mmsForFile f) = .regError ∨ answer E ops (.mmsForFile f) = .typeError) ∧
      (∀ ms, answer E ops (.mmsForFile f) = .mms ms →
        AllPairs (fun d m => Owns d m ∧
          answer E (ops ++ [.mmsForFile f]) (.mmLang d.name 0) = .mm m) ds ms ∧
        run E (after E ops) (.langsForFile f :: mmCalls ds)
          = (after E (ops ++ [.mmsForFile f]), .descs ds :: ms.map .mm)) := by
  obtain ⟨_, hw⟩ := after_sim E hE ops
  have hl := after_live E hE ops
  have hcoh := after_coh E hE ops
  generalize hs : after E ops = s at hw hl hcoh
  generalize hds : ((s.curL E).map (·.2)).filter (patMatches E f) = ds
  have h_lf : step E s (.langsForFile f) = (s.loadL E, .descs ds) := by
    simp only [step, languagesForFile_eq E hE, Out.res, hds]
  have h_mms : step E s (.mmsForFile f)
      = ((mmLoop E (s.loadL E) ds).1, (mmLoop E (s.loadL E) ds).2.res .mms) := by
    simp only [step, metamodelsForFile, languagesForFile_eq E hE, hds]
  obtain ⟨sim, _, _⟩ := mmLoop_sim E hE ds (s.loadL E)
  rw [abs_loadL] at sim
  have sim1 : (mmLoop E (s.loadL E) ds).1.abs E = (Spec.mmLoop E (s.abs E) ds).1 := congrArg Prod.fst sim
  have sim2 : (mmLoop E (s.loadL E) ds).2 = (Spec.mmLoop E (s.abs E) ds).2 := congrArg Prod.snd sim
  have hL : ∀ d, d ∈ ds → (s.abs E).L (E.lower d.name) = some d := by
    intro d hd
    have hen := (enumerates_cur E s hw f).2 d
    rw [hds] at hen
    exact (hl _ d).2 ⟨(registered_live E _ _ hl d).1 (hen.1 hd).1, rfl⟩
  have hans : answer E ops (.mmsForFile f) = (Spec.mmLoop E (s.abs E) ds).2.res .mms := by
    unfold answer; rw [hs, h_mms, sim2]
  have hok : ∀ ms, answer E ops (.mmsForFile f) = .mms ms → (Spec.mmLoop E (s.abs E) ds).2 = .ok ms := by
    intro ms h
    rw [hans] at h
    cases ho : (Spec.mmLoop E (s.abs E) ds).2 with
    | ok ms' => rw [ho] at h; simp only [Out.res, Res.mms.injEq] at h; rw [h]
    | raise r =>
      rw [ho] at h
      simp only [Out.res] at h
      rcases Spec.mmLoop_raise_kind E ds _ r ho with e | e <;> (rw [e] at h; cases h)
  have hpairs : ∀ ms, answer E ops (.mmsForFile f) = .mms ms →
      AllPairs (fun d m => Owns d m ∧ (Spec.mmLoop E (s.abs E) ds).1.C (E.lower d.name) = some m) ds ms :=
    fun ms h => Spec.mmLoop_owns E ds _ hcoh hL ms (hok ms h)
  have huse : (∀ d, d ∈ ds → d.mm.usable = true) ↔ ∃ ms, answer E ops (.mmsForFile f) = .mms ms := by
    constructor
    · intro hu
      obtain ⟨ms, hms⟩ := Spec.mmLoop_ok_of_usable E ds (s.abs E) (fun d hd => ⟨hL d hd, hu d hd⟩)
      exact ⟨ms, by rw [hans, hms]; rfl⟩
    · rintro ⟨ms, h⟩ d hd
      obtain ⟨m, hr⟩ := AllPairs_left ds ms (hpairs ms h) d hd
      exact Owns_usable _ _ hr.1
  refine ⟨ds, by unfold answer; rw [hs, h_lf], huse, ?_, ?_⟩
  · intro hnu
    rw [hans]
    cases ho : (Spec.mmLoop E (s.abs E) ds).2 with
    | ok ms => exact absurd (huse.2 ⟨ms, by rw [hans, ho]; rfl⟩) hnu
    | raise r =>
      simp only [Out.res]
      exact Spec.mmLoop_raise_kind E ds _ r ho
  · intro ms h
    have hfin : after E (ops ++ [.mmsForFile f]) = (mmLoop E (s.loadL E) ds).1 := by
      rw [after_snoc, hs, h_mms]
    refine ⟨AllPairs_imp ds ms (fun d m _ hr => ⟨hr.1, ?_⟩) (hpairs ms h), ?_⟩
    · have hc : dget (mmLoop E (s.loadL E) ds).1.cache (E.lower d.name) = some m := by
        have := hr.2
        rw [← sim1] at this
        exact this
      unfold answer
      rw [hfin]
      simp only [step, mfl_fast E _ d.name m hc, Out.res]
    · have hm : mmLoop E (s.loadL E) ds = ((mmLoop E (s.loadL E) ds).1, .ok ms) :=
        Prod.ext rfl (by rw [sim2]; exact hok ms h)
      have hrun := mmLoop_run E ds (s.loadL E) _ ms hm
      rw [hfin]
      simp only [run, h_lf, hrun]

/-- In the driver's matcher (`fnmatch` without character classes) every pattern
matches itself, so the `file_name_or_pattern == language.pattern` disjunct of
`languages_for_file` adds nothing in that fragment. -/
theorem C26_glob_self (p : String) : globMatch p.toList p.toList = true :=
  globMatch_self p.toList

/-- The driver's class-aware matcher (`fnmatch` with `[…]`) is the glob matcher on
every pattern without `[` — so `C26_glob_self` speaks about the matcher the
driver runs, in that fragment. -/
theorem C26_fnmatch_bracket_free (p f : String) (h : '[' ∉ p.toList) :
    fnMatch p.toList f.toList = globMatch p.toList f.toList :=
  fnMatch_eq_globMatch p.toList f.toList h

/-- With character classes a pattern need not match itself: `*.[ch]` does not
accept the text `*.[ch]`.  The `file_name_or_pattern == language.pattern`
disjunct of `languages_for_file` is therefore *not* redundant. -/
theorem C26_fnmatch_self_false : ¬ ∀ p : String, fnMatch p.toList p.toList = true := by
  intro h
  exact absurd (h "*.[ch]") (by decide)

/-- **Asking with the registered pattern finds the language** — whatever the
matcher does with that text (every `E`, in particular patterns with character
classes that do not accept themselves): after any history,
`languages_for_file(p)` contains every live language whose pattern is literally `p`. -/
theorem C26_pattern_self (E : Env) (hE : E.Ok) (ops : List Op) (p : String) (d : LangDesc)
    (hd : d ∈ live E ops) (hp : d.pattern = some p) :
    ∃ ds, answer E ops (.langsForFile p) = .descs ds ∧ d ∈ ds := by
  obtain ⟨ds, hr, _, hmem⟩ := C26_for_file_exact E hE ops p
  refine ⟨ds, hr, (hmem d).2 ⟨hd, ?_⟩⟩
  simp [patMatches, hp]

/-- … and if it is the only live language accepting `p`, `language_for_file(p)` returns it. -/
theorem C26_pattern_self_unique (E : Env) (hE : E.Ok) (ops : List Op) (p : String) (d : LangDesc)
    (hd : d ∈ live E ops) (hp : d.pattern = some p)
    (hu : ∀ d', d' ∈ live E ops → patMatches E p d' = true → d' = d) :
    answer E ops (.langForFile p) = .desc d :=
  ((C26_language_for_file_unique E hE ops p).1 d).2 ⟨hd, by simp [patMatches, hp], hu⟩

/-! ## non-vacuity: a concrete environment and history -/

/-- one entry-point language `textX (*.tx)` and one entry-point generator `any → dot` -/
def exEp : LangDesc := { uid := 100, name := "textX", pattern := some "*.tx", mm := .factory }
def exEnv : Env := asciiEnv [exEp] [{ uid := 200, language := "any", target := "dot" }]

def exA : LangDesc := { uid := 1, name := "Flow", pattern := some "*.f", mm := .factory }
def exB : LangDesc := { uid := 2, name := "FLOW", pattern := none, mm := .inst 7 }

/-- register, hit the cache through another spelling, refresh with kwargs,
refuse a duplicate in another case, clear, and find the entry point again -/
def exOps : List Op :=
  [.regLang exA, .mmLang "FLOW" 0, .mmLang "flow" 0, .mmLang "fLoW" 1, .regLang exB, .langsForFile "a.f",
   .clearLangs, .lang "flow", .lang "TEXTX", .langForFile "g.tx", .gen "Flow" "DOT" true]

example : (run exEnv St.init exOps).2 =
    [.unit, .mm (.made 0 1 0), .mm (.made 0 1 0), .mm (.made 1 1 1), .regError, .descs [exA],
     .unit, .regError, .desc exEp, .desc exEp,
     .gen { uid := 200, language := "any", target := "dot" }] := by decide

example : live exEnv (exOps.take 6) = exEnv.eps ++ [exA] := by decide
example : live exEnv exOps = exEnv.eps := by decide

/-- the driver's ASCII environment with these entry points satisfies the hypotheses of all theorems -/
example : exEnv.Ok := asciiEnv_ok _ _ (by decide) (by decide)

/-- the hypotheses of `C26_cache_fresh` / `C26_cache_hit` are met inside `exOps` -/
example : exA ∈ live exEnv (exOps.take 3) ∧ exA.mm = .factory ∧
    answer exEnv (exOps.take 1) (.mmLang "FLOW" 0) = .mm (.made 0 1 0) := by decide

/-! ### non-vacuity of the `*_for_file` / `sparesAll` theorems -/

def exG : LangDesc := { uid := 6, name := "Gamma", pattern := some "*.g", mm := .factory }
def exH : LangDesc := { uid := 7, name := "Eta", pattern := some "*.g", mm := .inst 9 }
def exBad : LangDesc := { uid := 8, name := "Bad", pattern := some "*.g", mm := .badFactory }

/-- the history before the cached request of the examples below -/
def exPre : List Op := [.regLang exA, .regLang exG]

/-- calls that spare the entry of `flow` although two of them carry keyword arguments
(for another language, by name and by file) — `C26_cache_hit` does not apply, `C26_cache_hit_until` does -/
def exSpare : List Op :=
  [.mmLang "GAMMA" 1, .mmForFile "x.g" 2, .regLang exB, .lang "flow", .mmsForFile "a.f", .clearGens]

example : sparesAll exEnv (exEnv.lower "Flow") (live exEnv exPre) exSpare = true ∧
    exSpare.all Op.keepsCache = false ∧
    answer exEnv exPre (.mmLang "Flow" 2) = .mm (.made 0 1 2) ∧
    answer exEnv (exPre ++ .mmLang "Flow" 2 :: exSpare) (.mmLang "FLOW" 0) = .mm (.made 0 1 2) := by decide

/-- the condition is sharp: a keyword-argument request resolving to the same language — by
name in another case, or through the one file pattern — is not spared, and does replace the entry -/
example : sparesAll exEnv "flow" (live exEnv exPre) [.mmLang "FLOW" 1] = false ∧
    sparesAll exEnv "flow" (live exEnv exPre) [.mmForFile "a.f" 1] = false ∧
    sparesAll exEnv "flow" (live exEnv exPre) [.clearLangs] = false ∧
    answer exEnv (exPre ++ [.mmLang "Flow" 2, .mmForFile "a.f" 1]) (.mmLang "FLOW" 0) = .mm (.made 1 1 1) := by
  decide

/-- when two languages accept the file, `metamodel_for_file` with arguments raises and spares every entry -/
example : sparesAll exEnv "gamma" (live exEnv (exPre ++ [.regLang exH])) [.mmForFile "x.g" 1] = true ∧
    answer exEnv (exPre ++ [.regLang exH]) (.mmForFile "x.g" 1) = .regError := by decide

/-- the hypothesis of `C26_mm_for_file` (1) / `C26_cache_hit_file` is met: `exA` is the one live
language accepting `a.f`, and the call answers what `metamodel_for_language("Flow", …)` answers -/
example : ∃ d, UniqueMatch exEnv (live exEnv exPre) "a.f" d ∧ exEnv.lower d.name = "flow" :=
  (resolvesTo_iff _ _ _ _).1 (by decide)

example : (run exEnv St.init (exPre ++ [.mmForFile "a.f" 1, .mmLang "FLOW" 0, .mmForFile "a.f" 0])).2 =
    (run exEnv St.init (exPre ++ [.mmLang "Flow" 1, .mmLang "FLOW" 0, .mmForFile "a.f" 0])).2 ∧
    (run exEnv St.init (exPre ++ [.mmForFile "a.f" 1, .mmLang "FLOW" 0, .mmForFile "a.f" 0])).2.drop 2 =
      [.mm (.made 0 1 1), .mm (.made 0 1 1), .mm (.made 0 1 1)] := by decide

/-- … and the hypothesis of (2): nothing accepts `a.zz`, two languages accept `x.g` -/
example : (¬ ∃ d, UniqueMatch exEnv (live exEnv exPre) "a.zz" d) ∧
    (¬ ∃ d, UniqueMatch exEnv (live exEnv (exPre ++ [.regLang exH])) "x.g" d) := by
  constructor
  · rintro ⟨d, hd⟩
    have h1 := (resolvesTo_iff exEnv _ _ _).2 ⟨d, hd, rfl⟩
    have h2 : ∀ d, d ∈ live exEnv exPre →
        resolvesTo exEnv (live exEnv exPre) "a.zz" (exEnv.lower d.name) = false := by decide
    rw [h2 d hd.1] at h1; cases h1
  · rintro ⟨d, hd⟩
    have h1 := (resolvesTo_iff exEnv _ _ _).2 ⟨d, hd, rfl⟩
    have h2 : ∀ d, d ∈ live exEnv (exPre ++ [.regLang exH]) →
        resolvesTo exEnv (live exEnv (exPre ++ [.regLang exH])) "x.g" (exEnv.lower d.name) = false := by decide
    rw [h2 d hd.1] at h1; cases h1

/-- `metamodels_for_file`: the cached factory product and the instance, in registry order, both
then-cached; with a language whose factory does not produce a meta-model the call raises -/
example : (run exEnv St.init (exPre ++ [.regLang exH, .mmLang "gamma" 1, .mmsForFile "x.g",
      .mmLang "ETA" 0, .langsForFile "x.g"])).2.drop 3 =
    [.mm (.made 0 6 1), .mms [.made 0 6 1, .given 9], .mm (.given 9), .descs [exG, exH]] := by decide

example : answer exEnv (exPre ++ [.regLang exH, .regLang exBad]) (.mmsForFile "x.g") = .regError ∧
    exBad.mm.usable = false ∧ exG.mm.usable = true ∧ exH.mm.usable = true := by decide

/-- character classes in the driver's environment: the class pattern accepts `a.c` and
`a.h` but not its own text; asking with the pattern text still finds both languages, a
bracketed literal file name is found by its own text and by the file it describes -/
def exC : LangDesc := { uid := 3, name := "hdr", pattern := some "*.[ch]", mm := .factory }
def exD : LangDesc := { uid := 4, name := "HDR2", pattern := some "*.[ch]", mm := .inst 8 }
def exR : LangDesc := { uid := 5, name := "rep", pattern := some "r[1].d", mm := .factory }

example : (run exEnv St.init
    [.regLang exC, .regLang exD, .regLang exR, .langsForFile "a.c", .langForFile "a.h", .langsForFile "a.x",
     .langsForFile "*.[ch]", .langForFile "*.[ch]", .langForFile "r[1].d", .langForFile "r1.d",
     .langForFile "r[2].d"]).2 =
    [.unit, .unit, .unit, .descs [exC, exD], .regError, .descs [],
     .descs [exC, exD], .regError, .desc exR, .desc exR, .regError] := by decide

example : fnMatch "*.[ch]".toList "*.[ch]".toList = false ∧ fnMatch "[!a-c]x[]-]".toList "dx]".toList = true ∧
    fnMatch "[!a-c]x[]-]".toList "bx]".toList = false ∧ fnMatch "a[b".toList "a[b".toList = true ∧
    fnMatch "[z-a]".toList "z".toList = false ∧ fnMatch "[!z-a]".toList "q".toList = true := by decide

end Reg
