import TextxVerif.Reg
namespace Reg
end Reg
