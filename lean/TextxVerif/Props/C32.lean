import TextxVerif.Proofs.Select
import TextxVerif.Gen.ProviderOrder
/-!
# C32 — scope provider selection follows the documented precedence

Model: `Select.select` (TextxVerif/Select.lean) mirrors the provider lookup of
`ReferenceResolver.resolve_one_step`; the order of the four lookup keys is
`Gen.providerOrder`, regenerated from the source list expression on every run,
so these theorems are re-checked against the order the code uses *now*.
`Select.register` mirrors `register_scope_providers` (strings → RREL providers),
`Select.occRrel` the per-reference RREL of the grammar (after the `fix:`).

All theorems hold for every registration dictionary (any number of entries, any
keys — not only subsets of the four), every rule and attribute name, every
provider type `P` and RREL tree type `T`.
-/
namespace Select

variable {P T : Type}

/-- the four documented keys for a reference `cls.attr`, in documented order -/
def documentedKeys (cls attr : String) : List String :=
  [cls ++ "." ++ attr, "*." ++ attr, cls ++ ".*", "*.*"]

/-- **Tie to the source.** The list expression in `resolve_one_step` evaluates,
for every class and attribute name, to the four documented keys in the
documented order. -/
theorem C32_keys (cls attr : String) :
    Gen.providerOrder.map (·.eval cls attr) = documentedKeys cls attr := by
  simp [Gen.providerOrder, documentedKeys, KeyExpr.eval, Piece.eval]

/-- **Precedence.** The provider called for a reference is the RREL expression
written in the grammar if there is one; otherwise the entry registered under
`Rule.attr`, else under `*.attr`, else under `Rule.*`, else under `*.*`, else
the default provider.  (All 2⁴ × 2 presence patterns are the branches of this
decision table; `d` is an arbitrary dictionary.) -/
theorem C32_precedence (d : Dict P T) (cls attr : String) (g : Option T) :
    select Gen.providerOrder d cls attr g =
      match g with
      | some t => .rrel t
      | none =>
        match d.get? (cls ++ "." ++ attr) with
        | some p => p
        | none =>
          match d.get? ("*." ++ attr) with
          | some p => p
          | none =>
            match d.get? (cls ++ ".*") with
            | some p => p
            | none =>
              match d.get? "*.*" with
              | some p => p
              | none => .default := by
  cases g with
  | some t => rfl
  | none =>
    simp only [select, C32_keys, documentedKeys, lookupLoop]
    cases d.get? (cls ++ "." ++ attr) <;> cases d.get? ("*." ++ attr) <;>
      cases d.get? (cls ++ ".*") <;> cases d.get? "*.*" <;> rfl

/-- **First registered** (order-free wording): without a grammar RREL, provider
`p` is selected from the dictionary exactly when it is registered under the
`i`-th documented key and no earlier documented key is registered; the default
provider is used exactly when none of the four keys is registered. -/
theorem C32_first_registered (d : Dict P T) (cls attr : String) :
    (∀ p, lookupLoop d (Gen.providerOrder.map (·.eval cls attr)) = some p ↔
        ∃ i, ∃ h : i < (documentedKeys cls attr).length,
          d.get? (documentedKeys cls attr)[i] = some p ∧
          ∀ j, (hj : j < i) → d.get? ((documentedKeys cls attr)[j]'(by omega)) = none) ∧
    (lookupLoop d (Gen.providerOrder.map (·.eval cls attr)) = none ↔
        ∀ k, k ∈ documentedKeys cls attr → d.get? k = none) := by
  rw [C32_keys]
  exact ⟨fun p => lookupLoop_some d _ p, lookupLoop_none d _⟩

/-- **Frame.** Only the four documented keys matter: registrations under any
other key (other rules, other attributes, base rules, …) never change which
provider a reference gets. -/
theorem C32_frame (d d' : Dict P T) (cls attr : String) (g : Option T)
    (h : ∀ k, k ∈ documentedKeys cls attr → d.get? k = d'.get? k) :
    select Gen.providerOrder d cls attr g = select Gen.providerOrder d' cls attr g := by
  cases g with
  | some t => rfl
  | none =>
    simp only [select]
    rw [lookupLoop_congr d d' _ (by rw [C32_keys]; exact h)]

/-- **Grammar RREL wins**, whatever is registered. -/
theorem C32_grammar_rrel (d : Dict P T) (cls attr : String) (t : T) :
    select Gen.providerOrder d cls attr (some t) = .rrel t := rfl

/-- **RREL strings.** Let `raw` be the dictionary handed to
`register_scope_providers`, and let the first registered documented key of a
reference be bound to the *string* `s`.  Then the reference gets the same
provider as with nothing relevant registered and `s` written in the grammar
(`parse` is the RREL parser both routes use). -/
theorem C32_rrel_string_same (parse : String → T) (raw : List (String × RegVal P))
    (d' : Dict P T) (cls attr s : String)
    (i : Nat) (hi : i < (documentedKeys cls attr).length)
    (hreg : raw.lookup (documentedKeys cls attr)[i] = some (.str s))
    (hfirst : ∀ j, (hj : j < i) → raw.lookup ((documentedKeys cls attr)[j]'(by omega)) = none) :
    select Gen.providerOrder (register parse raw) cls attr none =
      select Gen.providerOrder d' cls attr (some (parse s)) := by
  have h : lookupLoop (register parse raw) (Gen.providerOrder.map (·.eval cls attr)) =
      some (.rrel (parse s)) := by
    rw [C32_keys, lookupLoop_some]
    refine ⟨i, hi, by simp [get?_register, hreg, convert], ?_⟩
    intro j hj
    simp [get?_register, hfirst j hj]
  simp [select, h]

/-- a registered provider *object* is called as it is (never re-interpreted) -/
theorem C32_object_kept (parse : String → T) (raw : List (String × RegVal P)) (k : String) (p : P)
    (h : raw.lookup k = some (.prov p)) : Dict.get? (register parse raw) k = some (.custom p) := by
  simp [get?_register, h, convert]

/-- **Per reference.** With the repaired grammar visitor a reference written
with an RREL expression is resolved by it, wherever else the attribute is
assigned in the rule. -/
theorem C32_occurrence (occs : List (Occ T)) (i : Nat) (o : Occ T) (t : T) (d : Dict P T) (cls : String)
    (hi : occs[i]? = some o) (hr : o.rrel = some t) :
    select Gen.providerOrder d cls o.attr (occRrel occs i) = .rrel t := by
  simp [occRrel, hi, hr, select]

/-- The pinned visitor (one RREL per attribute, last assignment wins) breaks
this: `'r' t=[A|ID|x] | 'q' t=[A]` resolves the first reference by `*.*`. -/
theorem C32_lastwins_false :
    ∃ (occs : List (Occ String)) (i : Nat) (o : Occ String) (t : String) (d : Dict Nat String),
      occs[i]? = some o ∧ o.rrel = some t ∧
      select Gen.providerOrder d "R" o.attr (occRrelLastWins occs i) ≠ .rrel t :=
  ⟨[⟨"t", some "x"⟩, ⟨"t", none⟩], 0, ⟨"t", some "x"⟩, "x", [("*.*", .custom 7)],
    rfl, rfl, by decide⟩

/-! ## what the selected provider is asked for (multi-part names)

One provider object serves many references (wildcard keys, one object under
several keys, several models of one meta-model, re-registration).  The
statements below hold for every name, every match rule (`ruleSplit` = its
`split` parameter), every history. -/

/-- the delimiter the RREL provider built from a string / from the grammar uses
for a reference: the `split` parameter of *that reference's* match rule, `.`
when the rule has none -/
def refDelimiter (r : Ref T) : String := r.ruleSplit.getD "."

/-- **Delimiter per reference.** Whenever the selected provider is the RREL
expression `t` (written in the grammar or registered as a string), `find` is
asked for `t` with the name split at the delimiter of the reference's own match
rule. -/
theorem C32_rrel_call (view : P → Option (RrelObj T)) (d : Dict P T) (r : Ref T) (t : T)
    (h : select Gen.providerOrder d r.cls r.attr r.g = .rrel t) :
    callOf Gen.providerOrder view d r = .find t (refDelimiter r) (r.name.splitOn (refDelimiter r)) := by
  simp only [callOf, h, RrelObj.call, delimiter, refDelimiter]
  cases r.ruleSplit <;> rfl

/-- **RREL strings, behaviour.** Under the hypotheses of `C32_rrel_string_same`
the *call* made for the reference — expression, delimiter, name parts — is the
one made with `s` written in the grammar at that reference, for every name and
every match rule. -/
theorem C32_rrel_string_same_call (view : P → Option (RrelObj T)) (parse : String → T)
    (raw : List (String × RegVal P)) (d' : Dict P T) (cls attr s name : String) (rs : Option String)
    (i : Nat) (hi : i < (documentedKeys cls attr).length)
    (hreg : raw.lookup (documentedKeys cls attr)[i] = some (.str s))
    (hfirst : ∀ j, (hj : j < i) → raw.lookup ((documentedKeys cls attr)[j]'(by omega)) = none) :
    callOf Gen.providerOrder view (register parse raw) ⟨cls, attr, none, name, rs⟩ =
      callOf Gen.providerOrder view d' ⟨cls, attr, some (parse s), name, rs⟩ := by
  have h1 := C32_rrel_string_same parse raw d' cls attr s i hi hreg hfirst
  have h2 : select Gen.providerOrder d' cls attr (some (parse s)) = .rrel (parse s) := rfl
  rw [C32_rrel_call view _ ⟨cls, attr, none, name, rs⟩ (parse s) (by rw [h1, h2]),
    C32_rrel_call view d' ⟨cls, attr, some (parse s), name, rs⟩ (parse s) h2]
  rfl

/-- **Shared provider object.** A registered RREL provider *object* `o` (one
object, possibly bound to several keys) is asked, for every reference that
selects it, with the delimiter of that reference (its own `split_string` if it
was built with one). -/
theorem C32_shared_object (view : P → Option (RrelObj T)) (d : Dict P T) (r : Ref T) (p : P)
    (o : RrelObj T) (h : select Gen.providerOrder d r.cls r.attr r.g = .custom p) (hv : view p = some o) :
    callOf Gen.providerOrder view d r =
      .find o.tree (delimiter o.split r.ruleSplit) (r.name.splitOn (delimiter o.split r.ruleSplit)) := by
  simp [callOf, h, hv, RrelObj.call]

/-- **No memory in the provider.** One RREL provider object called for any list
of references answers each as if it were the first, and is unchanged afterwards. -/
theorem C32_call_stateless (self : RrelObj T) (refs : List (String × Option String)) :
    (self.callSeq (P := P) refs).1 = refs.map (fun r => (self.call (P := P) r.1 r.2).1) ∧
    (self.callSeq (P := P) refs).2 = self := by
  induction refs with
  | nil => exact ⟨rfl, rfl⟩
  | cons r rest ih =>
    obtain ⟨name, rs⟩ := r
    obtain ⟨ih1, ih2⟩ := ih
    constructor
    · simp only [RrelObj.callSeq, List.map_cons]
      rw [show (self.call (P := P) name rs).2 = self from rfl, ih1]
    · simp only [RrelObj.callSeq]
      rw [show (self.call (P := P) name rs).2 = self from rfl, ih2]

/-- **History.** The calls made for the model of a step depend on the
registrations made so far and on the references of that model only — not on
the models loaded before. -/
theorem C32_history (view : P → Option (RrelObj T)) (parse : String → T) (s : Step P T) :
    ∀ (d : Dict P T) (pre pre' : List (Step P T)), pre.map (·.reg) = pre'.map (·.reg) →
      (run Gen.providerOrder view parse d (pre ++ [s]))[pre.length]? =
        (run Gen.providerOrder view parse d (pre' ++ [s]))[pre'.length]? := by
  intro d pre
  induction pre generalizing d with
  | nil =>
    intro pre' h
    cases pre' with
    | nil => rfl
    | cons a l => simp at h
  | cons a l ih =>
    intro pre' h
    cases pre' with
    | nil => simp at h
    | cons a' l' =>
      simp only [List.map_cons, List.cons.injEq] at h
      obtain ⟨ha, hl⟩ := h
      simp only [List.cons_append, run, List.length_cons, List.getElem?_cons_succ, ha]
      exact ih _ l' hl

/-- `register_scope_providers` replaces the dictionary: the calls of a step that
registers `raw` are those of `raw` alone. -/
theorem C32_reregister (view : P → Option (RrelObj T)) (parse : String → T) (d : Dict P T)
    (raw : List (String × RegVal P)) (refs : List (Ref T)) (rest : List (Step P T)) :
    run Gen.providerOrder view parse d (⟨some raw, refs⟩ :: rest) =
      refs.map (callOf Gen.providerOrder view (register parse raw)) ::
        run Gen.providerOrder view parse (register parse raw) rest := rfl

/-! ## registration order, the visitor's stores, answers -/

/-- **Precedence is by key, not by registration order.**  `register_scope_providers` receives a
Python dict (one entry per key, `hk`); in whatever order its entries were inserted (`hp`), every
reference gets the same provider. -/
theorem C32_perm_indep (parse : String → T) (raw raw' : List (String × RegVal P))
    (hk : (raw.map (·.1)).Nodup) (hp : raw'.Perm raw) (cls attr : String) (g : Option T) :
    select Gen.providerOrder (register parse raw') cls attr g =
      select Gen.providerOrder (register parse raw) cls attr g :=
  select_perm Gen.providerOrder parse raw raw' hk hp cls attr g

/-- … hence the same call (expression, delimiter, name parts) for every reference, -/
theorem C32_perm_indep_call (view : P → Option (RrelObj T)) (parse : String → T)
    (raw raw' : List (String × RegVal P)) (hk : (raw.map (·.1)).Nodup) (hp : raw'.Perm raw) (r : Ref T) :
    callOf Gen.providerOrder view (register parse raw') r = callOf Gen.providerOrder view (register parse raw) r := by
  simp only [callOf, C32_perm_indep parse raw raw' hk hp]

/-- … and the same calls in the whole rest of the meta-model's history. -/
theorem C32_perm_indep_history (view : P → Option (RrelObj T)) (parse : String → T) (d : Dict P T)
    (raw raw' : List (String × RegVal P)) (hk : (raw.map (·.1)).Nodup) (hp : raw'.Perm raw)
    (refs : List (Ref T)) (rest : List (Step P T)) :
    run Gen.providerOrder view parse d (⟨some raw', refs⟩ :: rest) =
      run Gen.providerOrder view parse d (⟨some raw, refs⟩ :: rest) := by
  have hc := C32_perm_indep_call view parse raw raw' hk hp
  simp only [run, List.cons.injEq]
  exact ⟨List.map_congr_left (fun r _ => hc r), run_congr _ view parse rest _ _ hc⟩

/-- `hk` is needed: the association-list model would let the first of two entries with one key
win (a Python dict cannot hold such a pair). -/
theorem C32_perm_dupkeys_false :
    ∃ (raw raw' : List (String × RegVal Nat)), raw'.Perm raw ∧
      select (T := String) Gen.providerOrder (register id raw') "R" "t" none ≠
        select Gen.providerOrder (register id raw) "R" "t" none :=
  ⟨[("*.*", .prov 0), ("*.*", .prov 1)], [("*.*", .prov 1), ("*.*", .prov 0)], List.Perm.swap _ _ _, by decide⟩

/-- **The visitor's two stores, repaired code.**  `visit true` mirrors `visit_assignment` (one
slot per attribute, overwritten; one slot per assignment rule), `refRrel` the read in
`process_node` (`getattr(node.rule, "_scope_provider", metaattr.scope_provider)`).  The reference
created at assignment `i` carries the RREL written there — `occRrel` is what the code computes —
so it is resolved as if its assignment were the only one of the attribute. -/
theorem C32_visit_repaired (occs : List (Occ T)) (i : Nat) (o : Occ T) (d : Dict P T) (cls : String)
    (hi : occs[i]? = some o) :
    refRrel (visit true occs) i o.attr = occRrel occs i ∧
    select Gen.providerOrder d cls o.attr (refRrel (visit true occs) i o.attr) =
      select Gen.providerOrder d cls o.attr o.rrel := by
  rw [refRrel_visit_repaired occs i o hi]
  simp [occRrel, hi]

/-- **The same stores, pinned code** (per-assignment slot never written): the read falls back to
the attribute's slot, i.e. to the last assignment of that attribute — `occRrelLastWins`. -/
theorem C32_visit_pinned (occs : List (Occ T)) (i : Nat) (o : Occ T) (hi : occs[i]? = some o) :
    refRrel (visit false occs) i o.attr = occRrelLastWins occs i :=
  refRrel_visit_pinned occs i o hi

/-- negation witness on the stores themselves (pinned visitor) -/
theorem C32_visit_pinned_false :
    ∃ (occs : List (Occ String)) (i : Nat) (o : Occ String) (t : String) (d : Dict Nat String),
      occs[i]? = some o ∧ o.rrel = some t ∧
      select Gen.providerOrder d "R" o.attr (refRrel (visit false occs) i o.attr) ≠ .rrel t :=
  ⟨[⟨"t", some "x"⟩, ⟨"t", none⟩], 0, ⟨"t", some "x"⟩, "x", [("*.*", .custom 7)], rfl, rfl, by decide⟩

/-- what a provider call answers, given what `find` computes for (expression, delimiter, name
parts) — RREL evaluation, the subject of C11/C12 — and what user callables / the default provider answer -/
def Call.answer {R : Type} (find : T → String → List String → R) (user : P → R) (dflt : R) : Call P T → R
  | .user p => user p
  | .find t delim parts => find t delim parts
  | .dflt => dflt

/-- **RREL strings, answers.**  Whatever RREL evaluation computes (`find` arbitrary, e.g. the
`Rrel.find` of C11 on any model), a reference served by a registered string gets the answer it
gets with the string written in the grammar. -/
theorem C32_rrel_string_same_answer {R : Type} (find : T → String → List String → R) (user : P → R) (dflt : R)
    (view : P → Option (RrelObj T)) (parse : String → T)
    (raw : List (String × RegVal P)) (d' : Dict P T) (cls attr s name : String) (rs : Option String)
    (i : Nat) (hi : i < (documentedKeys cls attr).length)
    (hreg : raw.lookup (documentedKeys cls attr)[i] = some (.str s))
    (hfirst : ∀ j, (hj : j < i) → raw.lookup ((documentedKeys cls attr)[j]'(by omega)) = none) :
    (callOf Gen.providerOrder view (register parse raw) ⟨cls, attr, none, name, rs⟩).answer find user dflt =
      (callOf Gen.providerOrder view d' ⟨cls, attr, some (parse s), name, rs⟩).answer find user dflt := by
  rw [C32_rrel_string_same_call view parse raw d' cls attr s name rs i hi hreg hfirst]

/-! ## the selected provider is *used*: nothing of the meta-model's configuration comes first

Added for the seeded change C32-6 (builtins looked up before the provider).  For every builtins
dictionary, every conformance test, every provider behaviour `ask`. -/

variable {O : Type}

/-- **The provider is asked first, and only it.**  Whatever `builtins` the meta-model was created
with (also when the referenced name is a builtin name), exactly one provider call is made for a
reference in a pass: the one of the provider the precedence selects. -/
theorem C32_provider_asked (view : P → Option (RrelObj T)) (d : Dict P T) (env : Env O)
    (ask : Call P T → Answer O) (r : Ref T) :
    (resolveRef Gen.providerOrder view d env ask r).1 = [callOf Gen.providerOrder view d r] := by
  rw [resolveRef_eq]

/-- **Its answer is the binding.**  When the selected provider finds an object the reference is
bound to it — a builtin of the same name does not shadow what the model defines. -/
theorem C32_answer_wins (view : P → Option (RrelObj T)) (d : Dict P T) (env : Env O)
    (ask : Call P T → Answer O) (r : Ref T) (o : O)
    (h : ask (callOf Gen.providerOrder view d r) = .found o) :
    (resolveRef Gen.providerOrder view d env ask r).2 = .bound o := by
  rw [resolveRef_eq, h]

/-- **Builtins are a fall-back.**  A reference is bound to `o` only if the selected provider
answered `o`, or answered nothing and `o` is the conforming builtin of that name. -/
theorem C32_builtin_fallback (view : P → Option (RrelObj T)) (d : Dict P T) (env : Env O)
    (ask : Call P T → Answer O) (r : Ref T) (o : O)
    (h : (resolveRef Gen.providerOrder view d env ask r).2 = .bound o) :
    ask (callOf Gen.providerOrder view d r) = .found o ∨
      (ask (callOf Gen.providerOrder view d r) = .nothing ∧ env.builtin? r.name = some o) := by
  rw [resolveRef_eq] at h
  cases ha : ask (callOf Gen.providerOrder view d r) with
  | found o' =>
    rw [ha] at h
    simp only [Result.bound.injEq] at h
    exact Or.inl (by rw [h])
  | postponed =>
    rw [ha] at h
    simp at h
  | nothing =>
    rw [ha] at h
    cases hb : env.builtin? r.name with
    | none => rw [hb] at h; simp at h
    | some b =>
      rw [hb] at h
      simp only [Result.bound.injEq] at h
      exact Or.inr ⟨rfl, by rw [h]⟩

/-- … and without a conforming builtin of that name a provider that finds nothing means "Unknown
object": no other registered key, nor the default provider, is tried. -/
theorem C32_no_fallthrough (view : P → Option (RrelObj T)) (d : Dict P T) (env : Env O)
    (ask : Call P T → Answer O) (r : Ref T)
    (h : ask (callOf Gen.providerOrder view d r) = .nothing) (hb : env.builtin? r.name = none) :
    resolveRef Gen.providerOrder view d env ask r = ([callOf Gen.providerOrder view d r], .unknown) := by
  rw [resolveRef_eq, h, hb]

/-- **Every pass asks the same provider.**  A reference whose provider postpones is handed in
again: all calls made for it, over all passes, are the call of the selected provider, -/
theorem C32_passes_same_provider (view : P → Option (RrelObj T)) (d : Dict P T) (env : Env O) (r : Ref T)
    (asks : List (Call P T → Answer O)) :
    ∀ c ∈ (resolvePasses Gen.providerOrder view d env r asks).1, c = callOf Gen.providerOrder view d r := by
  induction asks with
  | nil => intro c hc; simp [resolvePasses] at hc
  | cons ask rest ih =>
    intro c hc
    rw [resolvePasses, resolveRef_eq] at hc
    cases ha : ask (callOf Gen.providerOrder view d r) with
    | found o => rw [ha] at hc; simpa using hc
    | postponed =>
      rw [ha] at hc
      simp only [List.cons_append, List.nil_append, List.mem_cons] at hc
      rcases hc with hc | hc
      · exact hc
      · exact ih c hc
    | nothing =>
      rw [ha] at hc
      cases hb : env.builtin? r.name <;> rw [hb] at hc <;> simpa using hc

/-- … and which calls are made does not depend on the builtins at all. -/
theorem C32_calls_env_indep (view : P → Option (RrelObj T)) (d : Dict P T) (env env' : Env O) (r : Ref T)
    (asks : List (Call P T → Answer O)) :
    (resolvePasses Gen.providerOrder view d env r asks).1 =
      (resolvePasses Gen.providerOrder view d env' r asks).1 := by
  induction asks with
  | nil => rfl
  | cons ask rest ih =>
    rw [resolvePasses, resolvePasses, resolveRef_eq, resolveRef_eq]
    cases ask (callOf Gen.providerOrder view d r) with
    | found o => rfl
    | postponed => simp only [ih]
    | nothing =>
      cases env.builtin? r.name <;> cases env'.builtin? r.name <;> rfl

/-- negation witness for "builtins first" (the seeded change): with `x` a builtin name, looking
the name up in the builtins before asking makes no call and binds the builtin, the code asks the
selected provider and binds what it finds. -/
theorem C32_builtin_first_false :
    ∃ (d : Dict Nat String) (env : Env String) (ask : Call Nat String → Answer String) (r : Ref String),
      env.builtin? r.name = some "builtin x" ∧
      resolveRef Gen.providerOrder (fun _ => none) d env ask r = ([.user 3], .bound "pc x") :=
  ⟨[("*.*", .custom 3)], ⟨[("x", "builtin x")], fun _ => true⟩, fun _ => .found "pc x",
    ⟨"R", "t", none, "x", none⟩, by decide, by decide⟩

/-! non-vacuity -/
example : resolvePasses (P := Nat) (T := String) Gen.providerOrder (fun _ => none) [("R.*", .custom 1)]
    ⟨[("w", "builtin w")], fun _ => true⟩ ⟨"R", "t", none, "w", none⟩
    [fun _ => .postponed, fun _ => .nothing, fun _ => .found "never"] =
    ([.user 1, .user 1], .bound "builtin w") := by decide
example : resolveRef (P := Nat) (T := String) Gen.providerOrder (fun _ => none) [("R.*", .custom 1)]
    ⟨[("w", "builtin w")], fun _ => false⟩ (fun _ => .nothing) ⟨"R", "t", none, "w", none⟩ =
    ([.user 1], .unknown) := by decide
example : select (P := Nat) (T := String) Gen.providerOrder
    [("*.*", .custom 0), ("R.*", .custom 1), ("*.t", .custom 2)] "R" "t" none = .custom 2 := by decide
example : select (P := Nat) (T := String) Gen.providerOrder
    [("*.*", .custom 0), ("R.*", .custom 1), ("Q.t", .custom 2)] "R" "t" none = .custom 1 := by decide
example : select (P := Nat) (T := String) Gen.providerOrder
    [("Q.t", .custom 2)] "R" "t" none = .default := by decide
example : select (P := Nat) (T := String) Gen.providerOrder
    (register id [("*.*", .prov 0), ("R.t", .str "^x")]) "R" "t" none =
    select Gen.providerOrder [("R.t", .custom 5)] "R" "t" (some "^x") := by decide

/- `*.*` bound to one string serves `t=[A|FQN]` and `u=[A|PATH]` (`PATH[split='/']`) of one rule -/
example : run (P := Nat) (T := String) Gen.providerOrder (fun _ => none) id []
    [⟨some [("*.*", .str "pa")], [⟨"R", "t", none, "a.b", none⟩, ⟨"R", "u", none, "a/b", some "/"⟩]⟩,
     ⟨none, [⟨"R", "u", none, "c/d", some "/"⟩, ⟨"R", "t", some "pb", "c::d", some "::"⟩]⟩] =
    [[.find "pa" "." ("a.b".splitOn "."), .find "pa" "/" ("a/b".splitOn "/")],
     [.find "pa" "/" ("c/d".splitOn "/"), .find "pb" "::" ("c::d".splitOn "::")]] := by
  simp [run, callOf, register, convert, select, Gen.providerOrder, KeyExpr.eval, Piece.eval, lookupLoop, Dict.get?,
    RrelObj.call, delimiter]
example : callOf (P := Nat) (T := String) Gen.providerOrder
    (fun n => if n = 0 then some ⟨"pe", some "."⟩ else none)
    [("R.*", .custom 0), ("*.*", .custom 1)] ⟨"R", "u", none, "a/b.c", some "/"⟩ =
    .find "pe" "." ("a/b.c".splitOn ".") := by
  simp [callOf, select, Gen.providerOrder, KeyExpr.eval, Piece.eval, lookupLoop, Dict.get?, RrelObj.call, delimiter]

/- `hk`, `hp` of `C32_perm_indep`: the same dict built in another order -/
example : (([("*.*", .prov 0), ("R.t", .str "^x"), ("*.t", .prov 1)] : List (String × RegVal Nat)).map (·.1)).Nodup := by
  decide
example : ([("R.t", .str "^x"), ("*.t", .prov 1), ("*.*", .prov 0)] : List (String × RegVal Nat)).Perm
    [("*.*", .prov 0), ("R.t", .str "^x"), ("*.t", .prov 1)] := by decide
/- the stores for `'a' t=[A|ID|x] | 'b' u=[A] | 'c' t=[A]`: repaired and pinned read of the first reference -/
example : refRrel (visit true [⟨"t", some "x"⟩, ⟨"u", none⟩, ⟨"t", none⟩]) 0 "t" = some "x" := by decide
example : refRrel (visit false [⟨"t", some "x"⟩, ⟨"u", none⟩, ⟨"t", none⟩]) 0 "t" = none := by decide
example : refRrel (visit true [⟨"t", none⟩, ⟨"u", none⟩, ⟨"t", some "y"⟩]) 0 "t" = none := by decide
example : refRrel (visit false [⟨"t", none⟩, ⟨"u", none⟩, ⟨"t", some "y"⟩]) 0 "t" = some "y" := by decide

end Select
