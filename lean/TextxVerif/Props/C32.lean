import TextxVerif.Proofs.Select
import TextxVerif.Gen.ProviderOrder
/-!
# C32 — scope provider selection follows the documented precedence

Model: `Select.select` (TextxVerif/Select.lean) mirrors the provider lookup of
`ReferenceResolver.resolve_one_step`; the order of the four lookup keys is
`Gen.providerOrder`, regenerated from the source list expression on every run,
so these theorems are re-checked against the order the code uses *now*.
`Select.register` mirrors `register_scope_providers` (strings → RREL providers),
`Select.occRrel` the per-reference RREL of the grammar (after the `fix:`).

All theorems hold for every registration dictionary (any number of entries, any
keys — not only subsets of the four), every rule and attribute name, every
provider type `P` and RREL tree type `T`.
-/
namespace Select

variable {P T : Type}

/-- the four documented keys for a reference `cls.attr`, in documented order -/
def documentedKeys (cls attr : String) : List String :=
  [cls ++ "." ++ attr, "*." ++ attr, cls ++ ".*", "*.*"]

/-- **Tie to the source.** The list expression in `resolve_one_step` evaluates,
for every class and attribute name, to the four documented keys in the
documented order. -/
theorem C32_keys (cls attr : String) :
    Gen.providerOrder.map (·.eval cls attr) = documentedKeys cls attr := by
  simp [Gen.providerOrder, documentedKeys, KeyExpr.eval, Piece.eval]

/-- **Precedence.** The provider called for a reference is the RREL expression
written in the grammar if there is one; otherwise the entry registered under
`Rule.attr`, else under `*.attr`, else under `Rule.*`, else under `*.*`, else
the default provider.  (All 2⁴ × 2 presence patterns are the branches of this
decision table; `d` is an arbitrary dictionary.) -/
theorem C32_precedence (d : Dict P T) (cls attr : String) (g : Option T) :
    select Gen.providerOrder d cls attr g =
      match g with
      | some t => .rrel t
      | none =>
        match d.get? (cls ++ "." ++ attr) with
        | some p => p
        | none =>
          match d.get? ("*." ++ attr) with
          | some p => p
          | none =>
            match d.get? (cls ++ ".*") with
            | some p => p
            | none =>
              match d.get? "*.*" with
              | some p => p
              | none => .default := by
  cases g with
  | some t => rfl
  | none =>
    simp only [select, C32_keys, documentedKeys, lookupLoop]
    cases d.get? (cls ++ "." ++ attr) <;> cases d.get? ("*." ++ attr) <;>
      cases d.get? (cls ++ ".*") <;> cases d.get? "*.*" <;> rfl

/-- **First registered** (order-free wording): without a grammar RREL, provider
`p` is selected from the dictionary exactly when it is registered under the
`i`-th documented key and no earlier documented key is registered; the default
provider is used exactly when none of the four keys is registered. -/
theorem C32_first_registered (d : Dict P T) (cls attr : String) :
    (∀ p, lookupLoop d (Gen.providerOrder.map (·.eval cls attr)) = some p ↔
        ∃ i, ∃ h : i < (documentedKeys cls attr).length,
          d.get? (documentedKeys cls attr)[i] = some p ∧
          ∀ j, (hj : j < i) → d.get? ((documentedKeys cls attr)[j]'(by omega)) = none) ∧
    (lookupLoop d (Gen.providerOrder.map (·.eval cls attr)) = none ↔
        ∀ k, k ∈ documentedKeys cls attr → d.get? k = none) := by
  rw [C32_keys]
  exact ⟨fun p => lookupLoop_some d _ p, lookupLoop_none d _⟩

/-- **Frame.** Only the four documented keys matter: registrations under any
other key (other rules, other attributes, base rules, …) never change which
provider a reference gets. -/
theorem C32_frame (d d' : Dict P T) (cls attr : String) (g : Option T)
    (h : ∀ k, k ∈ documentedKeys cls attr → d.get? k = d'.get? k) :
    select Gen.providerOrder d cls attr g = select Gen.providerOrder d' cls attr g := by
  cases g with
  | some t => rfl
  | none =>
    simp only [select]
    rw [lookupLoop_congr d d' _ (by rw [C32_keys]; exact h)]

/-- **Grammar RREL wins**, whatever is registered. -/
theorem C32_grammar_rrel (d : Dict P T) (cls attr : String) (t : T) :
    select Gen.providerOrder d cls attr (some t) = .rrel t := rfl

/-- **RREL strings.** Let `raw` be the dictionary handed to
`register_scope_providers`, and let the first registered documented key of a
reference be bound to the *string* `s`.  Then the reference gets the same
provider as with nothing relevant registered and `s` written in the grammar
(`parse` is the RREL parser both routes use). -/
theorem C32_rrel_string_same (parse : String → T) (raw : List (String × RegVal P))
    (d' : Dict P T) (cls attr s : String)
    (i : Nat) (hi : i < (documentedKeys cls attr).length)
    (hreg : raw.lookup (documentedKeys cls attr)[i] = some (.str s))
    (hfirst : ∀ j, (hj : j < i) → raw.lookup ((documentedKeys cls attr)[j]'(by omega)) = none) :
    select Gen.providerOrder (register parse raw) cls attr none =
      select Gen.providerOrder d' cls attr (some (parse s)) := by
  have h : lookupLoop (register parse raw) (Gen.providerOrder.map (·.eval cls attr)) =
      some (.rrel (parse s)) := by
    rw [C32_keys, lookupLoop_some]
    refine ⟨i, hi, by simp [get?_register, hreg, convert], ?_⟩
    intro j hj
    simp [get?_register, hfirst j hj]
  simp [select, h]

/-- a registered provider *object* is called as it is (never re-interpreted) -/
theorem C32_object_kept (parse : String → T) (raw : List (String × RegVal P)) (k : String) (p : P)
    (h : raw.lookup k = some (.prov p)) : Dict.get? (register parse raw) k = some (.custom p) := by
  simp [get?_register, h, convert]

/-- **Per reference.** With the repaired grammar visitor a reference written
with an RREL expression is resolved by it, wherever else the attribute is
assigned in the rule. -/
theorem C32_occurrence (occs : List (Occ T)) (i : Nat) (o : Occ T) (t : T) (d : Dict P T) (cls : String)
    (hi : occs[i]? = some o) (hr : o.rrel = some t) :
    select Gen.providerOrder d cls o.attr (occRrel occs i) = .rrel t := by
  simp [occRrel, hi, hr, select]

/-- The pinned visitor (one RREL per attribute, last assignment wins) breaks
this: `'r' t=[A|ID|x] | 'q' t=[A]` resolves the first reference by `*.*`. -/
theorem C32_lastwins_false :
    ∃ (occs : List (Occ String)) (i : Nat) (o : Occ String) (t : String) (d : Dict Nat String),
      occs[i]? = some o ∧ o.rrel = some t ∧
      select Gen.providerOrder d "R" o.attr (occRrelLastWins occs i) ≠ .rrel t :=
  ⟨[⟨"t", some "x"⟩, ⟨"t", none⟩], 0, ⟨"t", some "x"⟩, "x", [("*.*", .custom 7)],
    rfl, rfl, by decide⟩

/-! non-vacuity -/
example : select (P := Nat) (T := String) Gen.providerOrder
    [("*.*", .custom 0), ("R.*", .custom 1), ("*.t", .custom 2)] "R" "t" none = .custom 2 := by decide
example : select (P := Nat) (T := String) Gen.providerOrder
    [("*.*", .custom 0), ("R.*", .custom 1), ("Q.t", .custom 2)] "R" "t" none = .custom 1 := by decide
example : select (P := Nat) (T := String) Gen.providerOrder
    [("Q.t", .custom 2)] "R" "t" none = .default := by decide
example : select (P := Nat) (T := String) Gen.providerOrder
    (register id [("*.*", .prov 0), ("R.t", .str "^x")]) "R" "t" none =
    select Gen.providerOrder [("R.t", .custom 5)] "R" "t" (some "^x") := by decide

end Select
