import TextxVerif.Proofs.MultStore
import TextxVerif.Proofs.MultAccepts
import TextxVerif.Proofs.TxMult
import TextxVerif.Proofs.MultRef
/-!
# C02 — assignments never lose, duplicate or reorder matched values

Model (`TextxVerif/Mult.lean`): `infer` = the grammar visitor's operator base
multiplicities (`visit`) followed by the repaired `_update_attr_multiplicities`
walk (`walk`); `count` = how many values one object can collect for an attribute
(the property's reading: sequence and `#` add, choice takes the maximum, `?`
keeps, repetitions and `*= +=` mean many); `Events b` = every sequence of
assignment events a parse of the rule body `b` can perform on one object;
`store` = the assignment branch of `process_node` with its truthiness based
"Multiple assignments" test, started from `initHeap` = `_init_obj_attrs`.

All theorems quantify over every rule body (any nesting of sequence, ordered
choice, optional, repetition, unordered group, the four assignment operators),
every trace of it, every value type `V` and every truthiness function on it —
falsy values (`0`, `""`, `False`) are just values `v` with `truthy v = false`.
-/
namespace Mult

variable {V : Type}

/-- **Static half, syntactic form.**  The inferred multiplicity of `a` is a list
multiplicity exactly when the count of `a` over the rule body is "many". -/
theorem C02_list_iff (b : Body) (a : Attr) : isList b a = true ↔ count a b = .many :=
  isList_iff_count b a

/-- **Static half, semantic form.**  An attribute is a list exactly when one object
can collect more than one value for it: some assignment trace of the body matches
at least two values for `a`.  (`b.wf`: no ordered choice without alternatives —
such a body has no trace at all.) -/
theorem C02_list_iff_collect [Inhabited V] (b : Body) (hwf : b.wf = true) (a : Attr) :
    isList b a = true ↔ ∃ t : List (Ev V), Events b t ∧ 2 ≤ nvals a t := by
  rw [C02_list_iff]
  constructor
  · intro hc
    obtain ⟨t, ht, hn⟩ := events_witness (V := V) a b hwf
    rw [hc] at hn
    exact ⟨t, ht, hn⟩
  · rintro ⟨t, ht, hn⟩
    have h1 := two_le_tw_of_nvals a t hn
    have h2 := events_le a b t ht
    exact Cnt.eq_many_iff.mpr (by omega)

/-- **Single-valued inference is sound.**  If `a` is inferred single-valued then no
parse can match a second value for it, nor run a list assignment on it. -/
theorem C02_scalar_once (b : Body) (a : Attr) (h : isList b a = false) (t : List (Ev V))
    (ht : Events b t) : nvals a t ≤ 1 ∧ tw a t ≤ 1 := by
  have hc : count a b ≠ .many := fun hc => by
    rw [(C02_list_iff b a).mpr hc] at h; cases h
  have h2 := events_le a b t ht
  have h3 : (count a b).toNat ≤ 1 := by cases hcb : count a b <;> simp_all [Cnt.toNat]
  have h4 : tw a t ≤ 1 := by omega
  refine ⟨?_, h4⟩
  by_cases hn : 2 ≤ nvals a t
  · have := two_le_tw_of_nvals a t hn; omega
  · omega

/-- **Dynamic half.**  For an accepted grammar, any trace `t` of the rule body and
*every prefix* `t1` of it (the moment after any assignment), building the object
from its defaults never raises "Multiple assignments" (nor anything else), and
the object then holds exactly the values matched so far: a list attribute all of
them in input order, a single-valued attribute its one value — or still its
default if nothing was matched for it.  Defaults are Python-falsy (`None`, `0`,
`""`, `False`); values are arbitrary, falsy ones included. -/
theorem C02_store (truthy : V → Bool) (b : Body) (hacc : accepted b = true)
    (dflt : Attr → Slot V) (hd : ∀ a, Falsy truthy (dflt a))
    (t : List (Ev V)) (ht : Events b t) (t1 t2 : List (Ev V)) (hsplit : t = t1 ++ t2) :
    ∃ h, store truthy (initHeap (multOf b) dflt) t1 = .ok h ∧ Stored (multOf b) dflt t1 h := by
  have hk : WellKinded (multOf b) ([] ++ t1) := by
    have := events_wellKinded b hacc t ht
    rw [hsplit] at this
    simpa using this.prefix
  simpa using store_stored truthy (multOf b) dflt hd t1 [] _ (initHeap_stored _ _) hk

/-- **Nothing is lost or overwritten.**  Every value matched for `a` by the time of
any prefix `t1` is still in the finished object, and the finished object holds for
`a` exactly the matched values, each once, in input order. -/
theorem C02_no_overwrite (truthy : V → Bool) (b : Body) (hacc : accepted b = true)
    (dflt : Attr → Slot V) (hd : ∀ a, Falsy truthy (dflt a))
    (t : List (Ev V)) (ht : Events b t) :
    ∃ h, store truthy (initHeap (multOf b) dflt) t = .ok h ∧
      ∀ a, (valsOf a t ≠ [] → (h a).vals = valsOf a t) ∧
           (valsOf a t = [] → h a = initHeap (multOf b) dflt a) ∧
           (∀ t1 t2, t = t1 ++ t2 → ∀ v ∈ valsOf a t1, v ∈ (h a).vals) := by
  obtain ⟨h, hs, hst⟩ := C02_store truthy b hacc dflt hd t ht t [] (by simp)
  refine ⟨h, hs, fun a => ?_⟩
  have key : valsOf a t ≠ [] → (h a).vals = valsOf a t := by
    intro hne
    cases hm : (multOf b a).isMany with
    | true => rw [(hst a).1 hm]; rfl
    | false =>
        rcases (hst a).2 hm with ⟨h1, _⟩ | ⟨v, h1, h2⟩
        · exact absurd h1 hne
        · rw [h2, h1]; rfl
  refine ⟨key, ?_, ?_⟩
  · intro he
    cases hm : (multOf b a).isMany with
    | true => rw [(hst a).1 hm, he]; simp [initHeap, hm]
    | false =>
        rcases (hst a).2 hm with ⟨_, h2⟩ | ⟨v, h1, _⟩
        · rw [h2]; simp [initHeap, hm]
        · rw [he] at h1; cases h1
  · intro t1 t2 e v hv
    have hmem : v ∈ valsOf a t := by rw [e, valsOf_append]; simp [hv]
    rw [key (fun h0 => by rw [h0] at hmem; cases hmem)]
    exact hmem

/-- **Tie to observed parses.**  The driver's executable matcher decides membership
in `Events`; the harness runs it on the assignment trace of every object of every
real parse, so the theorems above apply to the traces Arpeggio really produces. -/
theorem C02_accepts_iff (b : Body) (t : List (Ev V)) : accepts b t = true ↔ Events b t :=
  accepts_iff b t

/-! ### the pinned behaviour before the repairs -/

/-- `a=INT (a=INT | b=INT)` -/
def witness : Body := .seq [.asgn 0 .plain, .choice [.asgn 0 .plain, .asgn 1 .plain]]

/-- Python truthiness of an `int` -/
def truthyNat (n : Nat) : Bool := n != 0

/-- The unrepaired walk (branch set reset per alternative, never merged back)
infers `a` single-valued although it can collect two values; on input `1 2` the
object construction then raises "Multiple assignments", and on `0 2` the first
value is silently overwritten. -/
theorem C02_unrepaired_false :
    isListOld witness 0 = false ∧ count 0 witness = .many ∧
    Events witness [Ev.plain 0 1, Ev.plain 0 2] ∧
    peek (store truthyNat (initHeap (fun _ => M.one) (fun _ => Slot.scalar 0)) [Ev.plain 0 1, Ev.plain 0 2]) [0]
      = .inl .multAssign ∧
    peek (store truthyNat (initHeap (fun _ => M.one) (fun _ => Slot.scalar 0)) [Ev.plain 0 0, Ev.plain 0 2]) [0]
      = .inr [Slot.scalar 2] := by
  refine ⟨by decide, by decide, (C02_accepts_iff _ _).mp (by decide), by decide, by decide⟩

/-- The repaired walk gets the witness right. -/
example : isList witness 0 = true ∧ isList witness 1 = false := by decide

/-- `a?='x' a=INT`: without the grammar-level rejection the attribute is inferred
as a list, the `?=` event overwrites the list with `True` and the plain assignment
raises "Multiple assignments" — so `accepted` is a necessary hypothesis of
`C02_store`, and the repaired visitor rejects this grammar. -/
theorem C02_bool_then_plain_rejected :
    let b : Body := .seq [.asgn 0 .bool, .asgn 0 .plain]
    accepted b = false ∧ isList b 0 = true ∧
    Events b [Ev.bool 0 1, Ev.plain 0 5] ∧
    peek (store truthyNat (initHeap (multOf b) (fun _ => Slot.none)) [Ev.bool 0 1, Ev.plain 0 5]) [0]
      = .inl .multAssign := by
  refine ⟨by decide, by decide, (C02_accepts_iff _ _).mp (by decide), by decide⟩

/-! ### non-vacuity -/

/-- `('k' a=INT)* (b?='x' c+=INT | c=INT d=INT)# a=INT` -/
def sample : Body :=
  .seq [.rep false (.seq [.leaf, .asgn 0 .plain]),
        .unordered [.choice [.seq [.asgn 1 .bool, .asgn 2 .plus], .seq [.asgn 2 .plain, .asgn 3 .plain]]],
        .asgn 0 .plain]

/-- a trace with falsy values: `a=0 a=0 | c=0 d=7 | a=5` -/
def sampleTrace : List (Ev Nat) :=
  [.plain 0 0, .plain 0 0, .plain 2 0, .plain 3 7, .plain 0 5]

example : accepted sample = true ∧ sample.wf = true := by decide
example : Events sample sampleTrace := (C02_accepts_iff _ _).mp (by decide)
example : isList sample 0 = true ∧ isList sample 1 = false ∧ isList sample 2 = true ∧ isList sample 3 = false := by
  decide
/-- the conclusion of `C02_store` on the sample, computed -/
example :
    peek (store truthyNat (initHeap (multOf sample) (fun _ => Slot.scalar 0)) sampleTrace) [0, 1, 2, 3]
      = .inr [.list [0, 0, 5], .scalar 0, .list [0], .scalar 7] := by decide

/-! ### list assignment nodes with separator matches (`attr+=X[sep]`, `attr*=X[sep]`) -/

/-- **Dynamic half on the raw parse tree nodes.**  `t` are the `__asgn_*` nodes of one
object as Arpeggio built them — a list assignment node with *all* its children, value
nodes and separator nodes in whatever arrangement — and `Raw.ev` reads off each node the
values of the children not made by the node's separator match.  If these events are a
trace of the rule body, `process_node` over the raw nodes (`storeRaw`, the loop that
skips separator children where they stand) never fails, and after every prefix the
object holds exactly the values of the non-separator children matched so far, each
once, in input order. -/
theorem C02_store_raw (truthy : V → Bool) (b : Body) (hacc : accepted b = true)
    (dflt : Attr → Slot V) (hd : ∀ a, Falsy truthy (dflt a))
    (t : List (Raw V)) (ht : Events b (t.map Raw.ev)) (t1 t2 : List (Raw V)) (hsplit : t = t1 ++ t2) :
    ∃ h, storeRaw truthy (initHeap (multOf b) dflt) t1 = .ok h ∧
      Stored (multOf b) dflt (t1.map Raw.ev) h := by
  rw [storeRaw_eq]
  exact C02_store truthy b hacc dflt hd (t.map Raw.ev) ht (t1.map Raw.ev) (t2.map Raw.ev)
    (by rw [hsplit, List.map_append])

/-- **No separator is stored, no value is skipped.**  A list assignment node whose
children were made by the value expression `r` or by the separator match `s` (two
different parsing expressions), interleaved in *any* way — a separator that matched
the empty string leaves no node, one matched before a failing value stays as a
trailing node, so the two kinds need not alternate: the loop appends to the list
exactly the values of the `r` children, in input order, and touches nothing else. -/
theorem C02_list_node (a : Attr) (r s : Nat) (hrs : r ≠ s) (ks : List (Kid V))
    (hshape : ∀ k ∈ ks, k.rule = r ∨ k.rule = s) (h : Heap V) (xs : List V) (hl : h a = .list xs) :
    ∃ h', storeKids h a (some s) ks = .ok h' ∧
      h' a = .list (xs ++ (ks.filter (fun k => k.rule == r)).map Kid.val) ∧
      ∀ c, c ≠ a → h' c = h c := by
  rw [storeKids_eq, kidVals_of_shape r s hrs ks hshape]
  exact storeList_list a _ h xs hl

/-- Without a separator modifier every child is a value — also the children made by
a grammar rule that happens to be called `sep`. -/
theorem C02_list_node_nosep (a : Attr) (ks : List (Kid V)) (h : Heap V) (xs : List V)
    (hl : h a = .list xs) :
    ∃ h', storeKids h a none ks = .ok h' ∧ h' a = .list (xs ++ ks.map Kid.val) ∧
      ∀ c, c ≠ a → h' c = h c := by
  rw [storeKids_eq, kidVals_none]
  exact storeList_list a _ h xs hl

/-- Telling separators by their *place* (every second child) is wrong: `a+=INT[/,?/]` on
`1, 2 3, 4` has the children `1 , 2 3 , 4` (value expression 0, separator match 1, the
separator text shown as 99): by place the list is `[1, 2, ","]`, and `0 5` gives `[0]`. -/
theorem C02_sep_by_place_false :
    let ks : List (Kid Nat) := [⟨0, 1⟩, ⟨1, 99⟩, ⟨0, 2⟩, ⟨0, 3⟩, ⟨1, 99⟩, ⟨0, 4⟩]
    kidVals (some 1) ks = [1, 2, 3, 4] ∧ kidValsByPlace (some 1) ks = [1, 2, 99] ∧
    kidVals (some 1) [(⟨0, 0⟩ : Kid Nat), ⟨0, 5⟩] = [0, 5] ∧
    kidValsByPlace (some 1) [(⟨0, 0⟩ : Kid Nat), ⟨0, 5⟩] = [0] := by decide

/-- the conclusion of `C02_store_raw` computed: `c+=INT[',']` with a trailing separator
node, then `a=INT` -/
example :
    peek (storeRaw truthyNat (initHeap (multOf sample) (fun _ => Slot.scalar 0))
      [.list 2 true (some 1) [⟨0, 0⟩, ⟨1, 99⟩, ⟨0, 7⟩, ⟨1, 99⟩], .plain 0 5]) [0, 2]
      = .inr [.list [5], .list [0, 7]] := by decide

/-! ### the rule level: rule modifiers and the root wrapper of `visit_textx_rule` -/

/-- **Rule modifiers change nothing.**  Whatever the body is and whether or not the rule
carries modifiers (`[skipws]`, `[noskipws]`, `[ws=…]`, `[split=…]`), the root parsing
expression `visit_textx_rule` builds (the body itself, or the one-element sequence
wrapped around a lone assignment / around a non-sequence body of a rule with modifiers)
gets the same inference result, has the same counts and the same traces as the body. -/
theorem C02_rule_root (r : Rule) :
    infer r.root = infer r.body ∧ (∀ a, count a r.root = count a r.body) ∧
    ∀ t : List (Ev V), Events r.root t ↔ Events r.body t := by
  unfold Rule.root
  split
  · refine ⟨?_, ?_, ?_⟩
    · simp [infer, asgns, asgnsL, walk, walkSeq]
    · intro a
      simp only [count, countSum]
      cases count a r.body <;> rfl
    · intro t
      simp [Events, EventsSeq]
  · exact ⟨rfl, fun _ => rfl, fun _ => Iff.rfl⟩

/-- **Static half for rules.**  With or without rule modifiers, an attribute of the rule's
class is a list exactly when the count over the rule body is "many" — equivalently
(`C02_list_iff_collect`) when some parse of the body collects two values for it. -/
theorem C02_rule_list_iff (r : Rule) (a : Attr) :
    isList r.root a = true ↔ count a r.body = .many := by
  rw [C02_list_iff, (C02_rule_root (V := Unit) r).2.1]

theorem C02_rule_list_iff_collect [Inhabited V] (r : Rule) (hwf : r.body.wf = true) (a : Attr) :
    isList r.root a = true ↔ ∃ t : List (Ev V), Events r.body t ∧ 2 ≤ nvals a t := by
  rw [C02_rule_list_iff]
  exact (C02_list_iff r.body a).symm.trans (C02_list_iff_collect (V := V) r.body hwf a)

/-- **Dynamic half for rules.**  The object of a rule (with or without modifiers) whose
grammar is accepted is built from any trace of the rule *body* without an error, and
after every prefix holds exactly the values matched so far (as `C02_store_raw`), under
the multiplicities inferred from the rule's root expression. -/
theorem C02_rule_store_raw (truthy : V → Bool) (r : Rule) (hacc : accepted r.root = true)
    (dflt : Attr → Slot V) (hd : ∀ a, Falsy truthy (dflt a))
    (t : List (Raw V)) (ht : Events r.body (t.map Raw.ev)) (t1 t2 : List (Raw V)) (hsplit : t = t1 ++ t2) :
    ∃ h, storeRaw truthy (initHeap (multOf r.root) dflt) t1 = .ok h ∧
      Stored (multOf r.root) dflt (t1.map Raw.ev) h :=
  C02_store_raw truthy r.root hacc dflt hd t (((C02_rule_root r).2.2 _).mpr ht) t1 t2 hsplit

/-- `Nums[skipws]: ('n' a=INT)+;` — the body of a rule with modifiers that is one repetition -/
def modWitness : Rule := ⟨true, .rep true (.seq [.leaf, .asgn 0 .plain])⟩

/-- Skipping the walk for a one-element root sequence ("the wrapper of a lone assignment")
is wrong: the same wrapper is made for a rule with modifiers whose body is one repetition
(or optional / unordered group).  `a` then stays single-valued although it can collect many
values; `n 1 n 2` raises "Multiple assignments" and on `n 0 n 7` the `0` is overwritten.
The code (which walks every root) infers a list. -/
theorem C02_skip_single_root_false :
    modWitness.root = .seq [modWitness.body] ∧
    ((inferSkipSingle modWitness.root).mult 0).isMany = false ∧ count 0 modWitness.body = .many ∧
    isList modWitness.root 0 = true ∧
    Events modWitness.body [Ev.plain 0 1, Ev.plain 0 2] ∧
    peek (store truthyNat (initHeap (inferSkipSingle modWitness.root).mult (fun _ => Slot.scalar 0))
      [Ev.plain 0 1, Ev.plain 0 2]) [0] = .inl .multAssign ∧
    peek (store truthyNat (initHeap (inferSkipSingle modWitness.root).mult (fun _ => Slot.scalar 0))
      [Ev.plain 0 0, Ev.plain 0 7]) [0] = .inr [Slot.scalar 7] ∧
    peek (store truthyNat (initHeap (multOf modWitness.root) (fun _ => Slot.scalar 0))
      [Ev.plain 0 0, Ev.plain 0 7]) [0] = .inr [Slot.list [0, 7]] := by
  refine ⟨rfl, by decide, by decide, by decide, (C02_accepts_iff _ _).mp (by decide),
    by decide, by decide, by decide⟩

/-- the wrapper is also made for a lone assignment and never for a sequence or choice body -/
example : (Rule.mk false (.asgn 0 .plain)).root = .seq [.asgn 0 .plain] ∧
    (Rule.mk true (.unordered [.asgn 0 .plain, .asgn 0 .plain])).root
      = .seq [.unordered [.asgn 0 .plain, .asgn 0 .plain]] ∧
    (Rule.mk true (.choice [.asgn 0 .plain, .asgn 1 .plain])).root = .choice [.asgn 0 .plain, .asgn 1 .plain] ∧
    (Rule.mk false (.rep true (.asgn 0 .plain))).root = .rep true (.asgn 0 .plain) := ⟨rfl, rfl, rfl, rfl⟩

end Mult

/-! ## Bridge to the compiler mirror of C01 (`Tx.compile`, tied to `TextXVisitor` on every C01 run)

`Mult.walk` and `Tx.walk true` are two independently written mirrors of `_update_attr_multiplicities`
(attributes numbered / by name, rejection flag / exception).  `Tx.Bridge.toBody idx` maps a textX
expression to the `Mult.Body` it stands for (`idx`: any injective numbering of attribute names). -/
namespace Tx
open Tx.Bridge

/-- **The two mirrors of the multiplicity walk agree.**  From related states (`WR`: same branch set, same
multiplicities, nothing rejected), whenever `Tx.walk true` does not raise, every attribute ends with the
multiplicity `Mult.walk` computes on the translated body — for every expression, inherited `mult` and state. -/
theorem C02_walk_bridge (idx : String → Nat) (hinj : ∀ a b, idx a = idx b → a = b) (e : Expr) (m : Tx.Mult)
    (st st' : WalkSt) (s : Mult.St) (hr : WR idx st s) (h : walk true e m st = .ok st') :
    WR idx st' (Mult.walk (toM m) (toBody idx e) s) ∧
    ∀ b ∈ st'.attrs, b.mult.many = ((Mult.walk (toM m) (toBody idx e) s).mult (idx b.name)).isMany := by
  have hw := walk_sim idx hinj e m st st' s hr h
  refine ⟨hw, fun b hb => ?_⟩
  rw [← hw.mult b hb, toM_many]

/-- …and so do the whole first passes: the class `Tx.ruleClass true` builds for a rule has exactly the
multiplicities `Mult.infer` computes for the translated body. -/
theorem C02_ruleClass_bridge (idx : String → Nat) (hinj : ∀ a b, idx a = idx b → a = b) (r : Rule) (cls : Cls)
    (h : ruleClass true r = .ok cls) (b : Attr) (hb : b ∈ cls.attrs) :
    toM b.mult = Mult.multOf (toBody idx r.body) (idx b.name) :=
  ruleClass_mult idx hinj r cls h b hb

/-- **Static half on the compiler mirror**: an attribute of the class built for rule `r` is a list exactly
when the count of the documented semantics (`Sem.count`, on the grammar as written) is "many". -/
theorem C02_ruleClass_list_iff (r : Rule) (cls : Cls) (h : ruleClass true r = .ok cls) (b : Attr) (hb : b ∈ cls.attrs) :
    b.mult.many = true ↔ Sem.count b.name r.body = .many :=
  ruleClass_list_iff r cls h b hb

/-- **Static half on the compiled metamodel**: for every grammar `Tx.compile` accepts and every rule of it, the
metamodel has a class of that name and each attribute of it is a list exactly when one object can collect more
than one value for it (count "many" over the rule body as written). -/
theorem C02_compile_list_iff (g : Gram) (c : Compiled) (hc : compile g = .ok c) (r : Rule) (hr : r ∈ g.rules) :
    ∃ cls ∈ c.classes, cls.name = r.name ∧
      ∀ b ∈ cls.attrs, (b.mult.many = true ↔ Sem.count b.name r.body = .many) :=
  compile_list_iff g c hc r hr

/-- **The rule root of `Mult` is the root the compiler mirror builds**: `Mult.Rule.root` wraps the translated
body exactly when `Tx.Rule.wrapped` (compared with the real parser model on every C01 run) says so. -/
theorem C02_rule_root_bridge (idx : String → Nat) (r : Rule) :
    Mult.Rule.root ⟨r.hasParams, toBody idx r.body⟩ =
      if r.wrapped then .seq [toBody idx r.body] else toBody idx r.body := by
  unfold Mult.Rule.root Rule.wrapped
  cases hb : r.body with
  | rep op x sep eol sup => cases op <;> cases hp : r.hasParams <;> simp [toBody, Mult.Body.isAsgn, Mult.Body.isSeq]
  | _ => cases hp : r.hasParams <;> simp [toBody, Mult.Body.isAsgn, Mult.Body.isSeq]

/-- `Model: a=INT (a=INT | b=INT);` -/
def bridgeWitness : Rule :=
  { name := "Model", body := .seq [.asgn "a" .plain (.ref "INT" false) none false false,
      .alt [.asgn "a" .plain (.ref "INT" false) none false false,
            .asgn "b" .plain (.ref "INT" false) none false false] false] false }

/-- does some attribute of the class the *pinned* walk builds disagree with the count? -/
def pinnedDisagrees (r : Rule) : Bool :=
  match ruleClass false r with
  | .ok cls => cls.attrs.any fun b => b.mult.many != (Sem.count b.name r.body == .many)
  | .error _ => false

/-- The pinned walk (`Tx.walk false`: an ordered choice resets the branch set) does not satisfy
`C02_ruleClass_list_iff`: on `a=INT (a=INT | b=INT)` it leaves `a` single-valued although the count is "many". -/
theorem C02_tx_pinned_walk_false : pinnedDisagrees bridgeWitness = true := by decide

/-- non-vacuity: the witness rule is accepted by the first pass of the code as it is, `a` is a list there;
`code` is an injective numbering; the related start states exist -/
example : (match ruleClass true bridgeWitness with
    | .ok cls => cls.attrs.map fun b => (b.name, b.mult.many)
    | .error _ => []) = [("a", true), ("b", false)] := by decide
example : ∀ a b, code a = code b → a = b := code_inj
example (idx : String → Nat) : WR idx { attrs := [], set := [] } { seen := [], mult := fun _ => .one, rej := false } :=
  ⟨by simp, by simp, rfl⟩
example : (match compile { rules := [bridgeWitness] } with | .ok _ => true | .error _ => false) = true := by
  decide +kernel

end Tx


/-! ## Reference-valued attributes (`a+=[X]`, `a=[X]` below a repetition, …)

`process_node` stores nothing for them; the values reach the list in `ReferenceResolver.resolve_one_step`,
one by one, in whatever order the scope providers stop answering `Postponed` (`Mult.Ref`, model of the
per-list bookkeeping `_list_ref_positions` + `bisect` + `insert`). -/
namespace Mult.Ref

variable {V : Type}

/-- **References reach the list in input order, each exactly once, whatever the order of resolution.**
`refs` = the references one object matched for one list attribute, in input order (text positions strictly
increasing); `sched` = the same references in the order in which they get resolved — *any* permutation
(any history of `Postponed` answers over any number of resolution steps).  Then the attribute holds
exactly the values of `refs`, in that order, and the bookkeeping holds their positions.  (Applied to a
prefix of a schedule — the state after any resolution step — `refs` is what has been resolved so far.) -/
theorem C02_ref_any_order (refs sched : List (Nat × V))
    (hs : refs.Pairwise (fun a b => a.1 < b.1)) (hp : sched.Perm refs) :
    (resolveAll sched).vals = refs.map (·.2) ∧ (resolveAll sched).positions = refs.map (·.1) := by
  rw [resolveAll_pairs, pairs_eq refs sched hs hp]
  exact ⟨rfl, rfl⟩

/-- **… in particular for every history of `Postponed` answers.**  `refs` = (delay, position, value) in
input order: the scope provider answers `Postponed` in the first `delay` resolution steps.  The list ends
up as the values in input order. -/
theorem C02_ref_history (n : Nat) (refs : List (Nat × Nat × V))
    (hs : refs.Pairwise (fun a b => a.2.1 < b.2.1)) (hn : ∀ r ∈ refs, r.1 ≤ n) :
    (resolveAll (scheduleOf n refs)).vals = refs.map (·.2.2) := by
  have h := C02_ref_any_order (refs.map (·.2)) (scheduleOf n refs)
    (by simpa [List.pairwise_map] using hs) (scheduleOf_perm n refs hn)
  rw [h.1, List.map_map]
  rfl

/-- The seeded change C02-5 (fast path `append`, slow path without recording the position) is wrong: with
`a b c` at positions 0 1 2, `c` resolved in the first step and `a`, `b` postponed, the list ends up
`[b, a, c]`; the code gives `[a, b, c]`. -/
theorem C02_ref_stale_false :
    (resolveAllStale (scheduleOf 1 [(1, 0, 10), (1, 1, 11), (0, 2, 12)])).vals = [11, 10, 12]
    ∧ (resolveAll (scheduleOf 1 [(1, 0, 10), (1, 1, 11), (0, 2, 12)])).vals = [10, 11, 12] := by decide

/-- non-vacuity: a history with three steps -/
example : (resolveAll (scheduleOf 2 [(2, 0, "a"), (0, 3, "b"), (1, 5, "c"), (0, 9, "d")])).vals = ["a", "b", "c", "d"] := by
  decide

end Mult.Ref
