import TextxVerif.ProcLocate
import TextxVerif.Proofs.ProcRaise
import TextxVerif.Proofs.ProcMatch
/-!
# C33 — errors raised by processors carry the location of the processed text

Model: `Proc.outcome` (`TextxVerif/ProcLocate.lean`): `textxerror_wrap`, the
dispatch keyword arguments for object and match processors and the location
enrichment of `TextXMetaModel.process`.  The theorems hold for every dispatch
kind, every processed text (`Site`), wrapped or not, and every combination of
location attributes the processor sets itself.
-/
namespace Proc

/-- **Fill.** A `TextXError` raised without location leaves the load with the
model's file name, the line and column where the processed text starts and — for
object processors — `nchar` = its length; `textxerror_wrap` does not change that. -/
theorem C33_fill (k : PKind) (s : Site) (wrapped : Bool) :
    outcome k s wrapped (.textx ErrLoc.empty) = .textx (expected k s) := by
  cases k <;> cases wrapped <;> rfl

/-- **Keep supplied.** Every location attribute the processor set itself is kept;
every attribute it left unset is filled from the processed text. -/
theorem C33_keep_supplied (k : PKind) (s : Site) (wrapped : Bool) (l : ErrLoc) :
    ∃ l', outcome k s wrapped (.textx l) = .textx l' ∧
      l'.filename = orElse l.filename (expected k s).filename ∧
      l'.line = orElse l.line (expected k s).line ∧
      l'.col = orElse l.col (expected k s).col ∧
      l'.nchar = orElse l.nchar (expected k s).nchar := by
  cases k <;> cases wrapped <;> exact ⟨_, rfl, rfl, rfl, rfl, rfl⟩

theorem C33_keep_supplied_field (k : PKind) (s : Site) (wrapped : Bool) (l l' : ErrLoc)
    (h : outcome k s wrapped (.textx l) = .textx l') :
    (∀ x, l.filename = some x → l'.filename = some x) ∧ (∀ x, l.line = some x → l'.line = some x) ∧
    (∀ x, l.col = some x → l'.col = some x) ∧ (∀ x, l.nchar = some x → l'.nchar = some x) := by
  obtain ⟨l'', h1, hf, hl, hc, hn⟩ := C33_keep_supplied k s wrapped l
  rw [h1] at h
  cases h
  refine ⟨?_, ?_, ?_, ?_⟩ <;> intro x hx
  · rw [hf, hx]; rfl
  · rw [hl, hx]; rfl
  · rw [hc, hx]; rfl
  · rw [hn, hx]; rfl

/-- **Wrap.** Any other exception raised through `textxerror_wrap` becomes a
`TextXError` with the full location of the processed text — also for match
values, where the wrapper itself cannot determine a location and relies on the
enrichment. -/
theorem C33_wrap (k : PKind) (s : Site) :
    outcome k s true .other = .textx (expected k s) := by
  obtain ⟨f, l, c, n⟩ := s
  cases k <;> cases f <;> rfl

/-- without the wrapper a non-textX exception is passed through unchanged (the
property does not ask for more) -/
theorem C33_unwrapped_other (k : PKind) (s : Site) : outcome k s false .other = .other := by
  cases k <;> rfl

/-- a load that fails through a processor with a `TextXError`, or through a wrapped
processor, always fails with a *located* `TextXError`: file, line and column
are those of the processed text unless the processor chose others -/
theorem C33_located (k : PKind) (s : Site) (wrapped : Bool) (r : Raised) (h : wrapped = true ∨ r ≠ .other) :
    ∃ l', outcome k s wrapped r = .textx l' ∧ l'.line ≠ none ∧ l'.col ≠ none ∧
      (s.file ≠ none → l'.filename ≠ none) ∧ (k ≠ .mtch → l'.nchar ≠ none) := by
  cases r with
  | other =>
    rcases h with h | h
    · subst h
      exact ⟨_, C33_wrap k s, by simp [expected], by simp [expected], by simp [expected],
        by cases k <;> simp [expected]⟩
    · exact absurd rfl h
  | textx l =>
    obtain ⟨l', h1, hf, hl, hc, hn⟩ := C33_keep_supplied k s wrapped l
    refine ⟨l', h1, ?_, ?_, ?_, ?_⟩
    · rw [hl]; cases l.line <;> simp [orElse, expected]
    · rw [hc]; cases l.col <;> simp [orElse, expected]
    · intro hs; rw [hf]; cases l.filename <;> simp [orElse, expected, hs]
    · intro hk; rw [hn]; cases l.nchar <;> cases k <;> simp_all [orElse, expected]

/-- The pinned `process` (before the repair) violates the property: an object
processor's unlocated `TextXError` leaves without `nchar`. -/
theorem C33_pinned_nchar_false :
    ∃ (k : PKind) (s : Site), k ≠ .mtch ∧ outcomePinned k s false (.textx ErrLoc.empty) ≠ .textx (expected k s) :=
  ⟨.obj, ⟨none, 3, 4, 18⟩, by decide, by decide⟩

/-- On the pinned tree only the wrapper's own `get_location` call supplied `nchar`
(wrapped foreign exception on a model object) -/
example : outcomePinned .obj ⟨none, 3, 4, 18⟩ true .other = .textx ⟨none, some 3, some 4, some 18⟩ := by decide

/-! ## D13: the site tied to text offsets (`siteOf`) and to the walk (`walkE`)

`Site` is no longer only data handed in by the harness: `siteOf` computes it the
way `get_location` does — `pos_to_linecol` (Arpeggio, mirrored by
`LinkLoc.posToLineCol`) of `_tx_position` in the text of the object's model,
`_tx_position_end - _tx_position`, the model's file — and `walkE` determines *which*
object that is: the one the first raising processor call of the walk is made on. -/

/-- the located error the property asks for, in terms of the text: file of the
model, line and column (by reading the text up to the offset, `LinkLoc.lineColSpec`)
of the offset where the processed object or match starts, and — for object
processors — the length of the processed text -/
def expectedText (k : PKind) (file : Option Nat) (text : List Char) (pos posEnd : Nat) : ErrLoc :=
  ⟨file, some (LinkLoc.lineColSpec text pos).1, some (LinkLoc.lineColSpec text pos).2,
   match k with | .mtch => none | .obj => some (posEnd - pos)⟩

/-- **Site from text.** What `get_location` computes for an object that starts at
offset `pos` of `text` and ends at `posEnd` is the line / column obtained by
reading the text up to `pos`, and the length `posEnd - pos`. -/
theorem C33_site_text (file : Option Nat) (text : List Char) (pos posEnd : Nat) (h : pos ≤ text.length) :
    siteOf file text pos posEnd =
      ⟨file, (LinkLoc.lineColSpec text pos).1, (LinkLoc.lineColSpec text pos).2, posEnd - pos⟩ :=
  siteOf_spec file text pos posEnd h

/-- **Fill, in terms of the text.** An unlocated `TextXError` raised by a processor
on the text `[pos, posEnd)` of `text` leaves with the file, the line and column
where that text starts and (object processors) `nchar = posEnd - pos`. -/
theorem C33_fill_text (k : PKind) (file : Option Nat) (text : List Char) (pos posEnd : Nat) (wrapped : Bool)
    (h : pos ≤ text.length) :
    outcome k (siteOf file text pos posEnd) wrapped (.textx ErrLoc.empty) =
      .textx (expectedText k file text pos posEnd) := by
  rw [C33_fill, siteOf_spec file text pos posEnd h]
  cases k <;> rfl

/-- **Wrap, in terms of the text.** -/
theorem C33_wrap_text (k : PKind) (file : Option Nat) (text : List Char) (pos posEnd : Nat)
    (h : pos ≤ text.length) :
    outcome k (siteOf file text pos posEnd) true .other = .textx (expectedText k file text pos posEnd) := by
  rw [C33_wrap, siteOf_spec file text pos posEnd h]
  cases k <;> rfl

/-- **Keep supplied, in terms of the text.** -/
theorem C33_keep_supplied_text (k : PKind) (file : Option Nat) (text : List Char) (pos posEnd : Nat)
    (wrapped : Bool) (l : ErrLoc) (h : pos ≤ text.length) :
    ∃ l', outcome k (siteOf file text pos posEnd) wrapped (.textx l) = .textx l' ∧
      l'.filename = orElse l.filename file ∧
      l'.line = orElse l.line (some (LinkLoc.lineColSpec text pos).1) ∧
      l'.col = orElse l.col (some (LinkLoc.lineColSpec text pos).2) ∧
      l'.nchar = orElse l.nchar (expectedText k file text pos posEnd).nchar := by
  obtain ⟨l', h1, hf, hl, hc, hn⟩ := C33_keep_supplied k (siteOf file text pos posEnd) wrapped l
  rw [siteOf_spec file text pos posEnd h] at hf hl hc hn
  refine ⟨l', h1, hf, hl, hc, ?_⟩
  rw [hn]; cases k <;> rfl

/-- **The location identifies the start.** Line and column of the error are those of
no other offset of the text: if they are the line / column of offset `q`, then `q`
is where the processed text starts. -/
theorem C33_start_identified (file : Option Nat) (text : List Char) (pos posEnd q : Nat)
    (h : pos ≤ text.length) (hq : q ≤ text.length)
    (hl : (siteOf file text pos posEnd).line = (LinkLoc.lineColSpec text q).1)
    (hc : (siteOf file text pos posEnd).col = (LinkLoc.lineColSpec text q).2) : pos = q := by
  rw [siteOf_spec file text pos posEnd h] at hl hc
  exact LinkLoc.lineColSpec_injective text pos q h hq (Prod.ext hl hc)

/-- **The walk stops at the first raising call.** When a processor raises, the walk
made exactly the calls of the exception-free walk up to that call: the log of the
exception-free walk is `f.log ++ f.call :: post`, no call in `f.log` raises, and
`f.call` does (so every C13 statement about log entries — e.g. `C13_snapshot` —
applies to the failing call). -/
theorem C33_walk_cut (M : MM) (S : Script) (R : Raises) (v : Val) (gm : Nat) (f : Fail)
    (hf : walkE M S R v gm = .error f) :
    ∃ post, (walk M S v gm).log = f.log ++ f.call :: post ∧
      (∀ e ∈ f.log, R e.rule e.id = false) ∧ R f.call.rule f.call.id = true :=
  cut_some R _ f (walkE_error M S R v gm f hf)

/-- **Which call fails, from the model alone.** On a well-formed model the failing
call is the first raising one in the post-order sequence of entitled calls
(`C13_log_spec`); all entitled calls before it were made; and it is made on an
object of the model. -/
theorem C33_walk_first_raise (M : MM) (S : Script) (R : Raises) (v : Val) (gm : Nat) (h : wf M v gm = true)
    (f : Fail) (hf : walkE M S R v gm = .error f) :
    ∃ post, (occ v gm).flatMap (calls M) = f.log.map Entry.key ++ f.call.key :: post ∧
      (∀ k ∈ f.log.map Entry.key, R k.1 k.2 = false) ∧ R f.call.key.1 f.call.key.2 = true ∧
      f.call.id ∈ oids v := by
  obtain ⟨post, h1, h2, h3⟩ := C33_walk_cut M S R v gm f hf
  refine ⟨post.map Entry.key, ?_, ?_, h3, ?_⟩
  · rw [← walk_log M S v gm h, h1]; simp
  · intro k hk
    obtain ⟨e, he, rfl⟩ := List.mem_map.1 hk
    exact h2 e he
  · exact walk_ids M S v gm f.call (by rw [h1]; simp)

/-- the failing call does not depend on what the other processors return -/
theorem C33_walk_first_raise_script_indep (M : MM) (S S' : Script) (R : Raises) (v : Val) (gm : Nat)
    (h : wf M v gm = true) (f f' : Fail) (hf : walkE M S R v gm = .error f) (hf' : walkE M S' R v gm = .error f') :
    f.call.key = f'.call.key ∧ f.log.map Entry.key = f'.log.map Entry.key := by
  obtain ⟨p, h1, h2, h3, _⟩ := C33_walk_first_raise M S R v gm h f hf
  obtain ⟨p', h1', h2', h3', _⟩ := C33_walk_first_raise M S' R v gm h f' hf'
  rw [h1] at h1'
  have := first_true_unique (fun k : Nat × Nat => R k.1 k.2) _ _ _ _ _ _ h2 h2' h3 h3' h1'
  exact ⟨this.1, this.2⟩

/-- **Loading fails iff an entitled call raises.** -/
theorem C33_walk_fails_iff (M : MM) (S : Script) (R : Raises) (v : Val) (gm : Nat) (h : wf M v gm = true) :
    (∃ f, walkE M S R v gm = .error f) ↔ ∃ k ∈ (occ v gm).flatMap (calls M), R k.1 k.2 = true := by
  constructor
  · rintro ⟨f, hf⟩
    obtain ⟨post, h1, _, h3, _⟩ := C33_walk_first_raise M S R v gm h f hf
    exact ⟨f.call.key, by rw [h1]; simp, h3⟩
  · rintro ⟨k, hk, hr⟩
    rw [← walk_log M S v gm h] at hk
    obtain ⟨e, he, rfl⟩ := List.mem_map.1 hk
    rw [walkE_eq]
    unfold liftRes
    cases hc : cut R (walk M S v gm).log with
    | some f => exact ⟨f, rfl⟩
    | none =>
      have := (cut_none_iff R _).1 hc e he
      simp only [Entry.key] at hr
      rw [this] at hr
      exact absurd hr (by simp)

/-- no entitled call raises: the walk is the exception-free walk -/
theorem C33_walk_no_raise (M : MM) (S : Script) (R : Raises) (v : Val) (gm : Nat)
    (hR : ∀ e ∈ (walk M S v gm).log, R e.rule e.id = false) :
    walkE M S R v gm = .ok (walk M S v gm) := by
  rw [walkE_eq]
  unfold liftRes
  rw [(cut_none_iff R _).2 hR]

/-- **The error of a failing walk, in terms of the text.** If the first raising call
raises an unlocated `TextXError`, loading fails with a `TextXError` carrying the
model's file, the line and column where the text of *the object that call was made
on* starts, and `nchar` = the length of that text. -/
theorem C33_walk_fill_text (M : MM) (S : Script) (R : Raises) (src : Src) (wrapped : Nat → Bool)
    (raisedOf : Nat → Nat → Raised) (v : Val) (gm : Nat) (f : Fail) (hf : walkE M S R v gm = .error f)
    (hspan : (src.span f.call.id).1 ≤ src.text.length)
    (hr : raisedOf f.call.rule f.call.id = .textx ErrLoc.empty) :
    walkErr M S R src wrapped raisedOf v gm =
      some (.textx (expectedText .obj src.file src.text (src.span f.call.id).1 (src.span f.call.id).2)) := by
  unfold walkErr procError
  rw [hf]
  simp only [hr]
  rw [C33_fill_text .obj _ _ _ _ _ hspan]

/-- …and the same for any other exception raised through `textxerror_wrap` -/
theorem C33_walk_wrap_text (M : MM) (S : Script) (R : Raises) (src : Src) (wrapped : Nat → Bool)
    (raisedOf : Nat → Nat → Raised) (v : Val) (gm : Nat) (f : Fail) (hf : walkE M S R v gm = .error f)
    (hspan : (src.span f.call.id).1 ≤ src.text.length)
    (hw : wrapped f.call.rule = true) (hr : raisedOf f.call.rule f.call.id = .other) :
    walkErr M S R src wrapped raisedOf v gm =
      some (.textx (expectedText .obj src.file src.text (src.span f.call.id).1 (src.span f.call.id).2)) := by
  unfold walkErr procError
  rw [hf]
  simp only [hr, hw]
  rw [C33_wrap_text .obj _ _ _ _ hspan]

/-- a walk that fails under the property's hypothesis always fails with a located
`TextXError`; a walk in which nothing raises produces no error -/
theorem C33_walk_located (M : MM) (S : Script) (R : Raises) (src : Src) (wrapped : Nat → Bool)
    (raisedOf : Nat → Nat → Raised) (v : Val) (gm : Nat) (f : Fail) (hf : walkE M S R v gm = .error f)
    (h : wrapped f.call.rule = true ∨ raisedOf f.call.rule f.call.id ≠ .other) :
    ∃ l', walkErr M S R src wrapped raisedOf v gm = some (.textx l') ∧ l'.line ≠ none ∧ l'.col ≠ none ∧
      l'.nchar ≠ none := by
  unfold walkErr procError
  rw [hf]
  obtain ⟨l', h1, h2, h3, _, h5⟩ := C33_located .obj
    (siteOf src.file src.text (src.span f.call.id).1 (src.span f.call.id).2)
    (wrapped f.call.rule) (raisedOf f.call.rule f.call.id) h
  exact ⟨l', by simp only [h1], h2, h3, h5 (by decide)⟩

/-- **Several models.** The load fails in the first model (in walk order) whose walk
raises; all models before it were walked completely. -/
theorem C33_load_first_model (S : Script) (R : Raises) (ms : List (MM × Val)) (k : Nat) (f : Fail)
    (h : loadE S R ms = .error (k, f)) :
    ∃ mv, ms[k]? = some mv ∧ walkE mv.1 S R mv.2 mv.2.cls = .error f ∧
      ∀ j, j < k → ∃ mj r, ms[j]? = some mj ∧ walkE mj.1 S R mj.2 mj.2.cls = .ok r :=
  loadE_error S R ms k f h

/-- **The error of a failing load, in terms of the texts.** With several models
(imported files) the error carries the file name of *the model that contains the
object the failing call was made on*, line / column of that object's start in
*that model's* text, and its length. -/
theorem C33_load_fill_text (S : Script) (R : Raises) (srcs : List Src) (wrapped : Nat → Bool)
    (raisedOf : Nat → Nat → Raised) (ms : List (MM × Val)) (k : Nat) (f : Fail) (src : Src)
    (h : loadE S R ms = .error (k, f)) (hsrc : srcs[k]? = some src)
    (hspan : (src.span f.call.id).1 ≤ src.text.length)
    (hr : raisedOf f.call.rule f.call.id = .textx ErrLoc.empty ∨
          (wrapped f.call.rule = true ∧ raisedOf f.call.rule f.call.id = .other)) :
    loadErr S R srcs wrapped raisedOf ms =
      some (.textx (expectedText .obj src.file src.text (src.span f.call.id).1 (src.span f.call.id).2)) ∧
    ∃ mv, ms[k]? = some mv ∧ f.call.id ∈ oids mv.2 := by
  constructor
  · unfold loadErr procError
    rw [h]
    simp only [hsrc]
    rcases hr with hr | ⟨hw, hr⟩
    · rw [hr, C33_fill_text .obj _ _ _ _ _ hspan]
    · rw [hr, hw, C33_wrap_text .obj _ _ _ _ hspan]
  · obtain ⟨mv, hm, hw, _⟩ := loadE_error S R ms k f h
    obtain ⟨post, h1, _, _⟩ := C33_walk_cut mv.1 S R mv.2 mv.2.cls f hw
    exact ⟨mv, hm, walk_ids mv.1 S mv.2 mv.2.cls f.call (by rw [h1]; simp)⟩

/-! ## D13: match processors inside composite match rules (`process_match`) -/

/-- **Which match-processor call fails.** `process_match` makes its calls in
post-order (sub-matches before the match they are part of, left to right) and
stops at the first raising one: the calls of the tree are
`f.log ++ f.call :: post`, nothing in `f.log` raises, `f.call` does. -/
theorem C33_match_first_raise (R : Nat → Nat → Bool) (t : MNode) (f : MFail) (h : matchE R t = .error f) :
    ∃ post, mcalls t = f.log ++ f.call :: post ∧ (∀ c ∈ f.log, R c.rule c.pos = false) ∧
      R f.call.rule f.call.pos = true :=
  cutP_some _ _ _ (matchE_error R t f h)

/-- processing the tree fails iff some node's processor raises -/
theorem C33_match_fails_iff (R : Nat → Nat → Bool) (t : MNode) :
    (∃ f, matchE R t = .error f) ↔ ∃ c ∈ mcalls t, R c.rule c.pos = true := by
  constructor
  · rintro ⟨f, hf⟩
    obtain ⟨post, h1, _, h3⟩ := C33_match_first_raise R t f hf
    exact ⟨f.call, by rw [h1]; simp, h3⟩
  · rintro ⟨c, hc, hr⟩
    rw [matchE_lift]
    unfold liftM
    cases hcut : cutP (fun c => R c.rule c.pos) (mcalls t) with
    | some r => exact ⟨_, rfl⟩
    | none =>
      have := (cutP_none_iff _ _).1 hcut c hc
      rw [this] at hr
      exact absurd hr (by simp)

/-- **Located at the sub-match, not at the outermost match.** When the processor of a
node of a (composite) match raises an unlocated `TextXError` — or any exception
through `textxerror_wrap` — loading fails with a `TextXError` carrying the file and
the line / column where *that node's* text starts (the counter-statement to seeded
change C33-1, which reported every part at the start of the outermost match). -/
theorem C33_match_fill_text (file : Option Nat) (text : List Char) (R : Nat → Nat → Bool) (wrapped : Bool)
    (raised : Raised) (t : MNode) (f : MFail) (h : matchE R t = .error f)
    (hpos : f.call.pos ≤ text.length)
    (hr : raised = .textx ErrLoc.empty ∨ (wrapped = true ∧ raised = .other)) :
    matchErr file text R wrapped raised t =
      some (.textx (expectedText .mtch file text f.call.pos f.call.pos)) := by
  unfold matchErr
  rw [h]
  simp only
  rcases hr with hr | ⟨hw, hr⟩
  · rw [hr, C33_fill_text .mtch _ _ _ _ _ hpos]
  · rw [hr, hw, C33_wrap_text .mtch _ _ _ _ hpos]

/-! non-vacuity -/
example : outcome .obj ⟨some 1, 3, 4, 18⟩ true .other = .textx ⟨some 1, some 3, some 4, some 18⟩ := by decide
example : outcome .mtch ⟨none, 3, 16, 4⟩ false (.textx ⟨none, none, some 5, none⟩) =
    .textx ⟨none, some 3, some 5, none⟩ := by decide
example : outcome .obj ⟨some 1, 1, 1, 48⟩ false (.textx ⟨some 9, some 77, none, some 2⟩) =
    .textx ⟨some 9, some 77, some 1, some 2⟩ := by decide

/-! D13 non-vacuity: a text with two lines, the object `cd` at offset 3..5; the walk of
`exV`-like model where `A`'s processor raises on object 11 after `Base`'s ran on 12 -/
example : siteOf (some 1) "ab\ncd ef".toList 3 5 = ⟨some 1, 2, 1, 2⟩ := by decide
example : (3 : Nat) ≤ "ab\ncd ef".toList.length := by decide
example : outcome .obj (siteOf (some 1) "ab\ncd ef".toList 3 5) false (.textx ErrLoc.empty) =
    .textx ⟨some 1, some 2, some 1, some 2⟩ := by decide

def exRM : MM where
  kind c := if c = 3 then .abstr else if c = 4 then .mtch else .common
  hasProc c := c = 0 || c = 1 || c = 3

/-- `Model(10): xs+=Base [A(11){n=B(12)}, B(13)]` -/
def exRV : Val :=
  .obj 10 0 (.cons ⟨0, true, true, 3⟩
      (.list (.cons (.obj 11 1 (.cons ⟨0, true, false, 3⟩ (.obj 12 2 .nil) .nil))
             (.cons (.obj 13 2 .nil) .nil))) .nil)

example : wf exRM exRV 0 = true := by decide
example : (match walkE exRM (fun _ _ => .none) (fun r i => r == 1 && i == 11) exRV 0 with
    | .error f => some (f.log.map Entry.key, f.call.key)
    | .ok _ => none) = some ([(3, 12)], (1, 11)) := by decide
example : (match walkE exRM (fun _ _ => .none) (fun _ _ => false) exRV 0 with
    | .error _ => none
    | .ok r => some (r.log.map Entry.key)) = some [(3, 12), (1, 11), (3, 11), (3, 13), (0, 10)] := by decide
example : walkErr exRM (fun _ _ => .none) (fun r i => r == 1 && i == 11)
    ⟨some 1, "m a b\n b".toList, fun i => if i = 11 then (2, 5) else (0, 0)⟩ (fun _ => false)
    (fun _ _ => .textx ErrLoc.empty) exRV 0 = some (.textx ⟨some 1, some 1, some 3, some 3⟩) := by decide
example : (match loadE (fun _ _ => .none) (fun r i => r == 3 && i == 13) [(exRM, .obj 1 0 .nil), (exRM, exRV)] with
    | .error kf => some (kf.1, kf.2.call.key)
    | .ok _ => none) = some (1, (3, 13)) := by decide

example : loadErr (fun _ _ => .none) (fun r i => r == 3 && i == 13)
    [⟨some 1, "m".toList, fun _ => (0, 1)⟩, ⟨some 2, "m a b\n b".toList, fun i => if i = 13 then (7, 8) else (0, 0)⟩]
    (fun _ => false) (fun _ _ => .textx ErrLoc.empty) [(exRM, .obj 1 0 .nil), (exRM, exRV)] =
    some (.textx ⟨some 2, some 2, some 2, some 1⟩) := by decide

/-! `Version: Major '.' Minor;` at offset 6 of "pkg a 12.34": Major at 6, '.' at 8, Minor at 9; the
processor of `Minor` (rule 2) raises: located at column 10, not at the start of `Version` (column 7) -/
def exVersion : MNode := .nonterm 0 6 (.cons (.term 1 6) (.cons (.term 9 8) (.cons (.term 2 9) .nil)))

example : (match matchE (fun r _ => r == 2) exVersion with
    | .error f => some (f.log, f.call)
    | .ok _ => none) = some ([⟨1, 6⟩, ⟨9, 8⟩], ⟨2, 9⟩) := by decide
example : matchErr none "pkg a 12.34".toList (fun r _ => r == 2) false (.textx ErrLoc.empty) exVersion =
    some (.textx ⟨none, some 1, some 10, none⟩) := by decide
example : matchErr none "pkg a 12.34".toList (fun _ _ => false) false (.textx ErrLoc.empty) exVersion = none := by
  decide

end Proc
