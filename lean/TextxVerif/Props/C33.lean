import TextxVerif.ProcLocate
/-!
# C33 — errors raised by processors carry the location of the processed text

Model: `Proc.outcome` (`TextxVerif/ProcLocate.lean`): `textxerror_wrap`, the
dispatch keyword arguments for object and match processors and the location
enrichment of `TextXMetaModel.process`.  The theorems hold for every dispatch
kind, every processed text (`Site`), wrapped or not, and every combination of
location attributes the processor sets itself.
-/
namespace Proc

/-- **Fill.** A `TextXError` raised without location leaves the load with the
model's file name, the line and column where the processed text starts and — for
object processors — `nchar` = its length; `textxerror_wrap` does not change that. -/
theorem C33_fill (k : PKind) (s : Site) (wrapped : Bool) :
    outcome k s wrapped (.textx ErrLoc.empty) = .textx (expected k s) := by
  cases k <;> cases wrapped <;> rfl

/-- **Keep supplied.** Every location attribute the processor set itself is kept;
every attribute it left unset is filled from the processed text. -/
theorem C33_keep_supplied (k : PKind) (s : Site) (wrapped : Bool) (l : ErrLoc) :
    ∃ l', outcome k s wrapped (.textx l) = .textx l' ∧
      l'.filename = orElse l.filename (expected k s).filename ∧
      l'.line = orElse l.line (expected k s).line ∧
      l'.col = orElse l.col (expected k s).col ∧
      l'.nchar = orElse l.nchar (expected k s).nchar := by
  cases k <;> cases wrapped <;> exact ⟨_, rfl, rfl, rfl, rfl, rfl⟩

theorem C33_keep_supplied_field (k : PKind) (s : Site) (wrapped : Bool) (l l' : ErrLoc)
    (h : outcome k s wrapped (.textx l) = .textx l') :
    (∀ x, l.filename = some x → l'.filename = some x) ∧ (∀ x, l.line = some x → l'.line = some x) ∧
    (∀ x, l.col = some x → l'.col = some x) ∧ (∀ x, l.nchar = some x → l'.nchar = some x) := by
  obtain ⟨l'', h1, hf, hl, hc, hn⟩ := C33_keep_supplied k s wrapped l
  rw [h1] at h
  cases h
  refine ⟨?_, ?_, ?_, ?_⟩ <;> intro x hx
  · rw [hf, hx]; rfl
  · rw [hl, hx]; rfl
  · rw [hc, hx]; rfl
  · rw [hn, hx]; rfl

/-- **Wrap.** Any other exception raised through `textxerror_wrap` becomes a
`TextXError` with the full location of the processed text — also for match
values, where the wrapper itself cannot determine a location and relies on the
enrichment. -/
theorem C33_wrap (k : PKind) (s : Site) :
    outcome k s true .other = .textx (expected k s) := by
  obtain ⟨f, l, c, n⟩ := s
  cases k <;> cases f <;> rfl

/-- without the wrapper a non-textX exception is passed through unchanged (the
property does not ask for more) -/
theorem C33_unwrapped_other (k : PKind) (s : Site) : outcome k s false .other = .other := by
  cases k <;> rfl

/-- a load that fails through a processor with a `TextXError`, or through a wrapped
processor, always fails with a *located* `TextXError`: file, line and column
are those of the processed text unless the processor chose others -/
theorem C33_located (k : PKind) (s : Site) (wrapped : Bool) (r : Raised) (h : wrapped = true ∨ r ≠ .other) :
    ∃ l', outcome k s wrapped r = .textx l' ∧ l'.line ≠ none ∧ l'.col ≠ none ∧
      (s.file ≠ none → l'.filename ≠ none) ∧ (k ≠ .mtch → l'.nchar ≠ none) := by
  cases r with
  | other =>
    rcases h with h | h
    · subst h
      exact ⟨_, C33_wrap k s, by simp [expected], by simp [expected], by simp [expected],
        by cases k <;> simp [expected]⟩
    · exact absurd rfl h
  | textx l =>
    obtain ⟨l', h1, hf, hl, hc, hn⟩ := C33_keep_supplied k s wrapped l
    refine ⟨l', h1, ?_, ?_, ?_, ?_⟩
    · rw [hl]; cases l.line <;> simp [orElse, expected]
    · rw [hc]; cases l.col <;> simp [orElse, expected]
    · intro hs; rw [hf]; cases l.filename <;> simp [orElse, expected, hs]
    · intro hk; rw [hn]; cases l.nchar <;> cases k <;> simp_all [orElse, expected]

/-- The pinned `process` (before the repair) violates the property: an object
processor's unlocated `TextXError` leaves without `nchar`. -/
theorem C33_pinned_nchar_false :
    ∃ (k : PKind) (s : Site), k ≠ .mtch ∧ outcomePinned k s false (.textx ErrLoc.empty) ≠ .textx (expected k s) :=
  ⟨.obj, ⟨none, 3, 4, 18⟩, by decide, by decide⟩

/-- On the pinned tree only the wrapper's own `get_location` call supplied `nchar`
(wrapped foreign exception on a model object) -/
example : outcomePinned .obj ⟨none, 3, 4, 18⟩ true .other = .textx ⟨none, some 3, some 4, some 18⟩ := by decide

/-! non-vacuity -/
example : outcome .obj ⟨some 1, 3, 4, 18⟩ true .other = .textx ⟨some 1, some 3, some 4, some 18⟩ := by decide
example : outcome .mtch ⟨none, 3, 16, 4⟩ false (.textx ⟨none, none, some 5, none⟩) =
    .textx ⟨none, some 3, some 5, none⟩ := by decide
example : outcome .obj ⟨some 1, 1, 1, 48⟩ false (.textx ⟨some 9, some 77, none, some 2⟩) =
    .textx ⟨some 9, some 77, some 1, some 2⟩ := by decide

end Proc
