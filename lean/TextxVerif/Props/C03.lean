import TextxVerif.Proofs.RuleTypes
import TextxVerif.Proofs.RuleTypesInh
import TextxVerif.Proofs.RuleTypesObj
import TextxVerif.Proofs.RuleTypesAlts
/-!
# C03 — rule kinds determine what objects a model contains

Model: `TextxVerif/RuleTypes.lean` — `determineAll` (the multi-pass
`_determine_rule_types` fixpoint with its per-pass visited set), `inhBy`
(`_add_inherited_classes`, run after the fixpoint), `isInstance`
(`textx_isinstance` with its visited set), `proc` (rule-kind dispatch of
`process_node`), all as repaired on `fix/C03`.  Grammars are arbitrary rule
graphs (`Gram = List Rule`, any size, any reference structure: chains,
cycles, self references, mixed alternatives); `WF` only says that every
referenced rule exists.  The "documented fragment" (`Body.documented`) is
sequences and ordered choices of matches and rule references; bodies with other
operators (`?`, `*`, `+`, `#`, predicates) are covered by the kinds, by the
list-level `isinstance` theorem and by the object theorems, not by `C03_inh`.
-/
namespace RuleTypes

/-- **Kinds.**  For every well-formed grammar the loop ends with a change-free
pass within `|rules| + 1` passes, and the kinds it leaves are the documented
ones: common ⇔ has assignments; abstract ⇔ no assignments and (transitively)
references a rule with assignments — `NonMatch` is the least fixpoint, an
inductive predicate; match ⇔ otherwise.  In particular the result does not
depend on the order of the rules or of the visits. -/
theorem C03_kinds (g : Gram) (hwf : WF g) :
    (determineAll g).2 = true ∧ KindSpec g (kindsOf g) :=
  determineAll_spec g hwf

/-- **Inheritance list.**  For a rule with a documented body, `_tx_inh_by` holds
exactly the rules `S` such that the rule is abstract and `S` is the first
non-match reference of one of its alternatives — each once. -/
theorem C03_inh (g : Gram) (hwf : WF g) (R : Nat) (rule : Rule) (hR : g[R]? = some rule)
    (hdoc : rule.body.documented = true) :
    (∀ S, S ∈ inhBy g (kindsOf g) R ↔ Edge g (kindsOf g) R S) ∧ (inhBy g (kindsOf g) R).Nodup :=
  inhBy_spec g _ (C03_kinds g hwf).2 R rule hR hdoc

/-- `FirstNM`, the relation `C03_inh` is stated with, is "some alternative of the
body has this first non-match reference", alternatives spelled out as lists. -/
theorem C03_firstNM_alternatives (k : Kinds) (b : Body) (hd : b.documented = true)
    (hn : b.noEmptyChoice = true) (o : Option Nat) :
    FirstNM k b o ↔ ∃ a, a ∈ b.alts ∧ firstNMof k a = o :=
  firstNM_iff_alts k b hd hn o

/-- **textx_isinstance, list level** (every grammar, all operators, cyclic
lists included): the visited-set search terminates within its fuel and answers
exactly "the object's rule is reached from `R` along `_tx_inh_by` entries". -/
theorem C03_isinstance_lists (g : Gram) (hwf : WF g) (o R : Nat) :
    isInstance g (kindsOf g) o (.rule R) = true ↔ Path (inhBy g (kindsOf g)) R o :=
  isInstance_iff_path g hwf _ o R

/-- **textx_isinstance.**  In a grammar of documented rule bodies, for an object
created by rule `o`: `textx_isinstance(obj, c)` ⇔ `c` is the object's rule, or
`OBJECT`, or the object's rule is reachable from `c` through abstract-rule
alternatives. -/
theorem C03_isinstance (g : Gram) (hwf : WF g) (hdoc : ∀ rule ∈ g, rule.body.documented = true)
    (o : Nat) (c : Cls) :
    isInstance g (kindsOf g) o c = true ↔
      c = .rule o ∨ c = .object ∨ ∃ R, c = .rule R ∧ Reach g (kindsOf g) R o := by
  cases c with
  | object => simp [isInstance]
  | rule R =>
    have hedge : ∀ R S, S ∈ inhBy g (kindsOf g) R ↔ Edge g (kindsOf g) R S := by
      intro R S
      cases hR : g[R]? with
      | none =>
        simp only [inhBy, hR, List.not_mem_nil, false_iff]
        rintro ⟨rule, h, _⟩
        rw [hR] at h; cases h
      | some rule => exact (C03_inh g hwf R rule hR (hdoc rule (List.mem_of_getElem? hR))).1 S
    rw [C03_isinstance_lists g hwf, path_iff_reach g _ hedge]
    constructor
    · rintro (h | h)
      · exact Or.inl (by rw [h])
      · exact Or.inr (Or.inr ⟨R, rfl, h⟩)
    · rintro (h | h | ⟨R', h, hr⟩)
      · cases h; exact Or.inl rfl
      · cases h
      · cases h; exact Or.inr hr

/-- **Only common rules are instantiated.**  Whatever the parse tree, every
object in the value built from it belongs to a rule that has assignments; in
particular an abstract rule's class and a match rule's class are never
instantiated. -/
theorem C03_only_common (g : Gram) (hwf : WF g) (t : PT) :
    ∀ r ∈ (proc (kindsOf g) t).objRules,
      (∃ rule, g[r]? = some rule ∧ rule.hasAttrs = true) ∧ kindsOf g r = .common := by
  intro r hr
  have hc := proc_common (kindsOf g) t r hr
  exact ⟨((C03_kinds g hwf).2 r).1.mp hc, hc⟩

/-- **Match rules yield plain values**: the node of a match rule, and a
terminal, give a primitive (the text of the converted value(s)), never an object. -/
theorem C03_match_plain (k : Kinds) (r : Nat) (kids : List PT) (hk : k r = .mtch) :
    proc k (.nt r kids) = .prim (flatL kids) ∧ ∀ t v, proc k (.term t v) = .prim v := by
  constructor
  · simp [proc, hk]
  · intro t v; simp [proc]

/-- **Abstract rule, first non-match reference.**  If some child of an abstract
rule's node is the node of a common or abstract rule, the result is the result
of the first such child (match rules before it are skipped). -/
theorem C03_result_first_nonmatch (k : Kinds) (r : Nat) (kids : List PT) (x : PT) (hk : k r = .abstr)
    (hx : kids.find? (PT.isNM k) = some x) : proc k (.nt r kids) = proc k x :=
  proc_abstr_nm k r kids x hk hx

/-- **Abstract rule, only simple matches**: the concatenated text of the
alternative (the matched text, whatever the base types would convert it to:
`'#k' BOOL` on `#k false` gives `'#kfalse'`). -/
theorem C03_result_concat_terminals (k : Kinds) (r : Nat) (kids : List PT) (hk : k r = .abstr)
    (hlen : 2 ≤ kids.length) (hall : ∀ x ∈ kids, ∃ t v, x = .term t v) :
    proc k (.nt r kids) = .prim (rawL kids) :=
  proc_abstr_terms k r kids hk hlen hall

/-- **Abstract rule, a single reference matched**: the result is that
reference's result whatever it is — an object, or the plain value of a match
rule / base type (`Value: INT | BOOL | STRING | Obj;` on `0`, `false`, `''`
gives the values whose texts are `0`, `False` and the empty string). -/
theorem C03_result_single_child (k : Kinds) (r : Nat) (x : PT) (hk : k r = .abstr) :
    proc k (.nt r [x]) = proc k x :=
  proc_abstr_single k r x hk

/-- **Abstract rule, only match rules, partial.**  What is missing for "the
concatenated text whenever the alternative has only match rules": when one of
several all-match children is a non-terminal node (a multi-token match rule),
the result is that child's text alone (open known finding `C03-KF1`; the
behaviour is pinned by `tests/functional/regressions/test_issue166.py`). -/
theorem C03_result_all_match_partial (k : Kinds) (r : Nat) (kids : List PT) (x : PT) (hk : k r = .abstr)
    (hlen : kids.length ≠ 1) (hnm : kids.find? (PT.isNM k) = none) (hx : kids.find? PT.isNT = some x) :
    proc k (.nt r kids) = proc k x :=
  proc_abstr_match_nt k r kids x hk hlen hnm hx

def kfKinds : Kinds := fun r => if r = 0 then .abstr else .mtch

/-- the full statement is false of model and code: `Model: Prefix INT | …;
Prefix: '#' '#';` on `# # 5` gives `'##'`, not `'##5'`. -/
theorem C03_result_all_match_full_false :
    ∃ (k : Kinds) (r : Nat) (kids : List PT), k r = .abstr ∧ kids.find? (PT.isNM k) = none ∧
      proc k (.nt r kids) ≠ .prim (rawL kids) := by
  refine ⟨kfKinds, 0, [.nt 1 [.term "#" "#", .term "#" "#"], .term "5" "5"], rfl, rfl, ?_⟩
  intro h
  have h1 : proc kfKinds (.nt 0 [.nt 1 [.term "#" "#", .term "#" "#"], .term "5" "5"]) = .prim "##" := by
    simp [proc, procFirst, kfKinds, PT.isNM, PT.isNT, flatL, PT.flat]
  rw [h1] at h
  simp [rawL, PT.raw] at h

/-! ## the pinned behaviour violated the property (negation witnesses) -/

def wKinds : Kinds := fun r => if r = 0 then .abstr else .common

/-- (ii) `Model: A | A B;` — the pinned walk lists `B` although no alternative
of `Model` has `B` as its first non-match reference. -/
theorem C03_pinned_overapprox_false :
    2 ∈ (addRefPinned wKinds (.choice [.ref 1, .seq [.ref 1, .ref 2]]) []).1 ∧
      ¬ FirstNM wKinds (.choice [.ref 1, .seq [.ref 1, .ref 2]]) (some 2) := by
  refine ⟨by decide, ?_⟩
  intro h
  have := (addRef_spec wKinds (.choice [.ref 1, .seq [.ref 1, .ref 2]]) [] rfl).mem 2
  have h2 : 2 ∈ (addRef wKinds (.choice [.ref 1, .seq [.ref 1, .ref 2]]) []).1 := this.mpr (Or.inr h)
  revert h2
  decide

def w4Kinds : Kinds := fun r => if r = 0 then .abstr else if r = 1 then .mtch else .common

/-- (iv) `Model: 'x' (B | C) D;` with match rule `B` — the pinned walk stops after
the group and misses `D`, the first non-match reference of the alternative `'x' B D`. -/
theorem C03_pinned_choice_false :
    3 ∉ (addRefPinned w4Kinds (.seq [.lit, .choice [.ref 1, .ref 2], .ref 3]) []).1 ∧
      FirstNM w4Kinds (.seq [.lit, .choice [.ref 1, .ref 2], .ref 3]) (some 3) := by
  refine ⟨by decide, ?_⟩
  have := (addRef_spec w4Kinds (.seq [.lit, .choice [.ref 1, .ref 2], .ref 3]) [] rfl).mem 3
  have h2 : 3 ∈ (addRef w4Kinds (.seq [.lit, .choice [.ref 1, .ref 2], .ref 3]) []).1 := by decide
  rcases this.mp h2 with h | h
  · cases h
  · exact h

/-- `Model: X | Y;  X: 'k' Model | 'z' W;  Y: y=INT;  W: w=INT;` -/
def cycGram : Gram :=
  [⟨false, .choice [.ref 1, .ref 2]⟩, ⟨false, .choice [.seq [.lit, .ref 0], .seq [.lit, .ref 3]]⟩,
   ⟨true, .lit⟩, ⟨true, .lit⟩]

/-- (iii) the pinned code filled `X._tx_inh_by` when `X` turned abstract, while
`Model` was still a match rule: `Model` is missing, although `X` yields what
`Model` yields; the repaired `inhBy` has it. -/
theorem C03_pinned_cycle_false :
    inhByPinned cycGram 1 = [3] ∧ inhBy cycGram (kindsOf cycGram) 1 = [0, 3] ∧
      Edge cycGram (kindsOf cycGram) 1 0 := by
  have hwf : WF cycGram := by decide
  have h2 : inhBy cycGram (kindsOf cycGram) 1 = [0, 3] := by decide
  refine ⟨by decide, h2, ?_⟩
  have := (C03_inh cycGram hwf 1 _ rfl rfl).1 0
  exact this.mp (by rw [h2]; decide)

/-- (i) pinned `process_node` returned the first non-terminal child whatever its
kind: for `Model: Prefix Rule1; Prefix: '#' '#'; Rule1: a=INT;` the match rule's
text instead of the `Rule1` object. -/
theorem C03_pinned_result_false :
    ∃ (k : Kinds) (kids : List PT) (x : PT), kids.find? (PT.isNM k) = some x ∧
      (proc k x).objRules = [2] ∧ (procAbsPinned k kids).objRules = [] :=
  ⟨fun r => if r = 0 then .abstr else if r = 1 then .mtch else .common,
   [.nt 1 [.term "#" "#", .term "#" "#"], .nt 2 [.asgn "a" [.term "5" "5"]]], .nt 2 [.asgn "a" [.term "5" "5"]],
   rfl, by decide, by decide⟩

/-! ## non-vacuity -/

/-- the cyclic grammar: both `Model` and `X` are abstract, `Y`, `W` common -/
example : (determineAll cycGram).2 = true ∧ (List.range 4).map (kindsOf cycGram) = [.abstr, .abstr, .common, .common] := by
  decide

/-- a `Y` object is an instance of `X` (through `Model`), not of `W` -/
example : isInstance cycGram (kindsOf cycGram) 2 (.rule 1) = true ∧
    isInstance cycGram (kindsOf cycGram) 2 (.rule 3) = false := by decide

example : WF cycGram ∧ ∀ rule ∈ cycGram, rule.body.documented = true := by decide

/-- `C03_result_first_nonmatch` applies to `Prefix Rule1` -/
example : ([PT.nt 1 [.term "#" "#", .term "#" "#"], .nt 2 [.asgn "a" [.term "5" "5"]]]).find? (PT.isNM w4Kinds) =
    some (.nt 2 [.asgn "a" [.term "5" "5"]]) := rfl

/-- `Entry: Tag Value | Plain;  Tag: '@' ID ':';  Value: INT | BOOL | Obj;` on `@b: false`: the first
non-match reference (`Value`) gives the value of `BOOL`, whose text is `False` — not the text of `Tag` -/
example : proc (fun r => if r = 0 ∨ r = 2 then .abstr else .mtch)
    (.nt 0 [.nt 1 [.term "@" "@", .term "b" "b", .term ":" ":"], .nt 2 [.term "false" "False"]]) = .prim "False" := by
  simp [proc, procFirst, PT.isNM]

/-- several simple matches: the matched text, unconverted -/
example : proc (fun _ => .abstr) (.nt 0 [.term "#k" "#k", .term "false" "False"]) = .prim "#kfalse" := by
  simp [proc, procFirst, PT.isNM, PT.isNT, rawL, PT.raw]

/-- a multi-token match rule: the converted values, joined -/
example : proc (fun _ => .mtch) (.nt 0 [.term "#k" "#k", .term "false" "False"]) = .prim "#kFalse" := by
  simp [proc, flatL, PT.flat]

end RuleTypes
