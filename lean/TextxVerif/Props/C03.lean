import TextxVerif.Proofs.RuleTypes
import TextxVerif.Proofs.RuleTypesInh
import TextxVerif.Proofs.RuleTypesObj
import TextxVerif.Proofs.RuleTypesAlts
import TextxVerif.Proofs.RuleTypesInhAll
import TextxVerif.Proofs.RuleTypesTree
/-!
# C03 — rule kinds determine what objects a model contains

Model: `TextxVerif/RuleTypes.lean` — `determineAll` (the multi-pass
`_determine_rule_types` fixpoint with its per-pass visited set), `inhBy`
(`_add_inherited_classes`, run after the fixpoint), `isInstance`
(`textx_isinstance` with its visited set), `proc` (rule-kind dispatch of
`process_node`), all as repaired on `fix/C03`.  Grammars are arbitrary rule
graphs (`Gram = List Rule`, any size, any reference structure: chains,
cycles, self references, mixed alternatives); `WF` only says that every
referenced rule exists.  The "documented fragment" (`Body.documented`) is
sequences and ordered choices of matches and rule references; bodies with other
operators (`?`, `*`, `+`, `#`, predicates) are covered by the kinds, by the
list-level `isinstance` theorem, by the object theorems and by the two-sided bounds
`C03_inh_lower` / `C03_inh_upper` / `C03_isinstance_bounds`, not by `C03_inh`.
`TextxVerif/RuleTypesTree.lean` relates the children of a node to the alternatives of the
rule's body (`Derives`, `WfTree`) and gives `proc` a relational specification (`Yields`).
-/
namespace RuleTypes

/-- **Kinds.**  For every well-formed grammar the loop ends with a change-free
pass within `|rules| + 1` passes, and the kinds it leaves are the documented
ones: common ⇔ has assignments; abstract ⇔ no assignments and (transitively)
references a rule with assignments — `NonMatch` is the least fixpoint, an
inductive predicate; match ⇔ otherwise.  In particular the result does not
depend on the order of the rules or of the visits. -/
theorem C03_kinds (g : Gram) (hwf : WF g) :
    (determineAll g).2 = true ∧ KindSpec g (kindsOf g) :=
  determineAll_spec g hwf

/-- **Inheritance list.**  For a rule with a documented body, `_tx_inh_by` holds
exactly the rules `S` such that the rule is abstract and `S` is the first
non-match reference of one of its alternatives — each once. -/
theorem C03_inh (g : Gram) (hwf : WF g) (R : Nat) (rule : Rule) (hR : g[R]? = some rule)
    (hdoc : rule.body.documented = true) :
    (∀ S, S ∈ inhBy g (kindsOf g) R ↔ Edge g (kindsOf g) R S) ∧ (inhBy g (kindsOf g) R).Nodup :=
  inhBy_spec g _ (C03_kinds g hwf).2 R rule hR hdoc

/-- `FirstNM`, the relation `C03_inh` is stated with, is "some alternative of the
body has this first non-match reference", alternatives spelled out as lists. -/
theorem C03_firstNM_alternatives (k : Kinds) (b : Body) (hd : b.documented = true)
    (hn : b.noEmptyChoice = true) (o : Option Nat) :
    FirstNM k b o ↔ ∃ a, a ∈ b.alts ∧ firstNMof k a = o :=
  firstNM_iff_alts k b hd hn o

/-- **textx_isinstance, list level** (every grammar, all operators, cyclic
lists included): the visited-set search terminates within its fuel and answers
exactly "the object's rule is reached from `R` along `_tx_inh_by` entries". -/
theorem C03_isinstance_lists (g : Gram) (hwf : WF g) (o R : Nat) :
    isInstance g (kindsOf g) o (.rule R) = true ↔ Path (inhBy g (kindsOf g)) R o :=
  isInstance_iff_path g hwf _ o R

/-- **textx_isinstance.**  In a grammar of documented rule bodies, for an object
created by rule `o`: `textx_isinstance(obj, c)` ⇔ `c` is the object's rule, or
`OBJECT`, or the object's rule is reachable from `c` through abstract-rule
alternatives. -/
theorem C03_isinstance (g : Gram) (hwf : WF g) (hdoc : ∀ rule ∈ g, rule.body.documented = true)
    (o : Nat) (c : Cls) :
    isInstance g (kindsOf g) o c = true ↔
      c = .rule o ∨ c = .object ∨ ∃ R, c = .rule R ∧ Reach g (kindsOf g) R o := by
  cases c with
  | object => simp [isInstance]
  | rule R =>
    have hedge : ∀ R S, S ∈ inhBy g (kindsOf g) R ↔ Edge g (kindsOf g) R S := by
      intro R S
      cases hR : g[R]? with
      | none =>
        simp only [inhBy, hR, List.not_mem_nil, false_iff]
        rintro ⟨rule, h, _⟩
        rw [hR] at h; cases h
      | some rule => exact (C03_inh g hwf R rule hR (hdoc rule (List.mem_of_getElem? hR))).1 S
    rw [C03_isinstance_lists g hwf, path_iff_reach g _ hedge]
    constructor
    · rintro (h | h)
      · exact Or.inl (by rw [h])
      · exact Or.inr (Or.inr ⟨R, rfl, h⟩)
    · rintro (h | h | ⟨R', h, hr⟩)
      · cases h; exact Or.inl rfl
      · cases h
      · cases h; exact Or.inr hr

/-- **Only common rules are instantiated.**  Whatever the parse tree, every
object in the value built from it belongs to a rule that has assignments; in
particular an abstract rule's class and a match rule's class are never
instantiated. -/
theorem C03_only_common (g : Gram) (hwf : WF g) (t : PT) :
    ∀ r ∈ (proc (kindsOf g) t).objRules,
      (∃ rule, g[r]? = some rule ∧ rule.hasAttrs = true) ∧ kindsOf g r = .common := by
  intro r hr
  have hc := proc_common (kindsOf g) t r hr
  exact ⟨((C03_kinds g hwf).2 r).1.mp hc, hc⟩

/-- **Match rules yield plain values**: the node of a match rule, and a
terminal, give a primitive (the text of the converted value(s)), never an object. -/
theorem C03_match_plain (k : Kinds) (r : Nat) (kids : List PT) (hk : k r = .mtch) :
    proc k (.nt r kids) = .prim (flatL kids) ∧ ∀ t v, proc k (.term t v) = .prim v := by
  constructor
  · simp [proc, hk]
  · intro t v; simp [proc]

/-- **Abstract rule, first non-match reference.**  If some child of an abstract
rule's node is the node of a common or abstract rule, the result is the result
of the first such child (match rules before it are skipped). -/
theorem C03_result_first_nonmatch (k : Kinds) (r : Nat) (kids : List PT) (x : PT) (hk : k r = .abstr)
    (hx : kids.find? (PT.isNM k) = some x) : proc k (.nt r kids) = proc k x :=
  proc_abstr_nm k r kids x hk hx

/-- **Abstract rule, only simple matches**: the concatenated text of the
alternative (the matched text, whatever the base types would convert it to:
`'#k' BOOL` on `#k false` gives `'#kfalse'`). -/
theorem C03_result_concat_terminals (k : Kinds) (r : Nat) (kids : List PT) (hk : k r = .abstr)
    (hlen : 2 ≤ kids.length) (hall : ∀ x ∈ kids, ∃ t v, x = .term t v) :
    proc k (.nt r kids) = .prim (rawL kids) :=
  proc_abstr_terms k r kids hk hlen hall

/-- **Abstract rule, a single reference matched**: the result is that
reference's result whatever it is — an object, or the plain value of a match
rule / base type (`Value: INT | BOOL | STRING | Obj;` on `0`, `false`, `''`
gives the values whose texts are `0`, `False` and the empty string). -/
theorem C03_result_single_child (k : Kinds) (r : Nat) (x : PT) (hk : k r = .abstr) :
    proc k (.nt r [x]) = proc k x :=
  proc_abstr_single k r x hk

/-- **Abstract rule, only match rules, partial.**  What is missing for "the
concatenated text whenever the alternative has only match rules": when one of
several all-match children is a non-terminal node (a multi-token match rule),
the result is that child's text alone (open known finding `C03-KF1`; the
behaviour is pinned by `tests/functional/regressions/test_issue166.py`). -/
theorem C03_result_all_match_partial (k : Kinds) (r : Nat) (kids : List PT) (x : PT) (hk : k r = .abstr)
    (hlen : kids.length ≠ 1) (hnm : kids.find? (PT.isNM k) = none) (hx : kids.find? PT.isNT = some x) :
    proc k (.nt r kids) = proc k x :=
  proc_abstr_match_nt k r kids x hk hlen hnm hx

def kfKinds : Kinds := fun r => if r = 0 then .abstr else .mtch

/-- the full statement is false of model and code: `Model: Prefix INT | …;
Prefix: '#' '#';` on `# # 5` gives `'##'`, not `'##5'`. -/
theorem C03_result_all_match_full_false :
    ∃ (k : Kinds) (r : Nat) (kids : List PT), k r = .abstr ∧ kids.find? (PT.isNM k) = none ∧
      proc k (.nt r kids) ≠ .prim (rawL kids) := by
  refine ⟨kfKinds, 0, [.nt 1 [.term "#" "#", .term "#" "#"], .term "5" "5"], rfl, rfl, ?_⟩
  intro h
  have h1 : proc kfKinds (.nt 0 [.nt 1 [.term "#" "#", .term "#" "#"], .term "5" "5"]) = .prim "##" := by
    simp [proc, procFirst, kfKinds, PT.isNM, PT.isNT, flatL, PT.flat]
  rw [h1] at h
  simp [rawL, PT.raw] at h

/-! ## the parse tree against the grammar, the result against `textx_isinstance`

`Derives k b kids` (an inductive relation, `TextxVerif/RuleTypesTree.lean`) says which lists of
children the body `b` of a root rule can leave in the rule's node: a match one terminal, a rule
reference the node of that rule (a terminal if the rule is a single match), a sequence the
concatenation, an ordered choice the children of one alternative — Arpeggio's flattening for the
documented fragment.  `WfTree g k t`: every node of an abstract rule in `t` has such children.
The driver evaluates the executable forms (`derivesB`, `treeOK`) on every Arpeggio parse tree of
the correspondence check, so the hypotheses below are observed facts about the real trees. -/

/-- the recogniser run by the driver decides the relation (sound and complete) -/
theorem C03_derives_iff (k : Kinds) (b : Body) (kids : List PT) :
    derivesB k b kids = true ↔ Derives k b kids :=
  derivesB_iff k b kids

/-- the tree check run by the driver decides `WfTree` -/
theorem C03_tree_iff (g : Gram) (k : Kinds) (t : PT) : treeOK g k t = true ↔ WfTree g k t :=
  treeOK_iff g k t

/-- **The alternative that matched.**  The children of a rule's node are those of one alternative
`a` of the body: the nodes of non-match rules among them are, in order, exactly the non-match
references of `a`; in particular the first child that is the node of a non-match rule is the node
of the first non-match reference of `a` (and there is no such child iff `a` has no such reference).
No side condition on the body: the relation itself only passes through sequences and choices. -/
theorem C03_children_alternative (k : Kinds) (b : Body) (kids : List PT) (h : Derives k b kids) :
    ∃ a, a ∈ b.alts ∧ (nmHeads k kids = a.filter fun r => k r != .mtch) ∧
      (kids.find? (PT.isNM k)).bind PT.head = firstNMof k a := by
  obtain ⟨a, ha, e⟩ := derives_alt h
  exact ⟨a, ha, e, by rw [find_isNM_head, firstNMof_eq_head, e]⟩

/-- the same through `FirstNM`, the relation `Edge` / `Reach` / `C03_inh` are stated with -/
theorem C03_children_firstNM (k : Kinds) (b : Body) (kids : List PT) (h : Derives k b kids) :
    FirstNM k b ((kids.find? (PT.isNM k)).bind PT.head) := by
  rw [find_isNM_head]
  exact derives_firstNM h

/-- **Abstract rule: the result by the alternative that matched.**  For the node of an abstract
rule whose children come from the body `b` there is an alternative `a` of `b` (the one that
matched) such that: if `a` has a first non-match reference `S`, the result is the result of the
node of `S` — the first child that is the node of a non-match rule; if `a` references match rules
only, the result is a plain value (its text: `C03_result_concat_terminals`, `C03_result_single_child`,
`C03_result_all_match_partial`). -/
theorem C03_result_alternative (k : Kinds) (R : Nat) (b : Body) (kids : List PT) (hk : k R = .abstr)
    (hd : Derives k b kids) :
    ∃ a, a ∈ b.alts ∧ (nmHeads k kids = a.filter fun r => k r != .mtch) ∧
      (∀ S, firstNMof k a = some S → ∃ ks, kids.find? (PT.isNM k) = some (.nt S ks) ∧
          proc k (.nt R kids) = proc k (.nt S ks)) ∧
      (firstNMof k a = none → ∃ s, proc k (.nt R kids) = .prim s) :=
  proc_alternative k R b kids hk hd

/-- **The rule-kind dispatch, clause by clause.**  `Yields` (`TextxVerif/RuleTypesTree.lean`) is the
specification written from the property text — a terminal and a match rule yield a plain value, a
common rule an object of its own class, an abstract rule what its single child yields / what the
*first* child that is the node of a non-match rule yields (with "first" spelled out as a split
`pre ++ x :: post` whose prefix has no such node) / the first match-rule node (KF1) / the
concatenated matched text.  `proc`, the function that is compared with `process_node`, computes
exactly this relation: it is total (every tree yields `proc k t`) and deterministic (nothing else).
`C03_match_plain`, `C03_result_single_child`, `C03_result_first_nonmatch`,
`C03_result_concat_terminals` are the clauses of this specification read as equations. -/
theorem C03_result_spec (k : Kinds) (t : PT) (v : Val) : Yields k t v ↔ proc k t = v :=
  ⟨yields_proc, fun h => h ▸ proc_yields k t⟩

/-- **The result is an instance of the rule.**  For every grammar, every assignment of kinds and
every parse tree whose abstract rules' nodes derive from their bodies: if the node of rule `R`
yields an object of rule `o`, then `R` is common and `o = R`, or `R` is abstract and `o` is
reachable from `R` through abstract-rule alternatives; in both cases `textx_isinstance(obj, R)`
holds.  (With `k = kindsOf g` this ties `proc` to `Reach`, `inhBy` and `isInstance`; bodies with
other operators may occur anywhere in the grammar, only the abstract rules *met in the tree* must
have derived children.) -/
theorem C03_result_instance (g : Gram) (hwf : WF g) (k : Kinds) (R : Nat) (kids : List PT)
    (ht : WfTree g k (.nt R kids)) (o : Nat) (attrs : List (String × List Val))
    (h : proc k (.nt R kids) = .obj o attrs) :
    ((k R = .common ∧ o = R) ∨ (k R = .abstr ∧ Reach g k R o)) ∧ isInstance g k o (.rule R) = true := by
  rcases proc_reach g k _ ht R kids rfl o attrs h with ⟨h1, h2⟩ | ⟨h1, h2, h3⟩
  · refine ⟨Or.inl ⟨h1, h2⟩, ?_⟩
    rw [isInstance_iff_path g hwf, h2]
    exact .refl _
  · exact ⟨Or.inr ⟨h1, h2⟩, (isInstance_iff_path g hwf k o R).mpr h3⟩

/-- `Model: B? C;  B: 'b' x=INT;  C: 'c' y=INT;` -/
def optGram : Gram := [⟨false, .seq [.other [.ref 1], .ref 2]⟩, ⟨true, .lit⟩, ⟨true, .lit⟩]

/-- **The hypothesis on the tree is needed.**  Without `WfTree` (an abstract rule with an optional
part, outside the documented fragment) the conclusion of `C03_result_instance` fails, in the model
and in textX alike: on `c 5` the model is the `C` object, `Model._tx_inh_by` holds `B` only, and
`textx_isinstance(model, Model)` is false. -/
theorem C03_result_instance_other_false :
    WF optGram ∧ ¬ WfTree optGram (kindsOf optGram) (.nt 0 [.nt 2 []]) ∧
      proc (kindsOf optGram) (.nt 0 [.nt 2 []]) = .obj 2 [] ∧
      inhBy optGram (kindsOf optGram) 0 = [1] ∧ isInstance optGram (kindsOf optGram) 2 (.rule 0) = false := by
  have h0 : kindsOf optGram 0 = .abstr := by decide
  have h2 : kindsOf optGram 2 = .common := by decide
  refine ⟨by decide, ?_, ?_, by decide, by decide⟩
  · intro h
    have := (C03_tree_iff _ _ _).mpr h
    revert this
    decide
  · simp [proc, procFirst, procAttrs, h0, h2]

/-- **Inheritance list, lower bound, all operators.**  Whatever operators the body contains, the
first non-match reference of every alternative that `FirstNM` describes (alternatives through the
documented part of the body) is in `_tx_inh_by`. -/
theorem C03_inh_lower (g : Gram) (k : Kinds) (R S : Nat) (h : Edge g k R S) : S ∈ inhBy g k R :=
  edge_mem_inhBy g k h

/-- **Inheritance list, upper bound, all operators.**  Every entry of `_tx_inh_by` of `R` is a
rule that `R` — an abstract rule — references and that is not a match rule. -/
theorem C03_inh_upper (g : Gram) (hwf : WF g) (R : Nat) (rule : Rule) (hR : g[R]? = some rule) :
    ∀ S ∈ inhBy g (kindsOf g) R,
      kindsOf g R = .abstr ∧ S ∈ rule.body.refs ∧ kindsOf g S ≠ .mtch :=
  inhBy_upper g _ (C03_kinds g hwf).2 R rule hR

/-- **textx_isinstance, all operators**: reachability through abstract-rule alternatives implies
it, and it implies reachability through references of abstract rules to non-match rules
(`nmRefs`).  For documented grammars both bounds coincide with `C03_isinstance`. -/
theorem C03_isinstance_bounds (g : Gram) (hwf : WF g) (o R : Nat) :
    ((R = o ∨ Reach g (kindsOf g) R o) → isInstance g (kindsOf g) o (.rule R) = true) ∧
    (isInstance g (kindsOf g) o (.rule R) = true → Path (nmRefs g (kindsOf g)) R o) := by
  constructor
  · rintro (rfl | h)
    · exact (isInstance_iff_path g hwf _ _ _).mpr (.refl _)
    · exact (isInstance_iff_path g hwf _ _ _).mpr (reach_path g _ h)
  · intro h
    exact path_mono (fun a y => inhBy_sub_nmRefs g _ (C03_kinds g hwf).2 a y)
      ((isInstance_iff_path g hwf _ _ _).mp h)

/-! ## the pinned behaviour violated the property (negation witnesses) -/

def wKinds : Kinds := fun r => if r = 0 then .abstr else .common

/-- (ii) `Model: A | A B;` — the pinned walk lists `B` although no alternative
of `Model` has `B` as its first non-match reference. -/
theorem C03_pinned_overapprox_false :
    2 ∈ (addRefPinned wKinds (.choice [.ref 1, .seq [.ref 1, .ref 2]]) []).1 ∧
      ¬ FirstNM wKinds (.choice [.ref 1, .seq [.ref 1, .ref 2]]) (some 2) := by
  refine ⟨by decide, ?_⟩
  intro h
  have := (addRef_spec wKinds (.choice [.ref 1, .seq [.ref 1, .ref 2]]) [] rfl).mem 2
  have h2 : 2 ∈ (addRef wKinds (.choice [.ref 1, .seq [.ref 1, .ref 2]]) []).1 := this.mpr (Or.inr h)
  revert h2
  decide

def w4Kinds : Kinds := fun r => if r = 0 then .abstr else if r = 1 then .mtch else .common

/-- (iv) `Model: 'x' (B | C) D;` with match rule `B` — the pinned walk stops after
the group and misses `D`, the first non-match reference of the alternative `'x' B D`. -/
theorem C03_pinned_choice_false :
    3 ∉ (addRefPinned w4Kinds (.seq [.lit, .choice [.ref 1, .ref 2], .ref 3]) []).1 ∧
      FirstNM w4Kinds (.seq [.lit, .choice [.ref 1, .ref 2], .ref 3]) (some 3) := by
  refine ⟨by decide, ?_⟩
  have := (addRef_spec w4Kinds (.seq [.lit, .choice [.ref 1, .ref 2], .ref 3]) [] rfl).mem 3
  have h2 : 3 ∈ (addRef w4Kinds (.seq [.lit, .choice [.ref 1, .ref 2], .ref 3]) []).1 := by decide
  rcases this.mp h2 with h | h
  · cases h
  · exact h

/-- `Model: X | Y;  X: 'k' Model | 'z' W;  Y: y=INT;  W: w=INT;` -/
def cycGram : Gram :=
  [⟨false, .choice [.ref 1, .ref 2]⟩, ⟨false, .choice [.seq [.lit, .ref 0], .seq [.lit, .ref 3]]⟩,
   ⟨true, .lit⟩, ⟨true, .lit⟩]

/-- (iii) the pinned code filled `X._tx_inh_by` when `X` turned abstract, while
`Model` was still a match rule: `Model` is missing, although `X` yields what
`Model` yields; the repaired `inhBy` has it. -/
theorem C03_pinned_cycle_false :
    inhByPinned cycGram 1 = [3] ∧ inhBy cycGram (kindsOf cycGram) 1 = [0, 3] ∧
      Edge cycGram (kindsOf cycGram) 1 0 := by
  have hwf : WF cycGram := by decide
  have h2 : inhBy cycGram (kindsOf cycGram) 1 = [0, 3] := by decide
  refine ⟨by decide, h2, ?_⟩
  have := (C03_inh cycGram hwf 1 _ rfl rfl).1 0
  exact this.mp (by rw [h2]; decide)

/-- (i) pinned `process_node` returned the first non-terminal child whatever its
kind: for `Model: Prefix Rule1; Prefix: '#' '#'; Rule1: a=INT;` the match rule's
text instead of the `Rule1` object. -/
theorem C03_pinned_result_false :
    ∃ (k : Kinds) (kids : List PT) (x : PT), kids.find? (PT.isNM k) = some x ∧
      (proc k x).objRules = [2] ∧ (procAbsPinned k kids).objRules = [] :=
  ⟨fun r => if r = 0 then .abstr else if r = 1 then .mtch else .common,
   [.nt 1 [.term "#" "#", .term "#" "#"], .nt 2 [.asgn "a" [.term "5" "5"]]], .nt 2 [.asgn "a" [.term "5" "5"]],
   rfl, by decide, by decide⟩

/-! ## non-vacuity -/

/-- the cyclic grammar: both `Model` and `X` are abstract, `Y`, `W` common -/
example : (determineAll cycGram).2 = true ∧ (List.range 4).map (kindsOf cycGram) = [.abstr, .abstr, .common, .common] := by
  decide

/-- a `Y` object is an instance of `X` (through `Model`), not of `W` -/
example : isInstance cycGram (kindsOf cycGram) 2 (.rule 1) = true ∧
    isInstance cycGram (kindsOf cycGram) 2 (.rule 3) = false := by decide

example : WF cycGram ∧ ∀ rule ∈ cycGram, rule.body.documented = true := by decide

/-- `C03_result_first_nonmatch` applies to `Prefix Rule1` -/
example : ([PT.nt 1 [.term "#" "#", .term "#" "#"], .nt 2 [.asgn "a" [.term "5" "5"]]]).find? (PT.isNM w4Kinds) =
    some (.nt 2 [.asgn "a" [.term "5" "5"]]) := rfl

/-- `Entry: Tag Value | Plain;  Tag: '@' ID ':';  Value: INT | BOOL | Obj;` on `@b: false`: the first
non-match reference (`Value`) gives the value of `BOOL`, whose text is `False` — not the text of `Tag` -/
example : proc (fun r => if r = 0 ∨ r = 2 then .abstr else .mtch)
    (.nt 0 [.nt 1 [.term "@" "@", .term "b" "b", .term ":" ":"], .nt 2 [.term "false" "False"]]) = .prim "False" := by
  simp [proc, procFirst, PT.isNM]

/-- several simple matches: the matched text, unconverted -/
example : proc (fun _ => .abstr) (.nt 0 [.term "#k" "#k", .term "false" "False"]) = .prim "#kfalse" := by
  simp [proc, procFirst, PT.isNM, PT.isNT, rawL, PT.raw]

/-- a multi-token match rule: the converted values, joined -/
example : proc (fun _ => .mtch) (.nt 0 [.term "#k" "#k", .term "false" "False"]) = .prim "#kFalse" := by
  simp [proc, flatL, PT.flat]

/-- the parse tree of `k z 5` in `cycGram`: `Model(X('k', Model(X('z', W(w=5)))))` -/
def cycTree : PT :=
  .nt 0 [.nt 1 [.term "k" "k", .nt 0 [.nt 1 [.term "z" "z", .nt 3 [.asgn "w" [.term "5" "5"]]]]]]

/-- the hypotheses of `C03_result_instance` hold for it (`WfTree` through its decision procedure),
the result is the `W` object, and the conclusion says it is an instance of `Model` -/
example : WF cycGram ∧ WfTree cycGram (kindsOf cycGram) cycTree ∧
    proc (kindsOf cycGram) cycTree = .obj 3 [("w", [.prim "5"])] ∧
    isInstance cycGram (kindsOf cycGram) 3 (.rule 0) = true := by
  have hwf : WF cycGram := by decide
  have ht : WfTree cycGram (kindsOf cycGram) cycTree := (C03_tree_iff _ _ _).mp (by decide)
  have hp : proc (kindsOf cycGram) cycTree = .obj 3 [("w", [.prim "5"])] := by
    have h0 : kindsOf cycGram 0 = .abstr := by decide
    have h1 : kindsOf cycGram 1 = .abstr := by decide
    have h3 : kindsOf cycGram 3 = .common := by decide
    simp [cycTree, proc, procFirst, procAttrs, procL, PT.isNM, h0, h1, h3]
  exact ⟨hwf, ht, hp, (C03_result_instance cycGram hwf _ 0 _ ht 3 _ hp).2⟩

/-- `Derives` is inhabited for a nested choice: `'x' (B | C) D` leaves `'x' B D`, `B` a match
rule that is a single match (a terminal) or a multi-token match rule (a node) -/
example : Derives w4Kinds (.seq [.lit, .choice [.ref 1, .ref 2], .ref 3]) [.term "x" "x", .term "b" "b", .nt 3 []] ∧
    Derives w4Kinds (.seq [.lit, .choice [.ref 1, .ref 2], .ref 3]) [.term "x" "x", .nt 1 [], .nt 3 []] :=
  ⟨(C03_derives_iff _ _ _).mp (by decide), (C03_derives_iff _ _ _).mp (by decide)⟩

/-- … and refuted for children no alternative leaves (`D` alone; `'x' C C`) -/
example : ¬ Derives w4Kinds (.seq [.lit, .choice [.ref 1, .ref 2], .ref 3]) [.nt 3 []] ∧
    ¬ Derives w4Kinds (.seq [.lit, .choice [.ref 1, .ref 2], .ref 3]) [.term "x" "x", .nt 2 [], .nt 2 []] :=
  ⟨fun h => by have := (C03_derives_iff _ _ _).mpr h; revert this; decide,
   fun h => by have := (C03_derives_iff _ _ _).mpr h; revert this; decide⟩

/-- `C03_result_alternative` on `Model: 'x' (B | C) D` with children `'x' B D`: the alternative is
`B D`, its first non-match reference `D` -/
example : nmHeads w4Kinds [.term "x" "x", .nt 1 [], .nt 3 []] = [3] ∧
    firstNMof w4Kinds [1, 3] = some 3 ∧ [1, 3] ∈ (Body.seq [.lit, .choice [.ref 1, .ref 2], .ref 3]).alts := by
  decide

/-- `C03_inh_lower` / `C03_isinstance_bounds` say something outside the documented fragment:
`Model: B? C;` (`B`, `C` common) — `B` is a first non-match reference through … nothing documented,
but `Model: (B? 'k') | C;` lists `C` by the theorem (and `B` by the walk) -/
example : Edge [⟨false, .choice [.other [.ref 1, .lit], .ref 2]⟩, ⟨true, .lit⟩, ⟨true, .lit⟩] wKinds 0 2 ∧
    inhBy [⟨false, .choice [.other [.ref 1, .lit], .ref 2]⟩, ⟨true, .lit⟩, ⟨true, .lit⟩] wKinds 0 = [1, 2] :=
  ⟨⟨_, rfl, rfl, .choice (List.mem_cons_of_mem _ (List.mem_cons_self ..)) (.refNM (by decide))⟩, by decide⟩

/-- the specification `Yields` is usable on its own: `Prefix Rule1` with `Prefix: '#' '#'` yields the
`Rule1` object by the first-non-match clause (prefix: the match rule's node) -/
example : Yields w4Kinds (.nt 0 [.nt 1 [.term "#" "#", .term "#" "#"], .nt 2 [.asgn "a" [.term "5" "5"]]])
    (.obj 2 [("a", [.prim "5"])]) := by
  have h : Yields w4Kinds (.nt 2 [.asgn "a" [.term "5" "5"]]) (.obj 2 [("a", [.prim "5"])]) := by
    have := Yields.common (k := w4Kinds) (r := 2) (kids := [.asgn "a" [.term "5" "5"]]) rfl
    simpa [procAttrs, procL, proc] using this
  exact Yields.firstNM (pre := [.nt 1 [.term "#" "#", .term "#" "#"]]) (post := []) rfl (by decide)
    (by simp [PT.isNM, w4Kinds]) (by simp [PT.isNM, w4Kinds]) h

end RuleTypes
