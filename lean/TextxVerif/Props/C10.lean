import TextxVerif.Proofs.Link.Fqn
import TextxVerif.Proofs.Link.FqnPath
import TextxVerif.Proofs.Link.FqnText
/-!
# C10 — the FQN scope provider resolves only genuine qualified names

Model: `Link.fqn` and its parts (`findObj`, `walk`, `findObjFqn`, `pathTo`,
`findReferenced`) in `TextxVerif/Link/Fqn.lean`, mirroring
`textx/scoping/providers.py:138-241` **after the repair** (`find_obj` searches
only attributes with containment semantics).  Specification: `Link.Chain`
("the parts match a chain of named objects, each contained in the previous
one"), `Link.IsPath` (the referencing object and its ancestors outward),
`Link.SiblingNamesUnique`.

Conformance to the target class is an arbitrary predicate `conf`.
Only property theorems and non-vacuity examples live here.
-/
namespace Link

/-- **Ancestors.** The search list is the referencing object followed by its
ancestors outward, ending in the model root; each is contained in the next. -/
theorem C10_ancestors (root : Obj) (cur : Nat) (ancs : List Obj) (h : pathTo cur root = some ancs) :
    IsPath cur root ancs ∧ (∃ c rest, ancs = c :: rest ∧ c.id = cur) ∧ ancs.getLast? = some root :=
  ⟨pathTo_isPath cur root ancs h, (pathTo_isPath cur root ancs h).head, (pathTo_isPath cur root ancs h).last⟩

/-- **One starting point.** From a fixed object the dotted name resolves exactly
when its parts match a containment chain ending in an object of the target type. -/
theorem C10_from (conf : Obj → Bool) (p o : Obj) (parts : List String)
    (hu : SiblingNamesUnique p) :
    findObjFqn conf p parts = some o ↔ Chain p parts o ∧ conf o = true :=
  findObjFqn_some_iff conf hu

/-- **The property.** When sibling names are unique, a reference made by the
object `cur` with dotted name `parts` resolves to `o` exactly when `o` ends a
containment chain matching `parts`, of the target type, that starts at the
*nearest* of `cur`, `parent cur`, … from which such a chain exists. -/
theorem C10_iff (conf : Obj → Bool) (root : Obj) (hu : SiblingNamesUnique root) (cur : Nat)
    (ancs : List Obj) (hp : pathTo cur root = some ancs) (parts : List String) (o : Obj) :
    fqn conf root cur parts = some o ↔
      ∃ pre p post, ancs = pre ++ p :: post ∧ Chain p parts o ∧ conf o = true ∧
        ∀ q, q ∈ pre → ¬ ∃ o', Chain q parts o' ∧ conf o' = true := by
  have hdesc := (pathTo_isPath cur root ancs hp).desc
  have huq : ∀ q, q ∈ ancs → ∀ x, Desc q x → UniqueNames x :=
    fun q hq x hx => hu x ((hdesc q hq).trans hx)
  unfold fqn findReferenced
  rw [hp]
  simp only [List.findSome?_eq_some_iff]
  constructor
  · rintro ⟨pre, p, post, hsplit, hf, hnone⟩
    have hpm : p ∈ ancs := by rw [hsplit]; simp
    have := (findObjFqn_some_iff conf (huq p hpm)).1 hf
    refine ⟨pre, p, post, hsplit, this.1, this.2, ?_⟩
    intro q hq
    exact (findObjFqn_none_iff conf (huq q (by rw [hsplit]; simp [hq]))).1 (hnone q hq)
  · rintro ⟨pre, p, post, hsplit, hch, hco, hnone⟩
    have hpm : p ∈ ancs := by rw [hsplit]; simp
    refine ⟨pre, p, post, hsplit, (findObjFqn_some_iff conf (huq p hpm)).2 ⟨hch, hco⟩, ?_⟩
    intro q hq
    exact (findObjFqn_none_iff conf (huq q (by rw [hsplit]; simp [hq]))).2 (hnone q hq)

/-- **Unknown object.** The provider returns `None` (→ "Unknown object") exactly
when no ancestor-or-self of `cur` starts a matching chain of the target type. -/
theorem C10_unknown_iff (conf : Obj → Bool) (root : Obj) (hu : SiblingNamesUnique root) (cur : Nat)
    (ancs : List Obj) (hp : pathTo cur root = some ancs) (parts : List String) :
    fqn conf root cur parts = none ↔
      ∀ q, q ∈ ancs → ¬ ∃ o, Chain q parts o ∧ conf o = true := by
  have hdesc := (pathTo_isPath cur root ancs hp).desc
  unfold fqn findReferenced
  rw [hp]
  simp only [List.findSome?_eq_none_iff]
  constructor
  · intro h q hq
    exact (findObjFqn_none_iff conf (fun x hx => hu x ((hdesc q hq).trans hx))).1 (h q hq)
  · intro h q hq
    exact (findObjFqn_none_iff conf (fun x hx => hu x ((hdesc q hq).trans hx))).2 (h q hq)

/-- a chain only descends through containment -/
theorem Chain.desc {p o : Obj} {parts : List String} (h : Chain p parts o) : Desc p o := by
  induction h with
  | nil p => exact Desc.refl p
  | cons hk _ _ ih => exact Desc.step hk ih

/-- **Never through parent links.** Whatever resolves lies *below* (by
containment only) an ancestor-or-self of the referencing object, at depth
`|parts|`; no sibling-uniqueness needed.  (`p.a.p.b`, which needs the step
`a → parent a`, is not a chain.) -/
theorem C10_no_parent (conf : Obj → Bool) (root : Obj) (cur : Nat) (parts : List String) (o : Obj)
    (h : fqn conf root cur parts = some o) :
    ∃ ancs p, pathTo cur root = some ancs ∧ p ∈ ancs ∧ Chain p parts o ∧ Desc p o ∧ conf o = true := by
  unfold fqn at h
  cases hp : pathTo cur root with
  | none => simp [hp] at h
  | some ancs =>
    simp only [hp, findReferenced] at h
    obtain ⟨p, hpm, hf⟩ := List.exists_of_findSome?_eq_some h
    unfold findObjFqn at hf
    cases hw : walk p parts with
    | none => simp [hw] at hf
    | some x =>
      simp only [hw] at hf
      by_cases hc : conf x = true
      · simp only [hc, if_true, Option.some.injEq] at hf
        subst hf
        exact ⟨ancs, p, rfl, hpm, walk_sound hw, (walk_sound hw).desc, hc⟩
      · simp [hc] at hf

/-- **Never through non-containment references.** Two models with the same
containment skeleton (identities, classes, names, containment attributes) that
differ arbitrarily in their reference and primitive attributes resolve every
dotted name from every object to the same target. -/
theorem C10_no_ref (c : Nat → Bool) (r₁ r₂ : Obj) (hs : strip r₁ = strip r₂) (cur : Nat)
    (parts : List String) :
    (fqn (fun o => c o.cls) r₁ cur parts).map Obj.id = (fqn (fun o => c o.cls) r₂ cur parts).map Obj.id := by
  have h1 := fqn_strip c r₁ cur parts
  have h2 := fqn_strip c r₂ cur parts
  rw [hs] at h1
  have : (fqn (fun o => c o.cls) r₁ cur parts).map strip = (fqn (fun o => c o.cls) r₂ cur parts).map strip :=
    h1.symm.trans h2
  have := congrArg (Option.map Obj.id) this
  simpa [Option.map_map, Function.comp_def, strip_id] using this

/-! ## the referencing object is any object of the model (no `pathTo` hypothesis)

`C10_iff` / `C10_unknown_iff` / `C10_ancestors` are stated for a given result of
`pathTo`.  In a model whose objects are distinct Python objects (`DistinctIds`, what the
parser builds) the `parent` chain of *every* object of the model exists, starts at that
object, ends in the root and is the only containment path to it (`IsPath` is the
specification: each element is directly contained in the next). -/

/-- **The ancestor list exists, starts at the referencing object and is unique.** -/
theorem C10_path_complete (root c : Obj) (hd : DistinctIds root) (hc : Desc root c) :
    ∃ rest, pathTo c.id root = some (c :: rest) ∧ IsPath c.id root (c :: rest) ∧
      (c :: rest).getLast? = some root ∧
      ∀ ancs, IsPath c.id root ancs → ancs = c :: rest := by
  obtain ⟨rest, hp⟩ := hc.exists_isPath
  exact ⟨rest, hp.pathTo_eq_some hd, hp, hp.last, fun ancs ha => IsPath.unique hd ha hp⟩

/-- the provider's `parent` walk is defined exactly for the objects of the model -/
theorem C10_path_defined_iff (root : Obj) (hd : DistinctIds root) (t : Nat) :
    (pathTo t root).isSome ↔ ∃ c, Desc root c ∧ c.id = t :=
  pathTo_isSome_iff hd t

/-- **The property, for every referencing object of the model.** `ancs` is *the*
containment path from the referencing object `c` outward to the root (specified by
`IsPath`; it exists and starts with `c` by `C10_path_complete`).  With unique sibling
names the dotted name resolves to `o` exactly when `o` ends a containment chain
matching `parts`, of the target type, starting at the nearest element of `ancs` from
which such a chain exists. -/
theorem C10_iff' (conf : Obj → Bool) (root : Obj) (hd : DistinctIds root)
    (hu : SiblingNamesUnique root) (c : Obj) (ancs : List Obj) (hp : IsPath c.id root ancs)
    (parts : List String) (o : Obj) :
    fqn conf root c.id parts = some o ↔
      ∃ pre p post, ancs = pre ++ p :: post ∧ Chain p parts o ∧ conf o = true ∧
        ∀ q, q ∈ pre → ¬ ∃ o', Chain q parts o' ∧ conf o' = true :=
  C10_iff conf root hu c.id ancs (hp.pathTo_eq_some hd) parts o

/-- `C10_iff'` with the path spelled out: it is `c :: rest`, so the search starts at the
referencing object itself. -/
theorem C10_iff_desc (conf : Obj → Bool) (root : Obj) (hd : DistinctIds root)
    (hu : SiblingNamesUnique root) (c : Obj) (hc : Desc root c) :
    ∃ rest, IsPath c.id root (c :: rest) ∧ ∀ (parts : List String) (o : Obj),
      (fqn conf root c.id parts = some o ↔
        ∃ pre p post, c :: rest = pre ++ p :: post ∧ Chain p parts o ∧ conf o = true ∧
          ∀ q, q ∈ pre → ¬ ∃ o', Chain q parts o' ∧ conf o' = true) := by
  obtain ⟨rest, hp⟩ := hc.exists_isPath
  exact ⟨rest, hp, fun parts o => C10_iff' conf root hd hu c (c :: rest) hp parts o⟩

/-- **Unknown object, for every referencing object of the model.** -/
theorem C10_unknown_iff' (conf : Obj → Bool) (root : Obj) (hd : DistinctIds root)
    (hu : SiblingNamesUnique root) (c : Obj) (ancs : List Obj) (hp : IsPath c.id root ancs)
    (parts : List String) :
    fqn conf root c.id parts = none ↔
      ∀ q, q ∈ ancs → ¬ ∃ o, Chain q parts o ∧ conf o = true :=
  C10_unknown_iff conf root hu c.id ancs (hp.pathTo_eq_some hd) parts

/-- **Never through non-containment references, any conformance predicate.**
`C10_no_ref` for every conformance predicate that does not look at non-containment
attributes (`conf (strip o) = conf o`; `textx_isinstance` looks at the class only). -/
theorem C10_no_ref' (conf : Obj → Bool) (hconf : ∀ o, conf (strip o) = conf o) (r₁ r₂ : Obj)
    (hs : strip r₁ = strip r₂) (cur : Nat) (parts : List String) :
    (fqn conf r₁ cur parts).map strip = (fqn conf r₂ cur parts).map strip := by
  have h1 := fqn_strip' conf hconf r₁ cur parts
  have h2 := fqn_strip' conf hconf r₂ cur parts
  rw [hs] at h1
  exact h1.symm.trans h2

/-! ## the dotted reference text

The provider gets the reference *text* and splits it with `fqn_name.split(".")`
(`splitDots`, used by the driver).  The split is specified independently of its
definition: it is the one and only list of dot-free parts whose `".".join` is the text. -/

/-- **Specification of the split.** Never empty, no part contains a dot, joining the
parts with dots gives the text back … -/
theorem C10_split_spec (s : List Char) :
    splitDotsL s ≠ [] ∧ (∀ w, w ∈ splitDotsL s → '.' ∉ w) ∧ joinDotsL (splitDotsL s) = s :=
  ⟨splitDotsL_ne_nil s, splitDotsL_no_dot s, joinDotsL_splitDotsL s⟩

/-- … and it is the only such list: the text `".".join(parts)` of dot-free `parts`
splits into exactly `parts`. -/
theorem C10_split_unique (s : List Char) (parts : List (List Char)) (hne : parts ≠ [])
    (hnd : ∀ w, w ∈ parts → '.' ∉ w) (hj : joinDotsL parts = s) : splitDotsL s = parts := by
  rw [← hj]; exact splitDotsL_joinDotsL parts hne hnd

/-- **The property on the text.** For dot-free, non-empty `parts` the provider called with
the text `".".join(parts)` from object `c` of the model resolves to `o` exactly when `o`
ends a conforming containment chain matching `parts` from the nearest ancestor-or-self
of `c` that has one. -/
theorem C10_text_iff (conf : Obj → Bool) (root : Obj) (hd : DistinctIds root)
    (hu : SiblingNamesUnique root) (c : Obj) (ancs : List Obj) (hp : IsPath c.id root ancs)
    (parts : List String) (hne : parts ≠ []) (hnd : ∀ w, w ∈ parts → '.' ∉ w.toList) (o : Obj) :
    fqnText conf root c.id (String.ofList (joinDotsL (parts.map String.toList))) = some o ↔
      ∃ pre p post, ancs = pre ++ p :: post ∧ Chain p parts o ∧ conf o = true ∧
        ∀ q, q ∈ pre → ¬ ∃ o', Chain q parts o' ∧ conf o' = true := by
  unfold fqnText
  rw [splitDots_join parts hne hnd]
  exact C10_iff' conf root hd hu c ancs hp parts o

/-- **Empty parts** (`a..b`, `.a`, `a.`, the empty text): when no object of the model is
named `""` such a name resolves from nowhere — no uniqueness hypothesis needed. -/
theorem C10_empty_part (conf : Obj → Bool) (root : Obj)
    (hnm : ∀ k, Desc root k → k.name ≠ some "") (cur : Nat) (parts : List String)
    (he : "" ∈ parts) : fqn conf root cur parts = none := by
  cases h : fqn conf root cur parts with
  | none => rfl
  | some o =>
    obtain ⟨ancs, p, hp, hpm, hch, _, _⟩ := C10_no_parent conf root cur parts o h
    obtain ⟨k, hk, hkn⟩ := hch.named "" he
    exact absurd hkn (hnm k (((pathTo_isPath cur root ancs hp).desc p hpm).trans hk))

/-! ## the guard is the repair

`walkHeap guard deref parentOf` is `find_obj`'s loop over *all* entries of `__dict__` —
containment attributes, resolved reference attributes (through `deref`) and `parent`
(through `parentOf`) — where `guard` is the repaired condition
`a in tx_attrs and tx_attrs[a].cont`.  Without the guard it is the pinned walk of
`C10_pinned_false`; with it, whatever the heap holds in reference attributes and `parent`
links, it is the containment walk `walk` all theorems above speak about. -/
theorem C10_heap_frame (deref parentOf : Nat → Option Obj) (p : Obj) (parts : List String) :
    walkHeap true deref parentOf p parts = walk p parts ∧
    walkHeap false deref parentOf p parts = walkPinned deref parentOf p parts :=
  ⟨walkHeap_true deref parentOf p parts, walkHeap_false deref parentOf p parts⟩

/-! ## the pinned behaviour violates the property (negation witness) -/

/-- `package p { class a friend b;  class b; }` -/
def exB : Obj := .mk 3 1 (some "b") []
def exA : Obj := .mk 2 1 (some "a") [.ref [3]]
def exP : Obj := .mk 1 0 (some "p") [.cont [], .cont [exA, exB]]
def exModel : Obj := .mk 0 9 none [.cont [exP]]
def exDeref : Nat → Option Obj := fun i => if i = 3 then some exB else none
def exParent : Nat → Option Obj := fun i => if i = 2 ∨ i = 3 then some exP else if i = 1 then some exModel else none

instance : DecidablePred UniqueNames := fun p => by unfold UniqueNames; infer_instance

theorem exModel_unique : SiblingNamesUnique exModel := by
  intro q hq
  have hq' := (mem_preorder_iff_desc exModel q).2 hq
  have hall : ∀ x, x ∈ preorder exModel → UniqueNames x := by decide
  exact hall q hq'

/-- Before the repair `find_obj` also looked at `parent` and at resolved
reference attributes: `p.a.p.b` and `p.a.b` resolved to class `b` although no
such containment chain exists (sibling names are unique in the witness). -/
theorem C10_pinned_false :
    SiblingNamesUnique exModel ∧
    (walkPinned exDeref exParent exModel ["p", "a", "p", "b"]).map Obj.id = some 3 ∧
    (¬ ∃ o, Chain exModel ["p", "a", "p", "b"] o) ∧
    (walkPinned exDeref exParent exModel ["p", "a", "b"]).map Obj.id = some 3 ∧
    (¬ ∃ o, Chain exModel ["p", "a", "b"] o) := by
  refine ⟨exModel_unique, by decide, ?_, by decide, ?_⟩
  · rintro ⟨o, ho⟩
    have := walk_complete (fun q hq => exModel_unique q hq) ho
    have hn : (walk exModel ["p", "a", "p", "b"]).isSome = false := by decide
    rw [this] at hn; cases hn
  · rintro ⟨o, ho⟩
    have := walk_complete (fun q hq => exModel_unique q hq) ho
    have hn : (walk exModel ["p", "a", "b"]).isSome = false := by decide
    rw [this] at hn; cases hn

/-! ## non-vacuity -/
/-- the repaired provider on the witness: the genuine names resolve, the spurious do not -/
example : (fqn (fun _ => true) exModel 2 ["p", "b"]).map Obj.id = some 3 := by decide
example : (fqn (fun _ => true) exModel 2 ["b"]).map Obj.id = some 3 := by decide
example : (fqn (fun o => o.cls == 0) exModel 3 ["p"]).map Obj.id = some 1 := by decide
example : (fqn (fun _ => true) exModel 0 ["p", "a", "p", "b"]).map Obj.id = none := by decide
example : (fqn (fun _ => true) exModel 0 ["p", "a", "b"]).map Obj.id = none := by decide
example : (pathTo 2 exModel).map (fun p => p.map Obj.id) = some [2, 1, 0] := by decide

/-- the witness is a tree of distinct objects; the `parent` chain of class `a` -/
example : DistinctIds exModel := by unfold DistinctIds; decide
example : Desc exModel exA :=
  Desc.step (k := exP) (by simp [exModel, Obj.children, Obj.attrs, Attr.kids])
    (Desc.child (by simp [exP, Obj.children, Obj.attrs, Attr.kids]))
example : IsPath exA.id exModel [exA, exP, exModel] :=
  IsPath.inside (o := exModel) (k := exP) (p := [exA, exP]) (by simp [exModel, Obj.children, Obj.attrs, Attr.kids])
    (IsPath.inside (o := exP) (p := [exA]) (by simp [exP, Obj.children, Obj.attrs, Attr.kids]) (IsPath.here rfl))
/-- a conformance predicate that looks at class and name only is blind to references -/
example : ∀ o, (fun o : Obj => o.cls == 1 && o.name != some "x") (strip o) =
    (fun o : Obj => o.cls == 1 && o.name != some "x") o := by
  intro o; simp [strip_cls, strip_name]

/-- the split on concrete texts (Python: `"a..b".split(".") == ["a", "", "b"]`, `"".split(".") == [""]`) -/
example : splitDotsL "p.a.b".toList = ["p".toList, "a".toList, "b".toList] := by decide
example : splitDotsL "a..b".toList = ["a".toList, [], "b".toList] := by decide
example : splitDotsL "".toList = [[]] := by decide
example : splitDotsL ".a".toList = [[], "a".toList] := by decide
example : joinDotsL ["p".toList, "a".toList] = "p.a".toList := by decide
/-- the hypotheses of `C10_text_iff` / `C10_empty_part` on the witness -/
example : ∀ w, w ∈ ["p", "b"] → '.' ∉ w.toList := by decide
example : ∀ k, Desc exModel k → k.name ≠ some "" := by
  intro k hk
  have hall : ∀ x, x ∈ preorder exModel → x.name ≠ some "" := by decide
  exact hall k ((mem_preorder_iff_desc _ _).2 hk)
/-- on the witness heap the guarded walk refuses what the unguarded one resolves -/
example : (walkHeap true exDeref exParent exModel ["p", "a", "p", "b"]).map Obj.id = none ∧
    (walkHeap false exDeref exParent exModel ["p", "a", "p", "b"]).map Obj.id = some 3 := by decide

end Link
