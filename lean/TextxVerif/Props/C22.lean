import TextxVerif.Proofs.PegGapSim
import TextxVerif.Proofs.PegActiveSet
import TextxVerif.Proofs.PegWsParam
import TextxVerif.Proofs.TxGapBuild
import TextxVerif.Proofs.PegSetup
/-!
# C22 — whitespace and comments between tokens do not change the model

Model: the Arpeggio mirror `Peg.Arp` (`Match.parse` with whitespace skipping, `_parse_comments`, the
position-keyed `comment_positions` cache, `ws` / `skipws` / `eolterm` contexts).  Token matching is an input
table, so "no terminal consumes or inspects the gap material" (DESIGN.md C22 Reading, `LexicalGrammar`) is
the hypothesis `tokCompatB` on the tables of the original and of the extended input.

Proved here
* `C22_skip_maximal`, `C22_skip_unique`, `C22_skip_never_outside`, `C22_skip_idempotent`: the skipping loop
  skips exactly the maximal run of characters of the active set;
* `C22_token_shift`: gap extension at the level of one `Match.parse`;
* `C22_partial_ws`: whole-parse invariance under gap extension (all grammars, inputs, fuels), for the
  fragment: memoization off, every whitespace mode of the parser model skips the inserted characters (no
  `noskipws`; every `ws=` set and the global set contain them; `eolterm` only when no end-of-line character
  is inserted).  A `Comment` rule, predicates, repetitions with separators, unordered groups, suppression
  and different `ws=` sets are all inside the fragment.
* `C22_only_active_set` + `C22_identity_cache_invariant`: without a comment model no character outside the
  active set is ever skipped, in every mode (`noskipws`, `ws=`, `eolterm` included).

* `C22_ws_param_denotes`, `C22_ws_param_skip`, `C22_ws_param_literal`: the `ws='…'` rule modifier as written in
  the grammar (`visit_rule_params`, model `Peg/WsParam.lean`) — for every way of writing a set of characters
  (each of new-line, carriage return, tab as escape sequence or literally, any other character literally,
  any order, repetitions) the active set of the rule consists of exactly the characters written.

* `C22_tree_terminals_are_tokens`: whole-run invariant — every terminal of the result tree is an entry of the
  token table (or `EOF` at the end of the input), so under `gapExtOkB` none overlaps the insertion point;
* `C22_slice_extendGap`, `C22_term_value_ext`, `C22_build_shift`, `C22_model_unchanged`: the **model** is
  unchanged — `Tx.load` (parse + `parse_tree_to_objgraph`, mirror `Tx/Build.lean`, tied to the code by C01) gives
  on the gap-extended input exactly the outcome it gives on the original one: the same objects, attribute
  values, creation order and parents, or the same error; nested objects, match rules, abstract rules and
  `use_regexp_group` included.  (The mirror's model carries no source positions.)
* `C22_ws_param_tx`: the compiler mirror `Tx.compile` uses the same `ws` decoding (`Tx.wsParam`).

* `C22_comment_own_first`, `C22_comment_import_order`, `C22_comment_none`: which Comment rule is "the grammar's
  Comment rule" when the grammar is spread over imported files (model `Peg/Setup.lean` of the lookup in
  `visit_textx_model` / `TextXMetaModel.__getitem__`): the main file's own, else that of the first imported file
  (order of the import statements) that defines one, else none;
* `C22_parser_cfg_history`, `C22_default_cfg_no_memo`: the whitespace configuration of a meta-model's parser
  (skipws, ws, memoization) is that of the meta-model itself, whatever meta-models were created before it in the
  same process (the cache of grammar-language parsers `textX_parsers` is the state threaded through).

Not proved: `C22_partial_comment` (inserting text matched by the Comment rule) — checked by the harness only.
The full statement is false on the mirror and on the code because `comment_positions` is keyed by position
only: `C22_full_false_active_set`, `C22_full_false_gap_extension`.
-/
namespace Peg

/-! ## (1) the skipping loop -/

/-- **Maximal run.** Skipping from `q` stops at `r ≥ q` such that every character in `[q, r)` belongs to
the active set and the character at `r` (if there is one) does not. -/
theorem C22_skip_maximal (inp : Array Char) (W : List Char) (q : Nat) :
    q ≤ skipTo inp W q ∧
    (∀ i, q ≤ i → i < skipTo inp W q → ∃ c, inp[i]? = some c ∧ c ∈ W) ∧
    (∀ c, inp[skipTo inp W q]? = some c → c ∉ W) := by
  obtain ⟨h1, h2, h3⟩ := skipTo_spec inp W q
  exact ⟨h1, h2, fun c hc hW => h3 ⟨c, hc, hW⟩⟩

/-- … and that position is the only one with these properties. -/
theorem C22_skip_unique (inp : Array Char) (W : List Char) (q r : Nat) (h1 : q ≤ r)
    (h2 : ∀ i, q ≤ i → i < r → ∃ c, inp[i]? = some c ∧ c ∈ W) (h3 : ∀ c, inp[r]? = some c → c ∉ W) :
    skipTo inp W q = r :=
  skipTo_eq ⟨h1, h2, fun ⟨c, hc, hW⟩ => h3 c hc hW⟩

/-- A character outside the active set is never skipped. -/
theorem C22_skip_never_outside (inp : Array Char) (W : List Char) (q i : Nat) (c : Char) (hqi : q ≤ i)
    (hc : inp[i]? = some c) (hW : c ∉ W) : skipTo inp W q ≤ i := by
  obtain ⟨_, h2, _⟩ := skipTo_spec inp W q
  rcases Nat.lt_or_ge i (skipTo inp W q) with h | h
  · obtain ⟨c', hc', hW'⟩ := h2 i hqi h
    rw [hc] at hc'; cases hc'; exact absurd hW' hW
  · exact h

/-- The loop as used by the parser (`skipWs`, fuel `|input| + 1 - pos`) is `skipTo`, and it is idempotent. -/
theorem C22_skip_idempotent (g : Grammar) (s : PState) : skipWs g (skipWs g s) = skipWs g s := by
  show ({ skipWs g s with pos := skipTo g.input (skipWs g s).ws (skipWs g s).pos } : PState) = skipWs g s
  have : skipTo g.input (skipWs g s).ws (skipWs g s).pos = (skipWs g s).pos := skipTo_idem g.input s.ws s.pos
  rw [this]

/-! ## (2) one token -/

/-- **Token level.** `g'` is `g` on the extended input (`Ext`: same parser model, memoization off,
`k` characters of `ins` inserted in front of `p`, compatible token tables, every mode skips `ins`).
From related states (`SR`: same whitespace context, positions related by `R`, comment cache and
furthest-failure record shifted) one `Match.parse` gives related results: the same terminal at the
shifted position, the same failure; nothing else changes. -/
theorem C22_token_shift {g g' : Grammar} {ins : List Char} {p k : Nat} (hx : Ext g g' ins p k)
    {q q' : SubParser} (hq : SPR ins p k q q') (n id : Nat) (nd : Node) {s s' : PState}
    (hs : SR ins p k s s') :
    PR ins p k (matchNode g (commentsLoop g q n) id nd s) (matchNode g' (commentsLoop g' q' n) id nd s') :=
  (matchNode_rel hx (commentsLoop_rel hx hq n) id nd hs).1

/-! ## (3) the whole parse -/

/-- outcomes that differ by the position shift only -/
inductive OutRel (p k : Nat) : Outcome → Outcome → Prop
  | tree (v : Val) : OutRel p k (.tree v) (.tree (v.shift (sh p k)))
  | noMatch (a a' : Nat) : R p k a a' → OutRel p k (.noMatch a) (.noMatch a')
  | fuel : OutRel p k .fuel .fuel
  | bad : OutRel p k .bad .bad

theorem R_zero (p k : Nat) : R p k 0 0 := by
  unfold R sh
  by_cases h : 0 < p
  · left; simp [h]
  · right; omega

/-- **Gap extension leaves the parse unchanged up to the position shift** (the proved fragment of the
property, see the file header).  For every parser model `g` with memoization off, every input, every
insertion point `p ≤ |input|`, every inserted string `ins` all of whose characters are in the global
whitespace set and in every `ws=` set of the model, with no `noskipws` anywhere and no `eolterm` unless
`ins` has no end-of-line character, and every token table `toks'` for the extended input that is compatible
with the original one (`gapExtOkB`, decidable): for every fuel, the run on the extended input gives the
same tree with every terminal at or behind `p` moved by `|ins|`, or fails where the original fails
(furthest-failure position related by `R`), or runs out of fuel exactly when the original does. -/
theorem C22_partial_ws (g : Grammar) (top : Nat) (skipws : Bool) (ws : List Char) (p : Nat) (ins : List Char)
    (toks' : Array (Array (Option Nat))) (h : gapExtOkB g p ins toks' skipws ws = true) (fuel : Nat) :
    OutRel p ins.length (run g top skipws ws fuel) (run (g.ext p ins toks') top skipws ws fuel) := by
  obtain ⟨hx, hs, hw⟩ := ext_of_check h
  subst hs
  have h0 : SR ins p ins.length (initState true ws) (initState true ws) :=
    ⟨⟨rfl, hw, hw, fun h => by simp [initState] at h⟩, R_zero _ _, rfl, rfl, rfl, rfl, rfl, rfl, trivial⟩
  obtain ⟨hr, ht⟩ := (parse_rel hx fuel top _ _ h0).1
  unfold run
  rcases h1 : parse g fuel top (initState true ws) with ⟨r, t⟩
  rcases h2 : parse (g.ext p ins toks') fuel top (initState true ws) with ⟨r', t'⟩
  rw [h1, h2] at hr ht
  simp only at hr ht
  cases hr with
  | ok v => exact .tree v
  | nom =>
    simp only
    have hnm := ht.nm
    cases hn : t.nm <;> cases hn' : t'.nm <;> rw [hn, hn'] at hnm
    · exact .noMatch 0 0 (R_zero _ _)
    · exact absurd hnm (by simp [NR])
    · exact absurd hnm (by simp [NR])
    · exact .noMatch _ _ hnm
  | fuel => exact .fuel
  | bad => exact .bad

/-- acceptance, in particular, is invariant -/
theorem C22_partial_ws_accepts (g : Grammar) (top : Nat) (skipws : Bool) (ws : List Char) (p : Nat)
    (ins : List Char) (toks' : Array (Array (Option Nat))) (h : gapExtOkB g p ins toks' skipws ws = true)
    (fuel : Nat) :
    (∃ v, run g top skipws ws fuel = .tree v) ↔ (∃ v, run (g.ext p ins toks') top skipws ws fuel = .tree v) := by
  have := C22_partial_ws g top skipws ws p ins toks' h fuel
  generalize run g top skipws ws fuel = o at this ⊢
  generalize run (g.ext p ins toks') top skipws ws fuel = o' at this ⊢
  cases this <;> simp

/-! ## only the active set is skipped -/

/-- Without a comment model the comment cache only ever holds identity entries: an invariant of the whole
parse, for every parser model, memoization setting, mode and fuel. -/
theorem C22_identity_cache_invariant (g : Grammar) (hc : g.comments = none) (n id : Nat) (s : PState)
    (h : IdC s) : IdC (parse g n id s).2 :=
  parse_pres g hc n id s h

/-- **Only the active set.** Without a comment model, whenever a `Match.parse` (entered in a state reachable
from the initial one, i.e. with an identity cache) produces a terminal, the terminal starts exactly where
skipping over the *current* set `s.ws` stops — at the entry position itself when skipping is off.  Hence
(`C22_skip_maximal`, `C22_skip_never_outside`) every character in front of it that was passed over belongs to
the set in force, whatever `noskipws` / `ws=` / `eolterm` context the match runs in. -/
theorem C22_only_active_set (g : Grammar) (hc : g.comments = none) (q : SubParser) (n id : Nat) (nd : Node)
    (s t : PState) (h : IdC s) (i c len : Nat)
    (hm : matchNode g (commentsLoop g q n) id nd s = (.ok (.term i c len), t)) :
    c = (if s.skipws then skipTo g.input s.ws s.pos else s.pos) ∧ IdC t := by
  have hpc : ∀ s, commentsLoop g q n s = (.ok .none, s) := by intro s; unfold commentsLoop; rw [hc]
  refine ⟨matchNode_term_pos hpc h hm, ?_⟩
  have := matchNode_pres g hpc id nd s h
  rw [hm] at this; exact this

/-! ## (4) the full statement is false: `comment_positions` is keyed by position only -/

def accepts : Outcome → Bool
  | .tree _ => true
  | _ => false

mutual
/-- the tree contains the terminal of node `n` at position `q` -/
def Val.hasTerm (n q : Nat) : Val → Bool
  | .none => false
  | .term n' q' _ => n' == n && q' == q
  | .nt _ ks => Val.hasTermList n q ks
  | .list vs => Val.hasTermList n q vs
def Val.hasTermList (n q : Nat) : List Val → Bool
  | [] => false
  | v :: vs => v.hasTerm n q || Val.hasTermList n q vs
end

def Outcome.hasTerm (n q : Nat) : Outcome → Bool
  | .tree v => v.hasTerm n q
  | _ => false

/-- parser model textX compiles from
`Model: A | B; A: 'a' 'x'; B[ws=' ']: 'a' 'b'; Comment: /#[^#]*#/;` (dumped from the real parser;
node 5 is rule `B` with `ws = " "`, node 7 its terminal `'b'`, node 9 the comment model) -/
def w1Nodes : Array Node := #[
  ({ kind := .seq, kids := [1, 8], root := true } : Node),
  ({ kind := .choice, kids := [2, 5], root := true } : Node),
  ({ kind := .seq, kids := [3, 4], root := true } : Node),
  ({ kind := .str, tok := 3 } : Node),
  ({ kind := .str, tok := 4 } : Node),
  ({ kind := .seq, kids := [6, 7], ws := some [' '], root := true } : Node),
  ({ kind := .str, tok := 6 } : Node),
  ({ kind := .str, tok := 7 } : Node),
  ({ kind := .eof } : Node),
  ({ kind := .re, tok := 9, root := true } : Node)]

/-- token table of the input `"a #c#\nb"` (`re.match` / string comparison at every position) -/
def w1Toks : Array (Array (Option Nat)) := #[#[], #[], #[],
  #[some 1, none, none, none, none, none, none, none], #[none, none, none, none, none, none, none, none], #[],
  #[some 1, none, none, none, none, none, none, none], #[none, none, none, none, none, none, some 1, none], #[],
  #[none, none, some 3, none, none, none, none, none]]

def w1Input : Array Char := #['a', ' ', '#', 'c', '#', '\n', 'b']
def defaultWs : List Char := ['\t', '\n', '\r', ' ']

def w1 : Grammar := Grammar.mk w1Nodes (some 9) false w1Input w1Toks
/-- the same model with the alternative `A` removed from the choice -/
def w1OnlyB : Grammar := Grammar.mk (w1Nodes.set! 1 ({ kind := .choice, kids := [5], root := true } : Node))
  (some 9) false w1Input w1Toks

/-- **Negation witness (a character outside the active set is skipped).**  In rule `B[ws=' ']` the terminal
`'b'` is matched at position 6 of `"a #c#\nb"`: the newline at position 5 was passed over although the set
in force is `{' '}` — alternative `A`, tried first under the default set, cached "comment block at 2 ends
at 6" in `comment_positions`, and `B` reuses the entry.  With `A` removed the same input is rejected. -/
theorem C22_full_false_active_set :
    (run w1 0 true defaultWs 60).hasTerm 7 6 = true ∧ w1Input[5]? = some '\n' ∧
    (w1Nodes[5]?.bind (·.ws)) = some [' '] ∧ accepts (run w1OnlyB 0 true defaultWs 60) = false := by
  decide +kernel

/-- parser model of `Model: A | B; A[noskipws]: 'a' 'x'; B: 'a' 'b'; Comment: /#[^#]*#/;` -/
def w2Nodes : Array Node := #[
  ({ kind := .seq, kids := [1, 8], root := true } : Node),
  ({ kind := .choice, kids := [2, 5], root := true } : Node),
  ({ kind := .seq, kids := [3, 4], skipws := some false, root := true } : Node),
  ({ kind := .str, tok := 3 } : Node),
  ({ kind := .str, tok := 4 } : Node),
  ({ kind := .seq, kids := [6, 7], root := true } : Node),
  ({ kind := .str, tok := 6 } : Node),
  ({ kind := .str, tok := 7 } : Node),
  ({ kind := .eof } : Node),
  ({ kind := .re, tok := 9, root := true } : Node)]

/-- token table of `"a#c#b"` -/
def w2Toks : Array (Array (Option Nat)) := #[#[], #[], #[],
  #[some 1, none, none, none, none, none], #[none, none, none, none, none, none], #[],
  #[some 1, none, none, none, none, none], #[none, none, none, none, some 1, none], #[],
  #[none, some 3, none, none, none, none]]
/-- token table of `"a#c# b"` -/
def w2ToksExt : Array (Array (Option Nat)) := #[#[], #[], #[],
  #[some 1, none, none, none, none, none, none], #[none, none, none, none, none, none, none], #[],
  #[some 1, none, none, none, none, none, none], #[none, none, none, none, none, some 1, none], #[],
  #[none, some 3, none, none, none, none, none]]

def w2 : Grammar := Grammar.mk w2Nodes (some 9) false #['a', '#', 'c', '#', 'b'] w2Toks

/-- **Negation witness (gap extension changes acceptance).**  `"a#c#b"` is accepted through rule `B`
(skipping on, default set); extending the non-empty gap `#c#` by a space in front of `b` — every side
condition of `C22_partial_ws` holds except that alternative `A` is `noskipws` — makes the parse fail:
`A` cached "comment at 1 ends at 4" without the whitespace skipping that follows a comment, and `B` reuses
it.  So the hypothesis on the modes cannot be dropped from `C22_partial_ws`. -/
theorem C22_full_false_gap_extension :
    accepts (run w2 0 true defaultWs 60) = true ∧
    (w2.ext 4 [' '] w2ToksExt).input = #['a', '#', 'c', '#', ' ', 'b'] ∧
    tokCompatB w2 (w2.ext 4 [' '] w2ToksExt) 4 1 = true ∧ rowsOkB w2 = true ∧
    rowsOkB (w2.ext 4 [' '] w2ToksExt) = true ∧ modesSkipB w2 [' '] = false ∧
    accepts (run (w2.ext 4 [' '] w2ToksExt) 0 true defaultWs 60) = false := by
  decide +kernel

/-! ## non-vacuity -/

/-- the hypotheses of `C22_partial_ws` are satisfiable by a non-trivial instance with a Comment rule and a
`ws=` modifier: `"a #c# b"` for the first model, extended by a space inside the gap (position 1) -/
def w1bToks : Array (Array (Option Nat)) := #[#[], #[], #[],
  #[some 1, none, none, none, none, none, none, none], #[none, none, none, none, none, none, none, none], #[],
  #[some 1, none, none, none, none, none, none, none], #[none, none, none, none, none, none, some 1, none], #[],
  #[none, none, some 3, none, none, none, none, none]]
def w1bToksExt : Array (Array (Option Nat)) := #[#[], #[], #[],
  #[some 1, none, none, none, none, none, none, none, none], #[none, none, none, none, none, none, none, none, none], #[],
  #[some 1, none, none, none, none, none, none, none, none], #[none, none, none, none, none, none, none, some 1, none], #[],
  #[none, none, none, some 3, none, none, none, none, none]]
def w1b : Grammar := Grammar.mk w1Nodes (some 9) false #['a', ' ', '#', 'c', '#', ' ', 'b'] w1bToks

example : gapExtOkB w1b 1 [' '] w1bToksExt true defaultWs = true ∧
    accepts (run w1b 0 true defaultWs 60) = true ∧
    accepts (run (w1b.ext 1 [' '] w1bToksExt) 0 true defaultWs 60) = true := by decide +kernel

example : skipTo #['a', ' ', '\n', 'b'] [' '] 1 = 2 ∧ skipTo #['a', ' ', '\n', 'b'] [' ', '\n'] 1 = 3 := by
  decide +kernel

/-! ## (5) the `ws` rule modifier as written in the grammar -/

/-- **The written `ws` value denotes its characters.**  However the set is written — each of new-line,
carriage return and tab as an escape sequence or literally, every other character (except the backslash,
which starts an escape sequence) literally, in any order, with repetitions — the set `visit_rule_params`
puts in force for the rule contains exactly the characters written. -/
theorem C22_ws_param_denotes (is : List WsItem) (h : WellSpelled is) (c : Char) :
    c ∈ wsParam (spellWs is) ↔ ∃ i ∈ is, i.denotes = c := wsParam_denotes h c

/-- … hence, between the tokens of such a rule, the skipping loop passes exactly the maximal run of
characters that are written in the modifier. -/
theorem C22_ws_param_skip (is : List WsItem) (h : WellSpelled is) (inp : Array Char) (q : Nat) :
    (∀ j, q ≤ j → j < skipTo inp (wsParam (spellWs is)) q →
      ∃ c, inp[j]? = some c ∧ ∃ i ∈ is, i.denotes = c) ∧
    (∀ c, inp[skipTo inp (wsParam (spellWs is)) q]? = some c → ∀ i ∈ is, i.denotes ≠ c) := by
  obtain ⟨_, h2, h3⟩ := C22_skip_maximal inp (wsParam (spellWs is)) q
  refine ⟨fun j hq hj => ?_, fun c hc i hi hd => ?_⟩
  · obtain ⟨c, hc, hm⟩ := h2 j hq hj
    exact ⟨c, hc, (wsParam_denotes h c).1 hm⟩
  · exact h3 c hc ((wsParam_denotes h c).2 ⟨i, hi, hd⟩)

/-- A value without a backslash is taken as it is. -/
theorem C22_ws_param_literal (cs : List Char) (h : '\\' ∉ cs) : wsParam cs = cs := by
  unfold wsParam
  have : ¬ (cs.contains '\\' = true) := by simpa using h
  rw [if_neg this]

/-- non-vacuity: `ws=' \t\r\n'` written with escapes, the same set with a literal tab and a comma, the
flags `noskipws` / `skipws` (the last one wins), an unknown flag is rejected -/
example : wsParam [' ', '\\', 't', '\\', 'r', '\\', 'n'] = ['\n', '\r', '\t', ' '] := by decide
example : wsParam ['\\', 'n', '\t', ','] = ['\n', '\t', ','] := by decide
example : wsParam (spellWs [.lit ' ', .escT, .escR, .escN]) = ['\n', '\r', '\t', ' '] := by decide
example : ruleMods [.flag "noskipws", .ws ['\\', 'r'], .flag "skipws"] {} =
    some { skipws := some true, ws := some ['\r'] } := by decide
example : ruleMods [.flag "noskip"] {} = none := by decide

/-! ## (6) the model: attribute values are read from the input by position -/

/-- **Whole-run invariant: every terminal of the parse tree is a match of the token table.**  With
memoization off, for every parser model, input, start node, state and fuel: each `Terminal (node, pos, len)`
anywhere in the tree returned by `parse` is `EOF` at the end of the input (`len = 0`) or an entry
`toks[node.tok][pos] = len` of the token table. -/
theorem C22_tree_terminals_are_tokens (g : Grammar) (hm : g.memo = false) (n id : Nat) (s : PState) (v : Val)
    (t : PState) (h : parse g n id s = (.ok v, t)) : v.allTerms (tokTermB g) = true := by
  have := parse_terms g hm n id s
  rw [h] at this
  exact this

/-- … hence, under the side conditions of `C22_partial_ws`, no terminal of the tree overlaps the insertion
point: each one ends in front of `p` or starts at / behind it, inside the input. -/
theorem C22_no_terminal_overlaps_gap (g : Grammar) (p : Nat) (ins : List Char) (toks' : Array (Array (Option Nat)))
    (skipws : Bool) (ws : List Char) (h : gapExtOkB g p ins toks' skipws ws = true) (n id : Nat) (s : PState)
    (v : Val) (t : PState) (hp : parse g n id s = (.ok v, t)) :
    v.allTerms (fun _ q len => (decide (p ≤ q) || decide (q + len ≤ p)) && decide (q ≤ g.input.size)) = true := by
  obtain ⟨hx, _, _⟩ := ext_of_check h
  exact parse_terms_clear hx.memo hx.toks (Tx.rows_of_check h) n id s v t hp

/-- **A slice that does not overlap the insertion point is unchanged** (the text `Terminal.value` of a regex
match is `input[pos : pos+len]`): in the extended input it is found at the shifted position. -/
theorem C22_slice_extendGap (inp : Array Char) (p : Nat) (ins : List Char) (hp : p ≤ inp.size) (q len : Nat)
    (h : q + len ≤ p ∨ p ≤ q) :
    Tx.slice (extendGap inp p ins) (sh p ins.length q) len = Tx.slice inp q len :=
  Tx.slice_extendGap inp p ins hp q len h

/-- **The value of a terminal is unchanged**: what `process_node` computes for a Terminal that does not overlap
the insertion point (base-type conversion; with `use_regexp_group` the group-1 span, given compatible group
tables) is the same on the extended input at the shifted position.  `x'` is `x` with the extended input. -/
theorem C22_term_value_ext (x : Tx.BCtx) (p : Nat) (ins : List Char) (g1' : Array (Array (Option (Nat × Nat))))
    (hp : p ≤ x.input.size)
    (hg : x.cfg.useRegexpGroup = false ∨ Tx.g1CompatB x.g1 g1' x.input.size p ins.length = true)
    (nd : Tx.CNode) (pos len : Nat) (h : pos + len ≤ p ∨ p ≤ pos) (hs : pos ≤ x.input.size) :
    ({ x with input := extendGap x.input p ins, g1 := g1' } : Tx.BCtx).termValue nd (sh p ins.length pos) len =
      x.termValue nd pos len := by
  have hcx : Tx.CtxExt x { x with input := extendGap x.input p ins, g1 := g1' } p ins := ⟨rfl, rfl, rfl, rfl, hp, hg⟩
  exact Tx.termValue_ext hcx nd pos len h hs

/-- **Model construction commutes with the shift.**  `parse_tree_to_objgraph` on the shifted tree over the
extended input gives what it gives on the tree over the original input — same objects (nested ones, match
rules, abstract rules, the four assignment handlers), same creation numbers and parents, same errors, same
fuel behaviour — for every tree none of whose terminals overlaps the insertion point. -/
theorem C22_build_shift (x : Tx.BCtx) (p : Nat) (ins : List Char) (g1' : Array (Array (Option (Nat × Nat))))
    (hp : p ≤ x.input.size)
    (hg : x.cfg.useRegexpGroup = false ∨ Tx.g1CompatB x.g1 g1' x.input.size p ins.length = true)
    (fuel : Nat) (tree : Val) (h : tree.allTerms (clearB x.input.size p) = true) :
    Tx.build { x with input := extendGap x.input p ins, g1 := g1' } fuel (tree.shift (sh p ins.length)) =
      Tx.build x fuel tree := by
  have hcx : Tx.CtxExt x { x with input := extendGap x.input p ins, g1 := g1' } p ins := ⟨rfl, rfl, rfl, rfl, hp, hg⟩
  exact Tx.build_shift hcx.c hcx.cfg _ fuel tree
    (Val.allTerms_mono (fun n q l hh => Tx.termSame_of_clear hcx n q l hh) tree h)

/-- **Gap extension leaves the model unchanged.**  For every compiled grammar `c` (`Tx.Compiled`: parser model
+ classes), configuration, input, insertion point, inserted string and token / group tables of the extended
input such that the side conditions of `C22_partial_ws` hold for `c`'s parser model (`gapExtOkB`) and — when
`use_regexp_group` is on — the group-1 tables are compatible: for every fuel the mirror of
`metamodel.model_from_str` returns on the extended input exactly what it returns on the original input — the
same model (classes, attribute values, creation order, parents: the mirror's model has no source positions),
or the same syntax / semantic error. -/
theorem C22_model_unchanged (c : Tx.Compiled) (cfg : Tx.Config) (input : Array Char)
    (toks toks' : Array (Array (Option Nat))) (groups : Array Nat) (g1 g1' : Array (Array (Option (Nat × Nat))))
    (p : Nat) (ins : List Char)
    (h : gapExtOkB (c.grammar input toks) p ins toks' cfg.skipws cfg.ws = true)
    (hg : cfg.useRegexpGroup = false ∨ Tx.g1CompatB g1 g1' input.size p ins.length = true) (fuel : Nat) :
    Tx.load c cfg (extendGap input p ins) toks' groups g1' fuel = Tx.load c cfg input toks groups g1 fuel :=
  Tx.load_gapExt c cfg input toks toks' groups g1 g1' p ins h hg fuel

/-- the grammar compiler mirror (`Tx.compile`, C01) decodes a `ws` value with the function these theorems are
about -/
theorem C22_ws_param_tx (is : List WsItem) (h : WellSpelled is) (c : Char) :
    c ∈ Tx.wsParam (String.ofList (spellWs is)) ↔ ∃ i ∈ is, i.denotes = c := by
  have : Tx.wsParam (String.ofList (spellWs is)) = wsParam (spellWs is) := by simp [Tx.wsParam]
  rw [this]
  exact wsParam_denotes h c

/-! ### non-vacuity -/

/-- `Model: 'a' n=/\w+/;` -/
def m1Gram : Tx.Gram :=
  { rules := [{ name := "Model", body := .seq [.str 6 "a" false,
      .asgn "n" .plain (.re 7 "\\w+" false) none false false] false }] }
/-- `"a  xy"` and its token table (rows 0‥5: base types, 6: `'a'`, 7: `\w+`) -/
def m1Input : Array Char := #['a', ' ', ' ', 'x', 'y']
def m1Toks : Array (Array (Option Nat)) := #[#[], #[], #[], #[], #[], #[],
  #[some 1, none, none, none, none, none], #[some 1, none, none, some 2, some 1, none]]
/-- token table of `"a   xy"` (a blank inserted at 2) -/
def m1ToksExt : Array (Array (Option Nat)) := #[#[], #[], #[], #[], #[], #[],
  #[some 1, none, none, none, none, none, none], #[some 1, none, none, none, some 2, some 1, none]]

def isModelN (v : String) : Tx.Outcome → Bool
  | .model (.obj _ "Model" _ [("n", .prim (.str s))]) _ => s == v
  | _ => false

/-- the hypotheses of `C22_model_unchanged` hold for a real compiled grammar, and the model has the attribute
value read from the input (`n = "xy"`, at 3 in the original and at 4 in the extended input) -/
example : (match Tx.compile m1Gram with
    | .ok c =>
      gapExtOkB (c.grammar m1Input m1Toks) 2 [' '] m1ToksExt true defaultWs &&
      isModelN "xy" (Tx.load c {} m1Input m1Toks #[] #[] 200) &&
      isModelN "xy" (Tx.load c {} (extendGap m1Input 2 [' ']) m1ToksExt #[] #[] 200)
    | .error _ => false) = true := by decide +kernel
example : ({} : Tx.Config).skipws = true ∧ ({} : Tx.Config).ws = defaultWs ∧
    ({} : Tx.Config).useRegexpGroup = false := by decide
/-- compatible group tables (`use_regexp_group`): a group span at 1 moves to 2 when a character is inserted at 1 -/
example : Tx.g1CompatB #[#[none, some (1, 1), none]] #[#[none, none, some (2, 1), none]] 2 1 1 = true := by
  decide +kernel
example : Tx.slice (extendGap m1Input 2 [' ']) (sh 2 1 3) 2 = "xy" ∧ Tx.slice m1Input 3 2 = "xy" := by
  decide +kernel
example : w1.memo = false ∧ (3 + 2 ≤ 2 ∨ 2 ≤ 3) := by decide
/-- a terminal across the insertion point is excluded by `clearB` -/
example : clearB 5 2 0 1 2 = false ∧ clearB 5 2 0 3 2 = true ∧ clearB 5 2 0 0 1 = true := by decide

/-! ## (8) set-up: the Comment rule in force, the parser configuration after a history of meta-models -/

/-- **The main grammar's own Comment rule is the one in force**, whatever the imported files define. -/
theorem C22_comment_own_first (files : List GFile) (main : GFile) (h : "Comment" ∈ main.defines) :
    commentOwner files main = some main.name := by
  simp [commentOwner, lookupRule, h]

/-- **Otherwise the first imported file that defines one, in the order of the import statements**: if the import
list is `pre ++ f :: post`, no file of `pre` defines `Comment` and `f` does, the comments model is `f`'s. -/
theorem C22_comment_import_order (files : List GFile) (main f : GFile) (pre post : List String)
    (h0 : "Comment" ∉ main.defines) (himp : main.imports = pre ++ f.name :: post)
    (hf : files.find? (fun g => g.name == f.name) = some f) (hdef : "Comment" ∈ f.defines)
    (hpre : ∀ n ∈ pre, ∀ g, files.find? (fun g => g.name == n) = some g → "Comment" ∉ g.defines) :
    commentOwner files main = some f.name := by
  have hb : "Comment" ∉ baseRules := by decide
  simp only [commentOwner, lookupRule, List.contains_eq_mem, h0, hb, himp, decide_false, Bool.false_eq_true,
    if_false]
  rw [firstDefining_pre files "Comment" pre _ hpre]
  simp [firstDefining, hf, hdef]

/-- **No comments model** when neither the main file nor a directly imported file defines `Comment` (a file
imported by an imported file only is not searched). -/
theorem C22_comment_none (files : List GFile) (main : GFile) (h0 : "Comment" ∉ main.defines)
    (h : ∀ n ∈ main.imports, ∀ g, files.find? (fun g => g.name == n) = some g → "Comment" ∉ g.defines) :
    commentOwner files main = none := by
  have hb : "Comment" ∉ baseRules := by decide
  simp only [commentOwner, lookupRule, List.contains_eq_mem, h0, hb, decide_false, Bool.false_eq_true, if_false]
  have := firstDefining_pre files "Comment" main.imports [] h
  simpa [firstDefining] using this

/-- **History independence of the parser configuration.**  For every history of meta-models created earlier in
the process (any options, memoization and debug included) the model parser of a meta-model gets the whitespace
flag, the whitespace set and the memoization flag of *its own* configuration. -/
theorem C22_parser_cfg_history (hist : List MMCfg) (c : MMCfg) :
    parserCfgAfter hist c = { skipws := c.skipws, ws := c.ws.getD arpDefaultWs, memo := c.memoization } := rfl

/-- … in particular a meta-model with the default configuration never gets a memoizing parser (the hypothesis
`g.memo = false` of `C22_partial_ws` / `C22_model_unchanged`), whatever was created before it. -/
theorem C22_default_cfg_no_memo (hist : List MMCfg) (c : MMCfg) (h : c.memoization = false) :
    (parserCfgAfter hist c).memo = false := h

/-- non-vacuity: main and the imported `base` both define Comment → main's; main without → the first import in
the order written; an import of an import is not searched; the grammar-parser cache does change with the history -/
example : commentOwner [⟨"main", ["Model", "Comment"], ["base"]⟩, ⟨"base", ["Point", "Comment"], []⟩]
    ⟨"main", ["Model", "Comment"], ["base"]⟩ = some "main" := by decide
example : commentOwner [⟨"main", ["Model"], ["b", "a"]⟩, ⟨"a", ["Comment"], []⟩, ⟨"b", ["X", "Comment"], []⟩]
    ⟨"main", ["Model"], ["b", "a"]⟩ = some "b" := by decide
example : commentOwner [⟨"main", ["Model"], ["a"]⟩, ⟨"a", ["X"], ["b"]⟩, ⟨"b", ["Comment"], []⟩]
    ⟨"main", ["Model"], ["a"]⟩ = none := by decide
example : buildAll {} [{ memoization := true }] = { plain := some true } ∧
    parserCfgAfter [{ memoization := true }] {} = { skipws := true, ws := arpDefaultWs, memo := false } := by decide

end Peg
