import TextxVerif.Proofs.ProcWalk
import TextxVerif.Proofs.ProcOrder
import TextxVerif.Proofs.ProcLoad
import TextxVerif.Proofs.ProcModels
/-!
# C13 — object processors run once each, bottom-up, on a fully linked model

Model: `Proc.walk` (`TextxVerif/ProcWalk.lean`) mirrors `call_obj_processors`
(textx/model.py) and `Proc.finish` the tail of `parse_tree_to_objgraph` that
runs it.  The theorems quantify over every metamodel table `M` (rule kinds,
registered processors), every return-value script `S` of the recording
processors, and every model value `v` that has the shape textX builds
(`wf M v gm = true`, evaluated by the driver on every generated case).

`occ v gm` is the specification-side reading of "the objects of the model": every
object of the tree in post-order together with the rule its containing attribute
is declared with.  `calls M o` are the processor calls an occurrence is entitled
to.  Lemmas live in `Proofs/ProcWalk.lean`.
-/
namespace Proc

/-- **Refinement.** The sequence of processor calls (rule, object) made by the
walk is the post-order sequence of the calls the objects are entitled to — in
particular it does not depend on what the processors return. -/
theorem C13_log_spec (M : MM) (S : Script) (v : Val) (gm : Nat) (h : wf M v gm = true) :
    (walk M S v gm).log.map Entry.key = (occ v gm).flatMap (calls M) :=
  walk_log M S v gm h

theorem C13_log_script_indep (M : MM) (S S' : Script) (v : Val) (gm : Nat) (h : wf M v gm = true) :
    (walk M S v gm).log.map Entry.key = (walk M S' v gm).log.map Entry.key := by
  rw [walk_log M S v gm h, walk_log M S' v gm h]

/-- **Once per object of a common rule.** The calls of the processor registered
for a common rule `c` are, in order, exactly the objects of class `c`. -/
theorem C13_once (M : MM) (S : Script) (v : Val) (gm : Nat) (h : wf M v gm = true)
    (c : Nat) (hc : M.kind c = .common) (hp : M.hasProc c = true) :
    ((walk M S v gm).log.map Entry.key).filter (fun k => k.1 = c) =
      ((occ v gm).filter (fun o => o.cls = c)).map (fun o => (c, o.id)) := by
  rw [walk_log M S v gm h]
  exact filter_flatMap_eq _ _ _ _ _ (fun o ho => by
    simpa using calls_filter_common M c hc hp o (wf_typed M v gm h o ho))

/-- …so with distinct object ids every object of class `c` is processed exactly
once by `c`'s processor, and nothing else is. -/
theorem C13_once_exactly (M : MM) (S : Script) (v : Val) (gm : Nat) (h : wf M v gm = true)
    (hn : (oids v).Nodup) (c : Nat) (hc : M.kind c = .common) (hp : M.hasProc c = true)
    (o : Occ) (ho : o ∈ occ v gm) (hoc : o.cls = c) :
    ((walk M S v gm).log.map Entry.key).count (c, o.id) = 1 := by
  have hcount : ((walk M S v gm).log.map Entry.key).count (c, o.id) =
      (((walk M S v gm).log.map Entry.key).filter (fun k => k.1 = c)).count (c, o.id) := by
    rw [List.count_filter]; simp
  rw [hcount, C13_once M S v gm h c hc hp]
  have hmap : ((occ v gm).filter (fun o => o.cls = c)).map (fun o => (c, o.id)) =
      (((occ v gm).filter (fun o => o.cls = c)).map (·.id)).map (fun x => (c, x)) := by
    simp [List.map_map]
  rw [hmap, count_map_pair]
  have hsub : (((occ v gm).filter (fun o => o.cls = c)).map (·.id)).Sublist (oids v) := by
    rw [← occ_ids v gm]
    exact List.filter_sublist.map _
  have hle := (List.nodup_iff_count.1 (hn.sublist hsub)) o.id
  have hmem : o.id ∈ ((occ v gm).filter (fun o => o.cls = c)).map (·.id) :=
    List.mem_map.2 ⟨o, List.mem_filter.2 ⟨ho, by simpa using hoc⟩, rfl⟩
  have hpos := List.count_pos_iff.2 hmem
  omega

theorem C13_once_only (M : MM) (S : Script) (v : Val) (gm : Nat) (h : wf M v gm = true)
    (c : Nat) (hc : M.kind c = .common) (hp : M.hasProc c = true) (i : Nat)
    (hi : (c, i) ∈ (walk M S v gm).log.map Entry.key) :
    ∃ o ∈ occ v gm, o.cls = c ∧ o.id = i := by
  have : (c, i) ∈ ((walk M S v gm).log.map Entry.key).filter (fun k => k.1 = c) :=
    List.mem_filter.2 ⟨hi, by simp⟩
  rw [C13_once M S v gm h c hc hp] at this
  obtain ⟨o, ho, heq⟩ := List.mem_map.1 this
  have ho' := List.mem_filter.1 ho
  exact ⟨o, ho'.1, by simpa using ho'.2, by simpa using (Prod.mk.inj heq).2⟩

/-- **Abstract rules.** The calls of the processor registered for an abstract
rule `a` are, in order, exactly the objects stored in attributes declared `a`. -/
theorem C13_abstract (M : MM) (S : Script) (v : Val) (gm : Nat) (h : wf M v gm = true)
    (a : Nat) (ha : M.kind a = .abstr) (hp : M.hasProc a = true) :
    ((walk M S v gm).log.map Entry.key).filter (fun k => k.1 = a) =
      ((occ v gm).filter (fun o => o.gm = a)).map (fun o => (a, o.id)) := by
  rw [walk_log M S v gm h]
  exact filter_flatMap_eq _ _ _ _ _ (fun o ho => by
    simpa using calls_filter_abstr M a ha hp o (wf_typed M v gm h o ho))

/-- …and the call of `a`'s processor on such an object comes directly after the
call of the processor of the object's own rule (when one is registered). -/
theorem C13_abstract_after_own (M : MM) (S : Script) (v : Val) (gm : Nat) (h : wf M v gm = true)
    (a : Nat) (ha : M.kind a = .abstr) (hp : M.hasProc a = true)
    (o : Occ) (ho : o ∈ occ v gm) (hoa : o.gm = a) (hown : M.hasProc o.cls = true) :
    ∃ l1 l2, (walk M S v gm).log.map Entry.key = l1 ++ (o.cls, o.id) :: (a, o.id) :: l2 := by
  rw [walk_log M S v gm h]
  obtain ⟨p, q, hpq⟩ := List.append_of_mem ho
  have ht := wf_typed M v gm h o ho
  have hne : o.cls ≠ o.gm := by
    intro heq
    simp only [typedOcc, Bool.and_eq_true, decide_eq_true_eq] at ht
    rw [hoa] at heq
    rw [heq, ha] at ht
    simp at ht
  refine ⟨p.flatMap (calls M), q.flatMap (calls M), ?_⟩
  rw [hpq, List.flatMap_append, List.flatMap_cons]
  have hne' : o.cls ≠ a := hoa ▸ hne
  simp [calls, hne', hown, hoa, hp]

/-- **Children first.** A processor call on an object is never followed by a call
on an object it (transitively) contains. -/
theorem C13_children_first (M : MM) (S : Script) (v : Val) (gm : Nat) (hn : (oids v).Nodup) :
    (walk M S v gm).log.Pairwise (fun x y => ¬ inside v x.id y.id) := by
  have := walkSlot_children_first M S false gm v hn
  rwa [walkSlot_false] at this

/-- index form: if the object of call `j` lies inside the object of call `i`, then `j < i` -/
theorem C13_children_first_idx (M : MM) (S : Script) (v : Val) (gm : Nat) (hn : (oids v).Nodup)
    (i j : Nat) (hi : i < (walk M S v gm).log.length) (hj : j < (walk M S v gm).log.length)
    (hin : inside v ((walk M S v gm).log[i]).id ((walk M S v gm).log[j]).id) (hne : i ≠ j) : j < i := by
  have hp := List.pairwise_iff_getElem.1 (C13_children_first M S v gm hn)
  rcases Nat.lt_or_ge j i with h | h
  · exact h
  · exact absurd hin (hp i j hi hj (by omega))

/-- **Replacement.** After the walk a containment slot declared `gm` holds
`finSlot`: for an object, the value returned by the processor of its own rule if
that is not `None`, else the value returned by the processor of the declared
rule if that is not `None`, else the object itself — with the same applied to
everything below it. -/
theorem C13_replace (M : MM) (S : Script) (v : Val) (gm : Nat) :
    slotVal (walk M S v gm) = finSlot M S false gm v := by
  have := walkSlot_fin M S false gm v
  rwa [walkSlot_false] at this

theorem C13_replace_obj (M : MM) (S : Script) (id cls : Nat) (fs : Fields) (gm : Nat) (hk : M.kind gm ≠ .mtch) :
    slotVal (walk M S (.obj id cls fs) gm) =
      match chosen M S (fin M S (.obj id cls fs)) id cls gm with
      | some x => x
      | none => fin M S (.obj id cls fs) := by
  rw [C13_replace, finSlot]
  simp only [Bool.false_eq_true, if_false, slotOf, hk, fin]
  rfl

/-- the own-rule processor's value wins -/
theorem C13_replace_own (M : MM) (S : Script) (id cls : Nat) (fs : Fields) (gm t : Nat) (hk : M.kind gm ≠ .mtch)
    (hne : cls ≠ gm) (hp : M.hasProc cls = true) (hs : S cls id = .val t) :
    slotVal (walk M S (.obj id cls fs) gm) = .prim t := by
  rw [C13_replace_obj M S id cls fs gm hk]
  simp [chosen, hne, hp, hs, retOf, pick]

/-- the declared rule's processor's value is used when the own-rule processor
(if any) returned `None` -/
theorem C13_replace_declared (M : MM) (S : Script) (id cls : Nat) (fs : Fields) (gm t : Nat) (hk : M.kind gm ≠ .mtch)
    (hown : cls = gm ∨ M.hasProc cls = false ∨ S cls id = .none) (hp : M.hasProc gm = true) (hs : S gm id = .val t) :
    slotVal (walk M S (.obj id cls fs) gm) = .prim t := by
  rw [C13_replace_obj M S id cls fs gm hk]
  rcases hown with h | h | h
  · simp [chosen, h, hp, hs, retOf, pick]
  · simp [chosen, h, hp, hs, retOf, pick]
  · simp [chosen, h, hp, hs, retOf, pick]

/-- no replacement values ⇒ the model is unchanged -/
theorem C13_replace_none (M : MM) (S : Script) (hS : ∀ r i, S r i = .none) (v : Val) (gm : Nat) :
    slotVal (walk M S v gm) = v := by
  rw [C13_replace, finSlot_none M S hS]

/-- every processor sees its object with everything below already processed and
replaced (children before containers, as observed by the processor itself) -/
theorem C13_snapshot (M : MM) (S : Script) (v : Val) (gm : Nat) (e : Entry) (he : e ∈ (walk M S v gm).log) :
    ∃ id cls fs, Val.obj id cls fs ∈ subObjs v ∧ e.id = id ∧ e.snap = fin M S (.obj id cls fs) := by
  have := walkSlot_snap M S false gm v e (by rw [walkSlot_false]; exact he)
  simpa [fin] using this

/-- **Phase.** In the event sequence of a load, once the first object processor
has been called only processor calls follow: every reference resolution and every
user-class initialisation of every model of the load comes before. -/
theorem C13_phase (M : MM) (S : Script) (isUser : Nat → Bool) (resolves : List Nat) (models : List Val) :
    (finish M S isUser resolves models).Pairwise (fun x y => x.isProc = true → y.isProc = true) := by
  unfold finish
  rw [List.pairwise_append]
  refine ⟨?_, ?_, ?_⟩
  · refine List.pairwise_of_forall_mem_list ?_
    intro a ha b _ hap
    obtain ⟨r, _, rfl⟩ := List.mem_map.1 ha
    simp [Ev.isProc] at hap
  · rw [List.pairwise_append]
    refine ⟨?_, ?_, ?_⟩
    · refine List.pairwise_of_forall_mem_list ?_
      intro a ha b _ hap
      rw [initsFrom_not_proc isUser models 0 a ha] at hap
      simp at hap
    · refine List.pairwise_of_forall_mem_list ?_
      intro a _ b hb _
      exact procsFrom_proc M S models 0 b hb
    · intro a _ b hb _
      exact procsFrom_proc M S models 0 b hb
  · intro a ha b _ hap
    obtain ⟨r, _, rfl⟩ := List.mem_map.1 ha
    simp [Ev.isProc] at hap

/-- **Phase, models of several metamodels.** The same when every model of the load
is walked with its own metamodel (`call_obj_processors(m._tx_metamodel, m)`). -/
theorem C13_phase_models (S : Script) (isUser : Nat → Bool) (resolves : List Nat) (models : List (MM × Val)) :
    (finishMM S isUser resolves models).Pairwise (fun x y => x.isProc = true → y.isProc = true) := by
  unfold finishMM
  rw [List.pairwise_append]
  refine ⟨?_, ?_, ?_⟩
  · refine List.pairwise_of_forall_mem_list ?_
    intro a ha b _ hap
    obtain ⟨r, _, rfl⟩ := List.mem_map.1 ha
    simp [Ev.isProc] at hap
  · rw [List.pairwise_append]
    refine ⟨?_, ?_, ?_⟩
    · refine List.pairwise_of_forall_mem_list ?_
      intro a ha b _ hap
      rw [initsFrom_not_proc isUser _ 0 a ha] at hap
      simp at hap
    · refine List.pairwise_of_forall_mem_list ?_
      intro a _ b hb _
      exact procsFromMM_proc S models 0 b hb
    · intro a _ b hb _
      exact procsFromMM_proc S models 0 b hb
  · intro a ha b _ hap
    obtain ⟨r, _, rfl⟩ := List.mem_map.1 ha
    simp [Ev.isProc] at hap

/-- **Each model with its own metamodel.** The processor calls of a load are, model
by model, the calls of the walk of that model with the metamodel the model
belongs to (so every `C13_*` statement about `walk` applies to each model with its
own registrations); with one metamodel for all models this is `finish`. -/
theorem C13_models_own_metamodel (S : Script) (isUser : Nat → Bool) (resolves : List Nat) (models : List (MM × Val)) :
    (finishMM S isUser resolves models).filter Ev.isProc = procsFromMM S 0 models := by
  unfold finishMM
  rw [List.filter_append, List.filter_append]
  have h1 : (resolves.map Ev.resolve).filter Ev.isProc = [] := by
    rw [List.filter_eq_nil_iff]
    intro a ha
    obtain ⟨r, _, rfl⟩ := List.mem_map.1 ha
    simp [Ev.isProc]
  have h2 : (initsFrom isUser 0 (models.map (·.2))).filter Ev.isProc = [] := by
    rw [List.filter_eq_nil_iff]
    intro a ha
    rw [initsFrom_not_proc isUser _ 0 a ha]
    simp
  have h3 : (procsFromMM S 0 models).filter Ev.isProc = procsFromMM S 0 models := by
    rw [List.filter_eq_self]
    intro a ha
    exact procsFromMM_proc S models 0 a ha
  rw [h1, h2, h3]
  rfl

theorem C13_finish_single (M : MM) (S : Script) (isUser : Nat → Bool) (resolves : List Nat) (models : List Val) :
    finishMM S isUser resolves (models.map (fun v => (M, v))) = finish M S isUser resolves models := by
  unfold finishMM finish
  rw [procsFromMM_const M S models 0, List.map_map]
  congr 2
  simp [Function.comp_def]

/-! ## D13: declarative reading of the entitled calls, abstract exact-once, positive ordering -/

/-- **The entitled calls, declaratively** (independent of the two `if`s of `calls`
/ `objStep`): `(r, i)` is a call an occurrence is entitled to iff `i` is the
object, `r` has a processor registered, and `r` is the object's own rule or the
rule its containing attribute is declared with. -/
theorem C13_calls_iff (M : MM) (o : Occ) (k : Nat × Nat) :
    k ∈ calls M o ↔ k.2 = o.id ∧ M.hasProc k.1 = true ∧ (k.1 = o.cls ∨ k.1 = o.gm) :=
  calls_mem_iff M o k

/-- no occurrence is entitled to the same call twice (own = declared rule: one call) -/
theorem C13_calls_nodup (M : MM) (o : Occ) : (calls M o).Nodup := calls_nodup M o

/-- **Which processor calls happen.** Processor `r` is called on object `i` iff `r`
is registered and `i` is an object of the model whose own rule is `r` or which is
stored in an attribute declared with rule `r`. -/
theorem C13_called_iff (M : MM) (S : Script) (v : Val) (gm : Nat) (h : wf M v gm = true) (r i : Nat) :
    (r, i) ∈ (walk M S v gm).log.map Entry.key ↔
      M.hasProc r = true ∧ ∃ o ∈ occ v gm, o.id = i ∧ (r = o.cls ∨ r = o.gm) := by
  rw [walk_log M S v gm h, List.mem_flatMap]
  constructor
  · rintro ⟨o, ho, hk⟩
    have := (calls_mem_iff M o (r, i)).1 hk
    exact ⟨this.2.1, o, ho, this.1.symm, this.2.2⟩
  · rintro ⟨hp, o, ho, hid, hr⟩
    exact ⟨o, ho, (calls_mem_iff M o (r, i)).2 ⟨hid.symm, hp, hr⟩⟩

/-- **Abstract rule: exactly once.** With distinct object ids the processor of an
abstract rule `a` is called exactly once on every object stored in an attribute
declared `a` (the counterpart of `C13_once_exactly`). -/
theorem C13_abstract_once_exactly (M : MM) (S : Script) (v : Val) (gm : Nat) (h : wf M v gm = true)
    (hn : (oids v).Nodup) (a : Nat) (ha : M.kind a = .abstr) (hp : M.hasProc a = true)
    (o : Occ) (ho : o ∈ occ v gm) (hoa : o.gm = a) :
    ((walk M S v gm).log.map Entry.key).count (a, o.id) = 1 := by
  have hcount : ((walk M S v gm).log.map Entry.key).count (a, o.id) =
      (((walk M S v gm).log.map Entry.key).filter (fun k => k.1 = a)).count (a, o.id) := by
    rw [List.count_filter]; simp
  rw [hcount, C13_abstract M S v gm h a ha hp]
  have hmap : ((occ v gm).filter (fun o => o.gm = a)).map (fun o => (a, o.id)) =
      (((occ v gm).filter (fun o => o.gm = a)).map (·.id)).map (fun x => (a, x)) := by
    simp [List.map_map]
  rw [hmap, count_map_pair]
  have hsub : (((occ v gm).filter (fun o => o.gm = a)).map (·.id)).Sublist (oids v) := by
    rw [← occ_ids v gm]
    exact List.filter_sublist.map _
  have hle := (List.nodup_iff_count.1 (hn.sublist hsub)) o.id
  have hmem : o.id ∈ ((occ v gm).filter (fun o => o.gm = a)).map (·.id) :=
    List.mem_map.2 ⟨o, List.mem_filter.2 ⟨ho, by simpa using hoa⟩, rfl⟩
  have hpos := List.count_pos_iff.2 hmem
  omega

/-- …and on nothing else: every call of `a`'s processor is on an object stored in an
attribute declared `a`. -/
theorem C13_abstract_only (M : MM) (S : Script) (v : Val) (gm : Nat) (h : wf M v gm = true)
    (a : Nat) (ha : M.kind a = .abstr) (hp : M.hasProc a = true) (i : Nat)
    (hi : (a, i) ∈ (walk M S v gm).log.map Entry.key) :
    ∃ o ∈ occ v gm, o.gm = a ∧ o.id = i := by
  have : (a, i) ∈ ((walk M S v gm).log.map Entry.key).filter (fun k => k.1 = a) :=
    List.mem_filter.2 ⟨hi, by simp⟩
  rw [C13_abstract M S v gm h a ha hp] at this
  obtain ⟨o, ho, heq⟩ := List.mem_map.1 this
  have ho' := List.mem_filter.1 ho
  exact ⟨o, ho'.1, by simpa using ho'.2, by simpa using (Prod.mk.inj heq).2⟩

/-- **Every call at most once** (any rule, common or abstract): with distinct object
ids no (processor, object) pair is called twice. -/
theorem C13_no_call_twice (M : MM) (S : Script) (v : Val) (gm : Nat) (h : wf M v gm = true)
    (hn : (oids v).Nodup) : ((walk M S v gm).log.map Entry.key).Nodup := by
  rw [walk_log M S v gm h]
  have hocc : ((occ v gm).map (·.id)).Nodup := by rw [occ_ids]; exact hn
  generalize occ v gm = l at hocc
  induction l with
  | nil => simp
  | cons o os ih =>
    rw [List.map_cons, List.nodup_cons] at hocc
    rw [List.flatMap_cons, List.nodup_append]
    refine ⟨calls_nodup M o, ih hocc.2, ?_⟩
    intro x hx y hy hxy
    subst hxy
    obtain ⟨o', ho', hk⟩ := List.mem_flatMap.1 hy
    have h1 := ((calls_mem_iff M o x).1 hx).1
    have h2 := ((calls_mem_iff M o' x).1 hk).1
    exact hocc.1 (List.mem_map.2 ⟨o', ho', by rw [← h2, h1]⟩)

/-- **Child before container (positive form).** If object `a` (transitively)
contains object `b`, then *every* processor call on `b` — whatever rule `r` it is
made for — comes before *every* processor call on `a`: first-occurrence indices
in the call sequence (by `C13_no_call_twice` the only occurrences).  No shape
assumption is needed (the survey's `wf` hypothesis is superfluous). -/
theorem C13_child_before_container (M : MM) (S : Script) (v : Val) (gm : Nat) (hn : (oids v).Nodup)
    (a b r r' : Nat) (hin : inside v a b)
    (hb : (r, b) ∈ (walk M S v gm).log.map Entry.key) (ha : (r', a) ∈ (walk M S v gm).log.map Entry.key) :
    ((walk M S v gm).log.map Entry.key).idxOf (r, b) < ((walk M S v gm).log.map Entry.key).idxOf (r', a) := by
  have hi := List.idxOf_lt_length_of_mem ha
  have hj := List.idxOf_lt_length_of_mem hb
  refine keys_before M S v gm hn _ _ hi hj ?_
  rw [List.getElem_idxOf hi, List.getElem_idxOf hj]
  exact hin

/-- …for all positions, not only the first occurrences -/
theorem C13_child_before_container_idx (M : MM) (S : Script) (v : Val) (gm : Nat) (hn : (oids v).Nodup)
    (i j : Nat) (hi : i < ((walk M S v gm).log.map Entry.key).length)
    (hj : j < ((walk M S v gm).log.map Entry.key).length)
    (hin : inside v (((walk M S v gm).log.map Entry.key)[i]).2 (((walk M S v gm).log.map Entry.key)[j]).2) :
    j < i :=
  keys_before M S v gm hn i j hi hj hin

/-- **Child before container, from the model alone.** For objects `oa`, `ob` of a
well-formed model with `ob` inside `oa`: every call `ob` is entitled to and every
call `oa` is entitled to *does happen*, and the former comes first. -/
theorem C13_child_before_container_calls (M : MM) (S : Script) (v : Val) (gm : Nat) (h : wf M v gm = true)
    (hn : (oids v).Nodup) (oa ob : Occ) (hoa : oa ∈ occ v gm) (hob : ob ∈ occ v gm)
    (hin : inside v oa.id ob.id) (ka kb : Nat × Nat) (hka : ka ∈ calls M oa) (hkb : kb ∈ calls M ob) :
    ka ∈ (walk M S v gm).log.map Entry.key ∧ kb ∈ (walk M S v gm).log.map Entry.key ∧
    ((walk M S v gm).log.map Entry.key).idxOf kb < ((walk M S v gm).log.map Entry.key).idxOf ka := by
  have ha : ka ∈ (walk M S v gm).log.map Entry.key := by
    rw [walk_log M S v gm h]; exact List.mem_flatMap.2 ⟨oa, hoa, hka⟩
  have hb : kb ∈ (walk M S v gm).log.map Entry.key := by
    rw [walk_log M S v gm h]; exact List.mem_flatMap.2 ⟨ob, hob, hkb⟩
  refine ⟨ha, hb, ?_⟩
  obtain ⟨ra, ia⟩ := ka
  obtain ⟨rb, ib⟩ := kb
  have h1 : ia = oa.id := ((calls_mem_iff M oa (ra, ia)).1 hka).1
  have h2 : ib = ob.id := ((calls_mem_iff M ob (rb, ib)).1 hkb).1
  subst h1; subst h2
  exact C13_child_before_container M S v gm hn oa.id ob.id rb ra hin hb ha

/-- both processors return `None` (or none is registered): the slot keeps the object -/
theorem C13_replace_keep (M : MM) (S : Script) (id cls : Nat) (fs : Fields) (gm : Nat) (hk : M.kind gm ≠ .mtch)
    (hown : cls = gm ∨ M.hasProc cls = false ∨ S cls id = .none)
    (hdecl : M.hasProc gm = false ∨ S gm id = .none) :
    slotVal (walk M S (.obj id cls fs) gm) = fin M S (.obj id cls fs) := by
  rw [C13_replace_obj M S id cls fs gm hk]
  rcases hown with h | h | h <;> rcases hdecl with h' | h' <;>
    simp [chosen, h, h', retOf, pick]

/-! ## D13: "only after all references are resolved" — the resolutions come from the loop

`C13_phase*` take the resolutions as a given list.  `loadEvents` obtains them from
the model of the resolution loop itself (`LinkLoc.run`: every scope provider, every
postponement schedule), and reaches initialisation and the walk only when that loop
ends without error. -/

/-- **Fully linked before the first processor call.** If a load produces events at
all (in particular: if any processor is called), then the resolution loop ended
with no pending cross-reference in any model; every reference of every model file
was answered with an object by its scope provider (the first time it did not
postpone); and the event sequence is: one resolution per reference of every file,
then the user-class initialisations of every model, then the processor calls. -/
theorem C13_linked_before_processing (files : List LinkLoc.FileSpec) (ans : Nat → Nat → LinkLoc.Answer)
    (fuel : Nat) (S : Script) (isUser : Nat → Bool) (models : List (MM × Val)) (evs : List Ev)
    (htext : ∀ f ∈ files, f.refs.Pairwise (fun a b => a.pos < b.pos))
    (h : loadEvents files ans fuel S isUser models = some evs) :
    (∃ ms, LinkLoc.run files ans fuel = .ok ms ∧ ∀ m ∈ ms, m.crossrefs = []) ∧
    (∀ f ∈ files, ∀ r ∈ f.refs, ∃ k t, LinkLoc.FirstAnswer ans r.id k (.resolved t)) ∧
    evs = (files.flatMap (fun f => f.refs.map (·.id))).map Ev.resolve ++
          (initsFrom isUser 0 (models.map (·.2)) ++ procsFromMM S 0 models) := by
  unfold loadEvents at h
  cases hr : LinkLoc.run files ans fuel with
  | ok ms =>
    rw [hr] at h
    simp only [Option.some.injEq] at h
    have hl := run_ok_linked files ans fuel ms htext hr
    refine ⟨⟨ms, rfl, ?_⟩, ?_, ?_⟩
    · intro m hm
      obtain ⟨f, _, hf⟩ := All2.mem_right hl m hm
      exact hf.1
    · intro f hf r hr'
      obtain ⟨m, _, hm⟩ := All2.mem_left hl f hf
      exact hm.2.2 r hr'
    · rw [← h, finishMM, resolvedRefs_eq files ms (hl.imp (fun _ _ hfm => hfm.2.1))]
  | err e => rw [hr] at h; simp at h
  | crash => rw [hr] at h; simp at h
  | fuel => rw [hr] at h; simp at h

/-- …so the resolution of every reference of every model precedes every processor
call (and every initialisation), and nothing is resolved afterwards -/
theorem C13_resolved_precede_processing (files : List LinkLoc.FileSpec) (ans : Nat → Nat → LinkLoc.Answer)
    (fuel : Nat) (S : Script) (isUser : Nat → Bool) (models : List (MM × Val)) (evs : List Ev)
    (htext : ∀ f ∈ files, f.refs.Pairwise (fun a b => a.pos < b.pos))
    (h : loadEvents files ans fuel S isUser models = some evs) :
    ∃ pre post, evs = pre ++ post ∧
      (∀ f ∈ files, ∀ r ∈ f.refs, Ev.resolve r.id ∈ pre) ∧
      (∀ e ∈ pre, e.isProc = false) ∧
      (∀ e ∈ post, ∀ n, e ≠ Ev.resolve n) ∧
      (∀ e ∈ evs, e.isProc = true → e ∈ post) := by
  obtain ⟨_, _, he⟩ := C13_linked_before_processing files ans fuel S isUser models evs htext h
  refine ⟨_, _, he, ?_, ?_, ?_, ?_⟩
  · intro f hf r hr
    exact List.mem_map.2 ⟨r.id, List.mem_flatMap.2 ⟨f, hf, List.mem_map.2 ⟨r, hr, rfl⟩⟩, rfl⟩
  · intro e he'
    obtain ⟨n, _, rfl⟩ := List.mem_map.1 he'
    rfl
  · intro e he' n hn
    subst hn
    rcases List.mem_append.1 he' with h1 | h1
    · -- an initialisation event is not a resolution
      have : ∀ (vs : List Val) (k : Nat), Ev.resolve n ∉ initsFrom isUser k vs := by
        intro vs
        induction vs with
        | nil => intro k; simp [initsFrom]
        | cons v vs ih =>
          intro k hmem
          rw [initsFrom] at hmem
          rcases List.mem_append.1 hmem with hm | hm
          · simp only [userInits, List.mem_map] at hm
            obtain ⟨o, _, ho⟩ := hm
            cases ho
          · exact ih (k + 1) hm
      exact this _ 0 h1
    · have := procsFromMM_proc S models 0 _ h1
      simp [Ev.isProc] at this
  · intro e he' hp
    rw [he] at he'
    rcases List.mem_append.1 he' with h1 | h1
    · obtain ⟨n, _, rfl⟩ := List.mem_map.1 h1
      simp [Ev.isProc] at hp
    · exact h1

/-- a load that fails in parsing or in reference resolution (syntax error, unknown
object, unresolvable references) calls no processor at all -/
theorem C13_unlinked_no_processing (files : List LinkLoc.FileSpec) (ans : Nat → Nat → LinkLoc.Answer)
    (fuel : Nat) (S : Script) (isUser : Nat → Bool) (models : List (MM × Val))
    (h : ∀ ms, LinkLoc.run files ans fuel ≠ .ok ms) :
    loadEvents files ans fuel S isUser models = none := by
  unfold loadEvents
  cases hr : LinkLoc.run files ans fuel with
  | ok ms => exact absurd hr (h ms)
  | err e => rfl
  | crash => rfl
  | fuel => rfl

/-- **The root is never replaced.** The object a walk is started on (the model root:
it has no containing attribute) stays the model object whatever its processors
return — after the walk it is the object with every slot below it in its final
state; a return value only takes effect through `slotVal` in a containing slot. -/
theorem C13_root_kept (M : MM) (S : Script) (id cls : Nat) (fs : Fields) (gm : Nat) (hk : M.kind gm ≠ .mtch) :
    (walk M S (.obj id cls fs) gm).val = fin M S (.obj id cls fs) := by
  simp [walk, objStep, hk, fin, walkFields_fin]

/-- on the root (declared rule = own rule) only the own-rule processor is called, once -/
theorem C13_root_calls (M : MM) (id cls : Nat) :
    calls M ⟨id, cls, cls⟩ = if M.hasProc cls then [(cls, id)] else [] := by
  simp [calls]

/-! ## V13: the calls on a model of a load depend on its own metamodel only

Seeded change C13-5 asked the metamodel of the *main* model whether any processor is
registered and skipped the walk of every model of the load when it has none.  In the
code (`for m in models: call_obj_processors(m._tx_metamodel, m)`) and in `finishMM`
nothing about a model's walk depends on another model's metamodel. -/

/-- **The calls on model `k` of a load** (any number of models, each with its own
metamodel): exactly the calls of the walk of that model with its own metamodel, in
that order — the registrations of the metamodels of the other models (the main
model's among them; also: none at all) do not occur in the statement. -/
theorem C13_model_calls_own (S : Script) (isUser : Nat → Bool) (resolves : List Nat)
    (models : List (MM × Val)) (k : Nat) (M : MM) (v : Val) (hk : models[k]? = some (M, v)) :
    callsOfModel k (finishMM S isUser resolves models) = (walk M S v v.cls).log.map Entry.key := by
  rw [callsOfModel_finishMM, hk]

/-- … and no call is attributed to a model that is not part of the load -/
theorem C13_model_calls_none (S : Script) (isUser : Nat → Bool) (resolves : List Nat)
    (models : List (MM × Val)) (k : Nat) (hk : models[k]? = none) :
    callsOfModel k (finishMM S isUser resolves models) = [] := by
  rw [callsOfModel_finishMM, hk]

/-- **Which processor calls happen in a load of several metamodels.** Processor `r` is
called on object `i` of model `k` iff the metamodel *of that model* has `r` registered
and `i` is an object of the model whose own rule is `r` or which is stored in an
attribute declared `r` — whatever the other metamodels of the load register. -/
theorem C13_model_called_iff (S : Script) (isUser : Nat → Bool) (resolves : List Nat)
    (models : List (MM × Val)) (k : Nat) (M : MM) (v : Val) (hk : models[k]? = some (M, v))
    (h : wf M v v.cls = true) (r i : Nat) :
    Ev.proc k r i ∈ finishMM S isUser resolves models ↔
      M.hasProc r = true ∧ ∃ o ∈ occ v v.cls, o.id = i ∧ (r = o.cls ∨ r = o.gm) := by
  rw [← mem_callsOfModel, C13_model_calls_own S isUser resolves models k M v hk]
  exact C13_called_iff M S v v.cls h r i

/-- **Independence.** Replacing the metamodels of the other models of a load (for
instance the main model's by one without any registration) does not change the calls on
model `k`. -/
theorem C13_model_calls_indep (S : Script) (isUser : Nat → Bool) (resolves resolves' : List Nat)
    (models models' : List (MM × Val)) (k : Nat) (hk : models[k]? = models'[k]?) :
    callsOfModel k (finishMM S isUser resolves models) =
      callsOfModel k (finishMM S isUser resolves' models') := by
  rw [callsOfModel_finishMM, callsOfModel_finishMM, hk]

/-- the same for a load through the resolution loop (`loadEvents`) -/
theorem C13_load_model_calls_own (files : List LinkLoc.FileSpec) (ans : Nat → Nat → LinkLoc.Answer) (fuel : Nat)
    (S : Script) (isUser : Nat → Bool) (models : List (MM × Val)) (evs : List Ev)
    (hl : loadEvents files ans fuel S isUser models = some evs)
    (k : Nat) (M : MM) (v : Val) (hk : models[k]? = some (M, v)) :
    callsOfModel k evs = (walk M S v v.cls).log.map Entry.key := by
  unfold loadEvents at hl
  split at hl
  · cases hl
    exact C13_model_calls_own S isUser _ models k M v hk
  · cases hl

/-! ## non-vacuity

classes: 0 `Model` (common), 1 `A` (common), 2 `B` (common), 3 `Base` (abstract: A | B | INT), 4 `INT` (match).
`Model: xs+=Base y=A n=INT;  A: 'a' (n=Base)?;` — processors on Model, A, Base;
`A`'s processor replaces object 11 by the value 7, `Base`'s replaces object 12. -/

def exM : MM where
  kind c := if c = 3 then .abstr else if c = 4 then .mtch else .common
  hasProc c := c = 0 || c = 1 || c = 3

def exS : Script := fun r i =>
  if r = 1 ∧ i = 11 then .val 7 else if r = 3 ∧ i = 11 then .val 8 else if r = 3 ∧ i = 12 then .val 9 else .none

def exV : Val :=
  .obj 10 0 (.cons ⟨0, true, true, 3⟩
      (.list (.cons (.obj 11 1 (.cons ⟨0, true, false, 3⟩ (.obj 12 2 .nil) .nil))
             (.cons (.prim 5) (.cons (.obj 13 2 .nil) .nil))))
    (.cons ⟨1, true, false, 1⟩ (.obj 14 1 (.cons ⟨0, true, false, 3⟩ .none .nil))
    (.cons ⟨2, true, false, 4⟩ (.prim 3) .nil)))

example : wf exM exV 0 = true := by decide
example : (oids exV).Nodup := by decide
example : (walk exM exS exV 0).log.map Entry.key =
    [(3, 12), (1, 11), (3, 11), (3, 13), (1, 14), (0, 10)] := by decide
example : (occ exV 0).map (fun o => (o.id, o.cls, o.gm)) =
    [(12, 2, 3), (11, 1, 3), (13, 2, 3), (14, 1, 1), (10, 0, 0)] := by decide

/-- a second metamodel of the same grammar with processors on `B` only -/
def exM' : MM where
  kind := exM.kind
  hasProc c := c = 2

/-- a load of two models, the second one (an imported file) belonging to `exM'`;
`A` is a user class -/
example : finishMM exS (fun c => c = 1) [0] [(exM, exV), (exM', exV)] =
    [.resolve 0, .init 0 11, .init 0 14, .init 1 11, .init 1 14,
     .proc 0 3 12, .proc 0 1 11, .proc 0 3 11, .proc 0 3 13, .proc 0 1 14, .proc 0 0 10,
     .proc 1 2 12, .proc 1 2 13] := by decide

/-- V13: a main model whose metamodel registers nothing imports a model of `exM`: the calls on
the imported model are those of `exM` (seeded change C13-5 made them disappear) -/
def exNone : MM where
  kind := exM.kind
  hasProc _ := false

example : callsOfModel 1 (finishMM exS (fun c => c = 1) [0] [(exNone, exV), (exM, exV)]) =
    [(3, 12), (1, 11), (3, 11), (3, 13), (1, 14), (0, 10)] := by decide
example : callsOfModel 0 (finishMM exS (fun c => c = 1) [0] [(exNone, exV), (exM, exV)]) = [] := by decide

/-! D13 non-vacuity: containment, entitled calls and the ordering hypotheses on `exV` -/
example : inside exV 10 12 ∧ inside exV 11 12 := by
  simp [exV, inside, insideFields, insideItems, oids, oidsFields, oidsItems]
example : (⟨11, 1, 3⟩ : Occ) ∈ occ exV 0 ∧ (⟨12, 2, 3⟩ : Occ) ∈ occ exV 0 := by decide
example : calls exM ⟨11, 1, 3⟩ = [(1, 11), (3, 11)] ∧ calls exM ⟨12, 2, 3⟩ = [(3, 12)] := by decide
example : ((walk exM exS exV 0).log.map Entry.key).idxOf (3, 12) = 0 ∧
    ((walk exM exS exV 0).log.map Entry.key).idxOf (1, 11) = 1 := by decide
example : ((walk exM exS exV 0).log.map Entry.key).count (3, 13) = 1 := by decide
example : slotVal (walk exM exS (.obj 13 2 .nil) 3) = .obj 13 2 .nil := by rfl

/-! D13 non-vacuity: a load of two files with three references (reference 0 postponed
once), the object tree `exV` for the main model; and a load with an unresolvable
reference, which reaches no processor -/
def exFiles : List LinkLoc.FileSpec :=
  [⟨some "a", List.replicate 70 'x', [⟨0, 40, 45⟩, ⟨1, 58, 61⟩], none⟩,
   ⟨some "b", List.replicate 9 'x', [⟨2, 3, 4⟩], none⟩]

example : ∀ f ∈ exFiles, f.refs.Pairwise (fun a b => a.pos < b.pos) := by decide
example : loadEvents exFiles
      (fun k id => if k = 0 ∧ id = 0 then .postponed else .resolved ⟨some "b", id, id + 5⟩) 4
      exS (fun c => c = 1) [(exM, exV)] =
    some [.resolve 0, .resolve 1, .resolve 2, .init 0 11, .init 0 14,
          .proc 0 3 12, .proc 0 1 11, .proc 0 3 11, .proc 0 3 13, .proc 0 1 14, .proc 0 0 10] := by decide
example : loadEvents exFiles (fun _ id => if id = 1 then .postponed else .resolved ⟨some "b", id, id + 5⟩) 4
      exS (fun c => c = 1) [(exM, exV)] = none := by decide

end Proc
