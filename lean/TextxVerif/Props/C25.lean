import TextxVerif.Proofs.Imp
/-!
# C25 — grammar imports resolve rules in the documented order

Model: `Imp.loadMain` (TextxVerif/Imp.lean), the mirror of
`metamodel_from_file` as far as namespaces are concerned: `_enter_namespace` /
`_leave_namespace` / `_new_import` / `_init_class` / `_cls_fqn` / `__getitem__`
of `textx/metamodel.py` and the order in which `textx/lang.py` runs them for one
grammar file (import statements, one class per rule, second pass).

* `st.classes` is the creation log of classes; entry `c` is the pair
  `(namespace, rule name)` class `c` reports as `_tx_fqn`.
* `st.resolved` has one `ResEntry` per rule: the class of the rule, its file `ns`,
  the namespaces `anc` that were still being loaded, and what each rule reference
  of the rule resolved to (`targets`, parallel to `rule.refs`).
* `getItem st r` is `metamodel[r]` after loading.
* `docResolve fs ns r` is the documented resolution computed from the files alone:
  own file, else the first import in import order that defines the name
  (base-type names sit in between, exactly as `__base__` does in the code);
  `specResolve fs ns skip r` is the same with the imports in `skip` invisible.
* `Denotes classes t s`: the model-side target `t` (a class index / a base type)
  is the rule `s` names, i.e. the class reports that file and that rule name.

All statements hold for every file system `fs` (any import graph: nested
directories, diamonds, cycles, self-imports, repeated imports, missing files),
every `main` and every fuel; a run that stops with an error has no final state and
the theorems say nothing about it (the grammar does not load).  Only property
theorems and non-vacuity examples live here; lemmas are in `Proofs/Imp.lean`.
-/
namespace Imp

/-- The resolution recorded for an *unqualified* reference agrees with the documented order. -/
def DocOK (fs : FS) (classes : List (Ns × Name)) (ns : Ns) (r : Ref) (t : Target) : Prop :=
  r.qual = none → ∃ s, docResolve fs ns r = some s ∧ Denotes classes t s

/-- **Lookup, all import graphs.**  Whatever a successful load recorded for an unqualified
reference of a rule of file `e.ns` is the documented resolution *with the files that were still
being loaded (`e.anc`) invisible*: the class found reports the file the order selects and the
referenced name.  `e.ns :: e.anc` is a path of import statements from the main file. -/
theorem C25_lookup_general {fs : FS} {fuel : Nat} {main : Seg} {st : St}
    (h : loadMain fs fuel main = .ok st) (e : ResEntry) (he : e ∈ st.resolved) :
    Chain fs (e.ns :: e.anc) ∧
    All2 (fun r t => r.qual = none → ∃ s, specResolve fs e.ns e.anc r = some s ∧ Denotes st.classes t s)
      e.rule.refs e.targets := by
  obtain ⟨hch, _, _, hall⟩ := (loadMain_inv h).1.resOK e he
  refine ⟨hch, All2.imp ?_ hall⟩
  intro r t hrt hq
  unfold RefOK at hrt
  rw [hq] at hrt
  exact hrt

/-- **Lookup, the property.**  When no grammar file (transitively) imports itself, every
unqualified rule reference resolves to the rule of the current file if it defines one, and
otherwise to the first imported file, in import order, that defines the rule. -/
theorem C25_lookup {fs : FS} {fuel : Nat} {main : Seg} {st : St}
    (h : loadMain fs fuel main = .ok st) (hac : Acyclic fs) (e : ResEntry) (he : e ∈ st.resolved) :
    All2 (DocOK fs st.classes e.ns) e.rule.refs e.targets := by
  obtain ⟨hch, hall⟩ := C25_lookup_general h e he
  refine All2.imp ?_ hall
  intro r t hrt hq
  obtain ⟨s, hs, hd⟩ := hrt hq
  exact ⟨s, by rw [docResolve, ← specResolve_acyclic hac hch r]; exact hs, hd⟩

/-- **The rule of the current file comes first — for every name and every import graph.**
An unqualified reference to a name the referring file defines itself resolved to the class of
that file's own rule.  No hypothesis on the name: a file that defines its own `ID`, `INT`,
`STRING`, … (the names of the built-in rules) gets its own rule, not the built-in one; no
hypothesis on the import graph either (the referring file is never among the files that are
invisible to it).  References are all rule names a rule mentions: assignments, the match rule
of a link (`[X]` names `ID`), references without assignment. -/
theorem C25_own_first {fs : FS} {fuel : Nat} {main : Seg} {st : St}
    (h : loadMain fs fuel main = .ok st) (e : ResEntry) (he : e ∈ st.resolved)
    (f : File) (hf : fs e.ns = some f) :
    All2 (fun r t => r.qual = none → f.defines r.name = true → Denotes st.classes t (.rule e.ns r.name))
      e.rule.refs e.targets := by
  obtain ⟨_, hall⟩ := C25_lookup_general h e he
  refine All2.imp ?_ hall
  intro r t hrt hq hdef
  obtain ⟨s, hs, hd⟩ := hrt hq
  have : s = .rule e.ns r.name := by
    simp [specResolve, hq, hf, hdef] at hs
    exact hs.symm
  rw [← this]
  exact hd

/-- **Built-in rules.**  An unqualified built-in name the referring file does not define
resolved to the built-in rule, whatever the imported files define (in textX the built-in rules
are the first import of every file; the documentation is silent about this order) — so the
built-in rule is used exactly when the file has no rule of that name. -/
theorem C25_builtin {fs : FS} {fuel : Nat} {main : Seg} {st : St}
    (h : loadMain fs fuel main = .ok st) (e : ResEntry) (he : e ∈ st.resolved)
    (f : File) (hf : fs e.ns = some f) :
    All2 (fun r t => r.qual = none → f.defines r.name = false → r.name ∈ baseNames → t = .base r.name)
      e.rule.refs e.targets := by
  obtain ⟨_, hall⟩ := C25_lookup_general h e he
  refine All2.imp ?_ hall
  intro r t hrt hq hdef hb
  obtain ⟨s, hs, hd⟩ := hrt hq
  have : s = .base r.name := by
    simp [specResolve, hq, hf, hdef, hb] at hs
    exact hs.symm
  subst this
  cases t with
  | cls c => exact (hd).elim
  | base a => simp [Denotes] at hd; rw [hd]

/-- **Nothing is left out.**  For every file that was loaded the second pass recorded one entry
per rule, in rule order — so `C25_lookup` / `C25_qualified` speak about every rule reference of
every grammar file connected to the main file. -/
theorem C25_all_rules {fs : FS} {fuel : Nat} {main : Seg} {st : St}
    (h : loadMain fs fuel main = .ok st) (x : Ns) (hx : x ∈ st.opened) :
    ∃ f, fs x = some f ∧ resRules st.resolved x = f.rules ∧
      ∀ e ∈ st.resolved, e.ns = x → e.targets.length = e.rule.refs.length := by
  obtain ⟨hinv, _, _⟩ := loadMain_inv h
  obtain ⟨f, hf, hr⟩ := (loadMain_resInv h).done x (hinv.opened x hx) (by simp)
  refine ⟨f, hf, hr, ?_⟩
  intro e he _
  obtain ⟨_, _, _, hall⟩ := hinv.resOK e he
  exact hall.length

/-- **Qualified names.**  A qualified reference `q.X` that resolved, resolved to a class that
reports file `q` and name `X`, and file `q` defines `X` — whatever the import graph. -/
theorem C25_qualified {fs : FS} {fuel : Nat} {main : Seg} {st : St}
    (h : loadMain fs fuel main = .ok st) (e : ResEntry) (he : e ∈ st.resolved) :
    All2 (fun r t => ∀ q, r.qual = some q →
        Denotes st.classes t (.rule q r.name) ∧ fsDefines fs q r.name = true)
      e.rule.refs e.targets := by
  obtain ⟨_, _, _, hall⟩ := (loadMain_inv h).1.resOK e he
  refine All2.imp ?_ hall
  intro r t hrt q hq
  unfold RefOK at hrt
  rw [hq] at hrt
  exact hrt

/-- **`metamodel[name]` after loading.**
(1) An unqualified name gives exactly the documented resolution for the main file (both fail
together; no file is skipped, whatever the import graph).
(2) A qualified name that is found is the named file's rule.
(3) Every rule of every file that was loaded is found under its qualified name, and the class
reports that file and rule. -/
theorem C25_getitem {fs : FS} {fuel : Nat} {main : Seg} {st : St}
    (h : loadMain fs fuel main = .ok st) :
    (∀ n, OptRel (Denotes st.classes) (getItem st ⟨none, n⟩) (docResolve fs [main] ⟨none, n⟩)) ∧
    (∀ q n t, getItem st ⟨some q, n⟩ = some t →
        Denotes st.classes t (.rule q n) ∧ fsDefines fs q n = true) ∧
    (∀ q n, q ∈ st.opened → fsDefines fs q n = true →
        ∃ c, getItem st ⟨some q, n⟩ = some (.cls c) ∧ st.classes[c]? = some (q, n)) := by
  have hl := loadMain_lookupState h
  refine ⟨fun n => getItem_unqualified hl n, fun q n t hg => getItem_qualified hl q n t hg, ?_⟩
  intro q n hq hdef
  obtain ⟨hinv, _, _⟩ := loadMain_inv h
  rcases hinv.keys q (hinv.opened q hq) with hE | ⟨f, d, hf, hd, hdict, hdom, _, _⟩
  · simp at hE
  · have hdn : (d n).isSome = true := by
      rw [hdom n]; simpa [fsDefines, hf] using hdef
    obtain ⟨c, hc⟩ := Option.isSome_iff_exists.1 hdn
    exact ⟨c, by simp [getItem, hd, hc], hdict n c hc⟩

/-- **One set of classes per file.**  No file is handed to the loader twice, and the classes
ever created for a namespace `x` are one class per rule of file `x`, in rule order — or none at
all — however many import statements name `x`. -/
theorem C25_once {fs : FS} {fuel : Nat} {main : Seg} {st : St}
    (h : loadMain fs fuel main = .ok st) :
    st.opened.Nodup ∧
    (∀ x, clsNames st.classes x = [] ∨
        ∃ f, fs x = some f ∧ clsNames st.classes x = f.rules.map (·.name)) ∧
    (∀ x ∈ st.opened, ∃ f, fs x = some f ∧ clsNames st.classes x = f.rules.map (·.name)) := by
  obtain ⟨hinv, _, _⟩ := loadMain_inv h
  have key : ∀ x, isKey st x → ∃ f, fs x = some f ∧ clsNames st.classes x = f.rules.map (·.name) := by
    intro x hx
    rcases hinv.keys x hx with hE | ⟨f, d, hf, _, _, _, _, hc⟩
    · simp at hE
    · exact ⟨f, hf, hc⟩
  refine ⟨hinv.openedNodup, ?_, fun x hx => key x (hinv.opened x hx)⟩
  intro x
  by_cases hx : isKey st x
  · exact .inr (key x hx)
  · exact .inl (hinv.nonkey x hx)

/-- **File-based qualified names.**  A class reports `(x, n)` only if file `x` was loaded and
defines a rule `n` (the namespace `x` is the path of the file below the main file's directory,
`absImport`), and `metamodel["x.n"]` finds a class reporting the same pair. -/
theorem C25_fqn {fs : FS} {fuel : Nat} {main : Seg} {st : St}
    (h : loadMain fs fuel main = .ok st) (c : Nat) (x : Ns) (n : Name)
    (hc : st.classes[c]? = some (x, n)) :
    fsDefines fs x n = true ∧
    ∃ c', getItem st ⟨some x, n⟩ = some (.cls c') ∧ st.classes[c']? = some (x, n) := by
  obtain ⟨hinv, _, _⟩ := loadMain_inv h
  have hmem : n ∈ clsNames st.classes x := mem_clsNames.2 (List.mem_of_getElem? hc)
  have hk : isKey st x := by
    apply Classical.byContradiction
    intro hk
    rw [hinv.nonkey x hk] at hmem
    simp at hmem
  rcases hinv.keys x hk with hE | ⟨f, d, hf, hd, hdict, hdom, _, hcl⟩
  · simp at hE
  · rw [hcl] at hmem
    have hdef : f.defines n = true := by
      simp only [File.defines, List.any_eq_true]
      obtain ⟨r, hr, hrn⟩ := List.mem_map.1 hmem
      exact ⟨r, hr, by simp [hrn]⟩
    have hdn : (d n).isSome = true := by rw [hdom n]; exact hdef
    obtain ⟨c', hc'⟩ := Option.isSome_iff_exists.1 hdn
    exact ⟨by simp [fsDefines, hf, hdef], c', by simp [getItem, hd, hc'], hdict n c' hc'⟩

/-- **Termination.**  With more fuel than there are grammar files the loader never stops for
lack of fuel (nor on an empty namespace stack): import cycles, self-imports and repeated
imports included, every file is entered at most once. -/
theorem C25_terminates (fs : FS) (files : List Ns) (hfs : ∀ x, (fs x).isSome → x ∈ files)
    (fuel : Nat) (hfuel : files.length < fuel) (main : Seg) :
    loadMain fs fuel main ≠ .error .fuel ∧ loadMain fs fuel main ≠ .error .nostack := by
  unfold loadMain
  apply loadFile_fuel fs files hfs fuel [main] _ (by simp)
  left
  have : unloaded files (enter St.empty [main]) ≤ files.length := by
    unfold unloaded; exact List.length_filter_le _ _
  omega

/-! ## Non-vacuity -/

/-- nested directories, a diamond (`sub.d` is imported by `b` via `sub.c`… and by `m`), overlap -/
def exFS : FS := fun ns =>
  if ns = ["m"] then
    some ⟨[["b"], ["sub", "c"], ["sub", "d"]], [⟨"Main", [⟨none, "X"⟩, ⟨some ["sub", "c"], "X"⟩, ⟨none, "Z"⟩]⟩]⟩
  else if ns = ["b"] then some ⟨[["sub", "c"]], [⟨"X", [⟨none, "X"⟩]⟩]⟩
  else if ns = ["sub", "c"] then some ⟨[["d"]], [⟨"X", [⟨none, "Z"⟩]⟩, ⟨"Z", []⟩]⟩
  else if ns = ["sub", "d"] then some ⟨[], [⟨"Z", []⟩]⟩
  else none

def exRank (ns : Ns) : Nat :=
  if ns = ["m"] then 3 else if ns = ["b"] then 2 else if ns = ["sub", "c"] then 1 else 0

/-- the hypotheses of `C25_lookup` are met: the graph is acyclic and the load succeeds … -/
example : Acyclic exFS := by
  apply acyclic_of_rank exRank
  rintro a b ⟨f, hf, hb⟩
  unfold exFS at hf
  split at hf
  · cases hf; subst a
    simp [absImports, absImport] at hb
    rcases hb with rfl | rfl | rfl <;> decide
  · split at hf
    · cases hf; subst a
      simp [absImports, absImport] at hb
      subst hb; decide
    · split at hf
      · cases hf; subst a
        simp [absImports, absImport] at hb
        subst hb; decide
      · split at hf
        · cases hf; simp [absImports] at hb
        · cases hf

/-- … each file once (`sub.c`, `sub.d` are named by two import statements each), classes in
post-order with file-based names … -/
example : (loadMain exFS 5 "m").toOption.map (fun st => (st.opened, st.classes)) =
    some ([["m"], ["b"], ["sub", "c"], ["sub", "d"]],
      [(["sub", "d"], "Z"), (["sub", "c"], "X"), (["sub", "c"], "Z"), (["b"], "X"), (["m"], "Main")]) := by
  decide +kernel

/-- … `Main`'s `X` is `b.X` (first import defining it), `sub.c.X` is the named file's rule, `Z`
is `sub.c.Z` (import order, not `sub.d.Z`); `sub.c`'s `Z` is its own. -/
example : (loadMain exFS 5 "m").toOption.map (fun st => st.resolved.map fun e => (e.ns, e.rule.name, e.targets)) =
    some [(["sub", "d"], "Z", []), (["sub", "c"], "X", [.cls 2]), (["sub", "c"], "Z", []),
      (["b"], "X", [.cls 3]), (["m"], "Main", [.cls 3, .cls 1, .cls 2])] := by
  decide +kernel

/-- Names of built-in rules: `m` defines its own `INT`, `lib` its own `ID`; both refer to `INT`
and `ID` (rule `Main` also to `lib.ID`; the last reference of `Item` is the implicit `ID` of a link). -/
def builtinFS : FS := fun ns =>
  if ns = ["m"] then
    some ⟨[["lib"]], [⟨"Main", [⟨none, "Item"⟩, ⟨none, "INT"⟩, ⟨none, "ID"⟩, ⟨some ["lib"], "ID"⟩]⟩, ⟨"INT", []⟩]⟩
  else if ns = ["lib"] then some ⟨[], [⟨"Item", [⟨none, "ID"⟩, ⟨none, "INT"⟩, ⟨none, "ID"⟩]⟩, ⟨"ID", []⟩]⟩
  else none

/-- … classes `lib.Item`, `lib.ID`, `m.Main`, `m.INT` (0–3): in `m`, `INT` is `m.INT` and `ID` the
built-in rule (not `lib.ID`, which the qualified name selects); in `lib`, `ID` is `lib.ID` — also
for the link — and `INT` the built-in rule.  (`C25_own_first`, `C25_builtin` are not vacuous.) -/
example : (loadMain builtinFS 3 "m").toOption.map
      (fun st => (st.classes, st.resolved.map fun e => (e.ns, e.rule.name, e.targets))) =
    some ([(["lib"], "Item"), (["lib"], "ID"), (["m"], "Main"), (["m"], "INT")],
      [(["lib"], "Item", [.cls 1, .base "INT", .cls 1]), (["lib"], "ID", []),
       (["m"], "Main", [.cls 0, .cls 3, .base "ID", .cls 1]), (["m"], "INT", [])]) := by
  decide +kernel

/-- The documented order does **not** hold for every import graph (cyclic imports, open known
finding C25-cyclic-imports): `b` is imported by `m` and imports `m` back, then `c`.  `m` is
imported first and defines `C0`, so the documented target of `C0` in `b` is `m.C0` … -/
def cycFS : FS := fun ns =>
  if ns = ["m"] then some ⟨[["b"]], [⟨"Main", [⟨none, "C1"⟩]⟩, ⟨"C0", []⟩]⟩
  else if ns = ["b"] then some ⟨[["m"], ["c"]], [⟨"C1", [⟨none, "C0"⟩]⟩]⟩
  else if ns = ["c"] then some ⟨[], [⟨"C0", []⟩]⟩
  else none

example : docResolve cycFS ["b"] ⟨none, "C0"⟩ = some (.rule ["m"] "C0") := by decide +kernel

/-- … but the loader resolves it while `m` is still being loaded (its namespace is empty) and
records class 0 = `c.C0`: `C25_lookup` without the acyclicity hypothesis is false, and
`C25_lookup_general` (with `anc = [m]`) describes what happens instead. -/
theorem C25_lookup_cyclic_false :
    ¬ (∀ (fs : FS) (fuel : Nat) (main : Seg) (st : St), loadMain fs fuel main = .ok st →
        ∀ e ∈ st.resolved, All2 (DocOK fs st.classes e.ns) e.rule.refs e.targets) := by
  intro hall
  cases h : loadMain cycFS 5 "m" with
  | error e =>
    have : (loadMain cycFS 5 "m").toOption.isSome = true := by decide +kernel
    rw [h] at this
    simp [Except.toOption] at this
  | ok st =>
    have hres : (loadMain cycFS 5 "m").toOption.map (fun st => (st.classes, st.resolved)) =
        some ([(["c"], "C0"), (["b"], "C1"), (["m"], "Main"), (["m"], "C0")],
          [⟨0, ["c"], [["b"], ["m"]], ⟨"C0", []⟩, []⟩,
           ⟨1, ["b"], [["m"]], ⟨"C1", [⟨none, "C0"⟩]⟩, [.cls 0]⟩,
           ⟨2, ["m"], [], ⟨"Main", [⟨none, "C1"⟩]⟩, [.cls 1]⟩,
           ⟨3, ["m"], [], ⟨"C0", []⟩, []⟩]) := by decide +kernel
    rw [h] at hres
    simp only [Except.toOption, Option.map_some, Option.some.injEq, Prod.mk.injEq] at hres
    obtain ⟨hcl, hrs⟩ := hres
    have hb := hall cycFS 5 "m" st h ⟨1, ["b"], [["m"]], ⟨"C1", [⟨none, "C0"⟩]⟩, [.cls 0]⟩ (by rw [hrs]; simp)
    cases hb with
    | cons hd _ =>
      obtain ⟨s, hs, hden⟩ := hd rfl
      have : docResolve cycFS ["b"] ⟨none, "C0"⟩ = some (.rule ["m"] "C0") := by decide +kernel
      rw [this] at hs
      cases hs
      rw [hcl] at hden
      simp [Denotes] at hden

end Imp
