import TextxVerif.Proofs.Imp
import TextxVerif.Proofs.ImpErr
import TextxVerif.Proofs.ImpOpen
/-!
# C25 — grammar imports resolve rules in the documented order

Model: `Imp.loadMain` (TextxVerif/Imp.lean), the mirror of
`metamodel_from_file` as far as namespaces are concerned: `_enter_namespace` /
`_leave_namespace` / `_new_import` / `_init_class` / `_cls_fqn` / `__getitem__`
of `textx/metamodel.py` and the order in which `textx/lang.py` runs them for one
grammar file (import statements, one class per rule, second pass).

* `st.classes` is the creation log of classes; entry `c` is the pair
  `(namespace, rule name)` class `c` reports as `_tx_fqn`.
* `st.resolved` has one `ResEntry` per rule: the class of the rule, its file `ns`,
  the namespaces `anc` that were still being loaded, and what each rule reference
  of the rule resolved to (`targets`, parallel to `rule.refs`).
* `getItem st r` is `metamodel[r]` after loading.
* `docResolve fs ns r` is the documented resolution computed from the files alone:
  own file, else the first import in import order that defines the name
  (base-type names sit in between, exactly as `__base__` does in the code);
  `specResolve fs ns skip r` is the same with the imports in `skip` invisible.
* `Denotes classes t s`: the model-side target `t` (a class index / a base type)
  is the rule `s` names, i.e. the class reports that file and that rule name.

All statements hold for every file system `fs` (any import graph: nested
directories, diamonds, cycles, self-imports, repeated imports, missing files),
every `main` and every fuel.  The first group of theorems is about runs that return a
final state; what a run that stops with an error says about the files, and when a run cannot
stop with an error, is the last section ("The error side").  Only property
theorems and non-vacuity examples live here; lemmas are in `Proofs/Imp.lean`.
-/
namespace Imp

/-- The resolution recorded for an *unqualified* reference agrees with the documented order. -/
def DocOK (fs : FS) (classes : List (Ns × Name)) (ns : Ns) (r : Ref) (t : Target) : Prop :=
  r.qual = none → ∃ s, docResolve fs ns r = some s ∧ Denotes classes t s

/-- **Lookup, all import graphs.**  Whatever a successful load recorded for an unqualified
reference of a rule of file `e.ns` is the documented resolution *with the files that were still
being loaded (`e.anc`) invisible*: the class found reports the file the order selects and the
referenced name.  `e.ns :: e.anc` is a path of import statements from the main file. -/
theorem C25_lookup_general {fs : FS} {fuel : Nat} {main : Seg} {st : St}
    (h : loadMain fs fuel main = .ok st) (e : ResEntry) (he : e ∈ st.resolved) :
    Chain fs (e.ns :: e.anc) ∧
    All2 (fun r t => r.qual = none → ∃ s, specResolve fs e.ns e.anc r = some s ∧ Denotes st.classes t s)
      e.rule.refs e.targets := by
  obtain ⟨hch, _, _, hall⟩ := (loadMain_inv h).1.resOK e he
  refine ⟨hch, All2.imp ?_ hall⟩
  intro r t hrt hq
  unfold RefOK at hrt
  rw [hq] at hrt
  exact hrt

/-- **Lookup, the property.**  When no grammar file (transitively) imports itself, every
unqualified rule reference resolves to the rule of the current file if it defines one, and
otherwise to the first imported file, in import order, that defines the rule. -/
theorem C25_lookup {fs : FS} {fuel : Nat} {main : Seg} {st : St}
    (h : loadMain fs fuel main = .ok st) (hac : Acyclic fs) (e : ResEntry) (he : e ∈ st.resolved) :
    All2 (DocOK fs st.classes e.ns) e.rule.refs e.targets := by
  obtain ⟨hch, hall⟩ := C25_lookup_general h e he
  refine All2.imp ?_ hall
  intro r t hrt hq
  obtain ⟨s, hs, hd⟩ := hrt hq
  exact ⟨s, by rw [docResolve, ← specResolve_acyclic hac hch r]; exact hs, hd⟩

/-- **The rule of the current file comes first — for every name and every import graph.**
An unqualified reference to a name the referring file defines itself resolved to the class of
that file's own rule.  No hypothesis on the name: a file that defines its own `ID`, `INT`,
`STRING`, … (the names of the built-in rules) gets its own rule, not the built-in one; no
hypothesis on the import graph either (the referring file is never among the files that are
invisible to it).  References are all rule names a rule mentions: assignments, the match rule
of a link (`[X]` names `ID`), references without assignment. -/
theorem C25_own_first {fs : FS} {fuel : Nat} {main : Seg} {st : St}
    (h : loadMain fs fuel main = .ok st) (e : ResEntry) (he : e ∈ st.resolved)
    (f : File) (hf : fs e.ns = some f) :
    All2 (fun r t => r.qual = none → f.defines r.name = true → Denotes st.classes t (.rule e.ns r.name))
      e.rule.refs e.targets := by
  obtain ⟨_, hall⟩ := C25_lookup_general h e he
  refine All2.imp ?_ hall
  intro r t hrt hq hdef
  obtain ⟨s, hs, hd⟩ := hrt hq
  have : s = .rule e.ns r.name := by
    simp [specResolve, hq, hf, hdef] at hs
    exact hs.symm
  rw [← this]
  exact hd

/-- **Built-in rules.**  An unqualified built-in name the referring file does not define
resolved to the built-in rule, whatever the imported files define (in textX the built-in rules
are the first import of every file; the documentation is silent about this order) — so the
built-in rule is used exactly when the file has no rule of that name. -/
theorem C25_builtin {fs : FS} {fuel : Nat} {main : Seg} {st : St}
    (h : loadMain fs fuel main = .ok st) (e : ResEntry) (he : e ∈ st.resolved)
    (f : File) (hf : fs e.ns = some f) :
    All2 (fun r t => r.qual = none → f.defines r.name = false → r.name ∈ baseNames → t = .base r.name)
      e.rule.refs e.targets := by
  obtain ⟨_, hall⟩ := C25_lookup_general h e he
  refine All2.imp ?_ hall
  intro r t hrt hq hdef hb
  obtain ⟨s, hs, hd⟩ := hrt hq
  have : s = .base r.name := by
    simp [specResolve, hq, hf, hdef, hb] at hs
    exact hs.symm
  subst this
  cases t with
  | cls c => exact (hd).elim
  | base a => simp [Denotes] at hd; rw [hd]

/-- **Nothing is left out.**  For every file that was loaded the second pass recorded one entry
per rule, in rule order — so `C25_lookup` / `C25_qualified` speak about every rule reference of
every grammar file connected to the main file. -/
theorem C25_all_rules {fs : FS} {fuel : Nat} {main : Seg} {st : St}
    (h : loadMain fs fuel main = .ok st) (x : Ns) (hx : x ∈ st.opened) :
    ∃ f, fs x = some f ∧ resRules st.resolved x = f.rules ∧
      ∀ e ∈ st.resolved, e.ns = x → e.targets.length = e.rule.refs.length := by
  obtain ⟨hinv, _, _⟩ := loadMain_inv h
  obtain ⟨f, hf, hr⟩ := (loadMain_resInv h).done x (hinv.opened x hx) (by simp)
  refine ⟨f, hf, hr, ?_⟩
  intro e he _
  obtain ⟨_, _, _, hall⟩ := hinv.resOK e he
  exact hall.length

/-- **Qualified names.**  A qualified reference `q.X` that resolved, resolved to a class that
reports file `q` and name `X`, and file `q` defines `X` — whatever the import graph. -/
theorem C25_qualified {fs : FS} {fuel : Nat} {main : Seg} {st : St}
    (h : loadMain fs fuel main = .ok st) (e : ResEntry) (he : e ∈ st.resolved) :
    All2 (fun r t => ∀ q, r.qual = some q →
        Denotes st.classes t (.rule q r.name) ∧ fsDefines fs q r.name = true)
      e.rule.refs e.targets := by
  obtain ⟨_, _, _, hall⟩ := (loadMain_inv h).1.resOK e he
  refine All2.imp ?_ hall
  intro r t hrt q hq
  unfold RefOK at hrt
  rw [hq] at hrt
  exact hrt

/-- **`metamodel[name]` after loading.**
(1) An unqualified name gives exactly the documented resolution for the main file (both fail
together; no file is skipped, whatever the import graph).
(2) A qualified name that is found is the named file's rule.
(3) Every rule of every file that was loaded is found under its qualified name, and the class
reports that file and rule. -/
theorem C25_getitem {fs : FS} {fuel : Nat} {main : Seg} {st : St}
    (h : loadMain fs fuel main = .ok st) :
    (∀ n, OptRel (Denotes st.classes) (getItem st ⟨none, n⟩) (docResolve fs [main] ⟨none, n⟩)) ∧
    (∀ q n t, getItem st ⟨some q, n⟩ = some t →
        Denotes st.classes t (.rule q n) ∧ fsDefines fs q n = true) ∧
    (∀ q n, q ∈ st.opened → fsDefines fs q n = true →
        ∃ c, getItem st ⟨some q, n⟩ = some (.cls c) ∧ st.classes[c]? = some (q, n)) := by
  have hl := loadMain_lookupState h
  refine ⟨fun n => getItem_unqualified hl n, fun q n t hg => getItem_qualified hl q n t hg, ?_⟩
  intro q n hq hdef
  obtain ⟨hinv, _, _⟩ := loadMain_inv h
  rcases hinv.keys q (hinv.opened q hq) with hE | ⟨f, d, hf, hd, hdict, hdom, _, _⟩
  · simp at hE
  · have hdn : (d n).isSome = true := by
      rw [hdom n]; simpa [fsDefines, hf] using hdef
    obtain ⟨c, hc⟩ := Option.isSome_iff_exists.1 hdn
    exact ⟨c, by simp [getItem, hd, hc], hdict n c hc⟩

/-- **One set of classes per file.**  No file is handed to the loader twice, and the classes
ever created for a namespace `x` are one class per rule of file `x`, in rule order — or none at
all — however many import statements name `x`. -/
theorem C25_once {fs : FS} {fuel : Nat} {main : Seg} {st : St}
    (h : loadMain fs fuel main = .ok st) :
    st.opened.Nodup ∧
    (∀ x, clsNames st.classes x = [] ∨
        ∃ f, fs x = some f ∧ clsNames st.classes x = f.rules.map (·.name)) ∧
    (∀ x ∈ st.opened, ∃ f, fs x = some f ∧ clsNames st.classes x = f.rules.map (·.name)) := by
  obtain ⟨hinv, _, _⟩ := loadMain_inv h
  have key : ∀ x, isKey st x → ∃ f, fs x = some f ∧ clsNames st.classes x = f.rules.map (·.name) := by
    intro x hx
    rcases hinv.keys x hx with hE | ⟨f, d, hf, _, _, _, _, hc⟩
    · simp at hE
    · exact ⟨f, hf, hc⟩
  refine ⟨hinv.openedNodup, ?_, fun x hx => key x (hinv.opened x hx)⟩
  intro x
  by_cases hx : isKey st x
  · exact .inr (key x hx)
  · exact .inl (hinv.nonkey x hx)

/-- **File-based qualified names.**  A class reports `(x, n)` only if file `x` was loaded and
defines a rule `n` (the namespace `x` is the path of the file below the main file's directory,
`absImport`), and `metamodel["x.n"]` finds a class reporting the same pair. -/
theorem C25_fqn {fs : FS} {fuel : Nat} {main : Seg} {st : St}
    (h : loadMain fs fuel main = .ok st) (c : Nat) (x : Ns) (n : Name)
    (hc : st.classes[c]? = some (x, n)) :
    fsDefines fs x n = true ∧
    ∃ c', getItem st ⟨some x, n⟩ = some (.cls c') ∧ st.classes[c']? = some (x, n) := by
  obtain ⟨hinv, _, _⟩ := loadMain_inv h
  have hmem : n ∈ clsNames st.classes x := mem_clsNames.2 (List.mem_of_getElem? hc)
  have hk : isKey st x := by
    apply Classical.byContradiction
    intro hk
    rw [hinv.nonkey x hk] at hmem
    simp at hmem
  rcases hinv.keys x hk with hE | ⟨f, d, hf, hd, hdict, hdom, _, hcl⟩
  · simp at hE
  · rw [hcl] at hmem
    have hdef : f.defines n = true := by
      simp only [File.defines, List.any_eq_true]
      obtain ⟨r, hr, hrn⟩ := List.mem_map.1 hmem
      exact ⟨r, hr, by simp [hrn]⟩
    have hdn : (d n).isSome = true := by rw [hdom n]; exact hdef
    obtain ⟨c', hc'⟩ := Option.isSome_iff_exists.1 hdn
    exact ⟨by simp [fsDefines, hf, hdef], c', by simp [getItem, hd, hc'], hdict n c' hc'⟩

/-- **Termination.**  With more fuel than there are grammar files the loader never stops for
lack of fuel (nor on an empty namespace stack): import cycles, self-imports and repeated
imports included, every file is entered at most once. -/
theorem C25_terminates (fs : FS) (files : List Ns) (hfs : ∀ x, (fs x).isSome → x ∈ files)
    (fuel : Nat) (hfuel : files.length < fuel) (main : Seg) :
    loadMain fs fuel main ≠ .error .fuel ∧ loadMain fs fuel main ≠ .error .nostack := by
  unfold loadMain
  apply loadFile_fuel fs files hfs fuel [main] _ (by simp)
  left
  have : unloaded files (enter St.empty [main]) ≤ files.length := by
    unfold unloaded; exact List.length_filter_le _ _
  omega

/-! ## Non-vacuity -/

/-- nested directories, a diamond (`sub.d` is imported by `b` via `sub.c`… and by `m`), overlap -/
def exFS : FS := fun ns =>
  if ns = ["m"] then
    some ⟨[["b"], ["sub", "c"], ["sub", "d"]], [⟨"Main", [⟨none, "X"⟩, ⟨some ["sub", "c"], "X"⟩, ⟨none, "Z"⟩]⟩]⟩
  else if ns = ["b"] then some ⟨[["sub", "c"]], [⟨"X", [⟨none, "X"⟩]⟩]⟩
  else if ns = ["sub", "c"] then some ⟨[["d"]], [⟨"X", [⟨none, "Z"⟩]⟩, ⟨"Z", []⟩]⟩
  else if ns = ["sub", "d"] then some ⟨[], [⟨"Z", []⟩]⟩
  else none

def exRank (ns : Ns) : Nat :=
  if ns = ["m"] then 3 else if ns = ["b"] then 2 else if ns = ["sub", "c"] then 1 else 0

/-- the hypotheses of `C25_lookup` are met: the graph is acyclic and the load succeeds … -/
theorem exFS_acyclic : Acyclic exFS := by
  apply acyclic_of_rank exRank
  rintro a b ⟨f, hf, hb⟩
  unfold exFS at hf
  split at hf
  · cases hf; subst a
    simp [absImports, absImport] at hb
    rcases hb with rfl | rfl | rfl <;> decide
  · split at hf
    · cases hf; subst a
      simp [absImports, absImport] at hb
      subst hb; decide
    · split at hf
      · cases hf; subst a
        simp [absImports, absImport] at hb
        subst hb; decide
      · split at hf
        · cases hf; simp [absImports] at hb
        · cases hf

/-- … each file once (`sub.c`, `sub.d` are named by two import statements each), classes in
post-order with file-based names … -/
example : (loadMain exFS 5 "m").toOption.map (fun st => (st.opened, st.classes)) =
    some ([["m"], ["b"], ["sub", "c"], ["sub", "d"]],
      [(["sub", "d"], "Z"), (["sub", "c"], "X"), (["sub", "c"], "Z"), (["b"], "X"), (["m"], "Main")]) := by
  decide +kernel

/-- … `Main`'s `X` is `b.X` (first import defining it), `sub.c.X` is the named file's rule, `Z`
is `sub.c.Z` (import order, not `sub.d.Z`); `sub.c`'s `Z` is its own. -/
example : (loadMain exFS 5 "m").toOption.map (fun st => st.resolved.map fun e => (e.ns, e.rule.name, e.targets)) =
    some [(["sub", "d"], "Z", []), (["sub", "c"], "X", [.cls 2]), (["sub", "c"], "Z", []),
      (["b"], "X", [.cls 3]), (["m"], "Main", [.cls 3, .cls 1, .cls 2])] := by
  decide +kernel

/-- Names of built-in rules: `m` defines its own `INT`, `lib` its own `ID`; both refer to `INT`
and `ID` (rule `Main` also to `lib.ID`; the last reference of `Item` is the implicit `ID` of a link). -/
def builtinFS : FS := fun ns =>
  if ns = ["m"] then
    some ⟨[["lib"]], [⟨"Main", [⟨none, "Item"⟩, ⟨none, "INT"⟩, ⟨none, "ID"⟩, ⟨some ["lib"], "ID"⟩]⟩, ⟨"INT", []⟩]⟩
  else if ns = ["lib"] then some ⟨[], [⟨"Item", [⟨none, "ID"⟩, ⟨none, "INT"⟩, ⟨none, "ID"⟩]⟩, ⟨"ID", []⟩]⟩
  else none

/-- … classes `lib.Item`, `lib.ID`, `m.Main`, `m.INT` (0–3): in `m`, `INT` is `m.INT` and `ID` the
built-in rule (not `lib.ID`, which the qualified name selects); in `lib`, `ID` is `lib.ID` — also
for the link — and `INT` the built-in rule.  (`C25_own_first`, `C25_builtin` are not vacuous.) -/
example : (loadMain builtinFS 3 "m").toOption.map
      (fun st => (st.classes, st.resolved.map fun e => (e.ns, e.rule.name, e.targets))) =
    some ([(["lib"], "Item"), (["lib"], "ID"), (["m"], "Main"), (["m"], "INT")],
      [(["lib"], "Item", [.cls 1, .base "INT", .cls 1]), (["lib"], "ID", []),
       (["m"], "Main", [.cls 0, .cls 3, .base "ID", .cls 1]), (["m"], "INT", [])]) := by
  decide +kernel

/-- The documented order does **not** hold for every import graph (cyclic imports, open known
finding C25-cyclic-imports): `b` is imported by `m` and imports `m` back, then `c`.  `m` is
imported first and defines `C0`, so the documented target of `C0` in `b` is `m.C0` … -/
def cycFS : FS := fun ns =>
  if ns = ["m"] then some ⟨[["b"]], [⟨"Main", [⟨none, "C1"⟩]⟩, ⟨"C0", []⟩]⟩
  else if ns = ["b"] then some ⟨[["m"], ["c"]], [⟨"C1", [⟨none, "C0"⟩]⟩]⟩
  else if ns = ["c"] then some ⟨[], [⟨"C0", []⟩]⟩
  else none

example : docResolve cycFS ["b"] ⟨none, "C0"⟩ = some (.rule ["m"] "C0") := by decide +kernel

/-- … but the loader resolves it while `m` is still being loaded (its namespace is empty) and
records class 0 = `c.C0`: `C25_lookup` without the acyclicity hypothesis is false, and
`C25_lookup_general` (with `anc = [m]`) describes what happens instead. -/
theorem C25_lookup_cyclic_false :
    ¬ (∀ (fs : FS) (fuel : Nat) (main : Seg) (st : St), loadMain fs fuel main = .ok st →
        ∀ e ∈ st.resolved, All2 (DocOK fs st.classes e.ns) e.rule.refs e.targets) := by
  intro hall
  cases h : loadMain cycFS 5 "m" with
  | error e =>
    have : (loadMain cycFS 5 "m").toOption.isSome = true := by decide +kernel
    rw [h] at this
    simp [Except.toOption] at this
  | ok st =>
    have hres : (loadMain cycFS 5 "m").toOption.map (fun st => (st.classes, st.resolved)) =
        some ([(["c"], "C0"), (["b"], "C1"), (["m"], "Main"), (["m"], "C0")],
          [⟨0, ["c"], [["b"], ["m"]], ⟨"C0", []⟩, []⟩,
           ⟨1, ["b"], [["m"]], ⟨"C1", [⟨none, "C0"⟩]⟩, [.cls 0]⟩,
           ⟨2, ["m"], [], ⟨"Main", [⟨none, "C1"⟩]⟩, [.cls 1]⟩,
           ⟨3, ["m"], [], ⟨"C0", []⟩, []⟩]) := by decide +kernel
    rw [h] at hres
    simp only [Except.toOption, Option.map_some, Option.some.injEq, Prod.mk.injEq] at hres
    obtain ⟨hcl, hrs⟩ := hres
    have hb := hall cycFS 5 "m" st h ⟨1, ["b"], [["m"]], ⟨"C1", [⟨none, "C0"⟩]⟩, [.cls 0]⟩ (by rw [hrs]; simp)
    cases hb with
    | cons hd _ =>
      obtain ⟨s, hs, hden⟩ := hd rfl
      have : docResolve cycFS ["b"] ⟨none, "C0"⟩ = some (.rule ["m"] "C0") := by decide +kernel
      rw [this] at hs
      cases hs
      rw [hcl] at hden
      simp [Denotes] at hden

/-! ## The error side: what a failed load says about the files, and when loading cannot fail

A run of `loadMain` that does not return a state stops with `missing x` (`open()` fails:
`FileNotFoundError`), with `unexisting ns r` (`TextXSemanticError` "Unexisting rule" / "Unknown
class/rule") or — in the model only — for lack of fuel (`C25_terminates`).  `Connected fs main x`:
`x` is the main file or reachable from it through import statements.  `docResolvable fs x f r`
(executable, `Imp.lean`): reference `r` of file `x` is resolvable by the documentation — an
unqualified name has a documented resolution, a qualified name names the file itself or one of its
direct imports and that file defines the rule. -/

/-- **Missing file, soundness.**  A load that stops with "file `x` not found" was given a file
system without `x`, and `x` is the main file or named by an import statement of a file connected
to the main file — whatever the import graph. -/
theorem C25_missing_sound {fs : FS} {fuel : Nat} {main : Seg} {x : Ns}
    (h : loadMain fs fuel main = .error (.missing x)) : fs x = none ∧ Connected fs main x := by
  obtain ⟨h1, anc, hch, hs⟩ := loadMain_err h
  exact ⟨h1, connected_of_chain hch hs⟩

/-- **Unexisting rule, soundness, all import graphs.**  A load that stops with "unexisting rule
`r` in file `ns`": `ns` is at the end of a path `ns :: anc` of import statements from the main
file (no file twice), `r` is written in a rule of file `ns`, and `r` cannot be resolved with the
files `anc` (still being loaded) invisible: unqualified — `specResolve … anc r = none`; qualified
`q.X` with `q` the file itself or a direct import that is not in `anc` — file `q` has no rule `X`.
The error is never about the name of a rule of the file itself. -/
theorem C25_unexisting_general {fs : FS} {fuel : Nat} {main : Seg} {ns : Ns} {r : Ref}
    (h : loadMain fs fuel main = .error (.unexisting ns r)) :
    ∃ anc f rule, Chain fs (ns :: anc) ∧ [[main]] <:+ (ns :: anc) ∧ (ns :: anc).Nodup ∧
      fs ns = some f ∧ rule ∈ f.rules ∧ r ∈ rule.refs ∧ Unres fs ns anc r :=
  loadMain_err h

/-- The reviewer's statement at full strength: an "unexisting rule" error of an acyclic tree is
about a reference without documented resolution.  It is **false** for qualified names
(`C25_unexisting_sound_full_false`): `docResolve` of a qualified name only asks whether the named
file defines the rule, but the loader finds the named file only when it is loaded already. -/
def C25_unexisting_sound_full : Prop :=
  ∀ (fs : FS) (fuel : Nat) (main : Seg) (ns : Ns) (r : Ref),
    loadMain fs fuel main = .error (.unexisting ns r) → Acyclic fs → docResolve fs ns r = none

/-- **Unexisting rule, soundness (acyclic).**  When no file imports itself, an "unexisting rule
`r` in file `ns`" error means: `ns` is connected to the main file, `r` is written in a rule of
`ns`, and `r` is not resolvable by the documentation (`docResolvable … = false`); in particular
an unqualified `r` has no documented resolution, and neither has a qualified `r` naming the file
itself or one of its direct imports.  Missing for `C25_unexisting_sound_full`: qualified names of
files the referring file does not import directly (false there, see the witness below). -/
theorem C25_unexisting_sound_partial {fs : FS} {fuel : Nat} {main : Seg} {ns : Ns} {r : Ref}
    (h : loadMain fs fuel main = .error (.unexisting ns r)) (hac : Acyclic fs) :
    Connected fs main ns ∧ ∃ f rule, fs ns = some f ∧ rule ∈ f.rules ∧ r ∈ rule.refs ∧
      docResolvable fs ns f r = false ∧
      (r.qual = none → docResolve fs ns r = none) ∧
      (∀ q, r.qual = some q → q = ns ∨ q ∈ absImports ns f → docResolve fs ns r = none) := by
  obtain ⟨anc, f, rule, hch, hs, _, hf, hrule, hr, hun⟩ := loadMain_err h
  obtain ⟨hn, hd⟩ := acyclic_imports_not_anc hac hf hch
  have hno := hun.not_docResolvable hf hn hd
  refine ⟨connected_of_chain hch hs, f, rule, hf, hrule, hr, hno, ?_, ?_⟩
  · intro hq
    simpa [docResolvable, hq] using hno
  · intro q hq hdir
    unfold Unres at hun
    rw [hq] at hun
    simp only at hun
    have hqa : q ∉ anc := by
      rcases hdir with e | hm
      · rw [e]; exact hn
      · exact hd q hm
    simp [docResolve, specResolve, hq, hun f hf hdir hqa]

/-- **Resolvable ⇒ loads (acyclic).**  If no file imports itself, every file connected to the main
file exists and every rule reference written in those files is resolvable by the documentation,
then the grammars load (given fuel beyond the number of files, `C25_terminates`).  With
`C25_lookup`, `C25_qualified` this fixes what every reference resolves to. -/
theorem C25_loads (fs : FS) (files : List Ns) (hfs : ∀ x, (fs x).isSome → x ∈ files)
    (fuel : Nat) (hfuel : files.length < fuel) (main : Seg) (hac : Acyclic fs)
    (hex : ∀ x, Connected fs main x → (fs x).isSome)
    (hres : ∀ x f, Connected fs main x → fs x = some f →
      ∀ rule ∈ f.rules, ∀ r ∈ rule.refs, docResolvable fs x f r = true) :
    ∃ st, loadMain fs fuel main = .ok st := by
  cases h : loadMain fs fuel main with
  | ok st => exact ⟨st, rfl⟩
  | error e =>
    exfalso
    cases e with
    | fuel => exact (C25_terminates fs files hfs fuel hfuel main).1 h
    | nostack => exact (C25_terminates fs files hfs fuel hfuel main).2 h
    | missing x =>
      obtain ⟨h1, hc⟩ := C25_missing_sound h
      have := hex x hc
      rw [h1] at this
      simp at this
    | unexisting ns r =>
      obtain ⟨hc, f, rule, hf, hrule, hr, hno, _⟩ := C25_unexisting_sound_partial h hac
      have := hres ns f hc hf rule hrule r hr
      rw [hno] at this
      cases this

/-- **Resolvable ⇒ loads, all import graphs.**  The same without acyclicity: it suffices that
every reference is resolvable on every path of import statements from the main file that reaches
its file, with the files on that path invisible (`ResolvableNow`). -/
theorem C25_loads_general (fs : FS) (files : List Ns) (hfs : ∀ x, (fs x).isSome → x ∈ files)
    (fuel : Nat) (hfuel : files.length < fuel) (main : Seg)
    (hex : ∀ x, Connected fs main x → (fs x).isSome)
    (hres : ∀ x anc f, Chain fs (x :: anc) → [[main]] <:+ (x :: anc) → (x :: anc).Nodup →
      fs x = some f → ∀ rule ∈ f.rules, ∀ r ∈ rule.refs, ResolvableNow fs x anc f r) :
    ∃ st, loadMain fs fuel main = .ok st := by
  cases h : loadMain fs fuel main with
  | ok st => exact ⟨st, rfl⟩
  | error e =>
    exfalso
    cases e with
    | fuel => exact (C25_terminates fs files hfs fuel hfuel main).1 h
    | nostack => exact (C25_terminates fs files hfs fuel hfuel main).2 h
    | missing x =>
      obtain ⟨h1, hc⟩ := C25_missing_sound h
      have := hex x hc
      rw [h1] at this
      simp at this
    | unexisting ns r =>
      obtain ⟨anc, f, rule, hch, hs, hnd, hf, hrule, hr, hun⟩ := C25_unexisting_general h
      exact (hres ns anc f hch hs hnd hf rule hrule r hr).not_unres hf hun

/-- **Executable criterion.**  `docLoadable fs S main` (a Boolean computed from the files: `S`
contains the main file and is closed under import statements, all files of `S` exist, every
reference in them is `docResolvable`) implies that the grammars load when the graph is acyclic. -/
theorem C25_loads_check (fs : FS) (files : List Ns) (hfs : ∀ x, (fs x).isSome → x ∈ files)
    (fuel : Nat) (hfuel : files.length < fuel) (main : Seg) (hac : Acyclic fs)
    (S : List Ns) (hS : docLoadable fs S main = true) : ∃ st, loadMain fs fuel main = .ok st := by
  have key := docLoadable_spec hS
  apply C25_loads fs files hfs fuel hfuel main hac
  · intro x hx
    obtain ⟨f, hf, _⟩ := key x hx
    simp [hf]
  · intro x f hx hf
    obtain ⟨f', hf', hall⟩ := key x hx
    rw [hf] at hf'; cases hf'
    exact hall

/-- **Every connected file is loaded.**  After a successful load every file connected to the main
file by import statements exists, has exactly one class per rule (in rule order), one recorded
entry per rule, and each of its rules is found under its qualified name, `metamodel["x.n"]`,
by a class reporting that file and rule — whatever the import graph. -/
theorem C25_connected_loaded {fs : FS} {fuel : Nat} {main : Seg} {st : St}
    (h : loadMain fs fuel main = .ok st) (x : Ns) (hx : Connected fs main x) :
    ∃ f, fs x = some f ∧ clsNames st.classes x = f.rules.map (·.name) ∧
      resRules st.resolved x = f.rules ∧
      ∀ n, f.defines n = true →
        ∃ c, getItem st ⟨some x, n⟩ = some (.cls c) ∧ st.classes[c]? = some (x, n) := by
  obtain ⟨hinv, _, _⟩ := loadMain_inv h
  have hk := loadMain_connected_key h x hx
  rcases hinv.keys x hk with hE | ⟨f, d, hf, hd, hdict, hdom, _, hc⟩
  · simp at hE
  · obtain ⟨f', hf', hr⟩ := (loadMain_resInv h).done x hk (by simp)
    rw [hf] at hf'; cases hf'
    refine ⟨f, hf, hc, hr, ?_⟩
    intro n hdef
    have hdn : (d n).isSome = true := by rw [hdom n]; exact hdef
    obtain ⟨c, hc'⟩ := Option.isSome_iff_exists.1 hdn
    exact ⟨c, by simp [getItem, hd, hc'], hdict n c hc'⟩

/-- **Loads ⇒ resolvable (acyclic).**  Conversely, when an acyclic tree loads, every file connected
to the main file exists, every unqualified reference written in it has a documented resolution
and every qualified reference names a file that defines the rule. -/
theorem C25_loaded_resolvable {fs : FS} {fuel : Nat} {main : Seg} {st : St}
    (h : loadMain fs fuel main = .ok st) (hac : Acyclic fs) (x : Ns) (hx : Connected fs main x) :
    ∃ f, fs x = some f ∧ ∀ rule ∈ f.rules, ∀ r ∈ rule.refs,
      (docResolve fs x r).isSome = true ∧ (∀ q, r.qual = some q → fsDefines fs q r.name = true) := by
  obtain ⟨f, hf, _, hr, _⟩ := C25_connected_loaded h x hx
  refine ⟨f, hf, ?_⟩
  intro rule hrule r hrr
  have hmem : rule ∈ resRules st.resolved x := by rw [hr]; exact hrule
  simp only [resRules, List.mem_map, List.mem_filter, decide_eq_true_eq] at hmem
  obtain ⟨e, ⟨he, hens⟩, herule⟩ := hmem
  have h1 := C25_lookup h hac e he
  have h2 := C25_qualified h e he
  rw [herule] at h1 h2
  rw [hens] at h1
  obtain ⟨t, _, ht⟩ := h1.of_mem r hrr
  obtain ⟨t2, _, ht2⟩ := h2.of_mem r hrr
  have hqd : ∀ q, r.qual = some q → fsDefines fs q r.name = true := fun q hq => (ht2 q hq).2
  refine ⟨?_, hqd⟩
  cases hq : r.qual with
  | none =>
    obtain ⟨s, hs, _⟩ := ht hq
    rw [hs]; rfl
  | some q =>
    simp [docResolve, specResolve, hq, hqd q hq]

/-- **Loading, characterised on the files.**  For an acyclic tree whose qualified names name the
referring file or one of its direct imports (the documented use): the grammars load **iff** every
file connected to the main file exists and every rule reference in those files has a documented
resolution. -/
theorem C25_load_iff (fs : FS) (files : List Ns) (hfs : ∀ x, (fs x).isSome → x ∈ files)
    (fuel : Nat) (hfuel : files.length < fuel) (main : Seg) (hac : Acyclic fs)
    (hqual : ∀ x f, Connected fs main x → fs x = some f → ∀ rule ∈ f.rules, ∀ r ∈ rule.refs,
      ∀ q, r.qual = some q → q = x ∨ q ∈ absImports x f) :
    (∃ st, loadMain fs fuel main = .ok st) ↔
    (∀ x, Connected fs main x → ∃ f, fs x = some f ∧
      ∀ rule ∈ f.rules, ∀ r ∈ rule.refs, (docResolve fs x r).isSome = true) := by
  constructor
  · rintro ⟨st, h⟩ x hx
    obtain ⟨f, hf, hall⟩ := C25_loaded_resolvable h hac x hx
    exact ⟨f, hf, fun rule hrule r hr => (hall rule hrule r hr).1⟩
  · intro hall
    apply C25_loads fs files hfs fuel hfuel main hac
    · intro x hx
      obtain ⟨f, hf, _⟩ := hall x hx
      simp [hf]
    · intro x f hx hf rule hrule r hr
      obtain ⟨f', hf', hres⟩ := hall x hx
      rw [hf] at hf'; cases hf'
      have hs := hres rule hrule r hr
      unfold docResolvable
      cases hq : r.qual with
      | none => exact hs
      | some q =>
        have hdir := hqual x f hx hf rule hrule r hr q hq
        have hdef : fsDefines fs q r.name = true := by
          cases hd : fsDefines fs q r.name with
          | true => rfl
          | false => simp [docResolve, specResolve, hq, hd] at hs
        have hd1 : (decide (q = x) || (absImports x f).contains q) = true := by
          rcases hdir with e | hm
          · simp [e]
          · simp [hm]
        simp only [hd1, hdef, Bool.and_self]

/-- **Exactly the connected files are opened, each once.**  After a successful load the files
handed to the loader are precisely the main file and the files reachable from it through import
statements — whatever the import graph —, no file is opened twice, a namespace exists exactly
for those files, and every class ever created belongs to one of them. -/
theorem C25_opened_exact {fs : FS} {fuel : Nat} {main : Seg} {st : St}
    (h : loadMain fs fuel main = .ok st) :
    (∀ x, x ∈ st.opened ↔ Connected fs main x) ∧ st.opened.Nodup ∧
    (∀ x, (st.nss x).isSome = true ↔ Connected fs main x) ∧
    (∀ (c : Nat) (x : Ns) (n : Name), st.classes[c]? = some (x, n) → Connected fs main x) := by
  obtain ⟨hinv, _, _⟩ := loadMain_inv h
  obtain ⟨hko, hoc⟩ := loadMain_opened h
  have hck := loadMain_connected_key h
  refine ⟨fun x => ⟨hoc x, fun hx => hko x (hck x hx)⟩, hinv.openedNodup,
    fun x => ⟨fun hx => hoc x (hko x hx), hck x⟩, ?_⟩
  intro c x n hc
  have hmem : n ∈ clsNames st.classes x := mem_clsNames.2 (List.mem_of_getElem? hc)
  have hk : isKey st x := by
    apply Classical.byContradiction
    intro hk
    rw [hinv.nonkey x hk] at hmem
    simp at hmem
  exact hoc x (hko x hk)

/-! ### Non-vacuity of the error side -/

/-- the hypotheses of `C25_loads` / `C25_loads_check` / `C25_load_iff` are met by `exFS`
(`docLoadable` implies `hex`, `hres` and `hqual` via `docLoadable_spec`) … -/
example : docLoadable exFS [["m"], ["b"], ["sub", "c"], ["sub", "d"]] "m" = true := by decide +kernel

theorem exFS_files : ∀ x, (exFS x).isSome → x ∈ [["m"], ["b"], ["sub", "c"], ["sub", "d"]] := by
  intro x hx
  unfold exFS at hx
  split at hx
  · simp_all
  · split at hx
    · simp_all
    · split at hx
      · simp_all
      · split at hx
        · simp_all
        · simp at hx

/-- … so the criterion predicts that it loads (it does: see the evaluated examples above) -/
example : ∃ st, loadMain exFS 5 "m" = .ok st :=
  C25_loads_check exFS _ exFS_files 5 (by decide) "m" exFS_acyclic _
    (by decide +kernel : docLoadable exFS [["m"], ["b"], ["sub", "c"], ["sub", "d"]] "m" = true)

/-- `m` imports `b`; `Main` refers to `X` (in `b`) and to `Y`, which nobody defines; `gone` is
imported by nobody.  No import cycle. -/
def errFS : FS := fun ns =>
  if ns = ["m"] then some ⟨[["b"]], [⟨"Main", [⟨none, "X"⟩, ⟨none, "Y"⟩]⟩]⟩
  else if ns = ["b"] then some ⟨[], [⟨"X", []⟩]⟩
  else none

theorem noImports_acyclic {fs : FS} (h : ∀ a f, fs a = some f → ∀ b ∈ absImports a f, ∀ g, fs b = some g → g.imports = []) :
    Acyclic fs := by
  intro a hr
  have key : ∀ a b, Reach fs a b → ∀ f, fs a = some f → ∀ g, fs b = some g → g.imports = [] := by
    intro a b hr
    induction hr with
    | single e =>
      obtain ⟨f, hf, hb⟩ := e
      intro f' hf' g hg
      rw [hf] at hf'; cases hf'
      exact h _ f hf _ hb g hg
    | step e hr ih =>
      obtain ⟨f, hf, hb⟩ := e
      intro f' hf' g hg
      cases hr with
      | single e2 =>
        obtain ⟨f2, hf2, _⟩ := e2
        exact ih f2 hf2 g hg
      | step e2 _ =>
        obtain ⟨f2, hf2, _⟩ := e2
        exact ih f2 hf2 g hg
  cases hr with
  | single e =>
    obtain ⟨f, hf, hb⟩ := e
    have := h a f hf a hb f hf
    simp [absImports, this] at hb
  | step e hr' =>
    obtain ⟨f, hf, hb⟩ := e
    have := key a a (.step ⟨f, hf, hb⟩ hr') f hf f hf
    simp [absImports, this] at hb

theorem errFS_acyclic : Acyclic errFS := by
  apply noImports_acyclic
  intro a f hf b hb g hg
  unfold errFS at hf
  split at hf
  · rename_i ha
    subst ha
    cases hf
    simp [absImports, absImport] at hb
    subst hb
    simp [errFS] at hg
    subst hg; rfl
  · split at hf
    · cases hf; simp [absImports] at hb
    · cases hf

/-- the error of a run (states contain functions, so runs are compared through this projection) -/
def errOf : Except Err St → Option Err
  | .error e => some e
  | .ok _ => none

theorem errOf_eq_some {r : Except Err St} {e : Err} (h : errOf r = some e) : r = .error e := by
  cases r with
  | error e' => simp [errOf] at h; rw [h]
  | ok _ => simp [errOf] at h

/-- the hypotheses of `C25_unexisting_sound_partial` / `C25_unexisting_general` are met … -/
example : loadMain errFS 3 "m" = .error (.unexisting ["m"] ⟨none, "Y"⟩) :=
  errOf_eq_some (by decide +kernel)

/-- … and indeed `Y` has no documented resolution in `m`, while `X` has -/
example : docResolve errFS ["m"] ⟨none, "Y"⟩ = none ∧
    docResolve errFS ["m"] ⟨none, "X"⟩ = some (.rule ["b"] "X") := by decide +kernel

/-- the hypothesis of `C25_missing_sound` is met: `m` imports `lib.gone`, which does not exist -/
example : loadMain (fun ns => if ns = ["m"] then some ⟨[["lib", "gone"]], []⟩ else none) 3 "m" =
    .error (.missing ["lib", "gone"]) := errOf_eq_some (by decide +kernel)

/-- `m` refers to `c.X` without importing `c`; `c` exists and defines `X` -/
def qualFS : FS := fun ns =>
  if ns = ["m"] then some ⟨[], [⟨"Main", [⟨some ["c"], "X"⟩]⟩]⟩
  else if ns = ["c"] then some ⟨[], [⟨"X", []⟩]⟩
  else none

theorem qualFS_acyclic : Acyclic qualFS := by
  apply noImports_acyclic
  intro a f hf b hb g hg
  unfold qualFS at hf
  split at hf
  · cases hf; simp [absImports] at hb
  · split at hf
    · cases hf; simp [absImports] at hb
    · cases hf

/-- The full statement is false: `docResolve` of the qualified name `c.X` is `c`'s rule, yet the
load stops with "unexisting rule" because `c` was never loaded (`m` does not import it). -/
theorem C25_unexisting_sound_full_false : ¬ C25_unexisting_sound_full := by
  intro hall
  have h1 : loadMain qualFS 3 "m" = .error (.unexisting ["m"] ⟨some ["c"], "X"⟩) :=
    errOf_eq_some (by decide +kernel)
  have h2 := hall qualFS 3 "m" ["m"] ⟨some ["c"], "X"⟩ h1 qualFS_acyclic
  have h3 : docResolve qualFS ["m"] ⟨some ["c"], "X"⟩ = some (.rule ["c"] "X") := by decide +kernel
  rw [h3] at h2
  cases h2

/-- `C25_loads_general` is not vacuous on a cyclic tree: `m ↔ b` import each other and refer only to
their own rules; every reference is `ResolvableNow` on every path, and the tree loads. -/
example : (loadMain (fun ns => if ns = ["m"] then some ⟨[["b"]], [⟨"Main", [⟨none, "Main"⟩]⟩]⟩
    else if ns = ["b"] then some ⟨[["m"]], [⟨"B", [⟨none, "B"⟩, ⟨some ["b"], "B"⟩]⟩]⟩ else none) 3 "m").toOption.isSome = true := by
  decide +kernel

/-- `C25_opened_exact` on `exFS`: the four connected files are opened, each once (evaluated above:
`opened = [m, b, sub.c, sub.d]`), and a file nobody imports is not: -/
example : (loadMain (fun ns => if ns = ["m"] then some ⟨[], [⟨"Main", []⟩]⟩
    else if ns = ["other"] then some ⟨[], [⟨"X", []⟩]⟩ else none) 3 "m").toOption.map (·.opened) = some [["m"]] := by
  decide +kernel

/-! ## histories (round V25) -/

/-- **Histories.**  A process builds several meta-models one after the other while the grammar files are
rewritten, removed, added or replaced by another tree at the same paths in between (another main file,
earlier loads that failed, … included).  The outcome of step `i` is what `loadMain` makes of the files of
step `i` alone: nothing of an earlier step takes part, for every history and every step. -/
theorem C25_history (fuel : Nat) (hist : List Step) (i : Nat) (s : Step) (h : hist[i]? = some s) :
    (loadHistory fuel hist)[i]? = some (loadMain s.fs fuel s.main) := by
  induction hist generalizing i with
  | nil => simp at h
  | cons a rest ih =>
    cases i with
    | zero =>
      simp at h
      subst h
      simp [loadHistory]
    | succ k =>
      simp at h
      simpa [loadHistory] using ih k h

/-- Hence every theorem of this file holds for every step of every history with the files of *that* step;
spelled out for `metamodel[name]` (`C25_getitem`) and for the class log (`C25_fqn`, first half): after step `i`
an unqualified name is the documented resolution in the files of step `i`, a qualified name that is found is
the named file's rule in the files of step `i`, and a class reports `(x, n)` only if file `x` of step `i`
defines rule `n`. -/
theorem C25_history_step {fuel : Nat} {hist : List Step} {i : Nat} {s : Step} {st : St}
    (h : hist[i]? = some s) (hl : (loadHistory fuel hist)[i]? = some (.ok st)) :
    loadMain s.fs fuel s.main = .ok st ∧
    (∀ n, OptRel (Denotes st.classes) (getItem st ⟨none, n⟩) (docResolve s.fs [s.main] ⟨none, n⟩)) ∧
    (∀ q n t, getItem st ⟨some q, n⟩ = some t →
        Denotes st.classes t (.rule q n) ∧ fsDefines s.fs q n = true) := by
  have h1 := C25_history fuel hist i s h
  rw [hl] at h1
  have h2 : loadMain s.fs fuel s.main = .ok st := (Option.some.inj h1).symm
  have h3 := C25_getitem h2
  exact ⟨h2, h3.1, h3.2.1⟩

/-- step 1: `m` imports `b`, `c`; `b` and `c` define `C0`.  step 2: the same paths, `b` rewritten without `C0`. -/
def histFS1 : FS := fun ns =>
  if ns = ["m"] then some ⟨[["b"], ["c"]], [⟨"Main", [⟨none, "C0"⟩]⟩]⟩
  else if ns = ["b"] then some ⟨[], [⟨"C0", []⟩]⟩
  else if ns = ["c"] then some ⟨[], [⟨"C0", []⟩]⟩
  else none

def histFS2 : FS := fun ns =>
  if ns = ["m"] then some ⟨[["b"], ["c"]], [⟨"Main", [⟨none, "C0"⟩]⟩]⟩
  else if ns = ["b"] then some ⟨[], [⟨"C1", []⟩]⟩
  else if ns = ["c"] then some ⟨[], [⟨"C0", []⟩]⟩
  else none

/-- non-vacuity: both steps load, `C0` of the main file is `b.C0` (class 0) first and `c.C0` (class 1) after the
rewrite of `b` -/
example : (loadHistory 4 [⟨histFS1, "m"⟩, ⟨histFS2, "m"⟩]).map
    (fun r => r.toOption.map fun st => st.classes) =
    [some [(["b"], "C0"), (["c"], "C0"), (["m"], "Main")], some [(["b"], "C1"), (["c"], "C0"), (["m"], "Main")]] := by
  decide +kernel

example : (loadHistory 4 [⟨histFS1, "m"⟩, ⟨histFS2, "m"⟩]).map
    (fun r => r.toOption.map fun st => st.resolved.map fun e => (e.ns, e.rule.name, e.targets)) =
    [some [(["b"], "C0", []), (["c"], "C0", []), (["m"], "Main", [.cls 0])],
     some [(["b"], "C1", []), (["c"], "C0", []), (["m"], "Main", [.cls 1])]] := by
  decide +kernel

end Imp
