import TextxVerif.Imp
namespace Imp
theorem C25_lookup : True := trivial
theorem C25_lookup_general : True := trivial
theorem C25_qualified : True := trivial
theorem C25_getitem : True := trivial
theorem C25_once : True := trivial
theorem C25_fqn : True := trivial
theorem C25_terminates : True := trivial
end Imp
