import TextxVerif.Proofs.LoadTreeFrame
import TextxVerif.Proofs.LoadTreeSpec
import TextxVerif.Proofs.LoadTreeProcs
/-!
# C14 — user classes are constructed once with exactly the grammar attributes

Model: `TextxVerif/LoadTree.lean` (the repaired `get_model_from_str`,
`parse_tree_to_objgraph`, `_end_model_construction`, `_replace/_restore_user_attr_methods`,
`_abort_model_construction`, `_discard_user_obj_attrs` of `textx/model.py`).

A load attempt is a tree of model files (`Load`), each with its object tree, its
calls of user code (`Hook`: match-rule processors, pre-resolution callback, scope
providers, user class constructors, object processors, model processors), each of
which may raise and may itself start loads (`table`, to any depth `n`) whose failure
it swallows or not.  `runF table n L sh` runs the attempt `L` in the state `sh`.
All theorems quantify over every such tree, every placement of faults and every
nesting; no bound on sizes or depths.
-/
namespace LoadTree

variable {α : Type}

theorem tableEnv_own (run : Load → Sh α → Sh α × Bool) (table : List Load) : OwnEnv (tableEnv run table) := by
  intro a sh
  unfold tableEnv
  split <;> rfl

/-- **Restored (general form).** Whatever the load tree, the faults and the nesting:
after the attempt — successful or not — every class has the counter, the
attribute-access methods and the cached originals it had before, and the per-object
storage holds the keys it held before.  (`Good sh`: every class is either untouched
or instrumented `k` times with its originals cached — the states reachable at all.) -/
theorem C14_restored (table : List Load) (n : Nat) (L : Load) (sh : Sh α) (hg : Good sh) :
    (runF table n L sh).1.core = sh.core ∧ (runF table n L sh).1.attrs = sh.attrs :=
  ⟨(runF_frame table n L sh hg).1, (runF_frame table n L sh hg).2.1⟩

/-- the same for user code that is not a load of the table but anything that leaves
the classes as it found them -/
theorem C14_restored_env (env : Env α) (henv : FrameEnv env) (L : Load) (sh : Sh α) (hg : Good sh) :
    (runMain env L sh).1.core = sh.core ∧ (runMain env L sh).1.attrs = sh.attrs :=
  ⟨(runMain_frame henv L sh hg).1, (runMain_frame henv L sh hg).2.1⟩

/-- **Restored.** Loading starts with untouched classes (`orig c` = the class's own
methods, possibly none): after loading has finished, successfully or not, the
counter attribute is absent, the methods are the originals, nothing is cached and no
per-object storage remains. -/
theorem C14_restored_clean (table : List Load) (n : Nat) (L : Load) (orig : ClassId → α)
    (next : Nat) (log own : List Ev) :
    let sh : Sh α := ⟨fun c => ⟨0, .real (orig c), none⟩, [], next, log, own⟩
    ∀ c, ((runF table n L sh).1.core c).cnt = 0 ∧ ((runF table n L sh).1.core c).cur = .real (orig c) ∧
      ((runF table n L sh).1.core c).saved = none ∧ (runF table n L sh).1.attrs = [] := by
  intro sh c
  have hg : Good sh := ⟨fun c => ⟨orig c, 0, rfl⟩, List.nodup_nil, fun p hp => by simp [sh] at hp⟩
  obtain ⟨h1, h2⟩ := C14_restored table n L sh hg
  rw [h1, h2]
  exact ⟨rfl, rfl, rfl, rfl⟩

/-- **Calls of user code.** The calls made by one attempt (its own, not those of loads
nested in user code) are, in order, a prefix of `mainTrace L`; all of `mainTrace L`
when the attempt succeeds. -/
theorem C14_calls (table : List Load) (n : Nat) (L : Load) (sh : Sh α) :
    ∃ l, l <+: mainTrace L ∧ (runF table (n + 1) L sh).1.own.map Ev.key = sh.own.map Ev.key ++ l ∧
      ((runF table (n + 1) L sh).2 = true → l = mainTrace L) := by
  have := node_main_trace (tableEnv_own (runF table n) table) L sh
  obtain ⟨l, h1, h2, h3⟩ := this
  refine ⟨l, h1, h2, fun hok => h3 ?_⟩
  simp only [runF, runMain] at hok
  cases hr : (node (tableEnv (runF table n) table) true L [] sh).2 with
  | ok _ => rfl
  | error _ => rw [hr] at hok; simp at hok

/-- **Initialised exactly once.** In a successful attempt the constructor calls are
exactly: for every file of the tree (registration order), for every object of a user
class in it (children before their container) one call — `initTr (mainSums L)` lists
each such object once. -/
theorem C14_init_once (table : List Load) (n : Nat) (L : Load) (sh : Sh α) (hown : sh.own = [])
    (hok : (runF table (n + 1) L sh).2 = true) :
    ((runF table (n + 1) L sh).1.own.map Ev.key).filter (fun k => k.1 == 3) = initTr (mainSums L) := by
  obtain ⟨l, _, h2, h3⟩ := C14_calls table n L sh
  rw [h2, hown, h3 hok]
  simpa using mainTrace_inits L

/-- ... and in a failing attempt they are a prefix of that list: no object is
initialised twice, none out of turn. -/
theorem C14_init_at_most_once (table : List Load) (n : Nat) (L : Load) (sh : Sh α) (hown : sh.own = []) :
    ((runF table (n + 1) L sh).1.own.map Ev.key).filter (fun k => k.1 == 3) <+: initTr (mainSums L) := by
  obtain ⟨l, h1, h2, _⟩ := C14_calls table n L sh
  rw [h2, hown]
  simpa [mainTrace_inits L] using List.IsPrefix.filter (fun k : Key => k.1 == 3) h1

/-- **References resolved, processors later.** In every attempt (successful or not):
no constructor is called before a scope provider call or a parse-time call of the
attempt, and no constructor is called after an object processor (`Before`, pairwise
over the attempt's calls).  So `__init__` sees the result of the whole reference
resolution and runs before any object processor. -/
theorem C14_init_order (table : List Load) (n : Nat) (L : Load) (sh : Sh α) (hown : sh.own = []) :
    ((runF table (n + 1) L sh).1.own.map Ev.key).Pairwise Before := by
  obtain ⟨l, h1, h2, _⟩ := C14_calls table n L sh
  rw [h2, hown]
  simpa using (mainTrace_order L).sublist h1.sublist

/-- **References resolved, or no constructor at all.**  If the reference resolution of any file of the
attempt (the main file or a file imported directly or indirectly) fails (`Load.unres`: a scope-provider
call raises — unknown name, exception of the provider — or a reference stays postponed for good), the
attempt fails and *no* constructor and *no* object processor of any file is called — whatever else
happens (other faults, nested loads): `__init__` only ever runs when every reference of every file of
the load is resolved.  (`L.immut = false`: a main model of an immutable type has no references.) -/
theorem C14_no_init_when_unresolved (table : List Load) (n : Nat) (L : Load) (sh : Sh α) (hown : sh.own = [])
    (hconv : L.immut = false) (hun : true ∈ L.unres) :
    (runF table (n + 1) L sh).2 = false ∧
      ∀ e, e ∈ (runF table (n + 1) L sh).1.own → e.kind ≠ 3 ∧ e.kind ≠ 4 := by
  have henv := tableEnv_own (α := α) (runF table n) table
  have h0 : ∀ K, OwnP (QK K (fun _ => False)) sh := by intro K e he; simp [hown] at he
  have h3 := node_main_unres (K := 3) (R := fun _ => False) henv (by decide) (by decide) (by decide) (by decide)
    L sh hconv hun (h0 3)
  have h4 := node_main_unres (K := 4) (R := fun _ => False) henv (by decide) (by decide) (by decide) (by decide)
    L sh hconv hun (h0 4)
  refine ⟨?_, fun e he => ⟨fun hk => h3.1 e he hk, fun hk => h4.1 e he hk⟩⟩
  simp only [runF, runMain]
  have := h3.2
  cases hr : (node (tableEnv (runF table n) table) true L [] sh).2 with
  | ok _ => rw [hr] at this; simp [isOk] at this
  | error _ => rfl

/-- **Object processors see the classes as they were before loading (general form).** Whatever the
load tree, the faults and the nesting, and whether the attempt succeeds or fails: every object
processor call of the attempt (event kind 4) carries the instrumentation snapshot of the state `sh`
in which the attempt *started* — by then every parser of the attempt has given back its
instrumentation and every collected attribute dict has been handed to its constructor.  (For a load
nested in user code of another load `sh` is the state inside that load: the outer load's holdings
are all the processors of the nested load see.) -/
theorem C14_procs_see_start (table : List Load) (n : Nat) (L : Load) (sh : Sh α) (hg : Good sh)
    (hown : sh.own = []) :
    ∀ e, e ∈ (runF table n L sh).1.own → e.kind = 4 → ∃ cs, e.snap = snapOf cs sh := by
  cases n with
  | zero => intro e he; simp [runF, hown] at he
  | succ n =>
    have h0 : OwnP (QK 4 (SnapAt sh)) sh := by intro e he; simp [hown] at he
    have := runMain_procs (runF_env_frame table n) (tableEnv_own (runF table n) table) L sh hg h0
    intro e he h4
    exact this e he h4

/-- **Object processors see un-instrumented classes with empty storage.** Loading starts with
untouched classes: every object processor call of the attempt — in a successful attempt and in one
that fails later (another object processor, a model processor) — finds, for every user class of its
metamodel, no counter attribute, the class's own attribute-access methods, no cached originals and
an empty per-object storage. -/
theorem C14_procs_see_clean (table : List Load) (n : Nat) (L : Load) (orig : ClassId → α)
    (next : Nat) (log : List Ev) :
    let sh : Sh α := ⟨fun c => ⟨0, .real (orig c), none⟩, [], next, log, []⟩
    ∀ e, e ∈ (runF table n L sh).1.own → e.kind = 4 → ∀ s, s ∈ e.snap → s = (0, false, false, 0) := by
  intro sh e he h4 s hs
  have hg : Good sh := ⟨fun c => ⟨orig c, 0, rfl⟩, List.nodup_nil, fun p hp => by simp [sh] at hp⟩
  obtain ⟨cs, hsnap⟩ := C14_procs_see_start table n L sh hg rfl e he h4
  rw [hsnap] at hs
  simp only [snapOf, List.mem_map] at hs
  obtain ⟨c, _, hc⟩ := hs
  rw [← hc]
  simp [sh, isInstr, countKeys]

/-- The same is *not* true of the constructors: in a multi-file load the constructors of all models
but the last run while the parsers of the later models still hold their instrumentation (the
interpretation note in `notes/C14.md`); the statement above is about kind 4 for a reason. -/
theorem C14_init_sees_clean_false :
    ∃ (L : Load) (sh : Sh Nat), sh.own = [] ∧ (∀ c, sh.core c = ⟨0, .real c, none⟩) ∧ sh.attrs = [] ∧
      (runF [] 1 L sh).2 = true ∧
      ∃ e, e ∈ (runF [] 1 L sh).1.own ∧ e.kind = 3 ∧ e.snap = [(1, true, true, 2)] :=
  ⟨.mk 1 [0] true (.obj (some 0) ⟨10, [], false⟩ []) none
      [.mk 2 [0] true (.obj (some 0) ⟨20, [], false⟩ [.obj (some 0) ⟨21, [], false⟩ []]) none [] [] false [] ⟨20, [], false⟩]
      [] false [⟨10, [], false⟩] ⟨10, [], false⟩,
    ⟨fun c => ⟨0, .real c, none⟩, [], 0, [], []⟩, rfl, fun _ => rfl, rfl, by decide,
    ⟨3, 1, 10, [(1, true, true, 2)]⟩, by decide, rfl, rfl⟩

/-- **Exactly the grammar attributes.** What `_end_model_construction` passes to
`__init__`: the rule's attributes in grammar order, and `parent` iff the object is
contained — whatever else was stored on the object while loading. -/
theorem C14_kwargs (txAttrs assigned extras : List String) (contained : Bool) (hn : txAttrs.Nodup)
    (hp : "parent" ∉ txAttrs) (hpos : "_tx_position" ∉ txAttrs) (hend : "_tx_position_end" ∉ txAttrs)
    (ha : ∀ k, k ∈ assigned → k ∈ txAttrs) (he : ∀ k, k ∈ extras → k ∉ txAttrs ∧ k ≠ "parent") :
    Kw.kwargs txAttrs contained (Kw.collected txAttrs assigned contained extras) =
      txAttrs ++ (if contained then ["parent"] else []) :=
  Kw.kwargs_exact txAttrs assigned extras contained hn hp hpos hend ha he

/-- **Exactly the grammar attributes, whatever user code did to the object meanwhile.**
While a model is built, user code (pre-resolution callback, scope providers, model processors of
imported files, constructors of other objects) may store any attribute on an object whose
constructor is still postponed (any name: unknown to the grammar, an attribute of another rule, a
`_tx_` name, a grammar attribute of the object again, even `parent` on the root object) and delete
again (anything but what the constructor is owed: grammar attributes, `parent` of a contained
object), in any order and any number of times: `__init__` still receives the rule's attributes in grammar order, and `parent` iff
the object is contained. -/
theorem C14_kwargs_ops (txAttrs assigned extras : List String) (contained : Bool) (ops : List Kw.Op)
    (hn : txAttrs.Nodup) (hp : "parent" ∉ txAttrs) (hpos : "_tx_position" ∉ txAttrs)
    (hend : "_tx_position_end" ∉ txAttrs) (ha : ∀ k, k ∈ assigned → k ∈ txAttrs)
    (he : ∀ k, k ∈ extras → k ∉ txAttrs ∧ k ≠ "parent")
    (ho : ∀ o, o ∈ ops → o.harmless txAttrs contained) :
    Kw.kwargs txAttrs contained (Kw.collectedOps txAttrs assigned contained extras ops) =
      txAttrs ++ (if contained then ["parent"] else []) :=
  Kw.kwargs_ops txAttrs contained ops _ (C14_kwargs txAttrs assigned extras contained hn hp hpos hend ha he) ho

/-- **Which keys `__init__` receives, without any assumption on user code.**  Whatever user code
stores on or deletes from an object whose constructor is still postponed — grammar attributes and the
`parent` of a contained object included — and whatever the grammar's attribute names are: the
constructor receives no key twice, and a key `k` iff `k` is an attribute of the rule (or `parent`, for a
contained object) that user code has not taken away itself (`Kw.Op.alive k true ops`: the last store /
deletion of `k`, if any, is a store).  In particular never a name unknown to the rule, never `parent`
on a root object.  (`C14_kwargs_ops` adds the *order* — grammar order, `parent` last — under
`Op.harmless`; a grammar attribute that is deleted and stored again moves to the end, see the example.) -/
theorem C14_kwargs_ops_general (txAttrs assigned extras : List String) (contained : Bool) (ops : List Kw.Op) :
    (Kw.kwargs txAttrs contained (Kw.collectedOps txAttrs assigned contained extras ops)).Nodup ∧
    ∀ k, k ∈ Kw.kwargs txAttrs contained (Kw.collectedOps txAttrs assigned contained extras ops) ↔
      (k ∈ txAttrs ∨ (k = "parent" ∧ contained = true)) ∧ Kw.Op.alive k true ops = true :=
  Kw.kwargs_ops_general txAttrs assigned extras contained ops

/-- user code that is `harmless` takes nothing away: every key the constructor is owed stays alive
(so the general form specialises to the key set of `C14_kwargs_ops`) -/
theorem C14_kwargs_harmless_alive (txAttrs : List String) (contained : Bool) (ops : List Kw.Op) (k : String)
    (hk : k ∈ txAttrs ∨ (k = "parent" ∧ contained = true))
    (ho : ∀ o, o ∈ ops → o.harmless txAttrs contained) : Kw.Op.alive k true ops = true :=
  Kw.alive_of_harmless txAttrs contained ops k true hk rfl ho

/-- user code deletes the grammar attribute `val` (not `harmless`): the constructor does not get it;
deletes it and stores it again: it gets it, after `parent` -/
example : Kw.kwargs ["name", "val"] true (Kw.collectedOps ["name", "val"] ["name"] true [] [.del "val", .set "note"]) =
    ["name", "parent"] := by decide
example : Kw.kwargs ["name", "val"] true (Kw.collectedOps ["name", "val"] ["name"] true [] [.del "val", .set "val"]) =
    ["name", "parent", "val"] := by decide
example : Kw.Op.alive "val" true [.del "val", .set "note"] = false ∧ Kw.Op.alive "val" true [.del "val", .set "val"] = true ∧
    Kw.Op.alive "parent" true [.set "parent", .del "parent"] = false := by decide

/-- The filter of the pinned code (`k == "parent"` without asking whether the object is contained)
passed a `parent` that user code had stored on the root object on to its constructor; the repaired
filter does not. -/
theorem C14_kwargs_pinned_false :
    Kw.kwargsPinned ["name"] (Kw.collectedOps ["name"] ["name"] false [] [.set "parent"]) ≠ ["name"] ∧
      Kw.kwargs ["name"] false (Kw.collectedOps ["name"] ["name"] false [] [.set "parent"]) = ["name"] := by decide

/-- non-vacuity: a contained `Item` (attributes `name`, `val`) on which a scope provider stored
`use_count`, a callback overwrote `val`, stored and deleted `tmp` and stored `target` (an attribute
of another rule) -/
example : Kw.kwargs ["name", "val"] true (Kw.collectedOps ["name", "val"] ["name"] true ["_tx_filename"]
    [.set "use_count", .set "val", .set "tmp", .del "tmp", .set "target", .del "missing"]) =
    ["name", "val", "parent"] := by decide
example : Kw.collectedOps ["name", "val"] ["name"] true ["_tx_filename"]
    [.set "use_count", .set "val", .set "tmp", .del "tmp", .set "target"] =
    ["name", "val", "_tx_position", "_tx_position_end", "parent", "_tx_filename", "use_count", "target"] := by decide

/-- The bookkeeping of the pinned code was not balanced: a parser that gives back a
count it never took (failing nested load), or never gives back the one it took
(imported model of a failing load), leaves a class in another state. -/
theorem C14_unbalanced_false :
    decC (incC (incC (canon (0 : Nat) 0))) ≠ canon 0 0 ∧ incC (decC (incC (canon (0 : Nat) 0))) ≠ canon 0 0 ∧
      decC (decC (incC (incC (canon (0 : Nat) 0)))) = canon 0 0 := by decide

/-! non-vacuity: a main file with a user object and a match-rule value, importing a
file with two nested user objects whose scope provider call raises; the main file's
pre-resolution callback starts a nested load of the same tree and swallows its failure -/
section
private def h0 (lab : Nat) : Hook := ⟨lab, [], false⟩
private def clean : Sh Nat := ⟨fun c => ⟨0, .real c, none⟩, [], 0, [], []⟩
private def childBad : Load :=
  .mk 2 [0] true (.obj (some 0) (h0 20) [.obj (some 0) (h0 21) []]) none [] [⟨22, [], true⟩] false [h0 21, h0 20] (h0 20)
private def childOk : Load :=
  .mk 2 [0] true (.obj (some 0) (h0 20) [.obj (some 0) (h0 21) []]) none [] [h0 22] false [h0 21, h0 20] (h0 20)
private def mainBad : Load :=
  .mk 1 [0] true (.obj (some 0) (h0 10) [.conv (h0 11)]) (some ⟨12, [(1, true)], false⟩) [childBad] [] false [h0 10] (h0 10)
private def mainOk : Load :=
  .mk 1 [0] true (.obj (some 0) (h0 10) [.conv (h0 11)]) (some ⟨12, [(1, true)], false⟩) [childOk] [] false [h0 10] (h0 10)

example : (runF [mainBad, childBad] 3 mainBad clean).2 = false := by decide
example : (runF [mainOk, childBad] 3 mainOk clean).2 = true := by decide
/-- the nested failing load ran while the outer one held its count: counter 2, three keys -/
example : (runF [mainOk, childBad] 3 mainOk clean).1.log.map (·.snap) |>.contains [(2, true, true, 3)] := by decide
example : (runF [mainOk, childBad] 3 mainOk clean).1.own.map Ev.key = mainTrace mainOk := by decide
example : initTr (mainSums mainOk) = [(3, 1, 10), (3, 2, 21), (3, 2, 20)] := by decide
/-- the object processors of that attempt (three calls, one of them in the imported file) and what
they saw; the constructors before them saw counter 1 (the imported file's parser) resp. 0 -/
example : (runF [mainOk, childBad] 3 mainOk clean).1.own.filter (·.kind == 4) =
    [⟨4, 1, 10, [(0, false, false, 0)]⟩, ⟨4, 2, 21, [(0, false, false, 0)]⟩, ⟨4, 2, 20, [(0, false, false, 0)]⟩] := by decide
example : (runF [mainOk, childBad] 3 mainOk clean).1.own.filter (·.kind == 3) =
    [⟨3, 1, 10, [(1, true, true, 2)]⟩, ⟨3, 2, 21, [(0, false, false, 1)]⟩, ⟨3, 2, 20, [(0, false, false, 0)]⟩] := by decide
/-- `C14_no_init_when_unresolved`: the imported file holds an unresolvable reference; the hypotheses hold
and (contrast) without it the same tree runs three constructors -/
private def childUnres : Load :=
  .mk 2 [0] true (.obj (some 0) (h0 20) [.obj (some 0) (h0 21) []]) none [] [h0 22] true [h0 21, h0 20] (h0 20)
private def mainUnres : Load :=
  .mk 1 [0] true (.obj (some 0) (h0 10) [.conv (h0 11)]) none [childUnres] [] false [h0 10] (h0 10)
example : mainUnres.immut = false ∧ true ∈ mainUnres.unres := by decide
/-- … or its scope provider raises (`childBad`) -/
example : mainBad.immut = false ∧ true ∈ mainBad.unres := by decide
example : (runF [] 1 mainUnres clean).1.own.map Ev.key = [(0, 1, 11), (5, 2, 20), (2, 2, 22)] := by decide
/-- `Good` and `own = []` of `C14_procs_see_start` hold for the clean state -/
example : Good clean ∧ clean.own = [] :=
  ⟨⟨fun c => ⟨c, 0, rfl⟩, List.nodup_nil, fun p hp => by simp [clean] at hp⟩, rfl⟩
end

end LoadTree
