import TextxVerif.Proofs.RepoLookup
/-!
# C17 — multi-file models load each file once and share element identity

Model: `Repo.loadMain` (TextxVerif/Repo.lean) — one `metamodel.model_from_file`
call with everything it triggers: `GlobalModelRepository.load_model`, the
pre-reference-resolution callback that stores a model *before* its imports are
followed, `ImportURI` lookup, the metamodel's global repository.

The theorems hold for **every** `Spec` (any import graph given as the sequence
of `load_model` calls each file issues — cycles, diamonds, self-imports, glob
expansions, repeated statements —, any definitions, references and faults) and
every well-formed state between loads (`WF`: what any history of loads leaves
behind, see `C17_identity` / `C18_clean` for preservation).  Only property
theorems and non-vacuity examples live here; lemmas are in `Proofs/Repo*.lean`.
-/
namespace Repo

/-- **Termination, even with import cycles.**  Nested loads never go deeper than
the number of files that are not cached yet: for a universe `U` of files closed
under imports, fuel `|U|` is never exhausted. -/
theorem C17_terminates (S : Spec) (U : List File) (hU : ∀ h ∈ U, ∀ x, some x ∈ S.calls h → x ∈ U)
    (fuel : Nat) (st0 : St) (f : File) (hfU : f ∈ U) (hwf : WF st0) (hn : U.length ≤ fuel) :
    (loadMain S fuel st0 f).2.1 ≠ .fuel :=
  loadMain_fuel S U hU fuel st0 f hfU (hwf.base S) (Nat.le_trans (unl_le_length U _) hn)

/-- **At most once.**  Whatever the outcome of a load, the files it opens are
pairwise different, none of them is cached in the (global) repository, and each
is reachable from the main file through non-cached files. -/
theorem C17_once (S : Spec) (fuel : Nat) (st0 : St) (f : File) (hwf : WF st0) :
    ∃ new, (loadMain S fuel st0 f).1.reads = new ++ st0.reads ∧ new.Nodup ∧
      (∀ y ∈ new, y ∉ (base S st0).all.keys) ∧ (∀ y ∈ new, Reach S (base S st0).all.keys f y) := by
  obtain ⟨new, h1, h2, h3, h4, _⟩ := loadMain_reads S fuel st0 f (hwf.base S)
    (show loadMain S fuel st0 f = ((loadMain S fuel st0 f).1, (loadMain S fuel st0 f).2.1, (loadMain S fuel st0 f).2.2) from rfl)
  exact ⟨new, h1, h2, h3, h4⟩

/-- **Exactly once.**  A successful load opens precisely the files of the import
closure of the main file that are not cached (closure through non-cached
files), each one once. -/
theorem C17_closure (S : Spec) (fuel : Nat) (st0 : St) (f : File) (st' : St) (j : Inst) (hwf : WF st0)
    (h : loadMain S fuel st0 f = (st', .ok, j)) :
    ∃ new, st'.reads = new ++ st0.reads ∧ new.Nodup ∧ ∀ y, y ∈ new ↔ Reach S (base S st0).all.keys f y := by
  obtain ⟨new, h1, h2, _, h4, h5⟩ := loadMain_reads S fuel st0 f (hwf.base S) h
  exact ⟨new, h1, h2, fun y => ⟨h4 y, h5 rfl y⟩⟩

/-- **Identity.**  After a successful load the state is well formed again and
* every entry of every `local_models` of every model of the result is the entry
  of the shared `all_models` for that file (so two models never see two
  instances of one file),
* `all_models` has one entry per file and each instance belongs to its file,
* every reference target is an element of the referring model itself or of the
  unique instance of a file the model imports. -/
theorem C17_identity (S : Spec) (fuel : Nat) (st0 : St) (f : File) (st' : St) (j : Inst) (hwf : WF st0)
    (h : loadMain S fuel st0 f = (st', .ok, j)) :
    WF st' ∧ st'.fileOf j = f ∧
      (∀ m ∈ included st' j, ∀ e ∈ st'.loc m, st'.all.get? e.1 = some e.2 ∧ st'.fileOf e.2 = e.1) ∧
      (∀ m m' g x x', m ∈ included st' j → m' ∈ included st' j → (g, x) ∈ st'.loc m → (g, x') ∈ st'.loc m' →
        x = x') ∧
      (∀ m, st0.next ≤ m → m ∈ included st' j → ∀ x n, Target.elem x n ∈ st'.tgt m →
        x = m ∨ (st'.fileOf x, x) ∈ st'.all) := by
  have hok := loadMain_ok S fuel st0 f (hwf.base S) h
  have hloc : ∀ m ∈ included st' j, ∀ e ∈ st'.loc m, e ∈ st'.all := by
    intro m hm e he
    have hm' := hm
    unfold included at hm'
    split at hm'
    · obtain ⟨e', he', hem⟩ := List.mem_map.1 hm'
      exact hok.wf.locIn e' he' e (by rw [hem]; exact he)
    · rcases List.mem_append.1 hm' with h' | h'
      · obtain ⟨e', he', hem⟩ := List.mem_map.1 h'
        exact hok.wf.locIn e' he' e (by rw [hem]; exact he)
      · have : m = j := by simpa using h'
        rw [this] at he
        exact hok.locJ e he
  refine ⟨hok.wf, hok.fileJ, ?_, ?_, ?_⟩
  · intro m hm e he
    have := hloc m hm e he
    exact ⟨Dict.get?_of_mem _ _ _ hok.wf.nodup this, hok.wf.file e this⟩
  · intro m m' g x x' hm hm' hx hx'
    have h1 := Dict.get?_of_mem _ _ _ hok.wf.nodup (hloc m hm _ hx)
    have h2 := Dict.get?_of_mem _ _ _ hok.wf.nodup (hloc m' hm' _ hx')
    rw [h1] at h2
    exact Option.some.inj h2
  · intro m hge hm x n ht
    rw [← base_next S st0] at hge
    have htm := hok.tgt m hge hm
    have : some (Target.elem x n) ∈ resolveAll S st' m := by
      rw [← htm]; exact List.mem_map_of_mem ht
    unfold resolveAll at this
    obtain ⟨n', _, hn'⟩ := List.mem_map.1 this
    obtain ⟨_, hx, _⟩ := lookup_elem S st' m n' x n hn'
    rcases hx with hx | ⟨e, he, hex⟩
    · exact Or.inl hx
    · have hin := hloc m hm e he
      have hf := hok.wf.file e hin
      right
      rw [← hex, hf]
      exact hin

/-- **Lookup order.**  Every reference of every model constructed in a
successful load is resolved (1) in the model itself, else (2) in the first file
— in the order of the model's own import calls — whose unique instance defines
the name, else (3) in the first builtin model defining it. -/
theorem C17_lookup_order (S : Spec) (fuel : Nat) (st0 : St) (f : File) (st' : St) (j : Inst) (hwf : WF st0)
    (h : loadMain S fuel st0 f = (st', .ok, j)) (m : Inst) (hge : st0.next ≤ m) (hm : m ∈ included st' j) :
    (st'.tgt m).map some = (S.refs (st'.fileOf m)).map (lookupSpec S st' m) := by
  have hok := loadMain_ok S fuel st0 f (hwf.base S) h
  have hge' : (base S st0).next ≤ m := by rw [base_next]; exact hge
  have hlt : m < st'.next := by
    have hm' := hm
    unfold included at hm'
    split at hm'
    · obtain ⟨e', he', hem⟩ := List.mem_map.1 hm'
      rw [← hem]; exact hok.wf.lt e' he'
    · rcases List.mem_append.1 hm' with h' | h'
      · obtain ⟨e', he', hem⟩ := List.mem_map.1 h'
        rw [← hem]; exact hok.wf.lt e' he'
      · have : m = j := by simpa using h'
        rw [this]; exact hok.ltJ
  have hloc : ∀ e ∈ st'.loc m, e ∈ st'.all := by
    intro e he
    have hm' := hm
    unfold included at hm'
    split at hm'
    · obtain ⟨e', he', hem⟩ := List.mem_map.1 hm'
      exact hok.wf.locIn e' he' e (by rw [hem]; exact he)
    · rcases List.mem_append.1 hm' with h' | h'
      · obtain ⟨e', he', hem⟩ := List.mem_map.1 h'
        exact hok.wf.locIn e' he' e (by rw [hem]; exact he)
      · have : m = j := by simpa using h'
        rw [this] at he
        exact hok.locJ e he
  have hd := loadMain_loc S fuel st0 f (hwf.base S) h m hge hlt
  rw [hok.tgt m hge' hm]
  unfold resolveAll
  apply List.map_congr_left
  intro n _
  exact lookup_eq_spec S st' m n hloc hok.wf.nodup hd

/-- **Cached reload.**  With a global repository, loading a file again after a
successful load returns the very same model, opens no file and changes
nothing (`S'` is the later state of the files: whatever they contain now). -/
theorem C17_cached_reload (S S' : Spec) (fuel fuel' : Nat) (st0 : St) (f : File) (st' : St) (j : Inst)
    (hwf : WF st0) (hg : S.glob = true) (hg' : S'.glob = true) (hm : S'.modFault f = false)
    (h : loadMain S fuel st0 f = (st', .ok, j)) :
    loadMain S' fuel' st' f = (st', .ok, j) := by
  have hok := loadMain_ok S fuel st0 f (hwf.base S) h
  have hin := hok.inAll hg
  have hhas : st'.all.has f = true := (Dict.has_iff _ _).2 (Dict.mem_keys_of_mem hin)
  have hget := Dict.get?_of_mem _ _ _ hok.wf.nodup hin
  rw [loadMain_unfold]
  have hb : base S' st' = st' := by simp [base, hg']
  simp only [hb, hg', hhas, Bool.and_self, if_true, hm, Bool.false_eq_true, if_false, hget, Option.getD_some]

/-! ## non-vacuity: a cycle with a self-import, a diamond and shadowed names -/

/-- file 0 imports 1 and 2; 1 imports 2 and 0 (cycle); 2 imports itself.
Name 7 is defined in files 1 and 2 (file 0 must take the one of file 1), name 9 only builtin. -/
def exS (glob : Bool) : Spec where
  calls := fun f => match f with
    | 0 => [some 1, some 2] | 1 => [some 2, some 0] | 2 => [some 2] | _ => []
  defs := fun f => match f with | 0 => [5] | 1 => [6, 7] | 2 => [7, 8] | _ => []
  refs := fun f => match f with | 0 => [5, 7, 8, 9] | 1 => [5, 7] | 2 => [7] | _ => []
  syntaxErr := fun _ => false
  objFault := fun _ => false
  modFault := fun _ => false
  builtins := [[9]]
  glob := glob

example : (loadMain (exS true) 3 St.init 0).2.1 = .ok := by decide
example : (loadMain (exS true) 3 St.init 0).1.reads = [2, 1, 0] := by decide
example : (loadMain (exS true) 3 St.init 0).1.all = [(0, 0), (1, 1), (2, 2)] := by decide
example : (loadMain (exS true) 3 St.init 0).1.loc 1 = [(2, 2), (0, 0)] := by decide
example : (loadMain (exS true) 3 St.init 0).1.tgt 0 = [.elem 0 5, .elem 1 7, .elem 2 8, .builtin 0 9] := by decide
example : (loadMain (exS false) 3 St.init 1).1.reads = [0, 2, 1] := by decide
example : WF St.init := ⟨by simp [St.init, Dict.keys], by simp [St.init], by simp [St.init], by simp [St.init],
  by simp [St.init]⟩

end Repo
