import TextxVerif.Proofs.RepoTargets
/-!
# C17 — multi-file models load each file once and share element identity

Model: `Repo.loadMain` (TextxVerif/Repo.lean) — one `metamodel.model_from_file`
call with everything it triggers: `GlobalModelRepository.load_model`, the
pre-reference-resolution callback that stores a model *before* its imports are
followed, `ImportURI` lookup, the metamodel's global repository.

The theorems hold for **every** `Spec` (any import graph given as the sequence
of `load_model` calls each file issues — cycles, diamonds, self-imports, glob
expansions, repeated statements —, any definitions, references and faults) and
every well-formed state between loads (`WF`: what any history of loads leaves
behind, see `C17_identity` / `C18_clean` for preservation).  Only property
theorems and non-vacuity examples live here; lemmas are in `Proofs/Repo*.lean`.

The other entry points of a load (TextxVerif/RepoEntry.lean) are covered by the
second half: `metamodel.model_from_str(text, file_name=f)` *is* `loadMain`
(`internal_model_from_file` with the text handed in: the entry of `f` in the read
log is the parse of the string), a main model without file name is `loadStr`
(`C17_str_*`), `GlobalRepo.load_models_in_model_repo` is `preload` (`C17_preload`).
-/
namespace Repo

/-- **Termination, even with import cycles.**  Nested loads never go deeper than
the number of files that are not cached yet: for a universe `U` of files closed
under imports, fuel `|U|` is never exhausted. -/
theorem C17_terminates (S : Spec) (U : List File) (hU : ∀ h ∈ U, ∀ x, some x ∈ S.calls h → x ∈ U)
    (fuel : Nat) (st0 : St) (f : File) (hfU : f ∈ U) (hwf : WF st0) (hn : U.length ≤ fuel) :
    (loadMain S fuel st0 f).2.1 ≠ .fuel :=
  loadMain_fuel S U hU fuel st0 f hfU (hwf.base S) (Nat.le_trans (unl_le_length U _) hn)

/-- **At most once.**  Whatever the outcome of a load, the files it opens are
pairwise different, none of them is cached in the (global) repository, and each
is reachable from the main file through non-cached files. -/
theorem C17_once (S : Spec) (fuel : Nat) (st0 : St) (f : File) (hwf : WF st0) :
    ∃ new, (loadMain S fuel st0 f).1.reads = new ++ st0.reads ∧ new.Nodup ∧
      (∀ y ∈ new, y ∉ (base S st0).all.keys) ∧ (∀ y ∈ new, Reach S (base S st0).all.keys f y) := by
  obtain ⟨new, h1, h2, h3, h4, _, _⟩ := loadMain_reads S fuel st0 f (hwf.base S)
    (show loadMain S fuel st0 f = ((loadMain S fuel st0 f).1, (loadMain S fuel st0 f).2.1, (loadMain S fuel st0 f).2.2) from rfl)
  exact ⟨new, h1, h2, h3, h4⟩

/-- **Exactly once.**  A successful load opens precisely the files of the import
closure of the main file that are not cached (closure through non-cached
files), each one once. -/
theorem C17_closure (S : Spec) (fuel : Nat) (st0 : St) (f : File) (st' : St) (j : Inst) (hwf : WF st0)
    (h : loadMain S fuel st0 f = (st', .ok, j)) :
    ∃ new, st'.reads = new ++ st0.reads ∧ new.Nodup ∧ ∀ y, y ∈ new ↔ Reach S (base S st0).all.keys f y := by
  obtain ⟨new, h1, h2, _, h4, h5, _⟩ := loadMain_reads S fuel st0 f (hwf.base S) h
  exact ⟨new, h1, h2, fun y => ⟨h4 y, h5 rfl y⟩⟩

/-- **Identity.**  After a successful load the state is well formed again and
* every entry of every `local_models` of every model of the result is the entry
  of the shared `all_models` for that file (so two models never see two
  instances of one file),
* `all_models` has one entry per file and each instance belongs to its file,
* every reference target is an element of the referring model itself or of the
  unique instance of a file the model imports. -/
theorem C17_identity (S : Spec) (fuel : Nat) (st0 : St) (f : File) (st' : St) (j : Inst) (hwf : WF st0)
    (h : loadMain S fuel st0 f = (st', .ok, j)) :
    WF st' ∧ st'.fileOf j = f ∧
      (∀ m ∈ included st' j, ∀ e ∈ st'.loc m, st'.all.get? e.1 = some e.2 ∧ st'.fileOf e.2 = e.1) ∧
      (∀ m m' g x x', m ∈ included st' j → m' ∈ included st' j → (g, x) ∈ st'.loc m → (g, x') ∈ st'.loc m' →
        x = x') ∧
      (∀ m, st0.next ≤ m → m ∈ included st' j → ∀ x n, Target.elem x n ∈ st'.tgt m →
        x = m ∨ (st'.fileOf x, x) ∈ st'.all) := by
  have := (loadMain_ok S fuel st0 f (hwf.base S) h).toLoad.identity
  rw [base_next] at this
  exact this

/-- **Lookup order.**  Every reference of every model constructed in a
successful load is resolved (1) in the model itself, else (2) in the first file
— in the order of the model's own import calls — whose unique instance defines
the name, else (3) in the first builtin model defining it. -/
theorem C17_lookup_order (S : Spec) (fuel : Nat) (st0 : St) (f : File) (st' : St) (j : Inst) (hwf : WF st0)
    (h : loadMain S fuel st0 f = (st', .ok, j)) (m : Inst) (hge : st0.next ≤ m) (hm : m ∈ included st' j) :
    (st'.tgt m).map some = (S.refs (st'.fileOf m)).map (lookupSpec S st' m) := by
  have hok := (loadMain_ok S fuel st0 f (hwf.base S) h).toLoad
  exact hok.lookupOrder m (by rw [base_next]; exact hge) hm
    (loadMain_loc S fuel st0 f (hwf.base S) h m hge (hok.lt m hm))

/-- **Cached reload.**  With a global repository, loading a file again after a
successful load returns the very same model, opens no file and changes
nothing (`S'` is the later state of the files: whatever they contain now). -/
theorem C17_cached_reload (S S' : Spec) (fuel fuel' : Nat) (st0 : St) (f : File) (st' : St) (j : Inst)
    (hwf : WF st0) (hg : S.glob = true) (hg' : S'.glob = true) (hm : S'.modFault f = false)
    (h : loadMain S fuel st0 f = (st', .ok, j)) :
    loadMain S' fuel' st' f = (st', .ok, j) := by
  have hok := loadMain_ok S fuel st0 f (hwf.base S) h
  have hin := hok.inAll hg
  have hhas : st'.all.has f = true := (Dict.has_iff _ _).2 (Dict.mem_keys_of_mem hin)
  have hget := Dict.get?_of_mem _ _ _ hok.wf.nodup hin
  rw [loadMain_unfold]
  have hb : base S' st' = st' := by simp [base, hg']
  simp only [hb, hg', hhas, Bool.and_self, if_true, hm, Bool.false_eq_true, if_false, hget, Option.getD_some]

/-! ## the other entry points: a main model given as a string, the explicit pre-load -/

/-- The name invented for a model without file name (`anonymous{k}`, smallest unused `k`) is not a key
of the dict: the hypothesis `ha` of the `C17_str_*` theorems holds for the name textX picks. -/
theorem C17_str_name_fresh (a0 : File) (d : Dict) : anonKey a0 d ∉ d.keys := anonKey_fresh a0 d

/-- **A string model is loaded like a file.**  A main model without file name that issues at least one
`load_model` call (or whose metamodel has no global repository) goes through exactly the states of
`model_from_file` on the invented name: the shared dict is handed over to it and to every model it
imports in the same way, whichever entry point is used first on an empty repository. -/
theorem C17_str_as_file (S : Spec) (fuel : Nat) (st0 : St) (a : File) (ha : a ∉ (base S st0).all.keys)
    (h : S.glob = false ∨ S.calls a ≠ []) : loadStr S fuel st0 a = loadMain S fuel st0 a :=
  loadStr_eq_loadMain S fuel st0 a ha h

theorem C17_str_terminates (S : Spec) (U : List File) (hU : ∀ h ∈ U, ∀ x, some x ∈ S.calls h → x ∈ U)
    (fuel : Nat) (st0 : St) (a : File) (haU : a ∈ U) (hwf : WF st0) (ha : a ∉ (base S st0).all.keys)
    (hn : U.length ≤ fuel) : (loadStr S fuel st0 a).2.1 ≠ .fuel :=
  loadStr_fuel S U hU fuel st0 a haU (hwf.base S) ha (Nat.le_trans (unl_le_length U _) hn)

/-- **At most once** for a main model without file name (`a` itself stands for the parse of the string). -/
theorem C17_str_once (S : Spec) (fuel : Nat) (st0 : St) (a : File) (hwf : WF st0) (ha : a ∉ (base S st0).all.keys) :
    ∃ new, (loadStr S fuel st0 a).1.reads = new ++ st0.reads ∧ new.Nodup ∧
      (∀ y ∈ new, y ∉ (base S st0).all.keys) ∧ (∀ y ∈ new, Reach S (base S st0).all.keys a y) := by
  obtain ⟨new, h1, h2, h3, h4, _⟩ := loadStr_reads S fuel st0 a (hwf.base S) ha
    (show loadStr S fuel st0 a = ((loadStr S fuel st0 a).1, (loadStr S fuel st0 a).2.1, (loadStr S fuel st0 a).2.2) from rfl)
  exact ⟨new, h1, h2, h3, h4⟩

/-- **Exactly once**: a successful load of a string model parses the string and opens precisely the
non-cached import closure of the model, each file once. -/
theorem C17_str_closure (S : Spec) (fuel : Nat) (st0 : St) (a : File) (st' : St) (j : Inst) (hwf : WF st0)
    (ha : a ∉ (base S st0).all.keys) (h : loadStr S fuel st0 a = (st', .ok, j)) :
    ∃ new, st'.reads = new ++ st0.reads ∧ new.Nodup ∧ ∀ y, y ∈ new ↔ Reach S (base S st0).all.keys a y := by
  obtain ⟨new, h1, h2, _, h4, h5⟩ := loadStr_reads S fuel st0 a (hwf.base S) ha h
  exact ⟨new, h1, h2, fun y => ⟨h4 y, h5 rfl y⟩⟩

/-- **Identity** after the load of a string model: the state is well formed again (so every later load,
through any entry point, finds each file of this load as the single instance in the shared dict), and
the statements of `C17_identity` hold for the string model and everything it can see. -/
theorem C17_str_identity (S : Spec) (fuel : Nat) (st0 : St) (a : File) (st' : St) (j : Inst) (hwf : WF st0)
    (ha : a ∉ (base S st0).all.keys) (h : loadStr S fuel st0 a = (st', .ok, j)) :
    WF st' ∧ st'.fileOf j = a ∧
      (∀ m ∈ included st' j, ∀ e ∈ st'.loc m, st'.all.get? e.1 = some e.2 ∧ st'.fileOf e.2 = e.1) ∧
      (∀ m m' g x x', m ∈ included st' j → m' ∈ included st' j → (g, x) ∈ st'.loc m → (g, x') ∈ st'.loc m' →
        x = x') ∧
      (∀ m, st0.next ≤ m → m ∈ included st' j → ∀ x n, Target.elem x n ∈ st'.tgt m →
        x = m ∨ (st'.fileOf x, x) ∈ st'.all) := by
  have := (loadStr_ok S fuel st0 a (hwf.base S) ha h).identity
  rw [base_next] at this
  exact this

theorem C17_str_lookup_order (S : Spec) (fuel : Nat) (st0 : St) (a : File) (st' : St) (j : Inst) (hwf : WF st0)
    (ha : a ∉ (base S st0).all.keys) (h : loadStr S fuel st0 a = (st', .ok, j))
    (m : Inst) (hge : st0.next ≤ m) (hm : m ∈ included st' j) :
    (st'.tgt m).map some = (S.refs (st'.fileOf m)).map (lookupSpec S st' m) := by
  have hok := loadStr_ok S fuel st0 a (hwf.base S) ha h
  exact hok.lookupOrder m (by rw [base_next]; exact hge) hm
    (loadStr_loc S fuel st0 a (hwf.base S) ha h m hge (hok.lt m hm))

/-- **Explicit pre-load** (`GlobalRepo.load_models_in_model_repo` into the global repository, or into a
fresh repository): after success the state is well formed (every later load shares these instances),
nothing cached is lost, every file a pattern denotes is in the repository, and over the *whole*
pre-load every file is opened at most once, never a cached one, each opened file ends up in the
repository and is reachable from a requested file through non-cached files. -/
theorem C17_preload (S : Spec) (hg : S.glob = true) (fuel : Nat) (calls : List (Option File)) (st0 st' : St)
    (hwf : WF st0) (h : preload S fuel st0 calls = (st', .ok)) :
    WF st' ∧ (∀ k ∈ st0.all.keys, k ∈ st'.all.keys) ∧ (∀ c, some c ∈ calls → c ∈ st'.all.keys) ∧
      ∃ new, st'.reads = new ++ st0.reads ∧ new.Nodup ∧ (∀ y ∈ new, y ∉ st0.all.keys) ∧
        (∀ y ∈ new, y ∈ st'.all.keys) ∧ (∀ y ∈ new, ∃ c, some c ∈ calls ∧ Reach S st0.all.keys c y) :=
  preload_spec S hg fuel calls st0 st' hwf h

/-! ## any cached file; histories of loads -/

/-- **Any cached file.**  With a global repository, loading *any* file that is in it — cached as a main
model or through the imports of an earlier load — returns the cached model, which is the model of that
file, opens nothing and changes nothing (`C17_cached_reload` is the case of the main file of the load
before). -/
theorem C17_cached_any (S : Spec) (fuel : Nat) (st : St) (g : File) (hwf : WF st) (hg : S.glob = true)
    (hk : g ∈ st.all.keys) (hm : S.modFault g = false) :
    loadMain S fuel st g = (st, .ok, (st.all.get? g).getD 0) ∧ (g, (st.all.get? g).getD 0) ∈ st.all ∧
      st.fileOf ((st.all.get? g).getD 0) = g := by
  have hin := Dict.get?_of_has _ _ ((Dict.has_iff _ _).2 hk)
  exact ⟨loadMain_cached S fuel st g hg hk hm, hin, hwf.file _ hin⟩

/-- **Every file of a successful load is cached.**  After a successful load on a global repository, every
file of its import closure and every file cached before is returned from the cache by any later load
(`S'`: the files as they are then), as the single instance of that file; a file cached before keeps its
instance. -/
theorem C17_cached_closure (S S' : Spec) (fuel fuel' : Nat) (st0 : St) (f : File) (st' : St) (j : Inst)
    (hwf : WF st0) (hg : S.glob = true) (hg' : S'.glob = true) (h : loadMain S fuel st0 f = (st', .ok, j))
    (y : File) (hy : Reach S st0.all.keys f y ∨ y ∈ st0.all.keys) (hm : S'.modFault y = false) :
    ∃ i, loadMain S' fuel' st' y = (st', .ok, i) ∧ (y, i) ∈ st'.all ∧ st'.fileOf i = y ∧
      ∀ x, (y, x) ∈ st0.all → x = i := by
  have hb := base_of_glob S st0 hg
  have hok := loadMain_ok S fuel st0 f (hwf.base S) h
  obtain ⟨new, _, _, _, _, h5, h6⟩ := loadMain_reads S fuel st0 f (hwf.base S) h
  obtain ⟨N, hN, _⟩ := hok.invW.split
  rw [hb] at h5 hN
  have hyk : y ∈ st'.all.keys := by
    rcases hy with hy | hy
    · exact h6 rfl hg y (h5 rfl y hy)
    · rw [hN]
      simp only [Dict.keys, List.map_append, List.mem_append]
      exact Or.inl hy
  obtain ⟨h1, h2, h3⟩ := C17_cached_any S' fuel' st' y hok.wf hg' hyk hm
  refine ⟨_, h1, h2, h3, ?_⟩
  intro x hx
  have hx' : (y, x) ∈ st'.all := by rw [hN]; exact List.mem_append_left _ hx
  have e1 := Dict.get?_of_mem _ _ _ hok.wf.nodup hx'
  rw [e1]; rfl

/-- **One load of a history keeps the state well formed**, whatever the entry point (`Op`: file, model
without file name under the name textX invents, explicit pre-load) and whatever the outcome — success,
or failure in any phase. -/
theorem C17_step_wf (S : Spec) (fuel : Nat) (st : St) (op : Op) (hwf : WF (base S st))
    (hnf : (op.run S fuel st).2.1 ≠ .fuel) (T : Spec) (hT : T.glob = S.glob) :
    WF (base T (op.run S fuel st).1) :=
  Op.run_wf S fuel st op hwf hnf T hT

/-- **Every reachable state is well formed.**  After any history of loads from the empty state — any
files, faults and entry points per load, successful and failing loads mixed, on a metamodel with
(`g = true`) or without a global repository — the dict the next load starts from (`base T st`: the global
repository, or a fresh dict) is well formed: the hypothesis `WF` of the C17 / C18 theorems holds in every
state that can occur (apply them at `base T st`, see `C17_load_base`). -/
theorem C17_history_wf (g : Bool) (ops : List (Spec × Nat × Op)) (h : HistOK g ops St.init)
    (T : Spec) (hT : T.glob = g) : WF (base T (runOps ops St.init)) :=
  runOps_wf g ops St.init (fun T _ => WF.init.base T) h T hT

/-- with a global repository the state itself is well formed -/
theorem C17_history_wf_glob (ops : List (Spec × Nat × Op)) (h : HistOK true ops St.init) :
    WF (runOps ops St.init) := by
  let T : Spec := { calls := fun _ => [], defs := fun _ => [], refs := fun _ => [], syntaxErr := fun _ => false,
                    objFault := fun _ => false, modFault := fun _ => false, builtins := [], glob := true }
  have := C17_history_wf true ops h T rfl
  rw [base_of_glob T _ rfl] at this
  exact this

/-- a load only looks at the dict it starts from: the theorems stated for a well-formed `st0` apply to
`base S st0` -/
theorem C17_load_base (S : Spec) (fuel : Nat) (st : St) (f : File) :
    loadMain S fuel (base S st) f = loadMain S fuel st f ∧ loadStr S fuel (base S st) f = loadStr S fuel st f :=
  ⟨loadMain_base S fuel st f, loadStr_base S fuel st f⟩

/-- **No load of a history runs out of fuel** when every load gets at least as much fuel as a set of
files that contains its main models and is closed under imports has elements (the harness gives
`#files + 1`). -/
theorem C17_history_terminates (g : Bool) (ops : List (Spec × Nat × Op)) (h : HistFueled g ops St.init) :
    HistOK g ops St.init :=
  histFueled_ok g ops St.init (fun T _ => WF.init.base T) h

/-- both together: with enough fuel per load, every reachable state is well formed -/
theorem C17_history_wf_fueled (g : Bool) (ops : List (Spec × Nat × Op)) (h : HistFueled g ops St.init)
    (T : Spec) (hT : T.glob = g) : WF (base T (runOps ops St.init)) :=
  C17_history_wf g ops (C17_history_terminates g ops h) T hT

/-- **The C17 statements in every reachable state**: after any history, the next `model_from_file`
opens every file at most once and no cached one; when it succeeds it opens exactly the non-cached
closure, leaves a well-formed state in which every `local_models` entry is the `all_models` entry of
that file, and every new model's references are resolved in the lookup order. -/
theorem C17_history_next (g : Bool) (ops : List (Spec × Nat × Op)) (h : HistOK g ops St.init)
    (S : Spec) (hS : S.glob = g) (fuel : Nat) (f : File) (st0 : St) (hst : st0 = runOps ops St.init) :
    (∃ new, (loadMain S fuel st0 f).1.reads = new ++ st0.reads ∧ new.Nodup ∧
      (∀ y ∈ new, y ∉ (base S st0).all.keys) ∧ (∀ y ∈ new, Reach S (base S st0).all.keys f y)) ∧
    (∀ st' j, loadMain S fuel st0 f = (st', .ok, j) →
      (∃ new, st'.reads = new ++ st0.reads ∧ new.Nodup ∧ ∀ y, y ∈ new ↔ Reach S (base S st0).all.keys f y) ∧
      WF st' ∧ (∀ m ∈ included st' j, ∀ e ∈ st'.loc m, st'.all.get? e.1 = some e.2 ∧ st'.fileOf e.2 = e.1) ∧
      (∀ m, st0.next ≤ m → m ∈ included st' j →
        (st'.tgt m).map some = (S.refs (st'.fileOf m)).map (lookupSpec S st' m))) := by
  have hwf : WF (base S st0) := by rw [hst]; exact C17_history_wf g ops h S hS
  refine ⟨?_, ?_⟩
  · obtain ⟨new, h1, h2, h3, h4, _, _⟩ := loadMain_reads S fuel st0 f hwf
      (show loadMain S fuel st0 f = ((loadMain S fuel st0 f).1, (loadMain S fuel st0 f).2.1, (loadMain S fuel st0 f).2.2) from rfl)
    exact ⟨new, h1, h2, h3, h4⟩
  · intro st' j hl
    obtain ⟨new, h1, h2, _, h4, h5, _⟩ := loadMain_reads S fuel st0 f hwf hl
    have hok := (loadMain_ok S fuel st0 f hwf hl).toLoad
    obtain ⟨i1, _, i3, _, _⟩ := hok.identity
    refine ⟨⟨new, h1, h2, fun y => ⟨h4 y, h5 rfl y⟩⟩, i1, i3, ?_⟩
    intro m hge hm
    exact hok.lookupOrder m (by rw [base_next]; exact hge) hm
      (loadMain_loc S fuel st0 f hwf hl m hge (hok.lt m hm))

/-- **A load never touches the recorded reference targets of a model that existed before**, whatever
its outcome (`C17_identity` and `C17_lookup_order` describe the targets of the models a load constructs;
this says they stay what they are). -/
theorem C17_targets_untouched (S : Spec) (fuel : Nat) (st0 : St) (f : File) (hwf : WF st0) (i : Inst)
    (hi : i < st0.next) : (loadMain S fuel st0 f).1.tgt i = st0.tgt i :=
  loadMain_tgt_old S fuel st0 f (hwf.base S) i hi

/-- **Single instance in every reachable state.**  After any history of loads from the empty state (any
entry points, successful and failing loads mixed), in the dict the next load starts from: every file has
one entry, which is a model of that file; and every element target recorded in any model of the dict —
also the models cached by loads long ago — is an element of that model itself or of the model that is
*the* entry of its file, and that element exists there.  So no reference of a cached model ever points
to a second instance of a file or to a model removed by a failed load. -/
theorem C17_history_identity (g : Bool) (ops : List (Spec × Nat × Op)) (h : HistOK g ops St.init)
    (T : Spec) (hT : T.glob = g) (st : St) (hst : st = base T (runOps ops St.init)) :
    ∀ f i, (f, i) ∈ st.all → st.fileOf i = f ∧ (∀ i', (f, i') ∈ st.all → i' = i) ∧
      ∀ x n, Target.elem x n ∈ st.tgt i → (x = i ∨ (st.fileOf x, x) ∈ st.all) ∧ n ∈ st.defsOf x := by
  have hwf : WF st := by rw [hst]; exact C17_history_wf g ops h T hT
  have hT' : TgtOK st := by
    rw [hst]
    exact runOps_tgtOK g ops St.init (fun T _ => ⟨WF.init.base T, by
      intro e he
      have : (base T St.init).all = [] := by unfold base; split <;> rfl
      rw [this] at he; cases he⟩) h T hT
  intro f i hfi
  refine ⟨hwf.file _ hfi, ?_, ?_⟩
  · intro i' hi'
    have h1 := Dict.get?_of_mem _ _ _ hwf.nodup hfi
    have h2 := Dict.get?_of_mem _ _ _ hwf.nodup hi'
    rw [h1] at h2
    exact (Option.some.inj h2).symm
  · intro x n ht
    obtain ⟨h1, h2⟩ := hT' (f, i) hfi x n ht
    exact ⟨h1, by simpa using h2⟩

/-! ## non-vacuity: a cycle with a self-import, a diamond and shadowed names -/

/-- file 0 imports 1 and 2; 1 imports 2 and 0 (cycle); 2 imports itself.
Name 7 is defined in files 1 and 2 (file 0 must take the one of file 1), name 9 only builtin. -/
def exS (glob : Bool) : Spec where
  calls := fun f => match f with
    | 0 => [some 1, some 2] | 1 => [some 2, some 0] | 2 => [some 2] | _ => []
  defs := fun f => match f with | 0 => [5] | 1 => [6, 7] | 2 => [7, 8] | _ => []
  refs := fun f => match f with | 0 => [5, 7, 8, 9] | 1 => [5, 7] | 2 => [7] | _ => []
  syntaxErr := fun _ => false
  objFault := fun _ => false
  modFault := fun _ => false
  builtins := [[9]]
  glob := glob

example : (loadMain (exS true) 3 St.init 0).2.1 = .ok := by decide
example : (loadMain (exS true) 3 St.init 0).1.reads = [2, 1, 0] := by decide
example : (loadMain (exS true) 3 St.init 0).1.all = [(0, 0), (1, 1), (2, 2)] := by decide
example : (loadMain (exS true) 3 St.init 0).1.loc 1 = [(2, 2), (0, 0)] := by decide
example : (loadMain (exS true) 3 St.init 0).1.tgt 0 = [.elem 0 5, .elem 1 7, .elem 2 8, .builtin 0 9] := by decide
example : (loadMain (exS false) 3 St.init 1).1.reads = [0, 2, 1] := by decide
/-- the string model (invented name 3) sees files 0 and 1 through two patterns; 0 and 1 form a cycle -/
def exT (glob : Bool) : Spec where
  calls := fun f => match f with
    | 0 => [some 1] | 1 => [some 0] | 3 => [some 0, some 1] | _ => []
  defs := fun f => match f with | 0 => [5] | 1 => [6] | 3 => [7] | _ => []
  refs := fun f => match f with | 0 => [5, 6] | 1 => [5] | 3 => [5, 6, 7] | _ => []
  syntaxErr := fun _ => false
  objFault := fun _ => false
  modFault := fun _ => false
  builtins := []
  glob := glob

example : anonKey 3 [(0, 0), (3, 1), (4, 2)] = 5 := by decide
example : (loadStr (exT true) 3 St.init 3).2.1 = .ok := by decide
example : (loadStr (exT true) 3 St.init 3).1.reads = [1, 0, 3] := by decide
example : (loadStr (exT true) 3 St.init 3).1.all = [(3, 0), (0, 1), (1, 2)] := by decide
example : (loadStr (exT true) 3 St.init 3).1.tgt 0 = [.elem 1 5, .elem 2 6, .elem 0 7] := by decide
-- the files loaded by the string model are cached for the next load: nothing is opened again
example : (loadMain (exT true) 3 (loadStr (exT true) 3 St.init 3).1 1).1.reads = [1, 0, 3] := by decide
example : (loadMain (exT true) 3 (loadStr (exT true) 3 St.init 3).1 1).2.2 = 2 := by decide
-- a string model without imports is not stored in the global repository
example : (loadStr (exT true) 3 St.init 4).1.all = [] := by decide
example : (preload (exS true) 3 St.init [some 2, some 0, none]).2 = .fail .io := by decide
example : (preload (exS true) 3 St.init [some 2, some 0, some 1]).2 = .ok := by decide
example : (preload (exS true) 3 St.init [some 2, some 0, some 1]).1.reads = [1, 0, 2] := by decide
example : (preload (exS true) 3 St.init [some 2, some 0, some 1]).1.all = [(2, 0), (0, 1), (1, 2)] := by decide
/-- a history through all entry points: a file, a model without file name (invented name 3), a pre-load,
a cached reload and a load that fails (file 4 does not parse) -/
def exH : List (Spec × Nat × Op) :=
  [(exS true, 5, .file 1), (exT true, 5, .str 3), (exS true, 5, .preload [some 2, some 0]),
   ({ exS true with syntaxErr := fun f => f == 4 }, 5, .file 4), (exS true, 5, .file 0)]

example : HistOK true exH St.init := ⟨rfl, by decide, rfl, by decide, rfl, by decide, rfl, by decide, rfl, by decide, trivial⟩
/-- the fuel hypothesis of `C17_history_terminates` holds for it: files 0..4 are closed under imports -/
example : HistFueled true exH St.init :=
  ⟨rfl, ⟨[0, 1, 2, 3, 4], closedB_spec (by decide), by decide, by decide⟩,
   rfl, ⟨[0, 1, 2, 3, 4], closedB_spec (by decide), by decide, by decide⟩,
   rfl, ⟨[0, 1, 2, 3, 4], closedB_spec (by decide), by decide, by decide⟩,
   rfl, ⟨[0, 1, 2, 3, 4], closedB_spec (by decide), by decide, by decide⟩,
   rfl, ⟨[0, 1, 2, 3, 4], closedB_spec (by decide), by decide, by decide⟩, trivial⟩
example : (runOps exH St.init).all = [(1, 0), (2, 1), (0, 2), (3, 3)] := by decide
example : (runOps exH St.init).reads = [4, 3, 0, 2, 1] := by decide
-- any cached file is returned as it is: file 2 was only ever imported
example : loadMain (exS true) 0 (runOps exH St.init) 2 = (runOps exH St.init, .ok, 1) :=
  (C17_cached_any (exS true) 0 _ 2 (C17_history_wf_glob exH
    ⟨rfl, by decide, rfl, by decide, rfl, by decide, rfl, by decide, rfl, by decide, trivial⟩) rfl (by decide) rfl).1
-- the targets recorded for the model without file name (instance 3) and for file 0 (instance 2) in that state
example : (runOps exH St.init).tgt 3 = [.elem 2 5, .elem 0 6, .elem 3 7] := by decide
example : (runOps exH St.init).tgt 2 = [.elem 2 5, .elem 0 7, .elem 1 8, .builtin 0 9] := by decide
example : WF St.init := ⟨by simp [St.init, Dict.keys], by simp [St.init], by simp [St.init], by simp [St.init],
  by simp [St.init]⟩

end Repo
