import TextxVerif.Peg.Arp
/-!
# Three-valued recogniser over Arpeggio parser-model graphs (C24)

`Rec.parse` is the acceptance-relevant abstraction of the Arpeggio mirror `Peg.parse`
(Peg/Arp.lean) for parser models that use no `ws` / `skipws` overrides, no `eolterm`, no
`UnorderedGroup` and no memoization (both grammars of the textX language are of this kind;
anything else yields `.bad`).  Instead of parse trees it computes the *shape* of Arpeggio's
result, which is all that `Sequence` (keeps truthy results), `OrderedChoice` (an alternative
whose result is `None` counts as not matched and the position is *not* reset), the repetitions
(stop at the first falsy result) and the root post-processing (`NonTerminal` of the flattened
list, which is falsy when the list has no leaves) look at:

* `N`  None
* `E`  the empty list `[]`
* `Z`  an empty `NonTerminal` (falsy, not None, a leaf for `flatten`)
* `H`  a non-empty plain list without leaves, e.g. `[[]]` (truthy, flattens to nothing)
* `T`  anything else truthy (Terminal, non-empty NonTerminal, list with a leaf)

The state is the input position and the `in_parse_comments` flag (`c`).  The comment-position
cache and the furthest-failure record of the mirror do not influence acceptance and are left
out.  Token matching is a parameter (`Lex.tok t pos` = matched length), as in the mirror.

`parse` is one structurally recursive function on fuel; the loops of `Sequence._parse`,
`OrderedChoice._parse`, `Repetition._parse` and `Match._parse_comments` are separate
functions that take the recursive call as an argument.

The checker for simulations between two graphs is in `Peg/RecCheck.lean`.
-/
namespace Rec
open Peg (Node Kind)

inductive Sh | N | E | Z | H | T
deriving DecidableEq, Repr, Inhabited

def Sh.truthy : Sh → Bool
  | .H | .T => true
  | _ => false

/-- shape of the one-element list `[v]`; `[None]` is turned into `None` by `ParsingExpression.parse` -/
def Sh.wrap1 : Sh → Sh
  | .N => .N
  | .E => .H
  | .H => .H
  | _ => .T

/-- append a result to a list accumulator (`E` = still empty) if it is truthy -/
def Sh.add (acc v : Sh) : Sh :=
  match v with
  | .T => .T
  | .H => if acc = .T then .T else .H
  | _ => acc

structure Graph where
  size : Nat                      -- number of nodes (ids `0 … size-1`)
  node : Nat → Option Node        -- the node table (`none` outside)
  top : Nat
  comments : Option Nat
  skipws : Bool
  ws : List Char

/-- node lookup -/
def Graph.get (g : Graph) (a : Nat) : Option Node := if a < g.size then g.node a else none

structure Lex where
  input : Array Char
  tok : Nat → Nat → Option Nat

inductive Res
  | ok (sh : Sh) (pos : Nat)
  | fail
  | fuel
  | bad
deriving DecidableEq, Repr, Inhabited

/-- features outside the fragment -/
def supported (nd : Node) : Bool :=
  nd.ws.isNone && nd.skipws.isNone && !nd.eolterm && nd.kind != .unord

/-- post-processing of `ParsingExpression.parse`: suppression, root flattening -/
def finish (nd : Node) : Res → Res
  | .ok v p =>
    let v := if nd.suppress then Sh.N else v
    .ok (if nd.root && v = .H then .Z else v) p
  | r => r

def skipWs (g : Graph) (L : Lex) (pos : Nat) : Nat :=
  if g.skipws then Peg.skipWsFrom L.input g.ws (L.input.size + 1 - pos) pos else pos

/-- `StrMatch._parse`, `RegExMatch._parse`, `EndOfFile._parse` at the position after whitespace/comments -/
def lexTok (nd : Node) (L : Lex) (p : Nat) : Res :=
  match nd.kind with
  | .eof => if L.input.size = p then .ok .T p else .fail
  | .str =>
    match L.tok nd.tok p with
    | some len => .ok .T (p + len)
    | none => .fail
  | _ =>
    match L.tok nd.tok p with
    | some len => .ok (if len = 0 then .N else .T) (p + len)
    | none => .fail

/-- `Sequence._parse` loop -/
def seqLoop (f : Nat → Nat → Res) : List Nat → Nat → Sh → Res
  | [], pos, acc => .ok acc pos
  | e :: es, pos, acc =>
    match f e pos with
    | .ok v p => seqLoop f es p (acc.add v)
    | r => r

/-- `OrderedChoice._parse` loop -/
def choiceLoop (f : Nat → Nat → Res) : List Nat → Nat → Nat → Res
  | [], _, _ => .fail
  | e :: es, cpos, pos =>
    match f e pos with
    | .ok v p => if v = .N then choiceLoop f es cpos p else .ok v.wrap1 p
    | .fail => choiceLoop f es cpos cpos
    | r => r

/-- separator step of the repetition loop -/
def sepStep (fs : Option (Nat → Res)) (pos : Nat) (acc : Sh) (prev : Bool) : Res :=
  match fs with
  | some f =>
    if prev then
      match f pos with
      | .ok v p => .ok (acc.add v) p
      | r => r
    else .ok acc pos
  | none => .ok acc pos

/-- the `while True` loop of `ZeroOrMore._parse` / `OneOrMore._parse` -/
def repLoop (fk : Nat → Res) (fs : Option (Nat → Res)) : Nat → Nat → Sh → Bool → Bool → Res
  | 0, _, _, _, _ => .fuel
  | j+1, pos, acc, first, prev =>
    match sepStep fs pos acc prev with
    | .ok acc1 p1 =>
      match fk p1 with
      | .ok v p2 => if v.truthy then repLoop fk fs j p2 (acc1.add v) false true else .ok acc1 p2
      | .fail => if first then .fail else .ok acc1 pos
      | r => r
    | .fail => if first then .fail else .ok acc pos
    | r => r

/-- `Match._parse_comments` -/
def commentsLoop (f : Nat → Res) (skip : Nat → Nat) : Nat → Nat → Res
  | 0, _ => .fuel
  | j+1, pos =>
    match f pos with
    | .ok _ p => commentsLoop f skip j (skip p)
    | .fail => .ok .N pos
    | r => r

def isMatch (k : Kind) : Bool := k == .str || k == .re || k == .eof

/-- the prologue of `Match.parse`: skip whitespace, then (unless already inside a comment)
parse comments; `f e q` parses node `e` at `q` with `in_parse_comments` set -/
def skipGen (g : Graph) (L : Lex) (f : Nat → Nat → Res) (n : Nat) (c : Bool) (pos : Nat) : Res :=
  let p := skipWs g L pos
  if c then .ok .N p else
    match g.comments with
    | none => .ok .N p
    | some cm => commentsLoop (f cm) (skipWs g L) n p

/-- `e.parse(parser)` for the node with index `id`; `c` = `parser.in_parse_comments` -/
def parse (g : Graph) (L : Lex) : Nat → Nat → Bool → Nat → Res
  | 0, _, _, _ => .fuel
  | n+1, id, c, pos =>
    match g.get id with
    | none => .bad
    | some nd =>
      if !supported nd then .bad else
      match nd.kind with
      | .str | .re | .eof =>
        -- Match.parse: whitespace, comments, then the match
        match skipGen g L (fun e q => parse g L n e true q) n c pos with
        | .ok _ p => finish nd (lexTok nd L p)
        | r => r
      | .seq =>
        finish nd (match seqLoop (fun e p => parse g L n e c p) nd.kids pos .E with
          | .ok acc p => .ok (if acc = .E then .N else acc) p
          | r => r)
      | .choice => finish nd (choiceLoop (fun e p => parse g L n e c p) nd.kids pos pos)
      | .opt =>
        match nd.kids with
        | [k] => finish nd (match parse g L n k c pos with
            | .ok v p => .ok v.wrap1 p
            | .fail => .ok .N pos
            | r => r)
        | _ => .bad
      | .star =>
        match nd.kids with
        | [k] => finish nd (repLoop (fun p => parse g L n k c p)
            (nd.sep.map fun s p => parse g L n s c p) n pos .E false false)
        | _ => .bad
      | .plus =>
        match nd.kids with
        | [k] => finish nd (repLoop (fun p => parse g L n k c p)
            (nd.sep.map fun s p => parse g L n s c p) n pos .E true false)
        | _ => .bad
      | .andP =>
        match nd.kids with
        | [k] => finish nd (match parse g L n k c pos with
            | .ok _ _ => .ok .N pos
            | r => r)
        | _ => .bad
      | .notP =>
        match nd.kids with
        | [k] => finish nd (match parse g L n k c pos with
            | .ok _ _ => .fail
            | .fail => .ok .N pos
            | r => r)
        | _ => .bad
      | .unord => .bad

/-- `parser.parse(input)` succeeds -/
def accepts (g : Graph) (L : Lex) : Prop := ∃ n v p, parse g L n g.top false 0 = .ok v p

/-- `parser.parse(input)` raises NoMatch -/
def rejects (g : Graph) (L : Lex) : Prop := ∃ n, parse g L n g.top false 0 = .fail

end Rec
