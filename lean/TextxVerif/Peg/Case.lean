import TextxVerif.Peg.Arp
/-!
# Token matching with `ignore_case` (C20)

The Arpeggio mirror `Peg.Arp` takes token matching as a table
(`Grammar.toks[t][pos]` = matched length).  This file models where that table
comes from, for the two `Match` classes textX instantiates:

* `StrMatch._parse` (arpeggio/__init__.py): the input fragment
  `input[c_pos : c_pos+len(to_match)]` is compared with `to_match`, after
  `.lower()` on both sides when `ignore_case` is set; the terminal's value is
  the *grammar's* literal `to_match`;
* `RegExMatch._parse`: `self.regex.match(input, c_pos)`; the terminal's value
  is the matched input text.  The regex engine itself is a parameter
  `rx : Nat → Array Char → Nat → Option Nat` (token id, input, position ↦ length
  of `m.group()`); what C20 needs from `re.IGNORECASE` is stated as the
  predicate `RxFoldInv` and checked against `re` on every run.

and the three places of `textx/lang.py` that decide the flags
(`visit_str_match`, its `autokwd` branch, `visit_re_match`): `compileLit`.

`lower : Char → Char` is Python's `str.lower` restricted to characters whose
lower-casing is a single character independent of context (the generators stay
inside that set); it is a parameter of everything here.
Core Lean only.
-/
namespace Peg.Case

/-- Python's `input[pos : pos+n]` (clamped at the end of the input) -/
def slice (input : Array Char) (pos n : Nat) : List Char := (input.extract pos (pos + n)).toList

/-- `StrMatch._parse`: matched length, `none` = NoMatch -/
def strMatchLen (lower : Char → Char) (lit : List Char) (ic : Bool) (input : Array Char) (pos : Nat) :
    Option Nat :=
  let frag := slice input pos lit.length
  let m := if ic then frag.map lower == lit.map lower else frag == lit
  if m then some lit.length else none

/-- what a `Match` node of the parser model is -/
inductive Tok
  | str (lit : List Char) (ic : Bool)    -- StrMatch(to_match, ignore_case)
  | re                                    -- RegExMatch: semantics given by `rx`
  | other                                 -- not a Match node (empty row)
deriving Repr, DecidableEq, Inhabited

/-- the regex engine as seen by the parser: token id → input → position → length of `m.group()` -/
abbrev Rx := Nat → Array Char → Nat → Option Nat

/-- one row of the token table: positions `0 … len(input)` -/
def tokRow (lower : Char → Char) (rx : Array Char → Nat → Option Nat) (t : Tok) (input : Array Char) :
    Array (Option Nat) :=
  match t with
  | .str lit ic => Array.ofFn (n := input.size + 1) fun p => strMatchLen lower lit ic input p.val
  | .re => Array.ofFn (n := input.size + 1) fun p => rx input p.val
  | .other => #[]

/-- the whole table, indexed like the node table (as `harness/peg.py` builds it) -/
def tokTable (lower : Char → Char) (rx : Rx) (toks : Array Tok) (input : Array Char) :
    Array (Array (Option Nat)) :=
  Array.ofFn (n := toks.size) fun i => tokRow lower (rx i.val) toks[i] input

/-- parser model + matching semantics -/
structure Lang where
  nodes : Array Node
  comments : Option Nat
  memo : Bool
  toks : Array Tok
  top : Nat
  skipws : Bool
  ws : List Char

/-- the configuration the mirror runs on for one input text -/
def Lang.grammar (lower : Char → Char) (rx : Rx) (L : Lang) (input : Array Char) : Grammar :=
  { nodes := L.nodes, comments := L.comments, memo := L.memo, input := input,
    toks := tokTable lower rx L.toks input }

/-- `parser.parse(input)` -/
def Lang.run (lower : Char → Char) (rx : Rx) (L : Lang) (input : Array Char) (fuel : Nat) : Outcome :=
  Peg.run (L.grammar lower rx input) L.top L.skipws L.ws fuel

/-! ## case variants -/

/-- equal after case folding, character by character (in particular: equal length) -/
def FoldEq (lower : Char → Char) (a b : Array Char) : Prop := a.toList.map lower = b.toList.map lower

instance (lower : Char → Char) (a b : Array Char) : Decidable (FoldEq lower a b) := by
  unfold FoldEq; infer_instance

/-- the two texts agree on the span `[pos, pos+len)` -/
def AgreeOn (a b : Array Char) (pos len : Nat) : Prop := slice a pos len = slice b pos len

instance (a b : Array Char) (pos len : Nat) : Decidable (AgreeOn a b pos len) := by
  unfold AgreeOn; infer_instance

/-- a whitespace set is *case-neutral*: none of its characters has a case variant -/
def WsSafe (lower : Char → Char) (ws : List Char) : Prop := ∀ c, c ∈ ws → ∀ d, lower d = lower c → d = c

/-- `str.lower` as a finite table (cased character ↦ lower-case character), identity elsewhere -/
def lowerTab (tab : List (Char × Char)) (c : Char) : Char := (tab.lookup c).getD c

/-- decidable criterion for `WsSafe (lowerTab tab)`: no whitespace character occurs in the case table -/
def wsSafeTab (tab : List (Char × Char)) (ws : List Char) : Bool :=
  ws.all fun c => tab.all fun kv => kv.1 != c && kv.2 != c

/-- the ASCII part of the table -/
def asciiTab : List (Char × Char) :=
  [('A', 'a'), ('B', 'b'), ('C', 'c'), ('D', 'd'), ('E', 'e'), ('F', 'f'), ('G', 'g'), ('H', 'h'), ('I', 'i'), ('J', 'j'), ('K', 'k'), ('L', 'l'), ('M', 'm'), ('N', 'n'), ('O', 'o'), ('P', 'p'), ('Q', 'q'), ('R', 'r'), ('S', 's'), ('T', 't'), ('U', 'u'), ('V', 'v'), ('W', 'w'), ('X', 'x'), ('Y', 'y'), ('Z', 'z')]

/-- every string literal is matched case-insensitively -/
def AllIc (toks : Array Tok) : Prop := ∀ (i : Nat) lit ic, toks[i]? = some (Tok.str lit ic) → ic = true

def allIc (toks : Array Tok) : Bool := toks.toList.all fun t => match t with | .str _ ic => ic | _ => true

/-- **Assumption on `re.IGNORECASE`** (and on base-type regexes whose language is closed under case
change): regex token `i` matches the same lengths on case-folded-equal inputs. -/
def RxFoldInv (lower : Char → Char) (rx : Rx) (i : Nat) : Prop :=
  ∀ a b, FoldEq lower a b → ∀ p, rx i a p = rx i b p

/-- no case-sensitive terminal: the hypothesis of `C20_partial` -/
structure NoCaseSensitiveTerminal (lower : Char → Char) (rx : Rx) (L : Lang) : Prop where
  strs : AllIc L.toks
  regexes : ∀ (i : Nat), L.toks[i]? = some Tok.re → RxFoldInv lower rx i

/-- all whitespace sets of the language (metamodel `ws`, rule modifiers) are case-neutral -/
structure WsNeutral (lower : Char → Char) (L : Lang) : Prop where
  top : WsSafe lower L.ws
  node : ∀ (id : Nat) (nd : Node), L.nodes[id]? = some nd → ∀ w, nd.ws = some w → WsSafe lower w

/-- decidable criterion for `WsNeutral (lowerTab tab) L` -/
def wsNeutralB (tab : List (Char × Char)) (L : Lang) : Bool :=
  wsSafeTab tab L.ws && L.nodes.toList.all fun nd =>
    match nd.ws with
    | none => true
    | some w => wsSafeTab tab w

/-! ## terminal values -/

/-- `Terminal.value`: the grammar literal for `StrMatch`, the matched text for `RegExMatch` -/
def termValue (toks : Array Tok) (input : Array Char) (node pos len : Nat) : List Char :=
  match toks[node]? with
  | some (.str lit _) => lit
  | _ => slice input pos len

mutual
/-- terminals of a parse tree in text order: (node, position, length) -/
def leaves : Val → List (Nat × Nat × Nat)
  | .none => []
  | .term n p l => [(n, p, l)]
  | .nt _ ks => leavesList ks
  | .list vs => leavesList vs
def leavesList : List Val → List (Nat × Nat × Nat)
  | [] => []
  | v :: vs => leaves v ++ leavesList vs
end

def _root_.Peg.Outcome.leaves : Outcome → Option (List (Nat × Nat × Nat))
  | .tree v => some (Peg.Case.leaves v)
  | _ => none

/-- the values of all terminals of a tree -/
def values (toks : Array Tok) (input : Array Char) (v : Val) : List (List Char) :=
  (leaves v).map fun (n, p, l) => termValue toks input n p l

/-! ## how textX decides the flags (`textx/lang.py`, `visit_str_match` / `visit_re_match`) -/

structure Cfg where
  ignoreCase : Bool
  autokwd : Bool
deriving Repr, DecidableEq

/-- a match literal of the grammar source -/
inductive Lit
  | str (s : List Char)      -- 'text' (after unescaping)
  | re (src : List Char)     -- /regex/
deriving Repr, DecidableEq

/-- the `Match` object the visitor creates -/
inductive MatchObj
  | strMatch (toMatch : List Char) (ignoreCase : Bool)
  | regexMatch (pattern : List Char) (ignoreCase : Bool)
deriving Repr, DecidableEq

/-- `self.keyword_regex.match(to_match)` with `span() == (0, len(to_match))` for `[^\d\W]\w*`:
a word character that is not a digit, then word characters only -/
def kwdLike (isWord isDigit : Char → Bool) : List Char → Bool
  | [] => false
  | c :: cs => isWord c && !isDigit c && cs.all isWord

def compileLit (isWord isDigit : Char → Bool) (cfg : Cfg) : Lit → MatchObj
  | .str s =>
      if cfg.autokwd && kwdLike isWord isDigit s then .regexMatch (s ++ ['\\', 'b']) cfg.ignoreCase
      else .strMatch s cfg.ignoreCase
  | .re src => .regexMatch src cfg.ignoreCase

def MatchObj.ignoreCase : MatchObj → Bool
  | .strMatch _ ic => ic
  | .regexMatch _ ic => ic

end Peg.Case
