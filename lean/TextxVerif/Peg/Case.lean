import TextxVerif.Peg.Arp
/-!
# Token matching with `ignore_case` (C20)

The Arpeggio mirror `Peg.Arp` takes token matching as a table
(`Grammar.toks[t][pos]` = matched length).  This file models where that table
comes from, for the two `Match` classes textX instantiates:

* `StrMatch._parse` (arpeggio/__init__.py): the input fragment
  `input[c_pos : c_pos+len(to_match)]` is compared with `to_match`, after
  `.lower()` on both sides when `ignore_case` is set; the terminal's value is
  the *grammar's* literal `to_match`;
* `RegExMatch._parse`: `self.regex.match(input, c_pos)`; the terminal's value
  is the matched input text;
* `KeywordMatch` (textx/lang.py, the `autokwd` form of a keyword-like string
  literal): matched like a `RegExMatch` (`keyword\b`), but the terminal's
  value is the *grammar's* literal, as for `StrMatch`.  The regex engine itself is a parameter
  `rx : Nat → Array Char → Nat → Option Nat` (token id, input, position ↦ length
  of `m.group()`); what C20 needs from `re.IGNORECASE` is stated as the
  predicate `RxFoldInv` and checked against `re` on every run.

and the three places of `textx/lang.py` that decide the flags
(`visit_str_match`, its `autokwd` branch, `visit_re_match`): `compileLit`,
and — because regex objects are compiled through a process-wide cache
(`re.compile`) — the same construction threaded through an arbitrary history of
earlier meta-model constructions: `buildMM` / `buildAll`.

`lower : Char → Char` is Python's `str.lower` restricted to characters whose
lower-casing is a single character independent of context (the generators stay
inside that set); it is a parameter of everything here.
Core Lean only.
-/
namespace Peg.Case

/-- Python's `input[pos : pos+n]` (clamped at the end of the input) -/
def slice (input : Array Char) (pos n : Nat) : List Char := (input.extract pos (pos + n)).toList

/-- `StrMatch._parse`: matched length, `none` = NoMatch -/
def strMatchLen (lower : Char → Char) (lit : List Char) (ic : Bool) (input : Array Char) (pos : Nat) :
    Option Nat :=
  let frag := slice input pos lit.length
  let m := if ic then frag.map lower == lit.map lower else frag == lit
  if m then some lit.length else none

/-- what a `Match` node of the parser model is -/
inductive Tok
  | str (lit : List Char) (ic : Bool)    -- StrMatch(to_match, ignore_case)
  | re                                    -- RegExMatch: semantics given by `rx`
  | kw (lit : List Char)                  -- KeywordMatch: matched by `rx`, value = the grammar literal
  | other                                 -- not a Match node (empty row)
deriving Repr, DecidableEq, Inhabited

/-- the regex engine as seen by the parser: token id → input → position → length of `m.group()` -/
abbrev Rx := Nat → Array Char → Nat → Option Nat

/-- one row of the token table: positions `0 … len(input)` -/
def tokRow (lower : Char → Char) (rx : Array Char → Nat → Option Nat) (t : Tok) (input : Array Char) :
    Array (Option Nat) :=
  match t with
  | .str lit ic => Array.ofFn (n := input.size + 1) fun p => strMatchLen lower lit ic input p.val
  | .re => Array.ofFn (n := input.size + 1) fun p => rx input p.val
  | .kw _ => Array.ofFn (n := input.size + 1) fun p => rx input p.val
  | .other => #[]

/-- the whole table, indexed like the node table (as `harness/peg.py` builds it) -/
def tokTable (lower : Char → Char) (rx : Rx) (toks : Array Tok) (input : Array Char) :
    Array (Array (Option Nat)) :=
  Array.ofFn (n := toks.size) fun i => tokRow lower (rx i.val) toks[i] input

/-- parser model + matching semantics -/
structure Lang where
  nodes : Array Node
  comments : Option Nat
  memo : Bool
  toks : Array Tok
  top : Nat
  skipws : Bool
  ws : List Char

/-- the configuration the mirror runs on for one input text -/
def Lang.grammar (lower : Char → Char) (rx : Rx) (L : Lang) (input : Array Char) : Grammar :=
  { nodes := L.nodes, comments := L.comments, memo := L.memo, input := input,
    toks := tokTable lower rx L.toks input }

/-- `parser.parse(input)` -/
def Lang.run (lower : Char → Char) (rx : Rx) (L : Lang) (input : Array Char) (fuel : Nat) : Outcome :=
  Peg.run (L.grammar lower rx input) L.top L.skipws L.ws fuel

/-! ## case variants -/

/-- equal after case folding, character by character (in particular: equal length) -/
def FoldEq (lower : Char → Char) (a b : Array Char) : Prop := a.toList.map lower = b.toList.map lower

instance (lower : Char → Char) (a b : Array Char) : Decidable (FoldEq lower a b) := by
  unfold FoldEq; infer_instance

/-- the two texts agree on the span `[pos, pos+len)` -/
def AgreeOn (a b : Array Char) (pos len : Nat) : Prop := slice a pos len = slice b pos len

instance (a b : Array Char) (pos len : Nat) : Decidable (AgreeOn a b pos len) := by
  unfold AgreeOn; infer_instance

/-- a whitespace set is *case-neutral*: none of its characters has a case variant -/
def WsSafe (lower : Char → Char) (ws : List Char) : Prop := ∀ c, c ∈ ws → ∀ d, lower d = lower c → d = c

/-- `str.lower` as a finite table (cased character ↦ lower-case character), identity elsewhere -/
def lowerTab (tab : List (Char × Char)) (c : Char) : Char := (tab.lookup c).getD c

/-- decidable criterion for `WsSafe (lowerTab tab)`: no whitespace character occurs in the case table -/
def wsSafeTab (tab : List (Char × Char)) (ws : List Char) : Bool :=
  ws.all fun c => tab.all fun kv => kv.1 != c && kv.2 != c

/-- the ASCII part of the table -/
def asciiTab : List (Char × Char) :=
  [('A', 'a'), ('B', 'b'), ('C', 'c'), ('D', 'd'), ('E', 'e'), ('F', 'f'), ('G', 'g'), ('H', 'h'), ('I', 'i'), ('J', 'j'), ('K', 'k'), ('L', 'l'), ('M', 'm'), ('N', 'n'), ('O', 'o'), ('P', 'p'), ('Q', 'q'), ('R', 'r'), ('S', 's'), ('T', 't'), ('U', 'u'), ('V', 'v'), ('W', 'w'), ('X', 'x'), ('Y', 'y'), ('Z', 'z')]

/-- every string literal is matched case-insensitively -/
def AllIc (toks : Array Tok) : Prop := ∀ (i : Nat) lit ic, toks[i]? = some (Tok.str lit ic) → ic = true

def allIc (toks : Array Tok) : Bool := toks.toList.all fun t => match t with | .str _ ic => ic | _ => true

/-- **Assumption on `re.IGNORECASE`** (and on base-type regexes whose language is closed under case
change): regex token `i` matches the same lengths on case-folded-equal inputs. -/
def RxFoldInv (lower : Char → Char) (rx : Rx) (i : Nat) : Prop :=
  ∀ a b, FoldEq lower a b → ∀ p, rx i a p = rx i b p

/-- the token is matched by a compiled regex object (`RegExMatch`, `KeywordMatch`) -/
def Tok.isRx : Tok → Bool
  | .re => true
  | .kw _ => true
  | _ => false

/-- no case-sensitive terminal: the hypothesis of `C20_partial` -/
structure NoCaseSensitiveTerminal (lower : Char → Char) (rx : Rx) (L : Lang) : Prop where
  strs : AllIc L.toks
  regexes : ∀ (i : Nat) (t : Tok), L.toks[i]? = some t → t.isRx = true → RxFoldInv lower rx i

/-- all whitespace sets of the language (metamodel `ws`, rule modifiers) are case-neutral -/
structure WsNeutral (lower : Char → Char) (L : Lang) : Prop where
  top : WsSafe lower L.ws
  node : ∀ (id : Nat) (nd : Node), L.nodes[id]? = some nd → ∀ w, nd.ws = some w → WsSafe lower w

/-- decidable criterion for `WsNeutral (lowerTab tab) L` -/
def wsNeutralB (tab : List (Char × Char)) (L : Lang) : Bool :=
  wsSafeTab tab L.ws && L.nodes.toList.all fun nd =>
    match nd.ws with
    | none => true
    | some w => wsSafeTab tab w

/-! ## terminal values -/

/-- `Terminal.value`: the grammar literal for `StrMatch` and `KeywordMatch`, the matched text for `RegExMatch` -/
def termValue (toks : Array Tok) (input : Array Char) (node pos len : Nat) : List Char :=
  match toks[node]? with
  | some (.str lit _) => lit
  | some (.kw lit) => lit
  | _ => slice input pos len

mutual
/-- terminals of a parse tree in text order: (node, position, length) -/
def leaves : Val → List (Nat × Nat × Nat)
  | .none => []
  | .term n p l => [(n, p, l)]
  | .nt _ ks => leavesList ks
  | .list vs => leavesList vs
def leavesList : List Val → List (Nat × Nat × Nat)
  | [] => []
  | v :: vs => leaves v ++ leavesList vs
end

def _root_.Peg.Outcome.leaves : Outcome → Option (List (Nat × Nat × Nat))
  | .tree v => some (Peg.Case.leaves v)
  | _ => none

/-- the values of all terminals of a tree -/
def values (toks : Array Tok) (input : Array Char) (v : Val) : List (List Char) :=
  (leaves v).map fun (n, p, l) => termValue toks input n p l

/-! ## how textX decides the flags (`textx/lang.py`, `visit_str_match` / `visit_re_match`) -/

structure Cfg where
  ignoreCase : Bool
  autokwd : Bool
deriving Repr, DecidableEq

/-- a match literal of the grammar source -/
inductive Lit
  | str (s : List Char)      -- 'text' (after unescaping)
  | re (src : List Char)     -- /regex/
deriving Repr, DecidableEq

/-- a compiled regex object (`re.Pattern`): its source and whether it carries `re.IGNORECASE` -/
structure Compiled where
  pattern : List Char
  ic : Bool
deriving Repr, DecidableEq

/-- the `Match` object the visitor creates; regex-based ones carry the compiled object `self.regex`, which is
what `_parse` matches with -/
inductive MatchObj
  | strMatch (toMatch : List Char) (ignoreCase : Bool)
  | regexMatch (pattern : List Char) (ignoreCase : Bool) (regex : Compiled)
  | keywordMatch (toMatch pattern : List Char) (ignoreCase : Bool) (regex : Compiled)
deriving Repr, DecidableEq

/-- `self.keyword_regex.match(to_match)` with `span() == (0, len(to_match))` for `[^\d\W]\w*`:
a word character that is not a digit, then word characters only -/
def kwdLike (isWord isDigit : Char → Bool) : List Char → Bool
  | [] => false
  | c :: cs => isWord c && !isDigit c && cs.all isWord

/-- Python's `re` cache behind `re.compile(pattern, flags)` (process-wide; survives meta-models): keyed by the
pattern *and* the flags.  (Eviction only removes entries; every statement below holds for any cache
satisfying `CacheOk`.) -/
abbrev ReCache := List ((List Char × Bool) × Compiled)

/-- `RegExMatch.compile`: `flags |= re.IGNORECASE` iff `ignore_case`, then `re.compile(to_match_regex, flags)` -/
def reCompile (c : ReCache) (pat : List Char) (ic : Bool) : ReCache × Compiled :=
  match c.lookup (pat, ic) with
  | some r => (c, r)
  | none => (((pat, ic), ⟨pat, ic⟩) :: c, ⟨pat, ic⟩)

/-- `visit_str_match` / `visit_re_match` for one literal, in a process whose regex cache is `c` -/
def compileLitS (isWord isDigit : Char → Bool) (cfg : Cfg) (c : ReCache) : Lit → ReCache × MatchObj
  | .str s =>
      if cfg.autokwd && kwdLike isWord isDigit s then
        ((reCompile c (s ++ ['\\', 'b']) cfg.ignoreCase).1,
          .keywordMatch s (s ++ ['\\', 'b']) cfg.ignoreCase (reCompile c (s ++ ['\\', 'b']) cfg.ignoreCase).2)
      else (c, .strMatch s cfg.ignoreCase)
  | .re src =>
      ((reCompile c src cfg.ignoreCase).1, .regexMatch src cfg.ignoreCase (reCompile c src cfg.ignoreCase).2)

/-- the same without any history (a fresh process) -/
def compileLit (isWord isDigit : Char → Bool) (cfg : Cfg) : Lit → MatchObj
  | .str s =>
      if cfg.autokwd && kwdLike isWord isDigit s then
        .keywordMatch s (s ++ ['\\', 'b']) cfg.ignoreCase ⟨s ++ ['\\', 'b'], cfg.ignoreCase⟩
      else .strMatch s cfg.ignoreCase
  | .re src => .regexMatch src cfg.ignoreCase ⟨src, cfg.ignoreCase⟩

/-- the flag the object's `_parse` really works with: `StrMatch.ignore_case`, resp. the flags of the compiled
`self.regex` -/
def MatchObj.ignoreCase : MatchObj → Bool
  | .strMatch _ ic => ic
  | .regexMatch _ _ r => r.ic
  | .keywordMatch _ _ _ r => r.ic

/-- constructing one meta-model: all literals of its grammar(s), in order, threading the cache -/
def buildMM (isWord isDigit : Char → Bool) (c : ReCache) (cfg : Cfg) : List Lit → ReCache × List MatchObj
  | [] => (c, [])
  | l :: ls =>
      let r := compileLitS isWord isDigit cfg c l
      let rs := buildMM isWord isDigit r.1 cfg ls
      (rs.1, r.2 :: rs.2)

/-- a history of meta-model constructions in one process -/
def buildAll (isWord isDigit : Char → Bool) (c : ReCache) : List (Cfg × List Lit) → ReCache
  | [] => c
  | (cfg, lits) :: rest => buildAll isWord isDigit (buildMM isWord isDigit c cfg lits).1 rest

/-- every cached object is what `re.compile` yields for its own key -/
def CacheOk (c : ReCache) : Prop := ∀ k r, (k, r) ∈ c → r = ⟨k.1, k.2⟩

end Peg.Case
