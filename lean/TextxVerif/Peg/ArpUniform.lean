import TextxVerif.Peg.Arp
/-! Executable recogniser of the class of parser models for which memoization is proved transparent
(`Peg.UniformAt`, Proofs/ArpSimAt.lean; soundness: `Peg.uniformAtB_sound`).  Core Lean only: used by the driver. -/
namespace Peg

/-- no comment model, no `eolterm`, and every `ws` / `skipws` modifier restates the context `(sk, w)` -/
def uniformAtB (g : Grammar) (sk : Bool) (w : List Char) : Bool :=
  g.comments.isNone &&
  g.nodes.all fun nd =>
    (match nd.ws with | .none => true | some w' => w' == w) &&
    (match nd.skipws with | .none => true | some b => b == sk) && !nd.eolterm

end Peg
