import TextxVerif.Peg.Arp
/-!
# Gap extension (C22)

Definitions used by the C22 theorems and by the `PegWs` driver: inserting
characters into the input at one place (`extendGap`), the induced position
shift on parse trees and failure positions, and the decidable side conditions
of the invariance theorem (`modesSkipB`, `tokCompatB`).

The token tables are an *input* of the mirror (`Grammar.toks`), so the relation
between the tables of the original and of the extended input is a hypothesis:
`TokCompat` says that no terminal consumes or inspects the material around the
insertion point (DESIGN.md C22 "Reading": `LexicalGrammar`).

Core Lean only.
-/
namespace Peg

/-- the input with `ins` inserted in front of position `p` -/
def extendGap (inp : Array Char) (p : Nat) (ins : List Char) : Array Char :=
  (inp.toList.take p ++ ins ++ inp.toList.drop p).toArray

/-- position shift caused by inserting `k` characters in front of position `p`:
a token that starts at `q ≥ p` starts at `q + k` afterwards -/
def sh (p k q : Nat) : Nat := if q < p then q else q + k

mutual
/-- a parse tree with every terminal position mapped by `f` -/
def Val.shift (f : Nat → Nat) : Val → Val
  | .none => .none
  | .term n q l => .term n (f q) l
  | .nt n ks => .nt n (Val.shiftList f ks)
  | .list vs => .list (Val.shiftList f vs)
def Val.shiftList (f : Nat → Nat) : List Val → List Val
  | [] => []
  | v :: vs => v.shift f :: Val.shiftList f vs
end

/-- the whitespace skipping of `Match.parse`, with the fuel `skipWs` gives it -/
def skipTo (inp : Array Char) (ws : List Char) (q : Nat) : Nat :=
  skipWsFrom inp ws (inp.size + 1 - q) q

/-- every whitespace mode that can be in force anywhere in the parser model
skips all the characters of `ins`: no `noskipws`, every `ws=` set contains them,
and `eolterm` repetitions occur only if `ins` has no end-of-line character -/
def Node.skipsAll (ins : List Char) (nd : Node) : Bool :=
  (match nd.ws with | some w => ins.all (· ∈ w) | .none => true) &&
  (nd.skipws != some false) &&
  (!nd.eolterm || (!ins.contains '\n' && !ins.contains '\r'))

def modesSkipB (g : Grammar) (ins : List Char) : Bool := g.nodes.all (Node.skipsAll ins)

/-- no whitespace-changing modifier at all: one mode for the whole parse -/
def uniformB (g : Grammar) : Bool :=
  g.nodes.all fun nd => nd.ws.isNone && nd.skipws.isNone && !nd.eolterm

/-- Table compatibility at one (token, position): the token matches the same
length at the shifted position of the extended input, and a match that starts
in front of the insertion point ends in front of it. -/
def tokCompatAt (g g' : Grammar) (p k t q : Nat) : Bool :=
  tokLen g' t (sh p k q) == tokLen g t q &&
  (match tokLen g t q with
   | some len => decide (p ≤ q) || decide (q + len ≤ p)
   | .none => true)

/-- `tokCompatAt` for every token row and every position of the original input -/
def tokCompatB (g g' : Grammar) (p k : Nat) : Bool :=
  (List.range (max g.toks.size g'.toks.size)).all fun t =>
    (List.range (g.input.size + 1)).all fun q => tokCompatAt g g' p k t q

/-- the token rows are not longer than the input allows (so no token "matches" beyond the end) -/
def rowsOkB (g : Grammar) : Bool := g.toks.all fun row => decide (row.size ≤ g.input.size + 1)

/-- the grammar run on the extended input with the token tables `toks'` -/
def Grammar.ext (g : Grammar) (p : Nat) (ins : List Char) (toks' : Array (Array (Option Nat))) : Grammar :=
  { g with input := extendGap g.input p ins, toks := toks' }

/-- all decidable side conditions of `C22_partial_ws` for extending the input of `g` at `p` by `ins` -/
def gapExtOkB (g : Grammar) (p : Nat) (ins : List Char) (toks' : Array (Array (Option Nat)))
    (skipws : Bool) (ws : List Char) : Bool :=
  !g.memo && decide (p ≤ g.input.size) && skipws && ins.all (· ∈ ws) && modesSkipB g ins &&
  rowsOkB g && rowsOkB (g.ext p ins toks') && tokCompatB g (g.ext p ins toks') p ins.length

def Outcome.shift (f : Nat → Nat) : Outcome → Outcome
  | .tree v => .tree (v.shift f)
  | .noMatch q => .noMatch (f q)
  | o => o

end Peg
