/-!
# Mirror of Arpeggio's PEG interpreter (arpeggio/__init__.py, version 2.0.3)

textX compiles a grammar into an Arpeggio *parser model*: a graph of
`ParsingExpression` objects.  This file mirrors, statement by statement, the
`parse` / `_parse` methods of the expression classes textX uses (`StrMatch`,
`RegExMatch`, `EndOfFile`, `Sequence`, `OrderedChoice`, `Optional`,
`ZeroOrMore`, `OneOrMore`, `UnorderedGroup`, `And`, `Not`), `Match.parse` with
whitespace / comment skipping and the `comment_positions` cache, the `ws` /
`eolterm` property setters of `Parser`, the furthest-failure record (`nm`) and
memoization (`_result_cache`, keyed by position only).

The parser model is a table of nodes (`Grammar.nodes`), children by index, so
shared sub-expressions and recursion are represented as in Python (object
identity = index).  Token matching itself (string comparison, `re.match`) is a
parameter: `Grammar.toks[t][pos]` is the length matched by token `t` at `pos`.

Things that make Arpeggio differ from textbook PEG and are mirrored here:
* results are three-valued (None / falsy list / truthy): `Sequence` keeps only
  truthy results, `OrderedChoice` takes an alternative iff its result
  `is not None` and does **not** reset the position after a `None` success,
  repetitions stop at the first falsy iteration, a list headed by `None` and
  suppressed results become `None`;
* a separator that matched stays in the result list even when the element
  after it fails and the position is backtracked;
* `parser.ws = old_ws` restores the *effective* set, so a `ws` rule modifier
  used inside an `eolterm` repetition leaves `_real_ws` without newlines;
* the comment cache and the memo cache are keyed by position only.

Core Lean only.  Everything is total.  Structure (chosen so that proofs are modular): the
loops of the `_parse` methods are ordinary functions that take the sub-parser
`p : Nat → PState → Res × PState` ("parse child node `e` in state `s`") as a parameter —
list loops recurse on the list, `while` loops on their own fuel — and `parse` itself is the only
function recursive on the global fuel: `parse g (n+1)` runs the node's `_parse` with `p := parse g n`.
-/
namespace Peg

inductive Kind
  | str | re | eof | seq | choice | opt | star | plus | unord | andP | notP
deriving DecidableEq, Repr, Inhabited

/-- one `ParsingExpression` object -/
structure Node where
  kind : Kind
  kids : List Nat := []
  tok : Nat := 0                       -- index into `Grammar.toks` (str / re)
  ws : Option (List Char) := none      -- Sequence.ws
  skipws : Option Bool := none         -- Sequence.skipws
  root : Bool := false
  rule : String := ""
  suppress : Bool := false
  sep : Option Nat := none             -- Repetition.sep
  eolterm : Bool := false              -- Repetition.eolterm
deriving Repr, Inhabited

structure Grammar where
  nodes : Array Node
  comments : Option Nat                -- parser.comments_model
  memo : Bool                          -- parser.memoization
  input : Array Char
  toks : Array (Array (Option Nat))    -- toks[t][pos] = matched length

/-- parse results with Python's nesting (truthiness depends on it) -/
inductive Val
  | none                                        -- None
  | term (node : Nat) (pos : Nat) (len : Nat)   -- Terminal(rule=node, position, value of that length)
  | nt (node : Nat) (kids : List Val)           -- NonTerminal(rule=node, flattened nodes)
  | list (vs : List Val)                        -- plain Python list
deriving Repr, Inhabited

def Val.truthy : Val → Bool
  | .none => false
  | .list [] => false
  | .nt _ [] => false        -- NonTerminal is a list subclass
  | _ => true

mutual
/-- `arpeggio.flatten`: recurse into plain lists only (not into NonTerminals) -/
def Val.flatten : Val → List Val
  | .list vs => Val.flattenList vs
  | v => [v]
def Val.flattenList : List Val → List Val
  | [] => []
  | v :: vs => Val.flatten v ++ Val.flattenList vs
end

structure PState where
  pos : Nat
  skipws : Bool
  ws : List Char                       -- parser._ws (effective set)
  realWs : List Char                   -- parser._real_ws
  eolterm : Bool                       -- parser._eolterm
  commentPos : List (Nat × Nat) := []  -- parser.comment_positions
  nm : Option Nat := none              -- parser.nm.position (furthest failure)
  inComments : Bool := false           -- parser.in_parse_comments
  cache : List ((Nat × Nat) × (Option Val × Nat)) := []   -- (node, pos) ↦ (result | NOMATCH, new pos)
deriving Repr, Inhabited

def stripEol (ws : List Char) : List Char := ws.filter (fun c => c != '\n' && c != '\r')

/-- `Parser.ws` setter -/
def PState.setWs (s : PState) (v : List Char) : PState :=
  { s with realWs := v, ws := if s.eolterm then stripEol v else v }

/-- `Parser.eolterm` setter -/
def PState.setEolterm (s : PState) (b : Bool) : PState :=
  { s with eolterm := b, ws := if b then stripEol s.ws else s.realWs }

/-- `Parser._nm_raise` (the position part of it) -/
def PState.nmRaise (s : PState) (pos : Nat) : PState :=
  if s.nm.isNone || !s.inComments then
    match s.nm with
    | .none => { s with nm := some pos }
    | some p => if pos > p then { s with nm := some pos } else s
  else s

inductive Res
  | ok (v : Val)
  | nomatch
  | fuel            -- the mirror ran out of fuel (Python would still be running)
  | bad             -- malformed parser model (dangling index)
deriving Repr, Inhabited

/-- result of the inner `for` loop of `UnorderedGroup._parse` -/
inductive ForRes
  | hit (v : Val) (e : Nat)     -- element `e` matched with the truthy result `v` (`break`)
  | exhausted (mtch : Bool)     -- loop ran to its end; value of the variable `match`
  | fuel
  | bad
deriving Repr, Inhabited

/-- whitespace skipping loop of `Match.parse` / `_parse_comments` -/
def skipWsFrom (input : Array Char) (ws : List Char) : Nat → Nat → Nat
  | 0, pos => pos
  | f+1, pos =>
    if h : pos < input.size then
      if input[pos] ∈ ws then skipWsFrom input ws f (pos+1) else pos
    else pos

def skipWs (g : Grammar) (s : PState) : PState :=
  { s with pos := skipWsFrom g.input s.ws (g.input.size + 1 - s.pos) s.pos }

def tokLen (g : Grammar) (t pos : Nat) : Option Nat :=
  match g.toks[t]? with
  | some row => (row[pos]?).join
  | none => none

/-- post-processing in `ParsingExpression.parse` after `_parse` succeeded -/
def finish (id : Nat) (nd : Node) (v : Val) : Val :=
  let v := if nd.suppress then Val.none else
    match v with
    | .list (Val.none :: _) => Val.none
    | v => v
  if nd.root && v.truthy then
    match v with
    | .term .. => v
    | .nt .. => v
    | v => .nt id v.flatten
  else v

def lookupCache (s : PState) (id pos : Nat) : Option (Option Val × Nat) :=
  (s.cache.find? (fun e => e.1.1 == id && e.1.2 == pos)).map (·.2)

def remove (xs : List Nat) (x : Nat) : List Nat := xs.erase x

/-- the memoization prologue of `ParsingExpression.parse`: `some` = cache hit -/
def cacheHit (memo : Bool) (id : Nat) (s : PState) : Option (Res × PState) :=
  match (if memo then lookupCache s id s.pos else .none) with
  | some (some v, np) => some (.ok v, { s with pos := np })
  | some (.none, np) => some (.nomatch, { s with pos := np })          -- `raise parser.nm`
  | .none => .none

/-- the epilogue of `ParsingExpression.parse` applied to the outcome of `_parse`:
result post-processing, backtracking on NoMatch, and storing into `_result_cache` -/
def cacheStore (memo : Bool) (id : Nat) (nd : Node) (cpos : Nat) : Res × PState → Res × PState
  | (.ok v, s2) =>
      let v := finish id nd v
      let s2 := if memo then { s2 with cache := ((id, cpos), (some v, s2.pos)) :: s2.cache } else s2
      (.ok v, s2)
  | (.nomatch, s2) =>
      let s2 := { s2 with pos := cpos }
      let s2 := if memo then { s2 with cache := ((id, cpos), (.none, cpos)) :: s2.cache } else s2
      (.nomatch, s2)
  | r => r

/-- `ParsingExpression.parse` around an arbitrary `_parse` body -/
def wrap (memo : Bool) (id : Nat) (nd : Node) (body : PState → Res × PState) (s : PState) : Res × PState :=
  match cacheHit memo id s with
  | some r => r
  | .none => cacheStore memo id nd s.pos (body s)

/-- a sub-parser: "`e.parse(parser)` for the child with index `e`" -/
abbrev SubParser := Nat → PState → Res × PState

/-- `Sequence._parse` loop: keep truthy results only -/
def seqLoop (p : SubParser) : List Nat → PState → List Val → Res × PState
  | [], s, acc => (.ok (if acc.isEmpty then .none else .list acc.reverse), s)
  | e :: es, s, acc =>
    match p e s with
    | (.ok v, s2) => seqLoop p es s2 (if v.truthy then v :: acc else acc)
    | r => r

/-- `OrderedChoice._parse` loop -/
def choiceLoop (p : SubParser) : List Nat → Nat → PState → Res × PState
  | [], _, s => (.nomatch, s)
  | e :: es, cpos, s =>
    match p e s with
    | (.ok .none, s2) => choiceLoop p es cpos s2            -- None: not a match, position kept
    | (.ok v, s2) => (.ok (.list [v]), s2)
    | (.nomatch, s2) => choiceLoop p es cpos { s2 with pos := cpos }
    | r => r

/-- the `while True` loop of `ZeroOrMore._parse` / `OneOrMore._parse` (own fuel `k`).
`first` = OneOrMore that has not matched yet; `prev` = truthiness of the previous `result` -/
def repLoop (p : SubParser) (e : Nat) (sep : Option Nat) : Nat → PState → List Val → Bool → Bool → Res × PState
  | 0, s, _, _, _ => (.fuel, s)
  | k+1, s, acc, first, prev =>
    let cpos := s.pos
    -- separator only after a truthy previous result
    let sr : Res × PState × List Val :=
      match sep with
      | some sp =>
        if prev then
          match p sp s with
          | (.ok v, s') => (.ok .none, s', if v.truthy then v :: acc else acc)
          | (r, s') => (r, s', acc)
        else (.ok .none, s, acc)
      | .none => (.ok .none, s, acc)
    match sr with
    | (.ok _, s1, acc1) =>
      match p e s1 with
      | (.ok v, s2) =>
          if v.truthy then repLoop p e sep k s2 (v :: acc1) false true
          else (.ok (.list acc1.reverse), s2)                    -- `if not result: break`
      | (.nomatch, s2) =>
          if first then (.nomatch, { s2 with pos := cpos })
          else (.ok (.list acc1.reverse), { s2 with pos := cpos })
      | r => r
    | (.nomatch, s1, _) =>
        if first then (.nomatch, { s1 with pos := cpos })
        else (.ok (.list acc.reverse), { s1 with pos := cpos })
    | (r, s1, _) => (r, s1)

/-- the inner `for e in list(nodes_to_try)` loop of `UnorderedGroup._parse`; `mtch` is the variable `match` -/
def unordFor (p : SubParser) : List Nat → Nat → PState → Bool → Bool → ForRes × PState
  | [], _, s, _, mtch => (.exhausted mtch, s)
  | e :: es, posLoc, s, sepExc, mtch =>
    match p e s with
    | (.ok v, s2) =>
        if v.truthy then
          if sepExc then unordFor p es posLoc { s2 with pos := posLoc } sepExc false   -- `raise sep_exc`
          else (.hit v e, s2)
        else unordFor p es posLoc s2 sepExc mtch
    | (.nomatch, s2) => unordFor p es posLoc { s2 with pos := posLoc } sepExc false
    | (.fuel, s2) => (.fuel, s2)
    | (.bad, s2) => (.bad, s2)

/-- `UnorderedGroup._parse`: the outer `while nodes_to_try` loop (own fuel `k`).
`sepRes` is the variable `sep_result`, which survives iterations. -/
def unordLoop (p : SubParser) (sep : Option Nat) : Nat → List Nat → PState → List Val → Bool → Option Val →
    Res × PState
  | 0, _, s, _, _, _ => (.fuel, s)
  | _+1, [], s, acc, _, _ => (.ok (if acc.isEmpty then .none else .list acc.reverse), s)
  | k+1, todo, s, acc, first, sepRes =>
    let posSep := s.pos
    -- separator
    let sr : Res × PState × Bool × Option Val :=
      match sep with
      | some sp =>
        if !first then
          match p sp s with
          | (.ok v, s') => (.ok .none, s', false, some v)
          | (.nomatch, s') => (.ok .none, { s' with pos := posSep }, true, sepRes)
          | (r, s') => (r, s', false, sepRes)
        else (.ok .none, s, false, sepRes)
      | .none => (.ok .none, s, false, sepRes)
    match sr with
    | (.ok _, s1, sepExc, sepRes1) =>
      let posLoc := s1.pos
      match unordFor p todo posLoc s1 sepExc true with
      | (.hit v e, s2) =>
          -- an element matched with a truthy result: `break` out of the for loop
          let acc1 := match sepRes1 with
            | some sv => if sv.truthy then sv :: acc else acc
            | .none => acc
          unordLoop p sep k (remove todo e) s2 (v :: acc1) false sepRes1
      | (.exhausted true, s2) =>
          -- `match` still True, all optionals failed: success with what was collected
          (.ok (if acc.isEmpty then .none else .list acc.reverse), { s2 with pos := posSep })
      | (.exhausted false, s2) => (.nomatch, { s2 with pos := posSep })
      | (.fuel, s2) => (.fuel, s2)
      | (.bad, s2) => (.bad, s2)
    | (r, s1, _, _) => (r, s1)

/-- the `while True` loop of `Match._parse_comments` for the comment model `cm` (own fuel `k`) -/
def commentsIter (g : Grammar) (p : SubParser) (cm : Nat) : Nat → PState → Res × PState
  | 0, s => (.fuel, s)
  | k+1, s =>
    match p cm s with
    | (.ok _, s2) =>
        let s2 := if s2.skipws then skipWs g s2 else s2
        commentsIter g p cm k s2
    | (.nomatch, s2) => (.ok .none, s2)
    | r => r

/-- `Match._parse_comments` (own fuel `k`): `.ok` when the loop ended by a NoMatch of the comment model.
Without a comment model nothing happens (and no fuel is needed). -/
def commentsLoop (g : Grammar) (p : SubParser) (k : Nat) (s : PState) : Res × PState :=
  match g.comments with
  | .none => (.ok .none, s)
  | some cm => commentsIter g p cm k s

/-- `Match.parse`: whitespace, comments (with the position-keyed cache), then the match.
`pc` = the comment loop (`_parse_comments`). -/
def matchNode (g : Grammar) (pc : PState → Res × PState) (id : Nat) (nd : Node) (s : PState) : Res × PState :=
  let s := if s.skipws then skipWs g s else s
  let rs : Res × PState :=
    match (if s.skipws then s.commentPos.lookup s.pos else .none) with
    | some p => (.ok .none, { s with pos := p })
    | .none =>
      if s.inComments then (.ok .none, s) else
        let start := s.pos
        match pc { s with inComments := true } with
        | (.ok _, s2) =>
            let s2 := { s2 with inComments := false }
            (.ok .none, { s2 with commentPos := (start, s2.pos) :: s2.commentPos })
        | (r, s2) => (r, { s2 with inComments := false })
  match rs with
  | (.ok _, s) =>
    let cpos := s.pos
    match nd.kind with
    | .eof =>
        if g.input.size = cpos then (.ok (if nd.suppress then .none else .term id cpos 0), s)
        else (.nomatch, s.nmRaise cpos)
    | .str =>
        match tokLen g nd.tok cpos with
        | some len => (.ok (if nd.suppress then .none else .term id cpos len), { s with pos := cpos + len })
        | .none => (.nomatch, s.nmRaise cpos)
    | _ =>  -- regex: an empty match yields None
        match tokLen g nd.tok cpos with
        | some len =>
            (.ok (if nd.suppress || len = 0 then .none else .term id cpos len), { s with pos := cpos + len })
        | .none => (.nomatch, s.nmRaise cpos)
  | r => r

/-- `Sequence` / `OrderedChoice`: set the node's `ws` / `skipws`, run `body`, restore (the `finally` block) -/
def withWsCtx (nd : Node) (body : PState → Res × PState) (s : PState) : Res × PState :=
  let oldWs := s.ws
  let oldSkip := s.skipws
  let s1 := match nd.ws with | some w => s.setWs w | .none => s
  let s1 := match nd.skipws with | some b => { s1 with skipws := b } | .none => s1
  let (r, s2) := body s1
  let s2 := match nd.ws with | some _ => s2.setWs oldWs | .none => s2
  let s2 := match nd.skipws with | some _ => { s2 with skipws := oldSkip } | .none => s2
  (r, s2)

/-- repetitions: set `parser.eolterm`, run `body`, restore -/
def withEol (nd : Node) (body : PState → Res × PState) (s : PState) : Res × PState :=
  let old := s.eolterm
  let s1 := if nd.eolterm then s.setEolterm true else s
  let (r, s2) := body s1
  let s2 := if nd.eolterm then s2.setEolterm old else s2
  (r, s2)

/-- the `_parse` methods of the non-terminal expression classes; `k` = fuel for `while` loops -/
def bodyNode (p : SubParser) (k : Nat) (nd : Node) (s : PState) : Res × PState :=
  match nd.kind with
  | .seq =>
      let cpos := s.pos
      match withWsCtx nd (fun s1 => seqLoop p nd.kids s1 []) s with
      | (.nomatch, s2) => (.nomatch, { s2 with pos := cpos })
      | r => r
  | .choice =>
      let cpos := s.pos
      match withWsCtx nd (fun s1 => choiceLoop p nd.kids cpos s1) s with
      | (.nomatch, s2) => (.nomatch, s2.nmRaise cpos)
      | r => r
  | .opt =>
      let cpos := s.pos
      match nd.kids with
      | [e] =>
        match p e s with
        | (.ok v, s2) => (.ok (.list [v]), s2)
        | (.nomatch, s2) => (.ok .none, { s2 with pos := cpos })
        | r => r
      | _ => (.bad, s)
  | .star =>
      match nd.kids with
      | [e] => withEol nd (fun s1 => repLoop p e nd.sep k s1 [] false false) s
      | _ => (.bad, s)
  | .plus =>
      match nd.kids with
      | [e] => withEol nd (fun s1 => repLoop p e nd.sep k s1 [] true false) s
      | _ => (.bad, s)
  | .unord =>
      let cpos := s.pos
      match withEol nd (fun s1 => unordLoop p nd.sep k nd.kids s1 [] true .none) s with
      | (.nomatch, s2) => (.nomatch, ({ s2 with pos := cpos }).nmRaise cpos)
      | r => r
  | .andP =>
      let cpos := s.pos
      match nd.kids with
      | [e] =>
        match p e s with
        | (.ok _, s2) => (.ok .none, { s2 with pos := cpos })
        | (.nomatch, s2) => (.nomatch, { s2 with pos := cpos })
        | r => r
      | _ => (.bad, s)
  | .notP =>
      let cpos := s.pos
      match nd.kids with
      | [e] =>
        match p e s with
        | (.ok _, s2) => (.nomatch, ({ s2 with pos := cpos }).nmRaise cpos)
        | (.nomatch, s2) => (.ok .none, { s2 with pos := cpos })
        | r => r
      | _ => (.bad, s)
  | _ => (.bad, s)

/-- one node: `Match.parse` for terminals, `ParsingExpression.parse` (memo prologue, `_parse`,
epilogue) for the others; `p` parses children, `k` bounds `while` loops -/
def nodeParse (g : Grammar) (p : SubParser) (k : Nat) (id : Nat) (s : PState) : Res × PState :=
  match g.nodes[id]? with
  | .none => (.bad, s)
  | some nd =>
    match nd.kind with
    | .str | .re | .eof => matchNode g (commentsLoop g p k) id nd s
    | _ => wrap g.memo id nd (bodyNode p k nd) s

/-- `e.parse(parser)` for the node with index `id`, with global fuel -/
def parse (g : Grammar) : Nat → SubParser
  | 0 => fun _ s => (.fuel, s)
  | n+1 => fun id s => nodeParse g (parse g n) n id s

/-- initial parser state: `Parser.__init__` + `Parser.parse` -/
def initState (skipws : Bool) (ws : List Char) : PState :=
  { pos := 0, skipws := skipws, ws := ws, realWs := ws, eolterm := false }

/-- outcome of `parser.parse(input)` -/
inductive Outcome
  | tree (v : Val)
  | noMatch (pos : Nat)      -- NoMatch.position (furthest failure)
  | fuel
  | bad
deriving Repr, Inhabited

def run (g : Grammar) (top : Nat) (skipws : Bool) (ws : List Char) (fuel : Nat) : Outcome :=
  match parse g fuel top (initState skipws ws) with
  | (.ok v, _) => .tree v
  | (.nomatch, s) => .noMatch (s.nm.getD 0)
  | (.fuel, _) => .fuel
  | (.bad, _) => .bad

end Peg
