import TextxVerif.Peg.RecCheck
/-!
# `checkX`: the simulation checker with the context-dependent separator rule (C24)

Extension of `Peg/RecCheck.lean`; soundness in `Proofs/RecUnsep.lean`.
-/
namespace Rec
open Peg (Node Kind)

/-! ### the context-dependent rule: `x+[s]` against `(x s)* x`

`OneOrMore(z, sep=t)` and `Sequence[ZeroOrMore(Sequence[z, t]), z]` differ exactly when a separator
is followed by something that is not an element (the first gives the separator back, the second
fails).  `NoTrailingSep` excludes that situation for one repetition node and one lexer; under it the
two formulations are in simulation (rules `sepC` / `sepD` of `checkX`, soundness in
`Proofs/RecUnsep.lean`). -/

/-- **no trailing separator** at node `i = OneOrMore(k, sep=s)`: whenever the separator matches
right after an element, the element does not fail after it (for every position, comment flag and fuel) -/
def NoTrailingSep (g : Graph) (i : Nat) (L : Lex) : Prop :=
  ∀ nd k s, g.get i = some nd → nd.kids = [k] → nd.sep = some s →
    ∀ n₁ n₂ c p₀ v₀ q v₁ p₁, parse g L n₁ k c p₀ = .ok v₀ q → parse g L n₂ s c q = .ok v₁ p₁ →
      ∀ m, parse g L m k c p₁ ≠ .fail

/-- `b` is `Sequence[ZeroOrMore(Sequence[k', s']), k'']` (the formulation `(x sep)* x`): `(k', s', k'')` -/
def starThen (g : Graph) (b : Nat) : Option (Nat × Nat × Nat) :=
  match g.get b with
  | some nb =>
    if transparentSeq nb then
      match nb.kids with
      | [st, k''] =>
        match starSepBody g st with
        | some (k', s') => some (k', s', k'')
        | none => none
      | _ => none
    else none
  | none => none

/-- `OneOrMore(z, sep=t)` on the left against `(k' s')* k''` on the right -/
def sepC (s₁ s₂ : Side) (d : Nat) (R : Rel) (a b : Nat) : Bool :=
  match plusSep s₁.g a, starThen s₂.g b with
  | some (z, t), some (k', s', k'') =>
    onlyT s₁.sh z && onlyT s₁.sh t && onlyT s₂.sh k' && onlyT s₂.sh s' && onlyT s₂.sh k'' &&
    inR s₁ s₂ d R z k' && inR s₁ s₂ d R z k'' && inR s₁ s₂ d R t s'
  | _, _ => false

/-- `(k' s')* k''` on the left against `OneOrMore(z, sep=t)` on the right -/
def sepD (s₁ s₂ : Side) (d : Nat) (R : Rel) (a b : Nat) : Bool :=
  match starThen s₁.g a, plusSep s₂.g b with
  | some (k', s', k''), some (z, t) =>
    onlyT s₁.sh k' && onlyT s₁.sh s' && onlyT s₁.sh k'' &&
    inR s₁ s₂ d R k' z && inR s₁ s₂ d R k'' z && inR s₁ s₂ d R s' t
  | _, _ => false

/-! ### the instrumented graph: a trailing separator makes the run diverge

`trapNode g i` replaces the separator `s` of `i = OneOrMore(k, sep=s)` by the *guarded* separator
`Sequence[s, And(OrderedChoice[k, ω])]` with `ω = Sequence[ω]` (a node that never terminates): the
guarded separator behaves like `s` when an element follows it, and the whole run runs out of fuel
(for every fuel) when it does not.  `∃ n, parse (trap g is) L n top false 0 ≠ .fuel` therefore says:
*the actual run of `g` on this input meets no trailing separator at the nodes `is`* — only the positions
the parser really visits count. -/

def trapNode (g : Graph) (i : Nat) : Graph :=
  match g.get i with
  | some nd =>
    match nd.kind, nd.kids, nd.sep with
    | .plus, [k], some s =>
      let n := g.size
      { g with
        size := n + 4
        node := fun j =>
          if j = i then some { nd with sep := some n }
          else if j = n then some { kind := .seq, kids := [s, n + 1] }
          else if j = n + 1 then some { kind := .andP, kids := [n + 2] }
          else if j = n + 2 then some { kind := .choice, kids := [k, n + 3] }
          else if j = n + 3 then some { kind := .seq, kids := [n + 3] }
          else g.get j }
    | _, _, _ => g
  | none => g

def trap (g : Graph) (is : List Nat) : Graph := is.foldl trapNode g

def kidsOf (g : Graph) (a : Nat) : List Nat :=
  match g.get a with
  | some nd => nd.kids
  | none => []

/-- the node ids of a guarded separator `a = Sequence[t, an]`, `an = And(ch)`, `ch = OrderedChoice[z, w]` -/
def guardParts (g : Graph) (a : Nat) : Option (Nat × Nat × Nat × Nat × Nat) :=
  match kidsOf g a with
  | [t, an] =>
    (match kidsOf g an with
     | [ch] =>
       (match kidsOf g ch with
        | [z, w] => some (t, an, ch, z, w)
        | _ => none)
     | _ => none)
  | _ => none

/-- `a = Sequence[t, And(OrderedChoice[z, w])]` with `w = Sequence[w]` -/
def isGuard (g : Graph) (a t an ch z w : Nat) : Bool :=
  (match g.get a with
   | some nd => transparentSeq nd && nd.kids == [t, an]
   | none => false) &&
  (match g.get an with
   | some nd => nd.kind == .andP && supported nd && !nd.suppress && nd.kids == [ch]
   | none => false) &&
  (match g.get ch with
   | some nd => nd.kind == .choice && supported nd && !nd.suppress && nd.kids == [z, w]
   | none => false) &&
  (match g.get w with
   | some nd => transparentSeq nd && nd.kids == [w]
   | none => false)

/-- well-formedness that excludes the result `.bad` -/
def wfNode (g : Graph) (nd : Node) : Bool :=
  supported nd && nd.kids.all (fun k => decide (k < g.size)) &&
  (match nd.sep with
   | some s => decide (s < g.size)
   | none => true) &&
  (match nd.kind with
   | .opt | .star | .plus | .andP | .notP => nd.kids.length == 1
   | .unord => false
   | _ => true)

def noBadB (g : Graph) : Bool :=
  (match g.comments with
   | some c => decide (c < g.size)
   | none => true) &&
  (List.range g.size).all fun a =>
    match g.get a with
    | some nd => wfNode g nd
    | none => false

/-- guarded separator on the left against the plain separator `b` on the right -/
def guardC (s₁ s₂ : Side) (d : Nat) (R : Rel) (a b : Nat) : Bool :=
  match guardParts s₁.g a with
  | some (t, an, ch, z, w) =>
    isGuard s₁.g a t an ch z w && onlyT s₁.sh t && onlyT s₁.sh z && noBadB s₁.g &&
    decide (z < s₁.g.size) && inR s₁ s₂ d R t b
  | none => false

/-- node `i` is `OneOrMore(z, sep=G)` with `G` a guarded separator whose lookahead is `z` itself -/
def trapOk (s : Side) (i : Nat) : Bool :=
  match plusSep s.g i with
  | some (z, G) =>
    (match guardParts s.g G with
     | some (t, an, ch, z', w) => isGuard s.g G t an ch z' w && z' == z && onlyT s.sh t && onlyT s.sh z
     | none => false)
  | none => false

/-- `okPair` with exceptional pairs: those in `exC` / `exD` are justified by `sepC` / `sepD`
(sound only under `NoTrailingSep` for the repetition node of the pair); `guardC` is an ordinary rule -/
def okPairX (s₁ s₂ : Side) (H : Hyps) (d : Nat) (R : Rel) (exC exD : List (Nat × Nat)) (a b : Nat) : Bool :=
  if exC.contains (a, b) then sepC s₁ s₂ d R a b
  else if exD.contains (a, b) then sepD s₁ s₂ d R a b
  else okPair s₁ s₂ H d R a b || guardC s₁ s₂ d R a b

/-- `check` with the exceptional pairs `exC` (repetition node on the left) and `exD` (on the right) -/
def checkX (s₁ s₂ : Side) (H : Hyps) (d : Nat) (R : Rel) (exC exD : List (Nat × Nat)) : Bool :=
  s₁.g.ws == s₂.g.ws && s₁.g.skipws == s₂.g.skipws &&
  (match s₁.g.comments, s₂.g.comments with
   | none, none => true
   | some c₁, some c₂ => inR s₁ s₂ d R c₁ c₂
   | _, _ => false) &&
  inR s₁ s₂ d R s₁.g.top s₂.g.top &&
  (List.range s₁.g.size).all fun a => (R a).all fun b => okPairX s₁ s₂ H d R exC exD a b

/-- identity relation on the first `n` nodes -/
def idRel (n : Nat) : Rel := fun a => if a < n then [a] else []

/-! ### executable forms of the hypotheses (driver, non-vacuity examples) -/

def Res.isOk : Res → Bool
  | .ok _ _ => true
  | _ => false

/-- sufficient condition for `NoTrailingSep g i L` when the separator is a string match: the element
succeeds (fuel `F`) at every position in `ends`, the list of all end positions of the separator token -/
def noTrailEndsB (g : Graph) (i : Nat) (L : Lex) (F : Nat) (ends : List Nat) : Bool :=
  match g.get i with
  | some nd =>
    match nd.kids, nd.sep with
    | [k], some s =>
      (match g.get s with
       | some ns => ns.kind == .str && supported ns
       | none => false) &&
      ends.all fun e => [false, true].all fun c => (parse g L F k c e).isOk
    | _, _ => true
  | none => true

/-- token of the separator of repetition node `i` (0 when `i` is not such a node) -/
def sepTok (g : Graph) (i : Nat) : Nat :=
  match g.get i with
  | some nd =>
    (match nd.sep with
     | some s =>
       (match g.get s with
        | some ns => ns.tok
        | none => 0)
     | none => 0)
  | none => 0

/-- bounded evaluation of `NoTrailingSep g i L`: all start positions `0 … |input|`, fuel `F` -/
def noTrailScanB (g : Graph) (i : Nat) (L : Lex) (F : Nat) : Bool :=
  match g.get i with
  | some nd =>
    match nd.kids, nd.sep with
    | [k], some s =>
      (List.range (L.input.size + 1)).all fun p₀ => [false, true].all fun c =>
        match parse g L F k c p₀ with
        | .ok _ q =>
          (match parse g L F s c q with
           | .ok _ p₁ => parse g L F k c p₁ != .fail
           | _ => true)
        | _ => true
    | _, _ => true
  | none => true

/-- a lexer given by a finite table of `(token, position, length)` entries -/
def Lex.ofTable (input : Array Char) (tbl : List (Nat × Nat × Nat)) : Lex :=
  { input := input
    tok := fun t p => match tbl.find? (fun e => e.1 == t && e.2.1 == p) with
      | some e => some e.2.2
      | none => none }

/-- end positions of token `t` in a table -/
def tableEnds (tbl : List (Nat × Nat × Nat)) (t : Nat) : List Nat :=
  (tbl.filter fun e => e.1 == t).map fun e => e.2.1 + e.2.2

/-- `LexOk H (Lex.ofTable input tbl)`, decided on the table -/
def lexOkTable (H : Hyps) (input : Array Char) (tbl : List (Nat × Nat × Nat)) : Bool :=
  (tbl.all fun e => !H.nonempty.contains e.1 || decide (0 < e.2.2)) &&
  (tbl.all fun e => H.alts.all fun ta =>
    (Lex.ofTable input tbl).tok ta.1 e.2.1 == firstTok (Lex.ofTable input tbl) e.2.1 ta.2)

end Rec
