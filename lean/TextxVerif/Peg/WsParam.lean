/-!
# Rule modifiers as written in a grammar → whitespace mode of the rule (C22)

Mirror of `textx/lang.py` `TextXVisitor.visit_rule_param` / `visit_rule_params` (the `skipws` / `noskipws` /
`ws='…'` part; `split` has nothing to do with whitespace) — the code that decides which characters the
*active whitespace set* of a rule consists of.  Core Lean only.

```python
def visit_rule_param(self, node, children):          # `noskipws` → ("skipws", False), `skipws` → ("skipws", True)
    ...
def visit_rule_params(self, node, children):
    for name, value in children:
        ...
        if name == "ws" and "\\" in value:
            new_value = ""
            if "\\n" in value: new_value += "\n"
            if "\\r" in value: new_value += "\r"
            if "\\t" in value: new_value += "\t"
            if " " in value:   new_value += " "
            # Characters given literally are whitespaces as well.      (fix: … literal characters …)
            value = new_value + re.sub(r"\\[nrt]| ", "", value)
        params[name] = value
```
The value of `ws` is the text between the quotes of the grammar's string literal (`visit_string_value`).
-/
namespace Peg

/-- `a + b in value` for a two-character pattern (`"\\n" in value`) -/
def hasPair (a b : Char) : List Char → Bool
  | x :: y :: tl => (x == a && y == b) || hasPair a b (y :: tl)
  | _ => false

/-- `re.sub(r"\\[nrt]| ", "", value)`: leftmost non-overlapping scan that drops the three escape sequences
and the blank and keeps every other character -/
def stripEsc : List Char → List Char
  | [] => []
  | [x] => if x == ' ' then [] else [x]
  | x :: y :: tl =>
    if x == '\\' && (y == 'n' || y == 'r' || y == 't') then stripEsc tl
    else if x == ' ' then stripEsc (y :: tl)
    else x :: stripEsc (y :: tl)

/-- `visit_rule_params`: the whitespace set denoted by the written `ws` value -/
def wsParam (cs : List Char) : List Char :=
  if cs.contains '\\' then
    (if hasPair '\\' 'n' cs then ['\n'] else []) ++ (if hasPair '\\' 'r' cs then ['\r'] else []) ++
    (if hasPair '\\' 't' cs then ['\t'] else []) ++ (if cs.contains ' ' then [' '] else []) ++ stripEsc cs
  else cs

/-- one rule parameter as written: `skipws`, `noskipws`, `ws='…'` -/
inductive ParamSrc where
  | flag (name : String)
  | ws (raw : List Char)
  deriving Repr, DecidableEq

/-- the whitespace part of the `params` dict of `visit_rule_params` -/
structure RuleMods where
  skipws : Option Bool := none
  ws : Option (List Char) := none
  deriving Repr, DecidableEq

/-- `visit_rule_param` + the loop of `visit_rule_params` (`params[name] = value`: the last one wins);
`none` for a flag the visitor rejects (`Invalid rule param`) -/
def ruleMods : List ParamSrc → RuleMods → Option RuleMods
  | [], m => some m
  | .flag "skipws" :: tl, m => ruleMods tl { m with skipws := some true }
  | .flag "noskipws" :: tl, m => ruleMods tl { m with skipws := some false }
  | .flag _ :: _, _ => none
  | .ws raw :: tl, m => ruleMods tl { m with ws := some (wsParam raw) }

/-! ## how a whitespace set is written -/

/-- one element of a written `ws` value: one of the three escape sequences or a character given literally -/
inductive WsItem where
  | escN | escR | escT
  | lit (c : Char)
  deriving Repr, DecidableEq

/-- the characters written in the grammar -/
def WsItem.spell : WsItem → List Char
  | .escN => ['\\', 'n']
  | .escR => ['\\', 'r']
  | .escT => ['\\', 't']
  | .lit c => [c]

/-- the whitespace character meant -/
def WsItem.denotes : WsItem → Char
  | .escN => '\n'
  | .escR => '\r'
  | .escT => '\t'
  | .lit c => c

def spellWs : List WsItem → List Char
  | [] => []
  | i :: tl => i.spell ++ spellWs tl

/-- a backslash cannot be written literally (it would start an escape sequence) -/
def WellSpelled (is : List WsItem) : Prop := ∀ c, WsItem.lit c ∈ is → c ≠ '\\'

end Peg
