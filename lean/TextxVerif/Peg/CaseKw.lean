import TextxVerif.Peg.Case
import TextxVerif.Kwd
/-!
# Keyword matches of `autokwd` inside the Arpeggio mirror (C20 / C21)

`Peg/Case.lean` leaves the regex engine a parameter `rx`.  This file plugs the Lean regex
engine `Re.m` (the one C04 / C21 tie to Python's `re`) in for the patterns whose AST is
known:

* `stAt` / `reRx`: `regex.match(input, pos)` computed by `Re.pyMatch` at a position of the
  input array (the character before the position is what `\b` looks at);
* `kwRx`: the engine of a meta-model with `autokwd`: tokens that come from keyword-like
  string literals are matched by `keyword\b` (`Kwd.kwRe`), everything else by a given
  engine `rx0`;
* `Lang.autokwd`: what `autokwd=True` changes in the parser model: the `StrMatch` of a
  keyword-like literal becomes a `KeywordMatch` (a regex match node whose terminal value is
  still the grammar literal).  `visit_str_match` (`textx/lang.py`); tied to the real parser
  models by the C20 correspondence (`autokwd_model` check).
Core Lean only.
-/
namespace Peg.Case
open Re

/-- position `pos` of `input` as the regex engine sees it: previous character and rest -/
def stAt (input : Array Char) (pos : Nat) : St :=
  (if pos = 0 then none else input[pos - 1]?, input.toList.drop pos)

/-- `regex.match(input, pos)` for the pattern `r`, by the Lean regex engine: length of `m.group()` -/
def reRx (cc : CharClasses) (r : R) (input : Array Char) (pos : Nat) : Option Nat :=
  pyMatch cc r (stAt input pos).1 (stAt input pos).2

/-- `autokwd` on one token: a keyword-like string literal is compiled to a `KeywordMatch` -/
def autokwdTok (cc : CharClasses) (ic : Bool) : Tok → Tok
  | .str l i => if Kwd.isKeywordLike cc ic l then .kw l else .str l i
  | t => t

/-- the token is a keyword-like string literal -/
def isKwTok (cc : CharClasses) (ic : Bool) : Option Tok → Bool
  | some (.str l _) => Kwd.isKeywordLike cc ic l
  | _ => false

/-- `autokwd` on one node of the parser model: the `StrMatch` object of a keyword-like literal is a
regex match object instead (`KeywordMatch(RegExMatch)`) -/
def autokwdNode (cc : CharClasses) (ic : Bool) (toks : Array Tok) (nd : Node) : Node :=
  if nd.kind = .str && isKwTok cc ic toks[nd.tok]? then { nd with kind := .re } else nd

/-- the parser model of the same grammar with `autokwd=True` (`L` = the model with `autokwd=False`) -/
def Lang.autokwd (cc : CharClasses) (ic : Bool) (L : Lang) : Lang :=
  { L with nodes := L.nodes.map (autokwdNode cc ic L.toks), toks := L.toks.map (autokwdTok cc ic) }

/-- the regex engine of the `autokwd` meta-model: keyword matches run `keyword\b` (with IGNORECASE iff
`ic`) on the Lean engine, all other regex tokens are those of `rx0`.  `toks` = the tokens *before* autokwd. -/
def kwRx (cc : CharClasses) (ic : Bool) (toks : Array Tok) (rx0 : Rx) : Rx := fun i inp p =>
  if isKwTok cc ic toks[i]? then
    match toks[i]? with
    | some (.str l _) => reRx cc (Kwd.kwRe ic l) inp p
    | _ => rx0 i inp p
  else rx0 i inp p

/-- the meta-model has one `ignore_case` value: all its string literals carry it -/
def UniformIc (ic : Bool) (toks : Array Tok) : Prop := ∀ (i : Nat) l ic', toks[i]? = some (Tok.str l ic') → ic' = ic

def uniformIc (ic : Bool) (toks : Array Tok) : Bool :=
  toks.toList.all fun t => match t with | .str _ ic' => ic' == ic | _ => true

/-- no keyword-like literal of the grammar occurs in the input immediately followed by a word character
(at any position, up to case under `ignore_case`) -/
def NoGluedKeywordIn (cc : CharClasses) (ic : Bool) (toks : Array Tok) (inp : Array Char) : Prop :=
  ∀ (i : Nat) l ic', toks[i]? = some (Tok.str l ic') → Kwd.isKeywordLike cc ic l = true →
    ∀ p, p ≤ inp.size → Kwd.litMatch cc ic l (inp.toList.drop p) = true →
      isWordO cc ((inp.toList.drop p).drop l.length).head? = false

/-- decidable form of `NoGluedKeywordIn` (driver) -/
def noGluedKeywordInB (cc : CharClasses) (ic : Bool) (toks : Array Tok) (inp : Array Char) : Bool :=
  toks.toList.all fun t =>
    match t with
    | .str l _ =>
        !Kwd.isKeywordLike cc ic l ||
          (List.range (inp.size + 1)).all fun p =>
            !Kwd.litMatch cc ic l (inp.toList.drop p) || !isWordO cc ((inp.toList.drop p).drop l.length).head?
    | _ => true

end Peg.Case
