import TextxVerif.Peg.Rec
/-!
# Bisimulation checker for two parser-model graphs (C24)

`check s₁ s₂ H d R` verifies, node pair by node pair, that a candidate relation `R`
(produced by the translator, untrusted) is a simulation of graph `s₁.g` by graph `s₂.g` for the
recogniser `Rec.parse`, up to these normalisations:

* **peel**: `Sequence[x] ≡ x` when `x` can only yield `None` or a truthy result (shape table);
* **inline**: a nested plain `Sequence` in a kid list may be replaced by its kids;
* **sep**: kids `x, ZeroOrMore(Sequence[s, x'])` against one kid `OneOrMore(z, sep=t)`
  (either side), when `x, x', s` always yield truthy results;
* **tokAlt**: an `OrderedChoice` of regex matches against one regex match whose token is
  declared (lexer hypothesis, `Hyps.alts`) to be the first match among them;
* root flags and rule names are ignored (sound because the shape tables exclude `H`/`Z`);
* token identity is by index into a common token table.

Result-shape tables (`ShTab`) are also supplied by the translator and verified (`wfSh`).
Soundness: `Proofs/RecSim.lean` (`sim_sound`).
-/
namespace Rec
open Peg (Node Kind)

/-- result-shape table: the shapes node `a` may yield -/
abbrev ShTab := Nat → List Sh

def shOf (t : ShTab) (a : Nat) : List Sh := t a

def sub (l allowed : List Sh) : Bool := l.all fun s => allowed.contains s

def canFalsy (l : List Sh) : Bool := l.any fun s => !s.truthy

/-- lexer hypotheses under which the checker works -/
structure Hyps where
  nonempty : List Nat            -- regex tokens that never match the empty string
  alts : List (Nat × List Nat)   -- (t, ts): token t matches like the first matching token of ts

def firstTok (L : Lex) (p : Nat) : List Nat → Option Nat
  | [] => none
  | t :: ts => match L.tok t p with
    | some len => some len
    | none => firstTok L p ts

def LexOk (H : Hyps) (L : Lex) : Prop :=
  (∀ t, t ∈ H.nonempty → ∀ p len, L.tok t p = some len → 0 < len) ∧
  (∀ ta, ta ∈ H.alts → ∀ p, L.tok ta.1 p = firstTok L p ta.2)

structure Side where
  g : Graph
  sh : ShTab

/-- local consistency of the shape table at node `a` -/
def okShNode (H : Hyps) (sh : ShTab) (a : Nat) (nd : Node) : Bool :=
  let out := shOf sh a
  let hasT := fun k => (shOf sh k).contains Sh.T
  supported nd && sub out [.N, .E, .T] &&
  (if nd.suppress then out.contains .N else
    match nd.kind with
    | .str | .eof => out.contains .T
    | .re => out.contains .T && (H.nonempty.contains nd.tok || out.contains .N)
    | .seq => (!nd.kids.any hasT || out.contains .T) &&
              (!nd.kids.all (fun k => canFalsy (shOf sh k)) || out.contains .N)
    | .choice => !nd.kids.any hasT || out.contains .T
    | .opt => out.contains .N && (!nd.kids.any hasT || out.contains .T)
    | .star => out.contains .E && (!nd.kids.any hasT || out.contains .T)
    | .plus => (!nd.kids.any (fun k => canFalsy (shOf sh k)) || out.contains .E) &&
               (!nd.kids.any hasT || out.contains .T)
    | .andP | .notP => out.contains .N
    | .unord => false) &&
  (match nd.kind with
    | .choice | .opt => nd.kids.all fun k => sub (shOf sh k) [.N, .T]
    | _ => true)

/-- the shape table is an inductive invariant of the graph and excludes `Z`/`H` -/
def wfSh (g : Graph) (H : Hyps) (sh : ShTab) : Bool :=
  (List.range g.size).all fun a =>
    match g.get a with
    | some nd => okShNode H sh a nd
    | none => false

def transparentSeq (nd : Node) : Bool := nd.kind == .seq && supported nd && !nd.suppress

/-- strip `Sequence[x]` wrappers whose kid yields only `N`/`T` -/
def peel (s : Side) : Nat → Nat → Nat
  | 0, a => a
  | d+1, a =>
    match s.g.get a with
    | some nd =>
      if transparentSeq nd then
        match nd.kids with
        | [x] => if sub (shOf s.sh x) [.N, .T] then peel s d x else a
        | _ => a
      else a
    | none => a

/-- candidate relation: the partners of a left node -/
abbrev Rel := Nat → List Nat

def inR (s₁ s₂ : Side) (d : Nat) (R : Rel) (a b : Nat) : Bool :=
  decide (peel s₁ d a < s₁.g.size) && (R (peel s₁ d a)).contains (peel s₂ d b)

def onlyT (sh : ShTab) (a : Nat) : Bool := sub (shOf sh a) [.T]

/-- `st` is `ZeroOrMore(Sequence[s, x'])` without separator: `(s, x')` -/
def starSepBody (g : Graph) (st : Nat) : Option (Nat × Nat) :=
  match g.get st with
  | some nd =>
    if nd.kind == .star && supported nd && !nd.suppress && nd.sep.isNone then
      match nd.kids with
      | [b] =>
        match g.get b with
        | some bd =>
          if transparentSeq bd then
            match bd.kids with
            | [s, x'] => some (s, x')
            | _ => none
          else none
        | none => none
      | _ => none
    else none
  | none => none

/-- `y` is `OneOrMore(z, sep=t)`: `(z, t)` -/
def plusSep (g : Graph) (y : Nat) : Option (Nat × Nat) :=
  match g.get y with
  | some nd =>
    if nd.kind == .plus && supported nd && !nd.suppress then
      match nd.kids, nd.sep with
      | [z], some t => some (z, t)
      | _, _ => none
    else none
  | none => none

def alignFuel : Nat := 64

/-- kids `x, st` of the left graph against `y` of the right graph:
`x ZeroOrMore(Sequence[s, x'])` against `OneOrMore(z, sep=t)` -/
def sepA (s₁ s₂ : Side) (d : Nat) (R : Rel) (x st y : Nat) : Bool :=
  match starSepBody s₁.g st, plusSep s₂.g (peel s₂ d y) with
  | some (s, x'), some (z, t) =>
    onlyT s₁.sh x && onlyT s₁.sh x' && onlyT s₁.sh s &&
    inR s₁ s₂ d R x z && inR s₁ s₂ d R x' z && inR s₁ s₂ d R s t
  | _, _ => false

/-- the converse situation: `OneOrMore(z, sep=t)` on the left -/
def sepB (s₁ s₂ : Side) (d : Nat) (R : Rel) (x y st : Nat) : Bool :=
  match plusSep s₁.g (peel s₁ d x), starSepBody s₂.g st with
  | some (z, t), some (s, y') =>
    onlyT s₁.sh z && onlyT s₁.sh t &&
    inR s₁ s₂ d R z y && inR s₁ s₂ d R z y' && inR s₁ s₂ d R t s
  | _, _ => false

/-- align the kid lists of two plain sequences: element-wise, `sepA` / `sepB`, or after inlining
a nested plain sequence at the head of either list -/
def align (s₁ s₂ : Side) (d : Nat) (R : Rel) : Nat → List Nat → List Nat → Bool
  | 0, _, _ => false
  | _+1, [], [] => true
  | k+1, x :: xs, y :: ys =>
    (inR s₁ s₂ d R x y && align s₁ s₂ d R k xs ys)
    || (match xs with
        | st :: xs' => sepA s₁ s₂ d R x st y && align s₁ s₂ d R k xs' ys
        | [] => false)
    || (match ys with
        | st :: ys' => sepB s₁ s₂ d R x y st && align s₁ s₂ d R k xs ys'
        | [] => false)
    || (match s₁.g.get x with
        | some nd => transparentSeq nd && align s₁ s₂ d R k (nd.kids ++ xs) (y :: ys)
        | none => false)
    || (match s₂.g.get y with
        | some nd => transparentSeq nd && align s₁ s₂ d R k (x :: xs) (nd.kids ++ ys)
        | none => false)
  | _+1, _, _ => false

def allPairs (f : Nat → Nat → Bool) : List Nat → List Nat → Bool
  | [], [] => true
  | x :: xs, y :: ys => f x y && allPairs f xs ys
  | _, _ => false

/-- token of a plain regex node (after peeling) that never matches empty -/
def reTok (s : Side) (H : Hyps) (d : Nat) (k : Nat) : Option Nat :=
  match s.g.get (peel s d k) with
  | some nd =>
    if nd.kind == .re && supported nd && !nd.suppress && H.nonempty.contains nd.tok then some nd.tok
    else none
  | none => none

def reToks (s : Side) (H : Hyps) (d : Nat) : List Nat → Option (List Nat)
  | [] => some []
  | k :: ks => match reTok s H d k, reToks s H d ks with
    | some t, some ts => some (t :: ts)
    | _, _ => none

/-- one pair of the candidate relation is justified by a rule -/
def okPair (s₁ s₂ : Side) (H : Hyps) (d : Nat) (R : Rel) (a b : Nat) : Bool :=
  match s₁.g.get a, s₂.g.get b with
  | some na, some nb =>
    let seqA := transparentSeq na
    let seqB := transparentSeq nb
    if seqA && seqB then align s₁ s₂ d R alignFuel na.kids nb.kids
    else if seqA then
      (match na.kids with
       | [x, st] => sepA s₁ s₂ d R x st b
       | _ => false)
    else if seqB then
      (match nb.kids with
       | [y, st] => sub (shOf s₁.sh a) [.N, .T] && sepB s₁ s₂ d R a y st
       | _ => false)
    else if !(supported na && supported nb) || na.suppress != nb.suppress then false
    else
      match na.kind, nb.kind with
      | .str, .str => na.tok == nb.tok
      | .re, .re => na.tok == nb.tok
      | .eof, .eof => true
      | .choice, .choice => allPairs (inR s₁ s₂ d R) na.kids nb.kids
      | .choice, .re =>
        !na.suppress && H.nonempty.contains nb.tok &&
        (match reToks s₁ H d na.kids with
         | some (t :: ts) => H.alts.contains (nb.tok, t :: ts)
         | _ => false)
      | .re, .choice =>
        !na.suppress && H.nonempty.contains na.tok &&
        (match reToks s₂ H d nb.kids with
         | some (t :: ts) => H.alts.contains (na.tok, t :: ts)
         | _ => false)
      | .opt, .opt => allPairs (inR s₁ s₂ d R) na.kids nb.kids
      | .star, .star | .plus, .plus =>
        allPairs (inR s₁ s₂ d R) na.kids nb.kids &&
        (match na.sep, nb.sep with
         | none, none => true
         | some s, some t => inR s₁ s₂ d R s t
         | _, _ => false)
      | _, _ => false
  | _, _ => false

def check (s₁ s₂ : Side) (H : Hyps) (d : Nat) (R : Rel) : Bool :=
  s₁.g.ws == s₂.g.ws && s₁.g.skipws == s₂.g.skipws &&
  (match s₁.g.comments, s₂.g.comments with
   | none, none => true
   | some c₁, some c₂ => inR s₁ s₂ d R c₁ c₂
   | _, _ => false) &&
  inR s₁ s₂ d R s₁.g.top s₂.g.top &&
  (List.range s₁.g.size).all fun a => (R a).all fun b => okPair s₁ s₂ H d R a b

/-- rewrite `OneOrMore(k, sep=s)` at node `i` into `Sequence[ZeroOrMore(Sequence[k, s]), k]`
(the formulation `(x sep)* x`; the two new nodes get the ids `size`, `size+1`) -/
def unsepNode (g : Graph) (i : Nat) : Graph :=
  match g.get i with
  | some nd =>
    match nd.kind, nd.kids, nd.sep with
    | .plus, [k], some s =>
      let n := g.size
      { g with
        size := n + 2
        node := fun j =>
          if j = i then some { nd with kind := .seq, kids := [n, k], sep := none }
          else if j = n then some { kind := .star, kids := [n + 1] }
          else if j = n + 1 then some { kind := .seq, kids := [k, s] }
          else g.get j }
    | _, _, _ => g
  | none => g

def unsep (g : Graph) (is : List Nat) : Graph := is.foldl unsepNode g

/-! ### packed tables (kernel-friendly: one big `Nat` per table, `O(1)` cell access) -/

def cell (code w a : Nat) : Nat := (code >>> (w * a)) % 2 ^ w

def unpack (w : Nat) : Nat → Nat → List Nat
  | 0, _ => []
  | n+1, c => (c % 2 ^ w) :: unpack w n (c >>> w)

def kindOfCode : Nat → Kind
  | 0 => .str | 1 => .re | 2 => .eof | 3 => .seq | 4 => .choice | 5 => .opt
  | 6 => .star | 7 => .plus | 8 => .unord | 9 => .andP | _ => .notP

def bit (c i : Nat) : Bool := (c >>> i) % 2 == 1

/-- node cell layout (bits): kind 0-3, root 4, suppress 5, eolterm 6, has-sep 7, tok 8-19,
sep 20-31, number of kids 32-39, kids 40… (12 bits each, at most 18).  `ws`/`skipws` overrides are not
representable (the translator refuses such graphs). -/
def decodeNode (c : Nat) : Node :=
  { kind := kindOfCode (c % 16), root := bit c 4, suppress := bit c 5, eolterm := bit c 6,
    sep := if bit c 7 then some ((c >>> 20) % 4096) else none,
    tok := (c >>> 8) % 4096,
    kids := unpack 12 ((c >>> 32) % 256) (c >>> 40) }

def nodeWidth : Nat := 256

def nodeOfCode (code : Nat) (a : Nat) : Option Node := some (decodeNode (cell code nodeWidth a))

/-- shape cell: bit mask N=1, E=2, Z=4, H=8, T=16 -/
def decodeSh (m : Nat) : List Sh :=
  (if bit m 0 then [Sh.N] else []) ++ (if bit m 1 then [Sh.E] else []) ++ (if bit m 2 then [Sh.Z] else []) ++
  (if bit m 3 then [Sh.H] else []) ++ (if bit m 4 then [Sh.T] else [])

def shOfCode (code : Nat) : ShTab := fun a => decodeSh (cell code 8 a)

/-- relation cell: number of partners (4 bits), then the partners (12 bits each) -/
def relOfCode (code : Nat) : Rel := fun a =>
  let c := cell code 192 a
  unpack 12 (c % 16) (c >>> 4)

/-- the readable node list agrees with the packed table (rule names aside) -/
def agree (g : Graph) : List Node → Nat → Bool
  | [], i => i == g.size
  | nd :: rest, i =>
    (match g.get i with
     | some md => md.kind == nd.kind && md.kids == nd.kids && md.tok == nd.tok && nd.ws.isNone &&
        nd.skipws.isNone && md.root == nd.root && md.suppress == nd.suppress && md.sep == nd.sep &&
        md.eolterm == nd.eolterm
     | none => false) && agree g rest (i + 1)

end Rec
