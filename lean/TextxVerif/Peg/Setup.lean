/-!
# How the parser of a meta-model is set up (C22): which Comment rule, which whitespace configuration

Two pieces of `textx` that decide what is skipped between tokens before any input is parsed.  Core Lean only.

## (1) the Comment rule of a grammar spread over several files

`textx/lang.py` `TextXVisitor.visit_textx_model` / `second_textx_model`:
```python
if "Comment" in self.metamodel:
    comments_model = self.metamodel["Comment"]._tx_peg_rule
else:
    comments_model = None
```
with `textx/metamodel.py` `TextXMetaModel.__getitem__` for a plain name (the namespace on top of the stack is the
main grammar file when its `textx_model` node is visited; `_imported_namespaces[ns]` starts with the namespace
of the base types and is extended by `_new_import` in the order of the import statements):
```python
if name in self._current_namespace:
    return self._current_namespace[name]
for namespace in self._imported_namespaces[self._namespace_stack[-1]]:
    if name in namespace:
        return namespace[name]
raise KeyError(...)
```

## (2) the configuration of the model parser across a history of meta-models

`textx/lang.py` `language_from_str`: the parser of the textX grammar language is a process-wide cache
(`textX_parsers`, keyed by the debug flag; it is constructed with the options of the *first* meta-model that
needs it), the model parser is made by `visit_textx_model` from the options of the meta-model at hand:
```python
model_parser = get_model_parser(root_rule, comments_model, ignore_case=self.metamodel.ignore_case,
    skipws=self.metamodel.skipws, ws=self.metamodel.ws, autokwd=self.metamodel.autokwd,
    memoization=self.metamodel.memoization, debug=self.metamodel.debug, file=self.metamodel.file)
```
and Arpeggio's `Parser.__init__` (`self.ws = ws if ws is not None else DEFAULT_WS`).
-/
namespace Peg

/-! ## (1) Comment rule lookup -/

/-- one grammar file = one namespace of the meta-model -/
structure GFile where
  name : String
  /-- names of the rules the file defines -/
  defines : List String
  /-- dotted names of the files it imports, in the order of the import statements -/
  imports : List String
  deriving Repr, DecidableEq

/-- rules of the namespace `__base__`, searched before the imported files -/
def baseRules : List String :=
  ["ID", "STRING", "BOOL", "INT", "FLOAT", "STRICTFLOAT", "NUMBER", "BASETYPE", "OBJECT"]

/-- the first of the listed namespaces that defines `rule` (the `for namespace in …` loop; an import statement
whose file is not among `files` contributes nothing) -/
def firstDefining (files : List GFile) (rule : String) : List String → Option String
  | [] => none
  | n :: tl =>
    match files.find? (fun f => f.name == n) with
    | some f => if f.defines.contains rule then some f.name else firstDefining files rule tl
    | none => firstDefining files rule tl

/-- `metamodel[rule]` while `cur` is the current namespace: the name of the namespace that provides the rule -/
def lookupRule (files : List GFile) (cur : GFile) (rule : String) : Option String :=
  if cur.defines.contains rule then some cur.name
  else if baseRules.contains rule then some "__base__"
  else firstDefining files rule cur.imports

/-- the file whose `Comment` rule becomes the parser's comments model (`none`: no comments model) -/
def commentOwner (files : List GFile) (main : GFile) : Option String := lookupRule files main "Comment"

/-! ## (2) parser configuration across a history -/

/-- the options of one meta-model that reach a parser -/
structure MMCfg where
  skipws : Bool := true
  ws : Option (List Char) := none
  memoization : Bool := false
  debug : Bool := false
  deriving Repr, DecidableEq

/-- what survives a meta-model in the process: `lang.textX_parsers` — for each value of the debug flag the
memoization flag of the cached grammar-language parser, if one was created -/
structure ProcState where
  plain : Option Bool := none
  debug : Option Bool := none
  deriving Repr, DecidableEq

def ProcState.get (st : ProcState) (dbg : Bool) : Option Bool := if dbg then st.debug else st.plain

def ProcState.set (st : ProcState) (dbg : Bool) (memo : Bool) : ProcState :=
  if dbg then { st with debug := some memo } else { st with plain := some memo }

/-- the whitespace configuration of a model parser -/
structure ParserCfg where
  skipws : Bool
  ws : List Char
  memo : Bool
  deriving Repr, DecidableEq

/-- Arpeggio's `DEFAULT_WS` -/
def arpDefaultWs : List Char := ['\t', '\n', '\r', ' ']

/-- `language_from_str` for one meta-model: (state afterwards, configuration of its model parser) -/
def buildMM (st : ProcState) (c : MMCfg) : ProcState × ParserCfg :=
  let st' := match st.get c.debug with
    | some _ => st
    | none => st.set c.debug c.memoization
  (st', { skipws := c.skipws, ws := c.ws.getD arpDefaultWs, memo := c.memoization })

/-- the meta-models of a history, one after the other -/
def buildAll (st : ProcState) : List MMCfg → ProcState
  | [] => st
  | c :: tl => buildAll (buildMM st c).1 tl

/-- the parser configuration of a meta-model created after a history of others -/
def parserCfgAfter (hist : List MMCfg) (c : MMCfg) : ParserCfg := (buildMM (buildAll {} hist) c).2

end Peg
