import TextxVerif.Rrel
/-!
# What one expansion of an RREL expression reaches (docs/src/rrel.md, DESIGN §6 C11)

`Exp H e first s t` — "one expansion of `e` leads from state `s` to state `t`",
stated relationally: no search order, no visited set, no fuel.

* navigation step on attribute `a`: the source is the model root if nothing has
  been evaluated yet (`first`), else the current object; with `+m:` the other
  models follow a root, and the first of these in which the step finds anything
  is taken.  `~a`: any element, names unchanged.  `a`: any element whose name is
  the next name part, which is consumed.  `'f'~a`: any element named `f`, names
  unchanged.  Name steps append the element to the path.
* `parent(T)`: the nearest strict ancestor conforming to `T`.
* `.`×n: the object itself (n ≤ 1) or its (n−1)-th ancestor.
* `,` and brackets: union.  `.`: relational composition, `first` only for the
  first element.  `*`: zero expansions (the object; when `first`, the object if
  the body starts locally and the root if it starts at the root), or one
  expansion of the body followed by any number of further ones.
-/
namespace Rrel

/-- reflexive-transitive closure -/
inductive Star (R : St → St → Prop) : St → St → Prop
  | refl (a : St) : Star R a a
  | step {a b c : St} : R a b → Star R b c → Star R a c

/-- `x` is an element a step of mode `m` may move to, `ns'` the names left afterwards,
`named` whether the element joins the path -/
def Cand (H : Heap) (m : Mode) (ns : List String) (l : List Obj) (x : Obj) (ns' : List String)
    (named : Bool) : Prop :=
  x ∈ l ∧
  match m with
  | .tilde => ns' = ns ∧ named = false
  | .fixed f => H.name x = some f ∧ ns' = ns ∧ named = true
  | .consume => ∃ n, ns = n :: ns' ∧ H.name x = some n ∧ named = true

/-- one atom, declaratively, on `(object, names)`; the Boolean says whether the object
reached is a named step -/
def AtomStep (H : Heap) (a : Atom) (first : Bool) (o : Obj) (ns : List String)
    (r : Obj × List String × Bool) : Prop :=
  match a with
  | .nav attr m =>
    ∃ pre st post l,
      starts H (if first then root H o else o) = pre ++ st :: post ∧
      (∀ p ∈ pre, ∃ lp, H.attr p attr = some lp ∧ ∀ x ns' b, ¬ Cand H m ns lp x ns' b) ∧
      H.attr st attr = some l ∧
      Cand H m ns l r.1 r.2.1 r.2.2
  | .parent T =>
    ∃ pre post, anc H o = pre ++ r.1 :: post ∧ (∀ q ∈ pre, H.conf q T = false) ∧
      H.conf r.1 T = true ∧ r.2.1 = ns ∧ r.2.2 = false
  | .dots n =>
    ((n ≤ 1 ∧ r.1 = o) ∨ (2 ≤ n ∧ (anc H o)[n - 2]? = some r.1)) ∧ r.2.1 = ns ∧ r.2.2 = false

/-- one expansion of `e` -/
def Exp (H : Heap) : E → Bool → St → St → Prop
  | .atom _ a, f, s, t => ∃ r, AtomStep H a f s.o s.ns r ∧ t = s.next r
  | .grp _ e, f, s, t => Exp H e f s t
  | .alt a b, f, s, t => Exp H a f s t ∨ Exp H b f s t
  | .cat a b, f, s, t => ∃ m, Exp H a f s m ∧ Exp H b false m t
  | .star _ e, f, s, t =>
    t ∈ zeros H e f s ∨ ∃ m, Exp H e f s m ∧ Star (fun x y => Exp H e false x y) m t

/-- "has consumed every name part … and its type conforms" -/
def IsMatch (H : Heap) (cls : Option String) (t : St) : Prop :=
  t.ns = [] ∧ confOpt H t.o cls = true

/-- the named objects of a path against the name parts they consumed: every
consumed part is the name of the object reached by that step; fixed-name steps
contribute an object with a name and consume nothing -/
inductive NamedBy (H : Heap) : List Obj → List String → Prop
  | nil : NamedBy H [] []
  | consumed {x n q c} : H.name x = some n → NamedBy H q c → NamedBy H (x :: q) (n :: c)
  | fixed {x f q c} : H.name x = some f → NamedBy H q c → NamedBy H (x :: q) c

/-- identities of the guarded nodes of an expression -/
def E.ids : E → List Nat
  | .atom i _ => [i]
  | .grp i e => i :: e.ids
  | .alt a b => a.ids ++ b.ids
  | .cat a b => a.ids ++ b.ids
  | .star i e => i :: e.ids

end Rrel
