import TextxVerif.Tx.Compile
/-!
# `DocFragment`: grammars on which Arpeggio's result conventions cannot be observed

Arpeggio decides with the *truthiness* of parse results where PEG decides with
success: an ordered choice skips an alternative whose result is `None`, a
repetition stops at a falsy iteration, an unordered group does not count a
falsy element.  `falsy e` over-approximates "`e` can succeed with a falsy
result" (nothing matched, or everything matched was suppressed), as a least
fixpoint over rule references.  A grammar is in the fragment when

* every alternative of every ordered choice is productive (`¬ falsy`),
* every body of `?`, `*`, `+`, `?=`, `*=`, `+=` is productive (`Optional` wraps its sub-result in a list, so
  a falsy `[]` would become the truthy `[[]]`),
* every element of `#` is productive or is an optional (`x?`, `a?=x`) of a productive expression,
* no string literal is empty.

`nullTok t` says that token `t` (a regex) can match the empty string.
-/
namespace Tx

section
variable (nullTok : Nat → Bool) (fr : String → Bool)

mutual
def falsy : Expr → Bool
  | .str _ v sup => sup || v == ""
  | .re t _ sup => sup || nullTok t
  | .ref n sup => sup || fr n
  | .seq xs sup => sup || falsyAll xs
  | .alt xs sup => sup || falsyAny xs
  | .rep op x _ _ sup => sup || (match op with | .plus => falsy x | _ => true)
  | .unord xs _ _ sup => sup || falsyAll xs
  | .asgn _ op rhs _ _ sup => sup || (match op with | .plain | .plus => falsy rhs | _ => true)
  | .pred .. => true
def falsyAll : List Expr → Bool
  | [] => true
  | x :: xs => falsy x && falsyAll xs
def falsyAny : List Expr → Bool
  | [] => false
  | x :: xs => falsy x || falsyAny xs
end

/-- `x?` / `a?=x` over a productive `x`: falsy only when nothing was consumed -/
def optionalShape : Expr → Bool
  | .rep .opt x _ _ false => !falsy nullTok fr x
  | .asgn _ .opt rhs _ _ false => !falsy nullTok fr rhs
  | _ => false

mutual
def docExpr : Expr → Bool
  | .str _ v _ => v != ""
  | .seq xs _ => docAll xs
  | .alt xs _ => !falsyAny nullTok fr xs && docAll xs
  | .rep _ x _ _ _ => !falsy nullTok fr x && docExpr x
  | .unord xs _ _ _ => unordOk xs && docAll xs
  | .asgn _ op rhs _ _ _ => (op = .plain || !falsy nullTok fr rhs) && docExpr rhs
  | .pred _ x _ => docExpr x
  | _ => true
def docAll : List Expr → Bool
  | [] => true
  | x :: xs => docExpr x && docAll xs
def unordOk : List Expr → Bool
  | [] => true
  | x :: xs => (!falsy nullTok fr x || optionalShape nullTok fr x) && unordOk xs
end
end

/-- least fixpoint of "rule `n` can succeed with a falsy result" -/
def falsyRules (nullTok : Nat → Bool) (g : Gram) : List String :=
  iterate (fun fs => (g.rules.filter fun r => falsy nullTok (fun n => fs.contains n) r.body).map (·.name))
    (g.rules.length + 1) []

def docFragment (nullTok : Nat → Bool) (g : Gram) : Bool :=
  let fs := falsyRules nullTok g
  g.rules.all fun r => docExpr nullTok (fun n => fs.contains n) r.body

end Tx
