import TextxVerif.Peg.Arp
import TextxVerif.Peg.WsParam
import TextxVerif.Tx.Gram
/-!
# Mirror of the grammar compiler (`textx/lang.py`, `TextXVisitor`; `model.py:get_model_parser`)

`compile : Gram → Except TxErr Compiled` produces what `metamodel_from_str`
produces: the Arpeggio parser model as a node table (`Peg.Node`, children by
index; a rule reference is the index of the referenced rule's root node, as in
Python where it is the same object) and the metamodel skeleton (classes,
attributes with class name / multiplicity / containment, rule kinds).

Mirrored, with the place in `lang.py`:
* `visit_sequence` / `visit_choice` / `visit_textx_rule_body`: a sequence or
  choice node per written group (groups of one element are outside the modelled
  syntax and rejected as `unsupported`, the harness never writes them);
* `visit_repeatable_expr`: `? * +` wrappers, `#` taking the `nodes` of a parenthesised sequence / choice
  and any other operand as its only element (the repaired code),
  separator (`rule_name = "sep"`) and `eolterm` modifiers, the suppression flag;
  modifiers on `?` are a `TextXSyntaxError`;
* `visit_expression`: `!` / `&` predicates;
* `visit_assignment`: the `__asgn_plain|oneormore|zeroormore|optional` root
  wrappers, attribute registration (`?=` on an existing attribute is an error,
  initial multiplicities, `BOOL` for `?=`, `STRING` for a simple match, `OBJECT`
  when two assignments disagree), modifiers on `=` / `?=` are an error;
* `visit_textx_rule`: a body that is one assignment, or any body that is not a
  sequence / choice when rule parameters are given (this is the repaired code,
  `fix: rule modifiers ...`), is wrapped in a new root `Sequence` carrying the
  parameters; every other body is promoted (`root`, `rule_name`, parameters set
  on the body node itself); a body that is a single plain rule reference stays
  a reference (alias);
* `visit_rule_params`: `ws` values containing a backslash are rebuilt from the
  escapes `\n \r \t` and the blank;
* `_update_attr_multiplicities`: `compile` uses the walk of the code as it is
  (`walk true`: every alternative of an ordered choice starts from a copy of the
  incoming branch set and the union flows back); the pinned walk (`walk false`,
  an ordered choice resets the branch set) is kept for negation witnesses and
  `multSensitive` reports whether it would differ on this grammar;
* `visit_assignment`: `?=` together with any other assignment of the attribute is
  rejected in either order; the attribute name `parent` and rule names starting
  with `__asgn` are rejected;
* `_resolve_rule_refs`: aliases are followed, a suppressed reference becomes a
  non-root `Sequence` wrapper with the referenced name, unknown names are a
  `TextXSemanticError`; alias cycles make Python overflow its stack (`recursion`);
* `_determine_rule_types` (as the least fixpoint it computes) and the
  `ref` / `cont` part of `_resolve_cls_refs`;
* `get_model_parser`: `Model := Sequence(top, EOF)`; `Comment` rule as comments model.

Node numbering: base types occupy 0‥7, then one block per rule in pre-order
(`emit`), then the `Model` wrapper and `EOF`.  The numbering itself has no
counterpart in Python; the harness compares tables up to renumbering.
-/
namespace Tx
open Peg

inductive TxErr
  | semantic (what : String)      -- TextXSemanticError
  | syntax (what : String)        -- TextXSyntaxError
  | recursion                     -- alias cycle (`A: A;`): RecursionError in Python
  | unsupported (what : String)   -- grammar shape outside the model (never generated)
deriving Repr, Inhabited, DecidableEq

inductive Mult | optional | one | zeroOrMore | oneOrMore
deriving Repr, Inhabited, DecidableEq

/-- index in `const.priority` -/
def Mult.prio : Mult → Nat
  | .optional => 0 | .one => 1 | .zeroOrMore => 2 | .oneOrMore => 3

def Mult.many : Mult → Bool
  | .zeroOrMore | .oneOrMore => true
  | _ => false

inductive Kind | common | abstract | match_
deriving Repr, Inhabited, DecidableEq

structure Attr where
  name : String
  cls : String                 -- ClassCrossRef.cls_name, then the resolved class name
  mult : Mult := .one
  cont : Bool := true
  ref : Bool := false
  boolAsg : Bool := false
deriving Repr, Inhabited, DecidableEq

structure Cls where
  name : String
  attrs : List Attr
  kind : Kind := .match_
deriving Repr, Inhabited

/-- a parser-model node plus what textX hangs on it -/
structure CNode where
  node : Peg.Node
  attr : String := ""          -- `_attr_name` of assignment nodes
  text : String := ""          -- `to_match` of string / regex matches
deriving Repr, Inhabited

structure Compiled where
  nodes : Array CNode
  top : Nat                    -- parser.parser_model (`Model := top-rule EOF`)
  comments : Option Nat        -- parser.comments_model
  classes : List Cls           -- user classes in rule order (base types are implicit)
  multSensitive : Bool         -- the pinned multiplicity walk would differ from the one of the code (evidence only)
deriving Repr, Inhabited

/-! ## shape check -/

def simpleOperand : Expr → Bool
  | .str _ _ false | .re _ _ false | .ref _ false => true
  | _ => false

mutual
def wf : Expr → Bool
  | .str .. | .re .. | .ref .. => true
  | .seq xs _ | .alt xs _ => decide (2 ≤ xs.length) && wfList xs
  | .rep _ x _ _ _ => wf x
  | .unord xs _ _ _ =>
      -- `(x y …)#` / `(x | y …)#` unpack the group; any other operand is the only element (`x#`), so a
      -- one-element group whose element is an unsuppressed sequence / choice cannot be written
      (match xs with
       | [] | [.seq _ false] | [.alt _ false] => false
       | _ => true) && wfList xs
  | .asgn _ _ rhs _ _ _ => simpleOperand rhs
  | .pred _ x _ =>
      match x with
      | .seq .. | .alt .. => wf x
      | x => simpleOperand x
def wfList : List Expr → Bool
  | [] => true
  | x :: xs => wf x && wfList xs
end

/-! ## first pass: assignments (`visit_assignment`) in textual order -/

inductive Ev
  | asg (attr : String) (op : AsgOp) (ty : String) (mods : Bool)
  | optMods                        -- `x?[…]`
deriving Repr, Inhabited

def rhsType : Expr → String
  | .ref name _ => name
  | _ => "STRING"                  -- `base_rule_name` of a Match is ''

mutual
def events : Expr → List Ev
  | .asgn a op rhs sep eol _ => [.asg a op (if op = .opt then "BOOL" else rhsType rhs) (sep.isSome || eol)]
  | .seq xs _ | .alt xs _ | .unord xs _ _ _ => eventsList xs
  | .rep op x sep eol _ => events x ++ (if op = .opt && (sep.isSome || eol) then [.optMods] else [])
  | .pred _ x _ => events x
  | _ => []
def eventsList : List Expr → List Ev
  | [] => []
  | x :: xs => events x ++ eventsList xs
end

def setAttr (attrs : List Attr) (a : Attr) : List Attr :=
  if attrs.any (·.name == a.name) then attrs.map (fun b => if b.name == a.name then a else b)
  else attrs ++ [a]

/-- the operator's base multiplicity: `+=` → `1..*`, `*=` → `0..*` unless already `1..*`, `?=` → `0..1` -/
def opMult (op : AsgOp) (m : Mult) : Mult :=
  match op with
  | .plus => .oneOrMore
  | .star => if m = .oneOrMore then m else .zeroOrMore
  | .opt => .optional
  | .plain => m

/-- the attribute record after one more assignment `op` with right-hand-side type `ty`
(`a.cls = ""`: the record has just been created) -/
def mkAttr (a : Attr) (op : AsgOp) (ty : String) : Attr :=
  { a with mult := opMult op a.mult, boolAsg := a.boolAsg || decide (op = .opt),
           cls := if a.cls == "" then ty else if a.cls != ty then "OBJECT" else a.cls }

def applyEv (attrs : List Attr) : Ev → Except TxErr (List Attr)
  | .optMods => .error (.syntax "Modifiers are not allowed for \"?\" operator")
  | .asg name op ty mods =>
    if name == "parent" then .error (.semantic "\"parent\" is a reserved attribute name") else
    let old := attrs.find? (·.name == name)
    -- "whether the bool assignment comes first or later" (the repaired, symmetric test)
    if old.any (fun o => op = .opt || o.boolAsg) then
      .error (.semantic "Cannot use \"?=\" operator on multiple assignments")
    else
      if mods && (op = .opt || op = .plain) then .error (.syntax "Modifiers are not allowed for this operator")
      else .ok (setAttr attrs (mkAttr (old.getD { name := name, cls := "" }) op ty))

def applyEvs (attrs : List Attr) : List Ev → Except TxErr (List Attr)
  | [] => .ok attrs
  | e :: es => do let a ← applyEv attrs e; applyEvs a es

/-! ## `_update_attr_multiplicities` -/

structure WalkSt where
  attrs : List Attr
  set : List String            -- oc_branch_set
deriving Repr, Inhabited

def setMult (attrs : List Attr) (name : String) (f : Mult → Mult) : List Attr :=
  attrs.map (fun a => if a.name == name then { a with mult := f a.mult } else a)

def unionStr (a b : List String) : List String := a ++ b.filter (fun x => !a.contains x)

/-- the `mult` an `__asgn_*` node hands on: `+=` is a `OneOrMore`, `*=` a `ZeroOrMore` -/
def asgMult (op : AsgOp) (mult : Mult) : Mult :=
  match op with
  | .plus => Mult.oneOrMore
  | .star => if mult = Mult.oneOrMore then mult else Mult.zeroOrMore
  | _ => mult

/-- the `mult` a repetition hands on -/
def repMult (op : RepOp) (mult : Mult) : Mult :=
  match op with
  | .plus => Mult.oneOrMore
  | .star => if mult = Mult.oneOrMore then mult else Mult.zeroOrMore
  | .opt => mult

mutual
/-- `fixed = false`: the pinned code (every alternative starts from an empty set
and nothing flows back); `fixed = true`: the C02 repair (every alternative starts
from a copy of the incoming set, the union flows back). -/
def walk (fixed : Bool) : Expr → Mult → WalkSt → Except TxErr WalkSt
  | .asgn a op _ _ _ _, mult, st =>
    let mult : Mult := asgMult op mult
    if mult.many then
      if op = AsgOp.opt then .error (.semantic "Can't use bool assignment inside repetition")
      else .ok { st with attrs := setMult st.attrs a (fun m => if m.prio < mult.prio then mult else m) }
    else if st.set.contains a then .ok { st with attrs := setMult st.attrs a (fun _ => .oneOrMore) }
    else .ok { st with set := a :: st.set }
  | .alt xs _, mult, st => walkAlts fixed xs mult st.set { st with set := if fixed then st.set else [] }
  | .seq xs _, mult, st | .unord xs _ _ _, mult, st => walkSeq fixed xs mult st
  | .rep op x _ _ _, mult, st => walk fixed x (repMult op mult) st
  | .pred _ x _, mult, st => walk fixed x mult st
  | _, _, st => .ok st
def walkSeq (fixed : Bool) : List Expr → Mult → WalkSt → Except TxErr WalkSt
  | [], _, st => .ok st
  | x :: xs, mult, st => do let st ← walk fixed x mult st; walkSeq fixed xs mult st
/-- `s0`: the set on entry of the choice; `acc.set`: what flows out (pinned: the entry set is kept) -/
def walkAlts (fixed : Bool) : List Expr → Mult → List String → WalkSt → Except TxErr WalkSt
  | [], _, s0, acc => .ok (if fixed then acc else { acc with set := s0 })
  | x :: xs, mult, s0, acc => do
    let r ← walk fixed x mult { attrs := acc.attrs, set := if fixed then s0 else [] }
    walkAlts fixed xs mult s0 { attrs := r.attrs, set := if fixed then unionStr acc.set r.set else [] }
end

/-! ## rule parameters -/

/-- `visit_rule_params`: interpretation of the `ws` value.  The code is mirrored once, in `Peg/WsParam.lean`
(`Peg.wsParam`, /repo main after "fix: a ws rule modifier written with an escape sequence no longer drops the
characters given literally": the escapes `\\n \\r \\t` and the blank first, then every other character of the
value as it is written); this is that function on the grammar's string. -/
def wsParam (raw : String) : List Char := Peg.wsParam raw.toList

def Rule.hasParams (r : Rule) : Bool := r.skipws.isSome || r.ws.isSome

/-- the rule body stays a `RuleCrossRef`: `A: B;` -/
def Rule.aliasOf (r : Rule) : Option String :=
  match r.body with
  | .ref name false => if r.hasParams then none else some name
  | _ => none

/-- `visit_textx_rule` (repaired): when is the body wrapped in a new root `Sequence`? -/
def Rule.wrapped (r : Rule) : Bool :=
  match r.body with
  | .asgn .. => true
  | .seq .. | .alt .. => false
  | _ => r.hasParams

/-! ## node emission (pre-order blocks) -/

def sepSize : Option Sep → Nat
  | some _ => 1
  | none => 0

mutual
def size : Expr → Nat
  | .str .. | .re .. => 1
  | .ref _ sup => if sup then 1 else 0
  | .seq xs _ | .alt xs _ => 1 + sizeList xs
  | .rep _ x sep _ _ => 1 + size x + sepSize sep
  | .unord xs sep _ _ => 1 + sizeList xs + sepSize sep
  | .asgn _ _ rhs sep _ _ => 1 + size rhs + sepSize sep
  | .pred _ x _ => 1 + size x
def sizeList : List Expr → Nat
  | [] => 0
  | x :: xs => size x + sizeList xs
end

def repKind : RepOp → Peg.Kind
  | .opt => .opt | .star => .star | .plus => .plus

def asgKind : AsgOp → Peg.Kind
  | .plain => .seq | .plus => .plus | .star => .star | .opt => .opt

def asgRule : AsgOp → String
  | .plain => "__asgn_plain" | .plus => "__asgn_oneormore" | .star => "__asgn_zeroormore"
  | .opt => "__asgn_optional"

def sepNodes : Option Sep → List CNode
  | some s => [{ node := { kind := if s.isRe then .re else .str, tok := s.tok, rule := "sep" }, text := s.text }]
  | none => []

section
variable (rootOf : String → Nat)

/-- index of the node that stands for `e` when `e`'s block starts at `n` -/
def idOf (e : Expr) (n : Nat) : Nat :=
  match e with
  | .ref name false => rootOf name
  | _ => n

def kidIds : List Expr → Nat → List Nat
  | [], _ => []
  | x :: xs, n => idOf rootOf x n :: kidIds xs (n + size x)

mutual
def emit : Expr → Nat → List CNode
  | .str tok v sup, _ => [{ node := { kind := .str, tok := tok, suppress := sup }, text := v }]
  | .re tok src sup, _ => [{ node := { kind := .re, tok := tok, suppress := sup }, text := src }]
  | .ref name sup, _ =>
      -- `_resolve_rule_refs`: "Special case. Suppression on rule reference."
      if sup then [{ node := { kind := .seq, kids := [rootOf name], rule := name, suppress := true } }] else []
  | .seq xs sup, n =>
      { node := { kind := .seq, kids := kidIds rootOf xs (n+1), suppress := sup } } :: emitList xs (n+1)
  | .alt xs sup, n =>
      { node := { kind := .choice, kids := kidIds rootOf xs (n+1), suppress := sup } } :: emitList xs (n+1)
  | .rep op x sep eol sup, n =>
      { node := { kind := repKind op, kids := [idOf rootOf x (n+1)], suppress := sup, eolterm := eol,
                  sep := sep.map (fun _ => n + 1 + size x) } } :: (emit x (n+1) ++ sepNodes sep)
  | .unord xs sep eol sup, n =>
      { node := { kind := .unord, kids := kidIds rootOf xs (n+1), suppress := sup, eolterm := eol,
                  sep := sep.map (fun _ => n + 1 + sizeList xs) } } :: (emitList xs (n+1) ++ sepNodes sep)
  | .asgn attr op rhs sep eol sup, n =>
      { node := { kind := asgKind op, kids := [idOf rootOf rhs (n+1)], root := true, rule := asgRule op,
                  suppress := sup, eolterm := eol, sep := sep.map (fun _ => n + 1 + size rhs) },
        attr := attr } :: (emit rhs (n+1) ++ sepNodes sep)
  | .pred neg x sup, n =>
      { node := { kind := if neg then .notP else .andP, kids := [idOf rootOf x (n+1)], suppress := sup } } ::
        emit x (n+1)
def emitList : List Expr → Nat → List CNode
  | [], _ => []
  | x :: xs, n => emit x n ++ emitList xs (n + size x)
end

/-- promote the first node of a block to the rule's root node -/
def promote (r : Rule) : List CNode → List CNode
  | [] => []
  | c :: cs =>
    let nd : Peg.Node := c.node
    { c with node := { nd with root := true, rule := r.name,
                               ws := r.ws.map wsParam, skipws := r.skipws } } :: cs

def ruleSize (r : Rule) : Nat :=
  if r.aliasOf.isSome then 0 else if r.wrapped then 1 + size r.body else size r.body

def emitRule (r : Rule) (n : Nat) : List CNode :=
  if r.aliasOf.isSome then []
  else if r.wrapped then
    { node := { kind := .seq, kids := [idOf rootOf r.body (n+1)], root := true, rule := r.name,
                ws := r.ws.map wsParam, skipws := r.skipws } } :: emit rootOf r.body (n+1)
  else promote r (emit rootOf r.body n)

def emitRules : List Rule → Nat → List CNode
  | [], _ => []
  | r :: rs, n => emitRule rootOf r n ++ emitRules rs (n + ruleSize r)
end

/-! ## base types (module-level objects of `lang.py`) -/

def baseNodes : List CNode :=
  let re (t : Nat) (name : String) : CNode := { node := { kind := .re, tok := t, root := true, rule := name }, text := name }
  [re 0 "ID", re 1 "BOOL", re 2 "INT", re 3 "FLOAT", re 4 "STRICTFLOAT", re 5 "STRING",
   { node := { kind := .choice, kids := [4, 2], root := true, rule := "NUMBER" } },
   { node := { kind := .choice, kids := [6, 3, 1, 0, 5], root := true, rule := "BASETYPE" } }]

def baseIndex (name : String) : Option Nat := baseTypeNames.idxOf? name

/-! ## rule references -/

def offsets : List Rule → Nat → List (String × Nat)
  | [], _ => []
  | r :: rs, n => (r.name, n) :: offsets rs (n + ruleSize r)

/-- root node of the rule called `name`, following aliases (`fuel` = number of rules + 1) -/
def resolveRoot (g : Gram) (offs : List (String × Nat)) : Nat → String → Except TxErr Nat
  | 0, _ => .error .recursion
  | f+1, name =>
    match g.find? name with
    | some r =>
      match r.aliasOf with
      | some tgt => resolveRoot g offs f tgt
      | none => match offs.lookup name with
        | some n => .ok n
        | none => .error (.unsupported "offset")
    | none =>
      match baseIndex name with
      | some i => .ok i
      | none => .error (.semantic ("Unexisting rule " ++ name))

mutual
def refs : Expr → List String
  | .ref name _ => [name]
  | .seq xs _ | .alt xs _ | .unord xs _ _ _ => refsList xs
  | .rep _ x _ _ _ | .pred _ x _ => refs x
  | .asgn _ _ rhs _ _ _ => refs rhs
  | _ => []
def refsList : List Expr → List String
  | [] => []
  | x :: xs => refs x ++ refsList xs
end

/-! ## rule kinds (`_determine_rule_types`, as the least fixpoint it reaches) -/

/-- `_has_nonmatch_ref`: a root node below `id` (not through root nodes) whose class is not a match rule -/
def hasNonmatchRef (nodes : Array CNode) (kindOf : String → Kind) : Nat → Nat → Bool
  | 0, _ => false
  | f+1, id =>
    match nodes[id]? with
    | none => false
    | some c => c.node.kids.any fun k =>
        match nodes[k]? with
        | none => false
        | some kc => if kc.node.root then kindOf kc.node.rule != .match_ else hasNonmatchRef nodes kindOf f k

def kindStep (nodes : Array CNode) (roots : List (String × Nat)) (cls : List Cls) : List Cls :=
  let kindOf (n : String) : Kind :=
    match cls.find? (·.name == n) with
    | some c => c.kind
    | none => if n == "OBJECT" then .abstract else .match_
  cls.map fun c =>
    if !c.attrs.isEmpty then { c with kind := .common }
    else if c.kind == .abstract then c
    else
      match roots.lookup c.name with
      | none => c
      | some rt =>
        match nodes[rt]? with
        | none => c
        | some rn =>
          let abs :=
            if rn.node.rule != "" && rn.node.rule != c.name then kindOf rn.node.rule != .match_
            else hasNonmatchRef nodes kindOf nodes.size rt
          if abs then { c with kind := .abstract } else c

def iterate (f : α → α) : Nat → α → α
  | 0, a => a
  | n+1, a => iterate f n (f a)

/-! ## the compiler -/

def checkRefs (g : Gram) (offs : List (String × Nat)) : List String → Except TxErr Unit
  | [] => .ok ()
  | n :: ns => do let _ ← resolveRoot g offs (g.rules.length + 1) n; checkRefs g offs ns

/-- first pass over one rule: attributes, then the multiplicity walk -/
def ruleClass (fixed : Bool) (r : Rule) : Except TxErr Cls := do
  -- `visit_rule_name`: the prefix of the assignment nodes' rule names is reserved
  if "__asgn".toList.isPrefixOf r.name.toList then throw (.semantic "reserved rule name")
  let attrs ← applyEvs [] (events r.body)
  let st ← walk fixed r.body .one { attrs := attrs, set := [] }
  .ok { name := r.name, attrs := st.attrs }

def ruleClasses (fixed : Bool) : List Rule → Except TxErr (List Cls)
  | [] => .ok []
  | r :: rs => do let c ← ruleClass fixed r; let cs ← ruleClasses fixed rs; .ok (c :: cs)

def resolveAttr (cls : List Cls) (a : Attr) : Attr :=
  let isMatch : Bool :=
    baseTypeNames.contains a.cls ||
    (match cls.find? (·.name == a.cls) with
     | some c => c.kind == .match_
     | none => false)
  if isMatch then { a with ref := false, cont := true } else { a with ref := true }

def compile (g : Gram) : Except TxErr Compiled := do
  match g.rules with
  | [] => .error (.unsupported "empty grammar")
  | r0 :: _ =>
    if !(g.rules.all fun r => wf r.body) then .error (.unsupported "expression shape") else
    if g.rules.any (fun r => match r.body with | .ref _ true => !r.hasParams | _ => false) then
      .error (.unsupported "suppressed alias") else
    if g.rules.any (fun r => baseTypeNames.contains r.name || r.name == "OBJECT") then
      .error (.unsupported "rule named like a base type") else
    if !(g.rules.map (·.name)).Nodup then .error (.unsupported "duplicate rule") else
    -- first pass (per rule, in order)
    let classes0 ← ruleClasses true g.rules
    -- second pass: rule references
    let offs := offsets g.rules baseNodes.length
    checkRefs g offs ((g.rules.map (·.name)) ++ refsList (g.rules.map (·.body)))
    let rootOf (n : String) : Nat :=
      match resolveRoot g offs (g.rules.length + 1) n with
      | .ok i => i
      | .error _ => 0
    let body := baseNodes ++ emitRules rootOf g.rules baseNodes.length
    let top := body.length
    let nodes := body ++
      [{ node := { kind := .seq, kids := [rootOf r0.name, top + 1], root := true, rule := "Model" } },
       { node := { kind := .eof, rule := "EOF" } }]
    let nodes := nodes.toArray
    let roots := g.rules.map (fun r => (r.name, rootOf r.name))
    let classes := iterate (kindStep nodes roots) (classes0.length + 1) classes0
    let classes := classes.map fun c => { c with attrs := c.attrs.map (resolveAttr classes) }
    .ok { nodes := nodes, top := top,
          comments := (g.find? "Comment").map (fun r => rootOf r.name),
          classes := classes,
          multSensitive := match ruleClasses false g.rules with
            | .ok pinned => pinned.map (fun c => c.attrs.map (·.mult)) != classes0.map (fun c => c.attrs.map (·.mult))
            | .error _ => true }

def Compiled.grammar (c : Compiled) (input : Array Char) (toks : Array (Array (Option Nat))) : Peg.Grammar :=
  { nodes := c.nodes.map (·.node), comments := c.comments, memo := false, input := input, toks := toks }

end Tx
