import TextxVerif.Tx.Build
/-!
# The Arpeggio mirror with single call sites neutralised (classifier of the C01 known findings)

`parseQ fx` is `Peg.parse` (memoization off) in which each of six behaviours of
Arpeggio 2.0.3 that differ from the documented PEG semantics can be switched to
the textbook behaviour, one at a time:

* `alt`   — `OrderedChoice._parse` takes an alternative only if its result `is not None`;
            neutralised: an alternative that succeeded is taken whatever it returned;
* `empty` — `OrderedChoice._parse` and `Optional._parse` wrap the sub-result in a list, so one that
            matched nothing (result `[]`, e.g. `'a'*`) becomes the truthy `[[]]`: an empty
            NonTerminal is created, an unordered group counts the element as matched,
            `process_match` raises IndexError on it; neutralised: a falsy result stays falsy;
* `rep`   — `ZeroOrMore/OneOrMore._parse` stop at the first falsy iteration result
            (`if not result: break`), `UnorderedGroup._parse` does not count a falsy
            result as a match; neutralised: an iteration that succeeded and consumed
            input counts;
* `sep`   — a separator that matched stays in the result list when the element after
            it fails and the position is backtracked; neutralised: it is dropped;
* `cache` — `comment_positions` is keyed by position only and reused across
            whitespace contexts; neutralised: no cache;
* `ws`    — `parser.ws = old_ws` in the `finally` of `Sequence._parse` stores the
            *effective* set into `_real_ws` (wrong inside an `eolterm` repetition);
            neutralised: `_real_ws` is restored as well.

With every switch off `parseQ` is `Peg.parse` (checked by the harness on every
case: the driver computes `load` through `Peg.parse`, and the switched variants
only when the mirror and the documented semantics differ).  A failing input
belongs to a known finding only if the unswitched mirror reproduces the real
outcome and switching exactly that call site yields the documented outcome.
-/
namespace Tx.Quirk
open Peg

structure Fix where
  alt : Bool := false
  empty : Bool := false
  rep : Bool := false
  sep : Bool := false
  cache : Bool := false
  ws : Bool := false
deriving Repr, Inhabited

def choiceLoopQ (fx : Fix) (p : SubParser) : List Nat → Nat → PState → Res × PState
  | [], _, s => (.nomatch, s)
  | e :: es, cpos, s =>
    match p e s with
    | (.ok .none, s2) => if fx.alt then (.ok (.list [.none]), s2) else choiceLoopQ fx p es cpos s2
    | (.ok v, s2) => if fx.empty && !v.truthy then (.ok (.list [.none]), s2) else (.ok (.list [v]), s2)
    | (.nomatch, s2) => choiceLoopQ fx p es cpos { s2 with pos := cpos }
    | r => r

def repLoopQ (fx : Fix) (p : SubParser) (e : Nat) (sep : Option Nat) :
    Nat → PState → List Val → Bool → Bool → Res × PState
  | 0, s, _, _, _ => (.fuel, s)
  | k+1, s, acc, first, prev =>
    let cpos := s.pos
    let sr : Res × PState × List Val :=
      match sep with
      | some sp =>
        if prev then
          match p sp s with
          | (.ok v, s') => (.ok .none, s', if v.truthy then v :: acc else acc)
          | (r, s') => (r, s', acc)
        else (.ok .none, s, acc)
      | .none => (.ok .none, s, acc)
    match sr with
    | (.ok _, s1, acc1) =>
      match p e s1 with
      | (.ok v, s2) =>
          if v.truthy then repLoopQ fx p e sep k s2 (v :: acc1) false true
          else if fx.rep && s2.pos > cpos then repLoopQ fx p e sep k s2 acc1 false true
          else (.ok (.list acc1.reverse), s2)
      | (.nomatch, s2) =>
          let out := if fx.sep then acc else acc1
          if first then (.nomatch, { s2 with pos := cpos })
          else (.ok (.list out.reverse), { s2 with pos := cpos })
      | r => r
    | (.nomatch, s1, _) =>
        if first then (.nomatch, { s1 with pos := cpos })
        else (.ok (.list acc.reverse), { s1 with pos := cpos })
    | (r, s1, _) => (r, s1)

def unordForQ (fx : Fix) (p : SubParser) : List Nat → Nat → PState → Bool → Bool → ForRes × PState
  | [], _, s, _, mtch => (.exhausted mtch, s)
  | e :: es, posLoc, s, sepExc, mtch =>
    match p e s with
    | (.ok v, s2) =>
        if v.truthy || (fx.rep && s2.pos > posLoc) then
          if sepExc then unordForQ fx p es posLoc { s2 with pos := posLoc } sepExc false
          else (.hit v e, s2)
        else unordForQ fx p es posLoc s2 sepExc mtch
    | (.nomatch, s2) => unordForQ fx p es posLoc { s2 with pos := posLoc } sepExc false
    | (.fuel, s2) => (.fuel, s2)
    | (.bad, s2) => (.bad, s2)

def unordLoopQ (fx : Fix) (p : SubParser) (sep : Option Nat) :
    Nat → List Nat → PState → List Val → Bool → Option Val → Res × PState
  | 0, _, s, _, _, _ => (.fuel, s)
  | _+1, [], s, acc, _, _ => (.ok (if acc.isEmpty then .none else .list acc.reverse), s)
  | k+1, todo, s, acc, first, sepRes =>
    let posSep := s.pos
    let sr : Res × PState × Bool × Option Val :=
      match sep with
      | some sp =>
        if !first then
          match p sp s with
          | (.ok v, s') => (.ok .none, s', false, some v)
          | (.nomatch, s') => (.ok .none, { s' with pos := posSep }, true, sepRes)
          | (r, s') => (r, s', false, sepRes)
        else (.ok .none, s, false, sepRes)
      | .none => (.ok .none, s, false, sepRes)
    match sr with
    | (.ok _, s1, sepExc, sepRes1) =>
      let posLoc := s1.pos
      match unordForQ fx p todo posLoc s1 sepExc true with
      | (.hit v e, s2) =>
          let acc1 := match sepRes1 with
            | some sv => if sv.truthy then sv :: acc else acc
            | .none => acc
          unordLoopQ fx p sep k (remove todo e) s2 (if v.truthy then v :: acc1 else acc1) false sepRes1
      | (.exhausted true, s2) =>
          (.ok (if acc.isEmpty then .none else .list acc.reverse), { s2 with pos := posSep })
      | (.exhausted false, s2) => (.nomatch, { s2 with pos := posSep })
      | (.fuel, s2) => (.fuel, s2)
      | (.bad, s2) => (.bad, s2)
    | (r, s1, _, _) => (r, s1)

def matchNodeQ (fx : Fix) (g : Grammar) (pc : PState → Res × PState) (id : Nat) (nd : Node) (s : PState) :
    Res × PState :=
  if fx.cache then matchNode g pc id nd { s with commentPos := [] } else matchNode g pc id nd s

def withWsCtxQ (fx : Fix) (nd : Node) (body : PState → Res × PState) (s : PState) : Res × PState :=
  let (r, s2) := withWsCtx nd body s
  (r, if fx.ws && nd.ws.isSome then { s2 with realWs := s.realWs, ws := s.ws } else s2)

def bodyNodeQ (fx : Fix) (p : SubParser) (k : Nat) (nd : Node) (s : PState) : Res × PState :=
  match nd.kind with
  | .seq =>
      let cpos := s.pos
      match withWsCtxQ fx nd (fun s1 => seqLoop p nd.kids s1 []) s with
      | (.nomatch, s2) => (.nomatch, { s2 with pos := cpos })
      | r => r
  | .choice =>
      let cpos := s.pos
      match withWsCtxQ fx nd (fun s1 => choiceLoopQ fx p nd.kids cpos s1) s with
      | (.nomatch, s2) => (.nomatch, s2.nmRaise cpos)
      | r => r
  | .opt =>
      -- `Optional._parse` returns `[result]`: a falsy result (`[]` of `'x'*`) becomes the truthy `[[]]`
      match bodyNode p k nd s with
      | (.ok (.list [v]), s2) => if fx.empty && !v.truthy then (.ok .none, s2) else (.ok (.list [v]), s2)
      | r => r
  | .star =>
      match nd.kids with
      | [e] => withEol nd (fun s1 => repLoopQ fx p e nd.sep k s1 [] false false) s
      | _ => (.bad, s)
  | .plus =>
      match nd.kids with
      | [e] => withEol nd (fun s1 => repLoopQ fx p e nd.sep k s1 [] true false) s
      | _ => (.bad, s)
  | .unord =>
      let cpos := s.pos
      match withEol nd (fun s1 => unordLoopQ fx p nd.sep k nd.kids s1 [] true .none) s with
      | (.nomatch, s2) => (.nomatch, ({ s2 with pos := cpos }).nmRaise cpos)
      | r => r
  | _ => bodyNode p k nd s

def nodeParseQ (fx : Fix) (g : Grammar) (p : SubParser) (k : Nat) (id : Nat) (s : PState) : Res × PState :=
  match g.nodes[id]? with
  | .none => (.bad, s)
  | some nd =>
    match nd.kind with
    | .str | .re | .eof => matchNodeQ fx g (commentsLoop g p k) id nd s
    | _ => wrap g.memo id nd (bodyNodeQ fx p k nd) s

def parseQ (fx : Fix) (g : Grammar) : Nat → SubParser
  | 0 => fun _ s => (.fuel, s)
  | n+1 => fun id s => nodeParseQ fx g (parseQ fx g n) n id s

/-- `Tx.load` through the switched interpreter -/
def loadQ (fx : Fix) (c : Compiled) (cfg : Config) (input : Array Char) (toks : Array (Array (Option Nat)))
    (groups : Array Nat) (g1 : Array (Array (Option (Nat × Nat)))) (fuel : Nat) : Tx.Outcome :=
  match parseQ fx (c.grammar input toks) fuel c.top (Peg.initState cfg.skipws cfg.ws) with
  | (.ok tree, _) => build { c := c, cfg := cfg, input := input, groups := groups, g1 := g1 } fuel tree
  | (.nomatch, _) => .syntaxError
  | (.fuel, _) => .fuel
  | (.bad, _) => .bad "parser model"

end Tx.Quirk
