import TextxVerif.Wire
import TextxVerif.Tx.Compile
/-! JSON decoding / encoding for the `Tx` drivers (not part of the model; `partial` is fine here).

Expr:  {"k":"str","tok":n,"v":s} | {"k":"re","tok":n,"v":src} | {"k":"ref","name":r}
     | {"k":"seq","xs":[E]} | {"k":"alt","xs":[E]} | {"k":"rep","op":"?"|"*"|"+","x":E,"sep":S|null,"eol":b}
     | {"k":"unord","xs":[E],"sep":S|null,"eol":b}
     | {"k":"asgn","attr":a,"op":"="|"+="|"*="|"?=","rhs":E,"sep":S|null,"eol":b}
     | {"k":"pred","neg":b,"x":E}          every E may carry "sup":true
S:     {"re":b,"tok":n,"v":s}
Rule:  {"name":s,"skipws":b|null,"ws":s|null,"body":E}
-/
open Lean Wire
namespace Tx

def optField (j : Json) (k : String) (f : Json → Option α) : Option (Option α) :=
  match getObj? j k with
  | none => some none
  | some Json.null => some none
  | some v => (f v).map some

def parseSep (j : Json) : Option Sep := do
  pure { isRe := ← getBool? j "re", tok := ← getNat? j "tok", text := ← getStr? j "v" }

partial def parseExpr (j : Json) : Option Expr := do
  let k ← getStr? j "k"
  let sup := (getBool? j "sup").getD false
  match k with
  | "str" => pure (.str (← getNat? j "tok") (← getStr? j "v") sup)
  | "re" => pure (.re (← getNat? j "tok") (← getStr? j "v") sup)
  | "ref" => pure (.ref (← getStr? j "name") sup)
  | "seq" => pure (.seq (← (← getArr? j "xs").toList.mapM parseExpr) sup)
  | "alt" => pure (.alt (← (← getArr? j "xs").toList.mapM parseExpr) sup)
  | "rep" =>
    let op ← match (← getStr? j "op") with
      | "?" => some RepOp.opt | "*" => some RepOp.star | "+" => some RepOp.plus | _ => none
    pure (.rep op (← parseExpr (← getObj? j "x")) (← optField j "sep" parseSep) ((getBool? j "eol").getD false) sup)
  | "unord" =>
    pure (.unord (← (← getArr? j "xs").toList.mapM parseExpr) (← optField j "sep" parseSep)
      ((getBool? j "eol").getD false) sup)
  | "asgn" =>
    let op ← match (← getStr? j "op") with
      | "=" => some AsgOp.plain | "+=" => some AsgOp.plus | "*=" => some AsgOp.star | "?=" => some AsgOp.opt
      | _ => none
    pure (.asgn (← getStr? j "attr") op (← parseExpr (← getObj? j "rhs")) (← optField j "sep" parseSep)
      ((getBool? j "eol").getD false) sup)
  | "pred" => pure (.pred (← getBool? j "neg") (← parseExpr (← getObj? j "x")) sup)
  | _ => none

def parseRule (j : Json) : Option Rule := do
  pure { name := ← getStr? j "name", skipws := ← optField j "skipws" asBool?, ws := ← optField j "ws" asStr?,
         body := ← parseExpr (← getObj? j "body") }

def parseGram (j : Json) : Option Gram := do
  pure { rules := ← (← getArr? j "rules").toList.mapM parseRule }

def parseConfig (j : Json) : Option Config := do
  pure { skipws := ← getBool? j "skipws", ws := (← getStr? j "ws").toList,
         autoInit := ← getBool? j "auto_init", useRegexpGroup := ← getBool? j "use_regexp_group" }

def kindName : Peg.Kind → String
  | .str => "str" | .re => "re" | .eof => "eof" | .seq => "seq" | .choice => "choice" | .opt => "opt"
  | .star => "star" | .plus => "plus" | .unord => "unord" | .andP => "and" | .notP => "not"

def optJson (f : α → Json) : Option α → Json
  | some a => f a
  | none => Json.null

def cnodeToJson (c : CNode) : Json :=
  let n := c.node
  Json.mkObj [("k", kindName n.kind), ("kids", toJson n.kids), ("tok", toJson n.tok),
    ("ws", optJson (fun w => Json.str (String.ofList w)) n.ws), ("skipws", optJson Json.bool n.skipws),
    ("root", n.root), ("rule", n.rule), ("sup", n.suppress), ("sep", optJson (fun (i : Nat) => toJson i) n.sep),
    ("eol", n.eolterm), ("attr", c.attr), ("text", c.text)]

def multName : Mult → String
  | .optional => "0..1" | .one => "1" | .zeroOrMore => "0..*" | .oneOrMore => "1..*"

def kindStr : Kind → String
  | .common => "common" | .abstract => "abstract" | .match_ => "match"

def clsToJson (c : Cls) : Json :=
  Json.mkObj [("name", c.name), ("kind", kindStr c.kind),
    ("attrs", Json.arr (c.attrs.map fun a => Json.mkObj [("name", a.name), ("cls", a.cls), ("mult", multName a.mult),
      ("cont", a.cont), ("ref", a.ref), ("bool", a.boolAsg)]).toArray)]

def errToJson : TxErr → Json
  | .semantic w => Json.mkObj [("error", "semantic"), ("what", w)]
  | .syntax w => Json.mkObj [("error", "syntax"), ("what", w)]
  | .recursion => Json.mkObj [("error", "recursion")]
  | .unsupported w => Json.mkObj [("error", "unsupported"), ("what", w)]

def compiledToJson (c : Compiled) : Json :=
  Json.mkObj [("nodes", Json.arr (c.nodes.map cnodeToJson)), ("top", toJson c.top),
    ("comments", optJson (fun (i : Nat) => toJson i) c.comments),
    ("classes", Json.arr (c.classes.map clsToJson).toArray), ("multSensitive", c.multSensitive)]

end Tx
