import TextxVerif.Tx.Compile
/-!
# Mirror of model construction (`textx/model.py: parse_tree_to_objgraph`, `metamodel.py: _init_obj_attrs`, `process`)

`build` turns the parse tree produced by the Arpeggio mirror (`Peg.Val`) into
the model: `process_node` (objects for common rules, the first object / the
concatenation for abstract rules, `process_match` for match rules, the four
assignment handlers incl. the "Multiple assignments" error, the `parent`
link, the unhashable-`name` error), `_init_obj_attrs` (defaults with
`auto_init_attributes` on / off) and the default base-type processors of
`metamodel.py:300-313` (`int()` is computed here; `float()` is kept symbolic:
`PVal.float src` stands for `float(src)`, and `str(float(src))` inside joined
match-rule strings is kept as `\x01src\x02` — the harness evaluates both).

References (`[Cls]`) are not modelled: the harness generates grammars without links.

Objects carry a creation number so that `parent` (= the object on top of
`parser._inst_stack` when the rule node was processed) is a value of the model
and not a property of the representation.

Abstract rule nodes follow the code after the C03 repair (the first child whose
class is not a match rule; when only match rules are referenced, the first
non-Terminal; else the concatenation).  `c03` is set when a child produced by a
*match* rule stands before the first object, where the pinned code picked that
child (evidence only).

Separator children of a list assignment are told by the *identity* of the
parsing expression that made them (`n.rule is node.rule.sep`, here: the table
index), as the code does since the C02 repair — not by the rule name `sep`.
-/
namespace Tx
open Peg

inductive PVal
  | none
  | bool (b : Bool)
  | int (i : Int)
  | str (s : String)
  | float (src : String)        -- float(src)
deriving Repr, Inhabited, DecidableEq

inductive Value
  | prim (p : PVal)
  | obj (id : Nat) (cls : String) (parent : Option Nat) (attrs : List (String × Value))
  | list (vs : List Value)
deriving Repr, Inhabited

/-! ## base type conversions -/

def digitVal (c : Char) : Nat := c.toNat - '0'.toNat

/-- `int(x)` for `x` matched by `[-+]?[0-9]+` -/
def parseInt (s : String) : Int :=
  let num (cs : List Char) : Nat := cs.foldl (fun a c => 10 * a + digitVal c) 0
  match s.toList with
  | '-' :: cs => - (num cs : Int)
  | '+' :: cs => num cs
  | cs => num cs

/-- `str.replace(['\\', q], [q])`, left to right -/
def unescapeQuote (q : Char) : List Char → List Char
  | '\\' :: c :: cs => if c = q then q :: unescapeQuote q cs else '\\' :: unescapeQuote q (c :: cs)
  | c :: cs => c :: unescapeQuote q cs
  | [] => []

/-- default STRING processor: `x[1:-1].replace(…)` -/
def unquote (s : String) : String :=
  match s.toList with
  | q :: cs => String.ofList (unescapeQuote q cs.dropLast)
  | [] => ""

/-- is `float(src)` zero?  (`src` is a FLOAT / STRICTFLOAT literal) -/
def floatIsZero (src : String) : Bool :=
  (src.toList.takeWhile (fun c => c != 'e' && c != 'E')).all (fun c => !('1' ≤ c && c ≤ '9'))

def asciiLower (s : String) : String :=
  String.ofList (s.toList.map fun c => if 'A' ≤ c && c ≤ 'Z' then Char.ofNat (c.toNat + 32) else c)

/-- `metamodel.process(value, rule_name)` with the default processors -/
def convert (rule : String) (s : String) : PVal :=
  if rule == "BOOL" then .bool (s == "1" || asciiLower s == "true")
  else if rule == "INT" then .int (parseInt s)
  else if rule == "FLOAT" || rule == "STRICTFLOAT" then .float s
  else if rule == "STRING" then .str (unquote s)
  else .str s

/-- Python `str(v)` -/
def PVal.pyStr : PVal → String
  | .none => "None"
  | .bool true => "True"
  | .bool false => "False"
  | .int i => toString i
  | .str s => s
  | .float src => "\x01" ++ src ++ "\x02"

def PVal.truthy : PVal → Bool
  | .none => false
  | .bool b => b
  | .int i => i != 0
  | .str s => s != ""
  | .float src => !floatIsZero src

def Value.truthy : Value → Bool
  | .prim p => p.truthy
  | .obj .. => true
  | .list vs => !vs.isEmpty

def Value.isList : Value → Bool
  | .list _ => true
  | _ => false

/-! ## context -/

structure BCtx where
  c : Compiled
  cfg : Config
  input : Array Char
  groups : Array Nat                                   -- regex.groups per token
  g1 : Array (Array (Option (Nat × Nat)))              -- span of group 1 per token and position

inductive BErr
  | multAssign            -- TextXSemanticError, err_type "Multiple assignments"
  | unhashableName        -- TextXSemanticError "Object name can't be of unhashable type"
  | indexError            -- `nt[0]` / `node[0]` on an empty NonTerminal: Python raises IndexError
  | bad (what : String)   -- parse tree shape the real code would not produce
  | fuel
deriving Repr, Inhabited, DecidableEq

structure BSt where
  next : Nat := 0         -- objects created so far
  c03 : Bool := false
deriving Repr, Inhabited

def BCtx.node? (x : BCtx) (id : Nat) : Option CNode := x.c.nodes[id]?

def slice (input : Array Char) (pos len : Nat) : String :=
  String.ofList ((input.toList.drop pos).take len)

def BCtx.kindOf (x : BCtx) (cls : String) : Kind :=
  match x.c.classes.find? (·.name == cls) with
  | some c => c.kind
  | none => if cls == "OBJECT" then .abstract else .match_

/-- `Terminal.value` -/
def BCtx.termText (x : BCtx) (nd : CNode) (pos len : Nat) : String :=
  match nd.node.kind with
  | .str => nd.text
  | .eof => ""
  | _ => slice x.input pos len

/-- `process_node` on a Terminal (with `use_regexp_group`) -/
def BCtx.termValue (x : BCtx) (nd : CNode) (pos len : Nat) : PVal :=
  if x.cfg.useRegexpGroup && nd.node.kind == .re && x.groups[nd.node.tok]? == some 1 then
    match (x.g1[nd.node.tok]?).bind (fun row => (row[pos]?).join) with
    | some (s, l) => convert nd.node.rule (slice x.input s l)
    | none => .none
  else convert nd.node.rule (x.termText nd pos len)

/-- default value of an attribute (`_init_obj_attrs`) -/
def BCtx.default (x : BCtx) (a : Attr) : Value :=
  if a.mult.many then .list []
  else if baseTypeNames.contains a.cls then
    if x.cfg.autoInit then
      .prim (match a.cls with
        | "BOOL" => .bool false
        | "INT" => .int 0
        | "FLOAT" | "STRICTFLOAT" | "NUMBER" => .float "0.0"
        | _ => .str "")
    else if a.boolAsg then .prim (.bool false) else .prim .none
  else .prim .none

def getAttr (attrs : List (String × Value)) (name : String) : Option Value := attrs.lookup name

def setAttrV (attrs : List (String × Value)) (name : String) (v : Value) : List (String × Value) :=
  if attrs.any (·.1 == name) then attrs.map (fun p => if p.1 == name then (name, v) else p)
  else attrs ++ [(name, v)]

def isTerm : Val → Bool
  | .term .. => true
  | _ => false

def valRule (x : BCtx) : Val → String
  | .term id _ _ | .nt id _ => ((x.node? id).map (·.node.rule)).getD ""
  | _ => ""

/-- the parsing expression that made a parse-tree node (`n.rule`, an object: here its table index) -/
def valId : Val → Option Nat
  | .term id _ _ | .nt id _ => some id
  | _ => none

/-- `not (sep_rule is None or n.rule is not sep_rule)`: the child was made by the separator match
of this assignment's repeat modifiers (told by identity, not by the rule name `sep` nor by place) -/
def isSepKid (sep : Option Nat) (k : Val) : Bool :=
  match sep, valId k with
  | some s, some id => id == s
  | _, _ => false

abbrev BRes (α : Type) := Except BErr (α × BSt)

mutual
/-- `process_match` -/
def processMatch (x : BCtx) : Nat → Val → Except BErr PVal
  | 0, _ => .error .fuel
  | f+1, v =>
    match v with
    | .term id pos len =>
      match x.node? id with
      | some nd => .ok (convert nd.node.rule (x.termText nd pos len))
      | none => .error (.bad "node")
    | .nt _ [] => .error .indexError             -- `process_match(nt[0])` on an empty NonTerminal
    | .nt _ [k] => processMatch x f k            -- process(result, nt.rule_name) is the identity
    | .nt _ ks => do
      let parts ← processMatchList x f ks
      .ok (.str (String.join parts))
    | _ => .error (.bad "match tree")
def processMatchList (x : BCtx) : Nat → List Val → Except BErr (List String)
  | 0, _ => .error .fuel
  | _+1, [] => .ok []
  | f+1, k :: ks => do
    let p ← processMatch x f k
    let ps ← processMatchList x f ks
    .ok (p.pyStr :: ps)
end

mutual
/-- `process_node`; `top` = creation number of the object on top of `parser._inst_stack` -/
def processNode (x : BCtx) : Nat → Val → Option Nat → BSt → BRes Value
  | 0, _, _, _ => .error .fuel
  | f+1, v, top, st =>
    match v with
    | .term id pos len =>
      match x.node? id with
      | some nd => .ok (.prim (x.termValue nd pos len), st)
      | none => .error (.bad "node")
    | .nt id ks =>
      match x.node? id with
      | none => .error (.bad "node")
      | some nd =>
        if nd.node.rule.startsWith "__asgn" then .error (.bad "assignment outside an object") else
        match x.kindOf nd.node.rule with
        | .abstract =>
          match ks with
          | [] => .error .indexError               -- `process_node(node[0])`
          | [k] => processNode x f k top st
          | ks =>
            -- the first non-Terminal child whose class is not a match rule (the code after the C03 repair;
            -- `c03` records that the pinned code, which took the first non-Terminal, would differ)
            let firstNT := ks.find? (fun k => !isTerm k)
            let firstObj := ks.find? (fun k => !isTerm k && x.kindOf (valRule x k) != .match_)
            let st := match firstNT with
              | some k => if x.kindOf (valRule x k) == .match_ then { st with c03 := true } else st
              | none => st
            match firstObj, firstNT with
            | some k, _ => processNode x f k top st
            | none, some k => processNode x f k top st     -- "Only match rules are referenced."
            | none, none =>
              -- "All nodes are simple matches, do concatenation": ''.join(str(n) for n in node)
              .ok (.prim (.str (String.join (ks.map fun k => match k with
                | .term tid pos len => ((x.node? tid).map fun tn => x.termText tn pos len).getD ""
                | _ => ""))), st)
        | .match_ =>
          match processMatch x f v with
          | .ok p => .ok (.prim p, st)
          | .error e => .error e
        | .common =>
          match x.c.classes.find? (·.name == nd.node.rule) with
          | none => .error (.bad "class")
          | some cls =>
            let me := st.next
            let attrs := cls.attrs.map fun a => (a.name, x.default a)
            match processKids x f ks me attrs { st with next := st.next + 1 } with
            | .error e => .error e
            | .ok (attrs, st) =>
              -- hasattr(inst, "name") and inst.name: used as a dict key
              match getAttr attrs "name" with
              | some (.list (_ :: _)) => .error .unhashableName
              | _ => .ok (.obj me nd.node.rule top attrs, st)
    | _ => .error (.bad "tree")

/-- the `for n in node: process_node(n)` loop of an object node; assignments act on `attrs` -/
def processKids (x : BCtx) : Nat → List Val → Nat → List (String × Value) → BSt → BRes (List (String × Value))
  | 0, _, _, _, _ => .error .fuel
  | _+1, [], _, attrs, st => .ok (attrs, st)
  | f+1, k :: ks, me, attrs, st =>
    let isAsg : Option CNode :=
      match k with
      | .nt id _ => (x.node? id).bind fun nd => if nd.node.rule.startsWith "__asgn" then some nd else none
      | _ => none
    match isAsg, k with
    | some nd, .nt _ aks =>
      let name := nd.attr
      let r : BRes (List (String × Value)) :=
        if nd.node.rule == "__asgn_optional" then .ok (setAttrV attrs name (.prim (.bool true)), st)
        else if nd.node.rule == "__asgn_plain" then
          match getAttr attrs name, aks with
          | some cur, a0 :: _ =>
            if cur.truthy && !cur.isList then .error .multAssign else
            match processNode x f a0 (some me) st with
            | .error e => .error e
            | .ok (v, st) =>
              match cur with
              | .list vs => .ok (setAttrV attrs name (.list (vs ++ [v])), st)
              | _ => .ok (setAttrV attrs name v, st)
          | _, _ => .error (.bad "plain assignment")
        else processList x f aks nd.node.sep me name attrs st
      match r with
      | .error e => .error e
      | .ok (attrs, st) => processKids x f ks me attrs st
    | _, _ =>
      match processNode x f k (some me) st with
      | .error e => .error e
      | .ok (_, st) => processKids x f ks me attrs st

/-- `op in ["list", "oneormore", "zeroormore"]`: append every child that was not made by the separator
match `sep` of this assignment node (`node.rule.sep`) -/
def processList (x : BCtx) : Nat → List Val → Option Nat → Nat → String → List (String × Value) → BSt →
    BRes (List (String × Value))
  | 0, _, _, _, _, _, _ => .error .fuel
  | _+1, [], _, _, _, attrs, st => .ok (attrs, st)
  | f+1, k :: ks, sep, me, name, attrs, st =>
    if isSepKid sep k then processList x f ks sep me name attrs st else
    match processNode x f k (some me) st with
    | .error e => .error e
    | .ok (v, st) =>
      match getAttr attrs name with
      | some (.list vs) => processList x f ks sep me name (setAttrV attrs name (.list (vs ++ [v]))) st
      | some (.prim .none) | none => processList x f ks sep me name (setAttrV attrs name (.list [v])) st
      | _ => .error (.bad "list assignment to a scalar")
end

/-- number of nodes of a parse tree (fuel for `build`) -/
def valSize : Nat → Val → Nat
  | 0, _ => 1
  | f+1, .nt _ ks => 1 + (ks.map (valSize f)).sum
  | f+1, .list ks => 1 + (ks.map (valSize f)).sum
  | _+1, _ => 1

inductive Outcome
  | model (v : Value) (c03 : Bool)
  | syntaxError                   -- TextXSyntaxError (NoMatch)
  | semanticError (e : BErr)
  | indexError                    -- IndexError escapes from model construction
  | fuel
  | bad (what : String)
deriving Repr, Inhabited

/-- `parse_tree_to_objgraph(parser, parse_tree[0])` -/
def build (x : BCtx) (fuel : Nat) (tree : Val) : Outcome :=
  match tree with
  | .nt _ (k :: _) =>
    match processNode x fuel k none {} with
    | .ok (v, st) => .model v st.c03
    | .error .fuel => .fuel
    | .error (.bad w) => .bad w
    | .error .indexError => .indexError
    | .error e => .semanticError e
  | _ => .bad "root"

/-- `metamodel_from_str(grammar, **cfg).model_from_str(text)` on the mirror -/
def load (c : Compiled) (cfg : Config) (input : Array Char) (toks : Array (Array (Option Nat)))
    (groups : Array Nat) (g1 : Array (Array (Option (Nat × Nat)))) (fuel : Nat) : Outcome :=
  match Peg.parse (c.grammar input toks) fuel c.top (Peg.initState cfg.skipws cfg.ws) with
  | (.ok tree, _) => build { c := c, cfg := cfg, input := input, groups := groups, g1 := g1 } fuel tree
  | (.nomatch, _) => .syntaxError
  | (.fuel, _) => .fuel
  | (.bad, _) => .bad "parser model"

end Tx
