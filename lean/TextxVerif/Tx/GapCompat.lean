import TextxVerif.Peg.GapExt
/-!
# Gap extension and the `use_regexp_group` span tables (C22)

The group-1 spans of the regex matches are an input table of the model construction (`Tx.BCtx.g1`), like the token
table; `g1CompatB` is the analogue of `Peg.tokCompatB` for it.  Core Lean only (used by the `Tx` driver).
-/
namespace Tx
open Peg

/-- the regex-group table entry `(start, length)` of token `t` at position `q` -/
def g1At (g1 : Array (Array (Option (Nat × Nat)))) (t q : Nat) : Option (Nat × Nat) :=
  (g1[t]?).bind (fun row => (row[q]?).join)

/-- the group-1 tables of the original and of the extended input agree up to the shift, and no group span
overlaps the insertion point (the `use_regexp_group` analogue of `tokCompatAt`) -/
def g1CompatAt (g1 g1' : Array (Array (Option (Nat × Nat)))) (p k t q : Nat) : Bool :=
  match g1At g1 t q with
  | some (s, l) => g1At g1' t (sh p k q) == some (sh p k s, l) && (decide (s + l ≤ p) || decide (p ≤ s))
  | none => g1At g1' t (sh p k q) == none

def g1CompatB (g1 g1' : Array (Array (Option (Nat × Nat)))) (size p k : Nat) : Bool :=
  (List.range (max g1.size g1'.size)).all fun t =>
    (List.range (size + 1)).all fun q => g1CompatAt g1 g1' p k t q

end Tx
