/-!
# textX source grammars (abstract syntax)

The grammar a user writes, as the harness generates it (`harness/gen_grammar.py`)
and as `textx/lang.py` parses it.  `Tx.compile` (Compile.lean) mirrors what the
`TextXVisitor` turns it into; `Tx.Sem` (Sem.lean) gives it the documented PEG
meaning directly.

Token matching (string comparison, `re.match`) is not part of this model: every
string / regex match carries an index `tok` into a table `toks[tok][pos] =
matched length` that is an input of every evaluation (`Peg.Grammar.toks`).
Token indices 0‥5 are reserved for the base-type regexes
ID, BOOL, INT, FLOAT, STRICTFLOAT, STRING (in this order).

Core Lean only.
-/
namespace Tx

inductive RepOp | opt | star | plus
deriving DecidableEq, Repr, Inhabited

/-- assignment operators `=`, `+=`, `*=`, `?=` -/
inductive AsgOp | plain | plus | star | opt
deriving DecidableEq, Repr, Inhabited

/-- a separator modifier: a string or a regex match -/
structure Sep where
  isRe : Bool
  tok : Nat
  text : String
deriving DecidableEq, Repr, Inhabited

/-- textX rule expressions.  `sup` is the suppression operator `-` written after
the expression.  `unord xs` is `( x₁ … xₙ )#`. -/
inductive Expr
  | str (tok : Nat) (v : String) (sup : Bool)
  | re (tok : Nat) (src : String) (sup : Bool)
  | ref (name : String) (sup : Bool)
  | seq (xs : List Expr) (sup : Bool)
  | alt (xs : List Expr) (sup : Bool)
  | rep (op : RepOp) (x : Expr) (sep : Option Sep) (eol : Bool) (sup : Bool)
  | unord (xs : List Expr) (sep : Option Sep) (eol : Bool) (sup : Bool)
  | asgn (attr : String) (op : AsgOp) (rhs : Expr) (sep : Option Sep) (eol : Bool) (sup : Bool)
  | pred (neg : Bool) (x : Expr) (sup : Bool)
deriving Repr, Inhabited

/-- one grammar rule `Name[params]: body;` -/
structure Rule where
  name : String
  skipws : Option Bool := none     -- `skipws` / `noskipws`
  ws : Option String := none       -- text between the quotes of `ws='…'`, escapes not yet interpreted
  body : Expr
deriving Repr, Inhabited

structure Gram where
  rules : List Rule
deriving Repr, Inhabited

/-- metamodel options that matter for C01 -/
structure Config where
  skipws : Bool := true
  ws : List Char := ['\t', '\n', '\r', ' ']      -- arpeggio.DEFAULT_WS
  autoInit : Bool := true
  useRegexpGroup : Bool := false
deriving Repr, Inhabited

def baseTypeNames : List String :=
  ["ID", "BOOL", "INT", "FLOAT", "STRICTFLOAT", "STRING", "NUMBER", "BASETYPE"]

def Gram.find? (g : Gram) (name : String) : Option Rule := g.rules.find? (·.name == name)

def Expr.sup : Expr → Bool
  | .str _ _ s | .re _ _ s | .ref _ s | .seq _ s | .alt _ s | .rep _ _ _ _ s | .unord _ _ _ s
  | .asgn _ _ _ _ _ s | .pred _ _ s => s

end Tx
