import TextxVerif.Tx.Build
/-!
# The documented semantics of a textX grammar (`docs/src/grammar.md`, `parser_config.md`, `metamodel.md`)

`Sem.eval` gives a grammar its meaning directly on the grammar's abstract syntax
— no parser model, no parse tree, none of Arpeggio's result conventions:

* textbook PEG: sequence, *ordered* choice (the first alternative that succeeds
  is taken), optional, greedy `*` / `+` with separator (`y+` is `y (sep y)*`; a separator
  is consumed only when an element follows; an iteration that consumes nothing ends the loop), `#` (every element once, in any order;
  the elements that match something are separated by the separator; when no further element can be taken the
  remaining ones must match nothing there — see `pUnord`), `&` / `!` without consumption,
  suppression `-` (matches, contributes nothing);
* before every string / regex match: whitespace of the active set is skipped when
  `skipws` is on, and `Comment` matches are skipped; rule modifiers replace
  `skipws` / `ws` for the rule and everything reached from it; `eolterm` removes
  `\n\r` from the active set for the duration of the repetition;
* rule kinds: *common* = has an assignment, *abstract* = no assignment and
  references a non-match rule, *match* = the rest;
* a common rule yields an object of its class: attributes start at their
  defaults (`auto_init_attributes` on / off) and receive the assignments in
  textual order — `=` sets (appends when the attribute is a list), `?=` sets
  `True`, `+=` / `*=` append; an attribute is a list iff it can collect more
  than one value (`count`); its type is the common right-hand-side type or
  `OBJECT`; contained objects have the container as `parent`;
* a match rule yields the converted token when it matched one thing, else the
  concatenation of the `str()` of its parts; an abstract rule yields its first
  object, or the value of its only part, or the concatenation of the matched texts.

Where the docs are silent this file decides (repeated in the evidence): a rule
application that contributes nothing (matched the empty string, or only
suppressed matches) creates no object and no value; an empty regex match
contributes nothing; a model whose top rule contributes nothing is `''`;
Comments are skipped also when `skipws` is off; a `name` attribute holding a
non-empty list is the documented "must be hashable" error.

Total functions, recursion on fuel.  Token matching is the input table `toks`.
-/
namespace Tx.Sem
open Tx

/-- whitespace context -/
structure Ctx where
  skipws : Bool
  ws : List Char
  eol : Bool := false
deriving Repr, Inhabited

def Ctx.active (c : Ctx) : List Char := if c.eol then Peg.stripEol c.ws else c.ws

structure Env where
  g : Gram
  cfg : Config
  input : Array Char
  toks : Array (Array (Option Nat))
  groups : Array Nat
  g1 : Array (Array (Option (Nat × Nat)))
  kinds : List (String × Kind) := []        -- `kinds g`, computed once (`mkEnv`)

def Env.tokLen (x : Env) (t pos : Nat) : Option Nat :=
  match x.toks[t]? with
  | some row => (row[pos]?).join
  | none => none

/-! ## static part: kinds, attribute multiplicity and type -/

inductive Cnt | zero | one | many
deriving DecidableEq, Repr, Inhabited

def Cnt.add : Cnt → Cnt → Cnt
  | .zero, c | c, .zero => c
  | _, _ => .many

def Cnt.max : Cnt → Cnt → Cnt
  | .many, _ | _, .many => .many
  | .one, _ | _, .one => .one
  | _, _ => .zero

mutual
/-- how many values can attribute `a` collect while `e` is matched once -/
def count (a : String) : Expr → Cnt
  | .asgn b op _ _ _ _ => if a == b then (if op = .plus || op = .star then .many else .one) else .zero
  | .seq xs _ | .unord xs _ _ _ => countSum a xs
  | .alt xs _ => countMax a xs
  | .rep op x _ _ _ => match op with
      | .opt => count a x
      | _ => if count a x = .zero then .zero else .many
  | .pred _ x _ => count a x
  | _ => .zero
def countSum (a : String) : List Expr → Cnt
  | [] => .zero
  | x :: xs => (count a x).add (countSum a xs)
def countMax (a : String) : List Expr → Cnt
  | [] => .zero
  | x :: xs => (count a x).max (countMax a xs)
end

structure AttrSpec where
  name : String
  ty : String
  isList : Bool
  boolAsg : Bool
deriving Repr, Inhabited

/-- attributes of a rule in order of first assignment, with the agreed type -/
def attrSpecs (body : Expr) : List AttrSpec :=
  let evs := (events body).filterMap fun e => match e with
    | .asg a op ty _ => some (a, op, ty)
    | _ => none
  evs.foldl (fun acc (a, op, ty) =>
    match acc.find? (·.name == a) with
    | some _ => acc.map fun s => if s.name == a then
        { s with ty := if s.ty == ty then ty else "OBJECT", boolAsg := s.boolAsg || op = .opt } else s
    | none => acc ++ [{ name := a, ty := ty, isList := count a body = .many, boolAsg := op = .opt }]) []

def hasAsgn (body : Expr) : Bool := !(events body).all fun e => match e with | .asg .. => false | _ => true

/-- rule kinds as the docs define them: least fixpoint of "references a non-match rule" -/
def kindsStep (g : Gram) (ks : List (String × Kind)) : List (String × Kind) :=
  g.rules.map fun r =>
    if hasAsgn r.body then (r.name, .common)
    else if (refs r.body).any (fun n => match ks.lookup n with | some k => k != .match_ | none => false)
      then (r.name, .abstract) else (r.name, (ks.lookup r.name).getD .match_)

def kinds (g : Gram) : List (String × Kind) :=
  iterate (kindsStep g) (g.rules.length + 1) (g.rules.map fun r => (r.name, Kind.match_))

/-- does an application of the rule appear as a plain token (no node of its own)? -/
def termLike (g : Gram) : Nat → String → Bool
  | 0, _ => false
  | f+1, name =>
    match g.find? name with
    | none => (baseTypeNames.take 6).contains name
    | some r =>
      match r.body with
      | .str _ _ false | .re _ _ false => !r.hasParams
      | .ref n false => if r.hasParams then false else termLike g f n
      | _ => false

/-! ## dynamic part -/

inductive Item
  /-- an unsuppressed token matched at `pos` (`rule` = name under which conversions look it up) -/
  | tok (rule : String) (isRe : Bool) (t : Nat) (lit : String) (pos len : Nat)
  /-- the value of a rule application -/
  | val (v : Value) (kind : Kind)
  /-- an assignment with the values it contributes -/
  | asg (attr : String) (op : AsgOp) (vs : List Value)
deriving Repr, Inhabited

inductive SRes (α : Type)
  | ok (pos : Nat) (a : α)
  | fail
  | fuel
  | skip (why : String)      -- outside what this file (or the pinned/repaired C02/C03 code) defines
deriving Repr, Inhabited

def Env.raw (x : Env) : Item → String
  | .tok _ isRe _ lit pos len => if isRe then slice x.input pos len else lit
  | _ => ""

/-- value of a token used as a model value (`use_regexp_group` applies) -/
def Env.tokValue (x : Env) (rule : String) (isRe : Bool) (t : Nat) (lit : String) (pos len : Nat) : PVal :=
  if x.cfg.useRegexpGroup && isRe && x.groups[t]? == some 1 then
    match (x.g1[t]?).bind (fun row => (row[pos]?).join) with
    | some (s, l) => convert rule (slice x.input s l)
    | none => .none
  else convert rule (if isRe then slice x.input pos len else lit)

/-- value of an item on the right-hand side of an assignment / as the only part of an abstract rule -/
def Env.itemValue (x : Env) : Item → Option Value
  | .tok rule isRe t lit pos len => some (.prim (x.tokValue rule isRe t lit pos len))
  | .val v _ => some v
  | .asg .. => none

/-- `str()` of a part of a match rule -/
def Env.partStr (x : Env) : Item → String
  | .tok rule isRe _ lit pos len => (convert rule (if isRe then slice x.input pos len else lit)).pyStr
  | .val (.prim p) _ => p.pyStr
  | _ => ""

def skipWsFrom (input : Array Char) (ws : List Char) : Nat → Nat → Nat := Peg.skipWsFrom input ws

/-- the Comment rule's token, when the grammar has one (it must be a single match) -/
def commentTok (g : Gram) : Option (Option Nat) :=
  match g.find? "Comment" with
  | none => some none
  | some r => match r.body with
    | .str t _ false | .re t _ false => if r.hasParams then none else some (some t)
    | _ => none

/-- skip whitespace (when on) and comments before a match -/
def layout (x : Env) (cm : Option Nat) (c : Ctx) : Nat → Nat → Nat
  | 0, pos => pos
  | f+1, pos =>
    let pos := if c.skipws then skipWsFrom x.input c.active (x.input.size + 1 - pos) pos else pos
    match cm with
    | none => pos
    | some t =>
      match x.tokLen t pos with
      | some (l+1) => layout x cm c f (pos + l + 1)
      | _ => pos

def applyAsg (specs : List AttrSpec) (attrs : List (String × Value)) : Item → List (String × Value)
  | .asg a .opt _ => setAttrV attrs a (.prim (.bool true))
  | .asg a .plain (v :: _) =>
    (match getAttr attrs a with
     | some (.list vs) => setAttrV attrs a (.list (vs ++ [v]))
     | _ => setAttrV attrs a v)
  | .asg a _ vs =>
    (match getAttr attrs a with
     | some (.list old) => setAttrV attrs a (.list (old ++ vs))
     | _ => setAttrV attrs a (.list vs))
  | _ => attrs

def defaultOf (cfg : Config) (s : AttrSpec) : Value :=
  if s.isList then .list []
  else if baseTypeNames.contains s.ty then
    if cfg.autoInit then
      .prim (match s.ty with
        | "BOOL" => .bool false
        | "INT" => .int 0
        | "FLOAT" | "STRICTFLOAT" | "NUMBER" => .float "0.0"
        | _ => .str "")
    else if s.boolAsg then .prim (.bool false) else .prim .none
  else .prim .none

/-- hidden attribute marking an object that discarded a part whose `name` is unhashable -/
def badMark : String := "\x00bad"

/-- does the value contain an object whose `name` is a non-empty list (or that discarded such an object)? -/
def badName : Nat → Value → Bool
  | 0, _ => false
  | f+1, .obj _ _ _ attrs =>
    (match getAttr attrs "name" with | some (.list (_ :: _)) => true | _ => false) ||
    (getAttr attrs badMark).isSome || attrs.any (fun p => badName f p.2)
  | f+1, .list vs => vs.any (badName f)
  | _, _ => false

/-- what a rule application yields, from the items of its body -/
def ruleValue (x : Env) (r : Rule) (kind : Kind) (items : List Item) : SRes (Option Item) :=
  match items with
  | [] => .ok 0 none
  | _ =>
    match kind with
    | .common =>
      let specs := attrSpecs r.body
      let attrs := items.foldl (applyAsg specs) (specs.map fun s => (s.name, defaultOf x.cfg s))
      -- parts that are not assigned are discarded (their construction errors are kept)
      let attrs := if items.any (fun i => match i with | .val v _ => badName 1000 v | _ => false)
        then attrs ++ [(badMark, .prim .none)] else attrs
      .ok 0 (some (.val (.obj 0 r.name none attrs) .common))
    | .match_ =>
      match items with
      | [i] => match x.itemValue i with
        | some v => .ok 0 (some (.val (match i with
            | .tok rule isRe _ lit pos len => .prim (convert rule (if isRe then slice x.input pos len else lit))
            | _ => v) .match_))
        | none => .ok 0 none
      | is => .ok 0 (some (.val (.prim (.str (String.join (is.map x.partStr)))) .match_))
    | .abstract =>
      match items with
      | [i] => match x.itemValue i with
        | some v => .ok 0 (some (.val v .abstract))
        | none => .ok 0 none
      | is =>
        match is.find? (fun i => match i with | .val _ k => k != .match_ | _ => false) with
        | some (.val v _) => .ok 0 (some (.val v .abstract))
        | _ =>
          if is.any (fun i => match i with | .val .. => true | _ => false) then .skip "c03"
          else .ok 0 (some (.val (.prim (.str (String.join (is.map x.raw)))) .abstract))

/-- marks the token items contributed by separator modifiers; not a possible rule name, so a
grammar rule called `sep` is an ordinary rule -/
def sepMark : String := "\x00sep"

def sepItem (s : Sep) (pos len : Nat) : Item := .tok sepMark s.isRe s.tok s.text pos len

def isSep : Item → Bool
  | .tok rule .. => rule == sepMark
  | _ => false

mutual
/-- match `e` at `pos` under the whitespace context `c` -/
def pExpr (x : Env) (cm : Option Nat) : Nat → Ctx → Expr → Nat → SRes (List Item)
  | 0, _, _, _ => .fuel
  | f+1, c, e, pos =>
    let r : SRes (List Item) :=
      match e with
      | .str t v _ =>
        let p := layout x cm c (x.input.size + 1) pos
        match x.tokLen t p with
        | some len => .ok (p + len) [.tok "" false t v p len]
        | none => .fail
      | .re t src _ =>
        let p := layout x cm c (x.input.size + 1) pos
        match x.tokLen t p with
        | some 0 => .ok p []
        | some len => .ok (p + len) [.tok "" true t src p len]
        | none => .fail
      | .ref name _ =>
        match pRule x cm f c name pos with
        | .ok p (some i) => .ok p [i]
        | .ok p none => .ok p []
        | .fail => .fail
        | .fuel => .fuel
        | .skip w => .skip w
      | .seq xs _ => pSeq x cm f c xs pos []
      | .alt xs _ => pAlt x cm f c xs pos
      | .rep .opt y _ _ _ =>
        match pExpr x cm f c y pos with
        | .fail => .ok pos []
        | r => r
      | .rep op y sep eol _ =>
        let c1 := if eol then { c with eol := true } else c
        match op with
        | .plus =>
          -- `y+` is `y` followed by `(sep y)*`
          match pExpr x cm f c1 y pos with
          | .ok p1 items1 => if p1 = pos then .ok p1 items1 else pRep x cm f c1 y sep p1 items1 false
          | r => r
        | _ => pRep x cm f c1 y sep pos [] true
      | .unord xs sep eol _ =>
        let c1 := if eol then { c with eol := true } else c
        pUnord x cm f c1 xs sep pos [] true
      | .asgn a op rhs sep eol _ =>
        match op with
        | .plain =>
          match pExpr x cm f c rhs pos with
          | .ok p [i] => match x.itemValue i with
            | some v => .ok p [.asg a .plain [v]]
            | none => .ok p []
          | .ok p _ => .ok p []
          | r => r
        | .opt =>
          match pExpr x cm f c rhs pos with
          | .ok p [] => .ok p []
          | .ok p _ => .ok p [.asg a .opt []]
          | .fail => .ok pos []
          | r => r
        | op =>
          let c1 := if eol then { c with eol := true } else c
          let r : SRes (List Item) :=
            match op with
            | .plus =>
              match pExpr x cm f c1 rhs pos with
              | .ok p1 items1 => if p1 = pos then .ok p1 items1 else pRep x cm f c1 rhs sep p1 items1 false
              | r => r
            | _ => pRep x cm f c1 rhs sep pos [] true
          match r with
          | .ok p items =>
            let vs := (items.filter (fun i => !isSep i)).filterMap x.itemValue
            -- separator matches are unsuppressed matches of the rule: a list assignment whose elements all contributed
            -- nothing but whose separators matched still contributes (the object exists; no value is added)
            .ok p (if items.isEmpty then [] else [.asg a op vs])
          | r => r
      | .pred neg y _ =>
        match pExpr x cm f c y pos with
        | .ok _ _ => if neg then .fail else .ok pos []
        | .fail => if neg then .ok pos [] else .fail
        | r => r
    match r with
    | .ok p items => .ok p (if e.sup then [] else items)
    | r => r

def pSeq (x : Env) (cm : Option Nat) : Nat → Ctx → List Expr → Nat → List Item → SRes (List Item)
  | 0, _, _, _, _ => .fuel
  | _+1, _, [], pos, acc => .ok pos acc
  | f+1, c, e :: es, pos, acc =>
    match pExpr x cm f c e pos with
    | .ok p items => pSeq x cm f c es p (acc ++ items)
    | r => r

def pAlt (x : Env) (cm : Option Nat) : Nat → Ctx → List Expr → Nat → SRes (List Item)
  | 0, _, _, _ => .fuel
  | _+1, _, [], _ => .fail
  | f+1, c, e :: es, pos =>
    match pExpr x cm f c e pos with
    | .fail => pAlt x cm f c es pos
    | r => r

/-- greedy repetition; never fails.  `first`: no element matched yet (no separator wanted) -/
def pRep (x : Env) (cm : Option Nat) : Nat → Ctx → Expr → Option Sep → Nat → List Item → Bool → SRes (List Item)
  | 0, _, _, _, _, _, _ => .fuel
  | f+1, c, e, sep, pos, acc, first =>
    -- separator
    let sp : Option (Nat × List Item) :=
      match sep, first with
      | some s, false =>
        let p := layout x cm c (x.input.size + 1) pos
        (match x.tokLen s.tok p with
         | some len => some (p + len, [sepItem s p len])
         | none => none)
      | _, _ => some (pos, [])
    match sp with
    | none => .ok pos acc
    | some (p1, sitems) =>
      match pExpr x cm f c e p1 with
      | .ok p2 items =>
        if p2 = pos then .ok pos acc                      -- no progress: stop
        else pRep x cm f c e sep p2 (acc ++ sitems ++ items) false
      | .fail => .ok pos acc
      | r => r

/-- unordered group: every element is matched once, in any order; the elements that match something are
separated by the separator.  One round: the separator (not before the first element), then the first remaining
element that matches *something* there is taken.  A round that takes nothing ends the group, before that
separator: every remaining element must then match *nothing* where the round tried it (an element that cannot
match there is missing; one that matches something where the separator is absent lacks its separator) -/
def pUnord (x : Env) (cm : Option Nat) : Nat → Ctx → List Expr → Option Sep → Nat → List Item → Bool →
    SRes (List Item)
  | 0, _, _, _, _, _, _ => .fuel
  | _+1, _, [], _, pos, acc, _ => .ok pos acc
  | f+1, c, rem, sep, pos, acc, first =>
    -- where the round tries the elements, the separator's item, and whether a wanted separator is absent
    let sp : Nat × List Item × Bool :=
      match sep, first with
      | some s, false =>
        let p := layout x cm c (x.input.size + 1) pos
        (match x.tokLen s.tok p with
         | some len => (p + len, [sepItem s p len], false)
         | none => (pos, [], true))
      | _, _ => (pos, [], false)
    match pFirst x cm f c rem sp.1 0 with
    | .ok _ (some (i, p2, items)) =>
        -- an element that matches something must be preceded by the separator
        if sp.2.2 then .fail
        else pUnord x cm f c (rem.eraseIdx i) sep p2 (acc ++ sp.2.1 ++ items) false
    | .ok _ none =>
        -- nothing more can be taken: the rest must match nothing here; the group ends before the separator
        match pAllEmpty x cm f c rem sp.1 with
        | .ok _ true => .ok pos acc
        | .ok _ false => .fail
        | .fail => .fail
        | .fuel => .fuel
        | .skip w => .skip w
    | .fail => .fail
    | .fuel => .fuel
    | .skip w => .skip w

/-- index, end position and items of the first element of `es` that matches with progress at `pos` -/
def pFirst (x : Env) (cm : Option Nat) : Nat → Ctx → List Expr → Nat → Nat → SRes (Option (Nat × Nat × List Item))
  | 0, _, _, _, _ => .fuel
  | _+1, _, [], _, _ => .ok 0 none
  | f+1, c, e :: es, pos, i =>
    match pExpr x cm f c e pos with
    | .ok p items => if p = pos then pFirst x cm f c es pos (i+1) else .ok 0 (some (i, p, items))
    | .fail => pFirst x cm f c es pos (i+1)
    | .fuel => .fuel
    | .skip w => .skip w

/-- does every element of `es` match nothing at `pos` (succeed there without consuming input)? -/
def pAllEmpty (x : Env) (cm : Option Nat) : Nat → Ctx → List Expr → Nat → SRes Bool
  | 0, _, _, _ => .fuel
  | _+1, _, [], _ => .ok 0 true
  | f+1, c, e :: es, pos =>
    match pExpr x cm f c e pos with
    | .ok p _ => if p = pos then pAllEmpty x cm f c es pos else .ok 0 false
    | .fail => .ok 0 false
    | .fuel => .fuel
    | .skip w => .skip w

/-- apply the rule called `name` -/
def pRule (x : Env) (cm : Option Nat) : Nat → Ctx → String → Nat → SRes (Option Item)
  | 0, _, _, _ => .fuel
  | f+1, c, name, pos =>
    match x.g.find? name with
    | none =>
      -- base types
      match baseIndex name with
      | none => .skip "unknown rule"
      | some i =>
        if i < 6 then
          let p := layout x cm c (x.input.size + 1) pos
          match x.tokLen i p with
          | some len => .ok (p + len) (some (.tok name true i name p len))
          | none => .fail
        else
          let alts := if name == "NUMBER" then ["STRICTFLOAT", "INT"] else ["NUMBER", "FLOAT", "BOOL", "ID", "STRING"]
          pBase x cm f c alts pos
    | some r =>
      let c1 : Ctx := { c with skipws := r.skipws.getD c.skipws, ws := (r.ws.map wsParam).getD c.ws }
      match pExpr x cm f c1 r.body pos with
      | .ok p items =>
        if termLike x.g (x.g.rules.length + 1) name then
          -- the rule is its token: same item under the rule's own name
          match items with
          | [.tok rl isRe t lit tp len] =>
            .ok p (some (.tok (if rl != "" then rl else name) isRe t lit tp len))
          | _ => .ok p none
        else
          match ruleValue x r ((x.kinds.lookup name).getD .match_) items with
          | .ok _ v => .ok p v
          | .fail => .fail
          | .fuel => .fuel
          | .skip w => .skip w
      | .fail => .fail
      | .fuel => .fuel
      | .skip w => .skip w

/-- NUMBER / BASETYPE: ordered choice of base types; a match rule with one part -/
def pBase (x : Env) (cm : Option Nat) : Nat → Ctx → List String → Nat → SRes (Option Item)
  | 0, _, _, _ => .fuel
  | _+1, _, [], _ => .fail
  | f+1, c, n :: ns, pos =>
    match pRule x cm f c n pos with
    | .ok p (some i) =>
      .ok p (some (match i with
        | .tok rule isRe _ lit tp len => .val (.prim (convert rule (if isRe then slice x.input tp len else lit))) .match_
        | i => i))
    | .ok _ none => pBase x cm f c ns pos
    | .fail => pBase x cm f c ns pos
    | r => r
end

inductive Outcome
  | model (v : Value)
  | syntaxError
  | unhashableName
  | fuel
  | skip (why : String)
deriving Repr, Inhabited

def mkEnv (g : Gram) (cfg : Config) (input : Array Char) (toks : Array (Array (Option Nat)))
    (groups : Array Nat) (g1 : Array (Array (Option (Nat × Nat)))) : Env :=
  { g := g, cfg := cfg, input := input, toks := toks, groups := groups, g1 := g1, kinds := kinds g }

/-- the model the documented semantics prescribe for `input` (`Model := top-rule EOF`) -/
def eval (x : Env) (fuel : Nat) : Outcome :=
  match commentTok x.g, x.g.rules with
  | none, _ => .skip "comment rule"
  | _, [] => .skip "empty grammar"
  | some cm, r0 :: _ =>
    let c : Ctx := { skipws := x.cfg.skipws, ws := x.cfg.ws }
    match pRule x cm fuel c r0.name 0 with
    | .ok p it =>
      if layout x cm c (x.input.size + 1) p = x.input.size then
        let v : Value := ((it.bind x.itemValue).getD (.prim (.str "")))
        if badName 1000 v then .unhashableName else .model v
      else .syntaxError
    | .fail => .syntaxError
    | .fuel => .fuel
    | .skip w => .skip w

end Tx.Sem
