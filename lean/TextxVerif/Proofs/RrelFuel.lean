import TextxVerif.Rrel
/-!
Fuel: a result other than `Res.fuel` does not depend on the amount of fuel.
-/
set_option linter.unusedVariables false
namespace Rrel

/-- `k'` agrees with `k` wherever `k` does not run out of fuel -/
def KLe (k k' : St → Vis → Res) : Prop := ∀ t V r, k t V = r → r ≠ .fuel → k' t V = r

theorem KLe.refl (k : St → Vis → Res) : KLe k k := fun _ _ _ h _ => h

theorem feed_le {k k' : St → Vis → Res} (hk : KLe k k') :
    ∀ (l : List St) (V : Vis) (r : Res), feed k l V = r → r ≠ .fuel → feed k' l V = r
  | [], V, r, h, _ => by simpa [feed] using h
  | x :: xs, V, r, h, hr => by
    simp only [feed] at h ⊢
    cases hx : k x V with
    | cont V1 =>
      rw [hk x V _ hx (by simp)]
      simp only [hx] at h
      exact feed_le hk xs V1 r h hr
    | found s =>
      simp only [hx] at h
      rw [hk x V _ hx (by simp)]
      exact h
    | postponed =>
      simp only [hx] at h
      rw [hk x V _ hx (by simp)]
      exact h
    | fuel =>
      simp only [hx] at h
      exact absurd h.symm hr

theorem eval_le (H : Heap) :
    ∀ (n m : Nat) (e : E) (f : Bool) (s : St) (V : Vis) (k k' : St → Vis → Res) (r : Res),
      n ≤ m → KLe k k' → eval H n e f s V k = r → r ≠ .fuel → eval H m e f s V k' = r := by
  intro n
  induction n with
  | zero =>
    intro m e f s V k k' r _ _ h hr
    simp only [eval] at h
    exact absurd h.symm hr
  | succ n ih =>
    intro m e f s V k k' r hnm hk h hr
    obtain ⟨m, rfl⟩ : ∃ m', m = m' + 1 := ⟨m - 1, by omega⟩
    have hnm' : n ≤ m := by omega
    cases e with
    | atom i a =>
      simp only [eval] at h ⊢
      cases hg : guard f s i V with
      | none => simpa [hg] using h
      | some V1 =>
        simp only [hg] at h ⊢
        cases ha : applyAtom H a f s with
        | none => simpa [ha] using h
        | some l =>
          simp only [ha] at h ⊢
          exact feed_le hk l V1 r h hr
    | grp i e =>
      simp only [eval] at h ⊢
      cases hg : guard f s i V with
      | none => simpa [hg] using h
      | some V1 =>
        simp only [hg] at h ⊢
        exact ih m e f s V1 k k' r hnm' hk h hr
    | alt a b =>
      simp only [eval] at h ⊢
      cases ha : eval H n a f s V k with
      | cont V1 =>
        rw [ih m a f s V k k' _ hnm' hk ha (by simp)]
        simp only [ha] at h
        exact ih m b f s V1 k k' r hnm' hk h hr
      | found s' =>
        simp only [ha] at h
        rw [ih m a f s V k k' _ hnm' hk ha (by simp)]
        exact h
      | postponed =>
        simp only [ha] at h
        rw [ih m a f s V k k' _ hnm' hk ha (by simp)]
        exact h
      | fuel =>
        simp only [ha] at h
        exact absurd h.symm hr
    | cat a b =>
      simp only [eval] at h ⊢
      refine ih m a f s V _ _ r hnm' ?_ h hr
      intro t V1 r1 h1 hr1
      exact ih m b false t V1 k k' r1 hnm' hk h1 hr1
    | star i e =>
      simp only [eval] at h ⊢
      cases hg : guard f s i V with
      | none => simpa [hg] using h
      | some V1 =>
        simp only [hg] at h ⊢
        have hk2 : KLe (fun t V3 => eval H n (.star i e) false t V3 k)
            (fun t V3 => eval H m (.star i e) false t V3 k') := by
          intro t V3 r1 h1 hr1
          exact ih m (.star i e) false t V3 k k' r1 hnm' hk h1 hr1
        cases hz : feed k (zeros H e f s) V1 with
        | cont V2 =>
          rw [feed_le hk _ V1 _ hz (by simp)]
          simp only [hz] at h
          exact ih m e f s V2 _ _ r hnm' hk2 h hr
        | found s' =>
          simp only [hz] at h
          rw [feed_le hk _ V1 _ hz (by simp)]
          exact h
        | postponed =>
          simp only [hz] at h
          rw [feed_le hk _ V1 _ hz (by simp)]
          exact h
        | fuel =>
          simp only [hz] at h
          exact absurd h.symm hr

theorem findPaths_le (H : Heap) (cls : Option String) (s0 : St) (n m : Nat) (hnm : n ≤ m) :
    ∀ (ps : List E) (V : Vis) (r : Res), findPaths H n cls s0 ps V = r → r ≠ .fuel →
      findPaths H m cls s0 ps V = r
  | [], V, r, h, _ => by simpa [findPaths] using h
  | p :: ps, V, r, h, hr => by
    simp only [findPaths] at h ⊢
    cases hp : eval H n p true s0 V (kTop H cls) with
    | cont V1 =>
      rw [eval_le H n m p true s0 V _ _ _ hnm (KLe.refl _) hp (by simp)]
      simp only [hp] at h
      exact findPaths_le H cls s0 n m hnm ps V1 r h hr
    | found s' =>
      simp only [hp] at h
      rw [eval_le H n m p true s0 V _ _ _ hnm (KLe.refl _) hp (by simp)]
      exact h
    | postponed =>
      simp only [hp] at h
      rw [eval_le H n m p true s0 V _ _ _ hnm (KLe.refl _) hp (by simp)]
      exact h
    | fuel =>
      simp only [hp] at h
      exact absurd h.symm hr

end Rrel
