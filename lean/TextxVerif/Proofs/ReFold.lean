import TextxVerif.Proofs.Re
import TextxVerif.Gen.Regexes
/-!
# Case-fold invariance of the regex engine `Re.m`

`FoldInvR cc r`: every character test of the pattern `r` gives the same answer on
characters that are equal up to case folding (`cc.fold`): literals compiled under
IGNORECASE (`chrI`) always do; a plain literal does when it is *caseless* (nothing else
folds to it: digits, signs, quotes, …); a character set / category does when its
membership test is fold-invariant (`\w`, `\d`, `[eE]`, `[0-9]`, negated sets of caseless
characters); `\b` when `\w` is fold-invariant.

`m_fold`: on two subject positions that are equal up to folding (previous character and
rest of the input), such a pattern has *the same list of matches up to folding* — same
number of matches, in the same priority order, each ending at the same offset.  Hence
`pyMatch` (the length `regex.match(text, pos)` returns) is the same: `pyMatch_fold`.
This is what C20 needs from `re.IGNORECASE` (assumption `RxFoldInv`), now proved for the
engine instead of assumed, for `keyword\b` patterns and for the base-type regexes.
-/
namespace Re

/-- two lists related element by element -/
inductive Rel2 {α β : Type} (R : α → β → Prop) : List α → List β → Prop
  | nil : Rel2 R [] []
  | cons {a b l l'} : R a b → Rel2 R l l' → Rel2 R (a :: l) (b :: l')

namespace Rel2
variable {α β γ δ : Type} {R : α → β → Prop} {S : γ → δ → Prop}

theorem append {l₁ l₁' : List α} {l₂ l₂' : List β} (h₁ : Rel2 R l₁ l₂) (h₂ : Rel2 R l₁' l₂') :
    Rel2 R (l₁ ++ l₁') (l₂ ++ l₂') := by
  induction h₁ with
  | nil => exact h₂
  | cons h _ ih => exact .cons h ih

theorem flatMap {l : List α} {l' : List β} (h : Rel2 R l l') {f : α → List γ} {f' : β → List δ}
    (hf : ∀ a b, R a b → Rel2 S (f a) (f' b)) : Rel2 S (l.flatMap f) (l'.flatMap f') := by
  induction h with
  | nil => exact .nil
  | cons hab _ ih =>
    simp only [List.flatMap_cons]
    exact (hf _ _ hab).append ih

theorem filter {l : List α} {l' : List β} (h : Rel2 R l l') {p : α → Bool} {p' : β → Bool}
    (hp : ∀ a b, R a b → p a = p' b) : Rel2 R (l.filter p) (l'.filter p') := by
  induction h with
  | nil => exact .nil
  | @cons a b _ _ hab _ ih =>
    simp only [List.filter_cons, hp a b hab]
    split
    · exact .cons hab ih
    · exact ih

theorem isEmpty_eq {l : List α} {l' : List β} (h : Rel2 R l l') : l.isEmpty = l'.isEmpty := by
  cases h <;> rfl

theorem head? {l : List α} {l' : List β} (h : Rel2 R l l') :
    (l.head? = none ∧ l'.head? = none) ∨ ∃ a b, l.head? = some a ∧ l'.head? = some b ∧ R a b := by
  cases h with
  | nil => exact .inl ⟨rfl, rfl⟩
  | cons hab _ => exact .inr ⟨_, _, rfl, rfl, hab⟩

end Rel2

/-- `\w` is invariant under case folding -/
def FoldWordAll (cc : CharClasses) : Prop := ∀ a b, cc.fold a = cc.fold b → cc.isWord a = cc.isWord b

/-- a character test is invariant under case folding -/
def FoldInvP (cc : CharClasses) (P : Char → Bool) : Prop := ∀ a b, cc.fold a = cc.fold b → P a = P b

/-- nothing else folds to the folding of `c` (digits, punctuation, …) -/
def Caseless (cc : CharClasses) (c : Char) : Prop := ∀ d, cc.fold d = cc.fold c → d = c

/-- every character test of the pattern is invariant under case folding -/
def FoldInvR (cc : CharClasses) : R → Prop
  | .eps => True
  | .chr c => Caseless cc c
  | .chrI _ => True
  | .cls neg items => FoldInvP cc (clsTest cc neg items)
  | .seq a b => FoldInvR cc a ∧ FoldInvR cc b
  | .alt a b => FoldInvR cc a ∧ FoldInvR cc b
  | .star _ r => FoldInvR cc r
  | .wordB _ => FoldWordAll cc
  | .ahead _ r => FoldInvR cc r
  | .behind _ cneg items => FoldInvP cc (clsTest cc cneg items)

/-- two subject positions equal up to case folding -/
def FoldSt (cc : CharClasses) (s t : St) : Prop :=
  s.1.map cc.fold = t.1.map cc.fold ∧ s.2.map cc.fold = t.2.map cc.fold

theorem FoldSt.length {cc : CharClasses} {s t : St} (h : FoldSt cc s t) : s.2.length = t.2.length := by
  have := congrArg List.length h.2
  simpa using this

theorem step_fold (cc : CharClasses) {P : Char → Bool} (hP : FoldInvP cc P) {s t : St} (h : FoldSt cc s t) :
    Rel2 (FoldSt cc) (step P s) (step P t) := by
  obtain ⟨p, l⟩ := s
  obtain ⟨q, l'⟩ := t
  obtain ⟨_, h2⟩ := h
  dsimp only at h2
  cases l with
  | nil =>
    cases l' with
    | nil => exact .nil
    | cons _ _ => simp at h2
  | cons d ds =>
    cases l' with
    | nil => simp at h2
    | cons e es =>
      simp only [List.map_cons, List.cons.injEq] at h2
      simp only [step, hP d e h2.1]
      split
      · exact .cons ⟨by simp [h2.1], h2.2⟩ .nil
      · exact .nil

theorem isWordO_fold {cc : CharClasses} (hw : FoldWordAll cc) {p q : Option Char}
    (h : p.map cc.fold = q.map cc.fold) : isWordO cc p = isWordO cc q := by
  cases p <;> cases q <;> simp at h
  · rfl
  · exact hw _ _ h

theorem atBoundary_fold {cc : CharClasses} (hw : FoldWordAll cc) {s t : St} (h : FoldSt cc s t) :
    atBoundary cc s = atBoundary cc t := by
  unfold atBoundary
  rw [isWordO_fold hw h.1]
  have : s.2.head?.map cc.fold = t.2.head?.map cc.fold := by
    have := congrArg List.head? h.2
    simpa [List.head?_map] using this
  rw [isWordO_fold hw this]

theorem starLoop_fold (cc : CharClasses) (g : Bool) {f : St → List St}
    (hf : ∀ s t, FoldSt cc s t → Rel2 (FoldSt cc) (f s) (f t)) :
    ∀ (n : Nat) (s t : St), FoldSt cc s t → Rel2 (FoldSt cc) (starLoop g f n s) (starLoop g f n t) := by
  intro n
  induction n with
  | zero => intro s t h; exact .cons h .nil
  | succ n ih =>
    intro s t h
    simp only [starLoop]
    have hmore : Rel2 (FoldSt cc)
        (((f s).filter (fun u => decide (u.2.length < s.2.length))).flatMap (starLoop g f n))
        (((f t).filter (fun u => decide (u.2.length < t.2.length))).flatMap (starLoop g f n)) := by
      apply Rel2.flatMap (R := FoldSt cc)
      · apply Rel2.filter (hf s t h)
        intro a b hab
        rw [hab.length, h.length]
      · intro a b hab; exact ih a b hab
    cases g
    · exact .cons h hmore
    · exact hmore.append (.cons h .nil)

/-- **the engine is invariant under case folding** for patterns whose character tests are -/
theorem m_fold (cc : CharClasses) (r : R) (hr : FoldInvR cc r) :
    ∀ s t, FoldSt cc s t → Rel2 (FoldSt cc) (m cc r s) (m cc r t) := by
  induction r with
  | eps => intro s t h; exact .cons h .nil
  | chr c =>
    intro s t h
    refine step_fold cc ?_ h
    intro a b hab
    by_cases ha : a = c
    · subst ha
      have : b = a := hr b hab.symm
      subst this; rfl
    · have hb : b ≠ c := by
        intro hb; subst hb
        exact ha (hr a hab)
      have h1 : (a == c) = false := by simpa using ha
      have h2 : (b == c) = false := by simpa using hb
      show (a == c) = (b == c)
      rw [h1, h2]
  | chrI c =>
    intro s t h
    refine step_fold cc ?_ h
    intro a b hab
    simp [hab]
  | cls neg items => intro s t h; exact step_fold cc hr h
  | seq a b iha ihb =>
    intro s t h
    exact (iha hr.1 s t h).flatMap (fun u v huv => ihb hr.2 u v huv)
  | alt a b iha ihb =>
    intro s t h
    exact (iha hr.1 s t h).append (ihb hr.2 s t h)
  | star g r ih =>
    intro s t h
    show Rel2 _ (starLoop g (m cc r) s.2.length s) (starLoop g (m cc r) t.2.length t)
    rw [h.length]
    exact starLoop_fold cc g (ih hr) _ s t h
  | wordB neg =>
    intro s t h
    simp only [m, atBoundary_fold hr h]
    split
    · exact .cons h .nil
    · exact .nil
  | ahead neg r ih =>
    intro s t h
    simp only [m, (ih hr s t h).isEmpty_eq]
    split
    · exact .cons h .nil
    · exact .nil
  | behind neg cneg items =>
    intro s t h
    obtain ⟨p, l⟩ := s
    obtain ⟨q, l'⟩ := t
    have h1 := h.1
    dsimp only at h1
    cases p <;> cases q <;> simp at h1
    · simp only [m]
      split
      · exact .cons h .nil
      · exact .nil
    · rename_i x y
      simp only [m, hr x y h1]
      split
      · exact .cons h .nil
      · exact .nil

/-- `regex.match(text, pos)` returns a match of the same length on positions equal up to case -/
theorem pyMatch_fold (cc : CharClasses) (r : R) (hr : FoldInvR cc r) (p q : Option Char) (l l' : List Char)
    (hp : p.map cc.fold = q.map cc.fold) (hl : l.map cc.fold = l'.map cc.fold) :
    pyMatch cc r p l = pyMatch cc r q l' := by
  have h : FoldSt cc (p, l) (q, l') := ⟨hp, hl⟩
  unfold pyMatch pyMatchSt
  rcases (m_fold cc r hr _ _ h).head? with ⟨h1, h2⟩ | ⟨a, b, h1, h2, hab⟩
  · rw [h1, h2]; rfl
  · rw [h1, h2]
    simp only [Option.map_some]
    rw [hab.length, h.length]

/-! ## patterns that satisfy it -/

theorem foldInvR_litsI (cc : CharClasses) (l : List Char) : FoldInvR cc (R.litsI l) := by
  induction l with
  | nil => trivial
  | cons c cs ih => exact ⟨trivial, ih⟩

/-- `\d` is invariant under case folding -/
def FoldDigitAll (cc : CharClasses) : Prop := ∀ a b, cc.fold a = cc.fold b → cc.isDigit a = cc.isDigit b

theorem foldInvP_word {cc : CharClasses} (hw : FoldWordAll cc) : FoldInvP cc (clsTest cc false [.cat .word false]) := by
  intro a b h
  simp [clsTest, CItem.test, Cat.test, hw a b h]

theorem foldInvP_kwHead {cc : CharClasses} (hw : FoldWordAll cc) (hd : FoldDigitAll cc) :
    FoldInvP cc (clsTest cc true [.cat .digit false, .cat .word true]) := by
  intro a b h
  simp [clsTest, CItem.test, Cat.test, hw a b h, hd a b h]

/-- textX's `ID` (`[^\d\W]\w*\b`) is closed under case change -/
theorem foldInvR_ID {cc : CharClasses} (hw : FoldWordAll cc) (hd : FoldDigitAll cc) : FoldInvR cc Gen.Regexes.ID :=
  ⟨foldInvP_kwHead hw hd, foldInvP_word hw, hw⟩

/-! ## the ASCII tables satisfy the hypotheses (non-vacuity; the driver's tables extend them) -/
def asciiPairOk (n k : Nat) : Bool :=
  asciiFold (Char.ofNat n) != asciiFold (Char.ofNat k) ||
    (n == k || (decide (65 ≤ n) && decide (n ≤ 90) && k == n + 32) || (decide (65 ≤ k) && decide (k ≤ 90) && n == k + 32))
theorem ascii_fold_pairs_b : ((List.range 128).all fun n => (List.range 128).all fun k => asciiPairOk n k) = true := by
  decide +kernel
theorem ascii_fold_pairs : ∀ n, n < 128 → ∀ k, k < 128 → asciiFold (Char.ofNat n) = asciiFold (Char.ofNat k) →
    n = k ∨ (65 ≤ n ∧ n ≤ 90 ∧ k = n + 32) ∨ (65 ≤ k ∧ k ≤ 90 ∧ n = k + 32) := by
  intro n hn k hk h
  have := ascii_fold_pairs_b
  rw [List.all_eq_true] at this
  have := this n (List.mem_range.mpr hn)
  rw [List.all_eq_true] at this
  have := this k (List.mem_range.mpr hk)
  simp only [asciiPairOk, h, bne_self_eq_false, Bool.false_or, Bool.or_eq_true, Bool.and_eq_true, beq_iff_eq,
    decide_eq_true_eq] at this
  rcases this with (h1 | h1) | h1
  · exact .inl h1
  · exact .inr (.inl ⟨h1.1.1, h1.1.2, h1.2⟩)
  · exact .inr (.inr ⟨h1.1.1, h1.1.2, h1.2⟩)
theorem ascii_fold_small : ∀ n, n < 128 → (asciiFold (Char.ofNat n)).toNat < 128 := by decide +kernel
theorem ascii_word_pairs : ∀ n, n < 26 → asciiWord (Char.ofNat (65+n)) = asciiWord (Char.ofNat (97+n)) := by decide +kernel

theorem asciiCC_fold (c : Char) : asciiCC.fold c = if c.toNat < 128 then asciiFold c else c := by
  simp [asciiCC, tableCC]
theorem asciiCC_isWord (c : Char) : asciiCC.isWord c = if c.toNat < 128 then asciiWord c else false := by
  simp [asciiCC, tableCC]

theorem asciiCC_fold_eq {a b : Char} (h : asciiCC.fold a = asciiCC.fold b) :
    a = b ∨ (a.toNat < 128 ∧ b.toNat < 128 ∧
      ((65 ≤ a.toNat ∧ a.toNat ≤ 90 ∧ b.toNat = a.toNat + 32) ∨ (65 ≤ b.toNat ∧ b.toNat ≤ 90 ∧ a.toNat = b.toNat + 32))) := by
  rw [asciiCC_fold, asciiCC_fold] at h
  by_cases ha : a.toNat < 128 <;> by_cases hb : b.toNat < 128
  · simp only [ha, hb, if_true] at h
    have ea : a = Char.ofNat a.toNat := by simp
    have eb : b = Char.ofNat b.toNat := by simp
    rw [ea, eb] at h
    rcases ascii_fold_pairs _ ha _ hb h with h | h | h
    · left; rw [ea, eb, h]
    · right; exact ⟨ha, hb, .inl h⟩
    · right; exact ⟨ha, hb, .inr h⟩
  · simp only [ha, hb, if_true, if_false] at h
    have ea : a = Char.ofNat a.toNat := by simp
    have := ascii_fold_small _ ha
    rw [← ea, h] at this
    exact absurd this hb
  · simp only [ha, hb, if_true, if_false] at h
    have eb : b = Char.ofNat b.toNat := by simp
    have := ascii_fold_small _ hb
    rw [← eb, ← h] at this
    exact absurd this ha
  · simp only [ha, hb, if_false] at h
    exact .inl h

theorem ascii_digit_pairs : ∀ n, n < 26 → asciiDigit (Char.ofNat (65+n)) = asciiDigit (Char.ofNat (97+n)) := by
  decide +kernel

theorem asciiCC_isDigit (c : Char) : asciiCC.isDigit c = if c.toNat < 128 then asciiDigit c else false := by
  simp [asciiCC, tableCC]

/-- a test that agrees on `A`/`a` … `Z`/`z` is invariant under the ASCII folding -/
theorem foldInvP_ascii {P : Char → Bool} (h : ∀ n, n < 26 → P (Char.ofNat (65+n)) = P (Char.ofNat (97+n))) :
    FoldInvP asciiCC P := by
  intro a b hab
  rcases asciiCC_fold_eq hab with rfl | ⟨_, _, ⟨h1, h2, h3⟩ | ⟨h1, h2, h3⟩⟩
  · rfl
  · obtain ⟨k, hk, ea, eb⟩ : ∃ k, k < 26 ∧ a = Char.ofNat (65 + k) ∧ b = Char.ofNat (97 + k) := by
      refine ⟨a.toNat - 65, by omega, ?_, ?_⟩
      · rw [show 65 + (a.toNat - 65) = a.toNat by omega]; simp
      · rw [show 97 + (a.toNat - 65) = b.toNat by omega]; simp
    subst ea eb; exact h k hk
  · obtain ⟨k, hk, ea, eb⟩ : ∃ k, k < 26 ∧ a = Char.ofNat (97 + k) ∧ b = Char.ofNat (65 + k) := by
      refine ⟨b.toNat - 65, by omega, ?_, ?_⟩
      · rw [show 97 + (b.toNat - 65) = a.toNat by omega]; simp
      · rw [show 65 + (b.toNat - 65) = b.toNat by omega]; simp
    subst ea eb; exact (h k hk).symm

theorem ascii_letters_small : ∀ n, n < 26 → (Char.ofNat (65+n)).toNat < 128 ∧ (Char.ofNat (97+n)).toNat < 128 := by
  decide +kernel

theorem foldWordAll_ascii : FoldWordAll asciiCC := by
  apply foldInvP_ascii
  intro n hn
  rw [asciiCC_isWord, asciiCC_isWord]
  have := ascii_word_pairs n hn
  obtain ⟨h1, h2⟩ := ascii_letters_small n hn
  simp [h1, h2, this]

theorem foldDigitAll_ascii : FoldDigitAll asciiCC := by
  apply foldInvP_ascii
  intro n hn
  rw [asciiCC_isDigit, asciiCC_isDigit]
  have := ascii_digit_pairs n hn
  obtain ⟨h1, h2⟩ := ascii_letters_small n hn
  simp [h1, h2, this]

/-- every character that is not an ASCII letter is caseless in the ASCII tables -/
theorem caseless_ascii (c : Char) (h1 : ¬ (65 ≤ c.toNat ∧ c.toNat ≤ 90)) (h2 : ¬ (97 ≤ c.toNat ∧ c.toNat ≤ 122)) :
    Caseless asciiCC c := by
  intro d hd
  rcases asciiCC_fold_eq hd with h | ⟨_, _, h | h⟩
  · exact h
  · omega
  · omega

/-! ## the generated base-type regexes (all but BOOL) are closed under case change, for the ASCII tables -/
open Gen.Regexes in
section
macro "fold_inv_ascii" : tactic => `(tactic|
  (repeat' constructor) <;>
    first
      | exact foldWordAll_ascii
      | exact caseless_ascii _ (by decide) (by decide)
      | exact foldInvP_ascii (by decide +kernel)
      | trivial)

theorem foldInvR_INT_ascii : FoldInvR asciiCC INT := by
  simp only [INT, R.opt, R.plus, FoldInvR]; fold_inv_ascii
theorem foldInvR_FLOAT_ascii : FoldInvR asciiCC FLOAT := by
  simp only [FLOAT, R.opt, R.plus, FoldInvR]; fold_inv_ascii
theorem foldInvR_STRICTFLOAT_ascii : FoldInvR asciiCC STRICTFLOAT := by
  simp only [STRICTFLOAT, R.opt, R.plus, FoldInvR]; fold_inv_ascii
theorem foldInvR_STRING_ascii : FoldInvR asciiCC STRING := by
  simp only [STRING, FoldInvR]; fold_inv_ascii
theorem foldInvR_ID_ascii : FoldInvR asciiCC ID := foldInvR_ID foldWordAll_ascii foldDigitAll_ascii
/-- a cased plain literal (as in BOOL's `True|true|False|false`, compiled without IGNORECASE) is not -/
theorem not_foldInvR_chr_T : ¬ FoldInvR asciiCC (.chr 'T') := by
  intro h
  have := h 't' (by decide +kernel)
  exact absurd this (by decide)
end

end Re
