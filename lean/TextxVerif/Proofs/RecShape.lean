import TextxVerif.Peg.RecCheck
import TextxVerif.Proofs.RecMono
/-! Soundness of the result-shape tables: if `wfSh g H sh` holds then every result of node `a`
has a shape listed in `sh a` (and none is `Z`/`H`). -/
namespace Rec
open Peg (Node Kind)

/-- the shapes that occur when no hollow list arises -/
def NET (v : Sh) : Prop := v = .N ∨ v = .E ∨ v = .T

theorem NET.add {acc v : Sh} (hv : NET v) : acc.add v = if v = .T then .T else acc := by
  rcases hv with h | h | h <;> subst h <;> simp [Sh.add]

theorem NET.truthy {v : Sh} (hv : NET v) : v.truthy = true ↔ v = .T := by
  rcases hv with h | h | h <;> subst h <;> simp [Sh.truthy]

theorem sub_mem {l allowed : List Sh} (h : sub l allowed = true) {v : Sh} (hv : v ∈ l) : v ∈ allowed := by
  simp only [sub, List.all_eq_true] at h
  have := h v hv
  simpa using this

theorem net_of_sub {l : List Sh} (h : sub l [.N, .E, .T] = true) {v : Sh} (hv : v ∈ l) : NET v := by
  have := sub_mem h hv
  simp only [List.mem_cons, List.mem_nil_iff, or_false] at this
  exact this

theorem canFalsy_of_mem {l : List Sh} {v : Sh} (hv : v ∈ l) (hf : v.truthy = false) : canFalsy l = true := by
  simp only [canFalsy, List.any_eq_true]
  exact ⟨v, hv, by simp [hf]⟩

section loops
variable {sh : ShTab}

theorem seqLoop_T {f : Nat → Nat → Res}
    (hf : ∀ e p v q, f e p = .ok v q → v ∈ shOf sh e ∧ NET v) :
    ∀ es p acc' q, seqLoop f es p .T = .ok acc' q → acc' = .T := by
  intro es
  induction es with
  | nil => intro p acc' q h; simp only [seqLoop, Res.ok.injEq] at h; exact h.1.symm
  | cons e es ih =>
    intro p acc' q h
    simp only [seqLoop] at h
    cases hfe : f e p with
    | ok v p1 =>
      rw [hfe] at h
      simp only at h
      have hn := (hf e p v p1 hfe).2
      rw [hn.add] at h
      by_cases hv : v = .T
      · simp only [hv, if_true] at h; exact ih p1 acc' q h
      · simp only [hv, if_false] at h; exact ih p1 acc' q h
    | fail => rw [hfe] at h; simp at h
    | fuel => rw [hfe] at h; simp at h
    | bad => rw [hfe] at h; simp at h

theorem seqLoop_sh {f : Nat → Nat → Res}
    (hf : ∀ e p v q, f e p = .ok v q → v ∈ shOf sh e ∧ NET v) :
    ∀ es p acc acc' q, seqLoop f es p acc = .ok acc' q → (acc = .E ∨ acc = .T) →
      (acc' = .E ∨ acc' = .T) ∧
      (acc' = .T → acc = .T ∨ ∃ e, e ∈ es ∧ Sh.T ∈ shOf sh e) ∧
      (acc' = .E → ∀ e, e ∈ es → canFalsy (shOf sh e) = true) := by
  intro es
  induction es with
  | nil =>
    intro p acc acc' q h hacc
    simp only [seqLoop, Res.ok.injEq] at h
    obtain ⟨rfl, rfl⟩ := h
    exact ⟨hacc, fun h => Or.inl h, fun _ e he => by simp at he⟩
  | cons e es ih =>
    intro p acc acc' q h hacc
    simp only [seqLoop] at h
    cases hfe : f e p with
    | ok v p1 =>
      rw [hfe] at h
      simp only at h
      obtain ⟨hmem, hnet⟩ := hf e p v p1 hfe
      rw [hnet.add] at h
      by_cases hvT : v = .T
      · simp only [hvT, if_true] at h
        have hT := seqLoop_T hf es p1 acc' q h
        subst hT
        exact ⟨Or.inr rfl, fun _ => Or.inr ⟨e, by simp, hvT ▸ hmem⟩, fun hE => by simp at hE⟩
      · simp only [hvT, if_false] at h
        obtain ⟨h1, h2, h3⟩ := ih p1 acc acc' q h hacc
        refine ⟨h1, fun hT => ?_, fun hE e' he' => ?_⟩
        · rcases h2 hT with h | ⟨e', he', hT'⟩
          · exact Or.inl h
          · exact Or.inr ⟨e', by simp [he'], hT'⟩
        · simp only [List.mem_cons] at he'
          rcases he' with rfl | he'
          · apply canFalsy_of_mem hmem
            rcases hnet with h | h | h
            · subst h; rfl
            · subst h; rfl
            · exact absurd h hvT
          · exact h3 hE e' he'
    | fail => rw [hfe] at h; simp at h
    | fuel => rw [hfe] at h; simp at h
    | bad => rw [hfe] at h; simp at h

theorem choiceLoop_sh {f : Nat → Nat → Res}
    (hf : ∀ e p v q, f e p = .ok v q → v ∈ shOf sh e ∧ NET v) :
    ∀ es cpos p v q, (∀ e, e ∈ es → sub (shOf sh e) [.N, .T] = true) →
      choiceLoop f es cpos p = .ok v q → v = .T ∧ ∃ e, e ∈ es ∧ Sh.T ∈ shOf sh e := by
  intro es
  induction es with
  | nil => intro cpos p v q _ h; simp [choiceLoop] at h
  | cons e es ih =>
    intro cpos p v q hsub h
    simp only [choiceLoop] at h
    have hsub' : ∀ e', e' ∈ es → sub (shOf sh e') [.N, .T] = true := fun e' he' => hsub e' (by simp [he'])
    cases hfe : f e p with
    | ok w p1 =>
      rw [hfe] at h
      simp only at h
      obtain ⟨hmem, _⟩ := hf e p w p1 hfe
      by_cases hw : w = .N
      · simp only [hw, if_true] at h
        obtain ⟨h1, e', he', hT⟩ := ih cpos p1 v q hsub' h
        exact ⟨h1, e', by simp [he'], hT⟩
      · simp only [hw, if_false, Res.ok.injEq] at h
        have := sub_mem (hsub e (by simp)) hmem
        simp only [List.mem_cons, List.mem_nil_iff, or_false] at this
        rcases this with h' | h'
        · exact absurd h' hw
        · subst h'
          exact ⟨h.1.symm, e, by simp, hmem⟩
    | fail =>
      rw [hfe] at h
      simp only at h
      obtain ⟨h1, e', he', hT⟩ := ih cpos cpos v q hsub' h
      exact ⟨h1, e', by simp [he'], hT⟩
    | fuel => rw [hfe] at h; simp at h
    | bad => rw [hfe] at h; simp at h

/-- what the repetition loop can return, given the shapes of the repeated expression -/
theorem repLoop_sh {fk : Nat → Res} {fs : Option (Nat → Res)} {shk : List Sh}
    (hk : ∀ p v q, fk p = .ok v q → v ∈ shk ∧ NET v)
    (hs : ∀ f, fs = some f → ∀ p v q, f p = .ok v q → NET v) :
    ∀ j p acc first prev acc' q, repLoop fk fs j p acc first prev = .ok acc' q →
      (acc = .E ∨ acc = .T) → (prev = true → Sh.T ∈ shk) →
      (acc' = .E ∨ acc' = .T) ∧
      (acc' = .T → acc = .T ∨ Sh.T ∈ shk) ∧
      (acc' = .E → acc = .E ∧ (first = true → canFalsy shk = true)) := by
  intro j
  induction j with
  | zero => intro p acc first prev acc' q h; simp [repLoop] at h
  | succ j ih =>
    intro p acc first prev acc' q h hacc hprev
    simp only [repLoop] at h
    -- the separator step
    have hsep : ∀ acc1 p1, sepStep fs p acc prev = .ok acc1 p1 →
        (acc1 = .E ∨ acc1 = .T) ∧ (acc1 = .T → acc = .T ∨ Sh.T ∈ shk) ∧ (acc1 = .E → acc = .E) := by
      intro acc1 p1 hs1
      cases hfs : fs with
      | none =>
        simp only [hfs, sepStep, Res.ok.injEq] at hs1
        obtain ⟨rfl, _⟩ := hs1
        exact ⟨hacc, fun h => Or.inl h, fun h => h⟩
      | some f =>
        simp only [hfs, sepStep] at hs1
        by_cases hp : prev = true
        · simp only [hp, if_true] at hs1
          cases hfp : f p with
          | ok v p' =>
            rw [hfp] at hs1
            simp only [Res.ok.injEq] at hs1
            obtain ⟨rfl, _⟩ := hs1
            have hn := hs f hfs p v p' hfp
            rw [hn.add]
            by_cases hv : v = .T
            · rw [if_pos hv]
              exact ⟨Or.inr rfl, fun _ => Or.inr (hprev hp), fun h => by simp at h⟩
            · rw [if_neg hv]
              exact ⟨hacc, fun h => Or.inl h, fun h => h⟩
          | fail => rw [hfp] at hs1; simp at hs1
          | fuel => rw [hfp] at hs1; simp at hs1
          | bad => rw [hfp] at hs1; simp at hs1
        · simp only [hp] at hs1
          simp only [Bool.false_eq_true, if_false, Res.ok.injEq] at hs1
          obtain ⟨rfl, _⟩ := hs1
          exact ⟨hacc, fun h => Or.inl h, fun h => h⟩
    cases hsp : sepStep fs p acc prev with
    | ok acc1 p1 =>
      rw [hsp] at h
      simp only at h
      obtain ⟨ha1, ha1T, ha1E⟩ := hsep acc1 p1 hsp
      cases hfk : fk p1 with
      | ok v p2 =>
        rw [hfk] at h
        simp only at h
        obtain ⟨hmem, hnet⟩ := hk p1 v p2 hfk
        by_cases hv : v.truthy = true
        · simp only [hv, if_true] at h
          have hvT : v = .T := (hnet.truthy).1 hv
          subst hvT
          have hadd : acc1.add .T = .T := by cases acc1 <;> rfl
          rw [hadd] at h
          obtain ⟨h1, h2, h3⟩ := ih p2 .T false true acc' q h (Or.inr rfl) (fun _ => hmem)
          refine ⟨h1, fun _ => Or.inr hmem, fun hE => ?_⟩
          have := (h3 hE).1
          simp at this
        · simp only [hv] at h
          simp only [Bool.false_eq_true, if_false, Res.ok.injEq] at h
          obtain ⟨rfl, _⟩ := h
          refine ⟨ha1, ha1T, fun hE => ⟨ha1E hE, fun _ => ?_⟩⟩
          exact canFalsy_of_mem hmem (by simpa using hv)
      | fail =>
        rw [hfk] at h
        simp only at h
        by_cases hf1 : first = true
        · simp [hf1] at h
        · simp only [hf1] at h
          simp only [Bool.false_eq_true, if_false, Res.ok.injEq] at h
          obtain ⟨rfl, _⟩ := h
          exact ⟨ha1, ha1T, fun hE => ⟨ha1E hE, fun hf => absurd hf hf1⟩⟩
      | fuel => rw [hfk] at h; simp at h
      | bad => rw [hfk] at h; simp at h
    | fail =>
      rw [hsp] at h
      simp only at h
      by_cases hf1 : first = true
      · simp [hf1] at h
      · simp only [hf1] at h
        simp only [Bool.false_eq_true, if_false, Res.ok.injEq] at h
        obtain ⟨rfl, _⟩ := h
        exact ⟨hacc, fun h => Or.inl h, fun hE => ⟨hE, fun hf => absurd hf hf1⟩⟩
    | fuel => rw [hsp] at h; simp at h
    | bad => rw [hsp] at h; simp at h

end loops
theorem get_lt {g : Graph} {a : Nat} {nd : Node} (h : g.get a = some nd) : a < g.size := by
  unfold Graph.get at h
  by_cases hlt : a < g.size
  · exact hlt
  · simp [hlt] at h

theorem wf_node {g : Graph} {H : Hyps} {sh : ShTab} (hwf : wfSh g H sh = true) {a : Nat} {nd : Node}
    (h : g.get a = some nd) : okShNode H sh a nd = true := by
  unfold wfSh at hwf
  simp only [List.all_eq_true, List.mem_range] at hwf
  have := hwf a (get_lt h)
  rw [h] at this
  exact this

theorem okSh_common {H : Hyps} {sh : ShTab} {a : Nat} {nd : Node} (h : okShNode H sh a nd = true) :
    supported nd = true ∧ sub (shOf sh a) [.N, .E, .T] = true := by
  simp only [okShNode, Bool.and_eq_true] at h
  exact ⟨h.1.1.1, h.1.1.2⟩

theorem okSh_kids {H : Hyps} {sh : ShTab} {a : Nat} {nd : Node} (h : okShNode H sh a nd = true)
    (hk : nd.kind = .choice ∨ nd.kind = .opt) : ∀ k, k ∈ nd.kids → sub (shOf sh k) [.N, .T] = true := by
  simp only [okShNode, Bool.and_eq_true] at h
  have h2 := h.2
  rcases hk with hk | hk <;> simp only [hk, List.all_eq_true] at h2 <;> exact h2

theorem okSh_out {H : Hyps} {sh : ShTab} {a : Nat} {nd : Node} (h : okShNode H sh a nd = true) :
    (if nd.suppress then (shOf sh a).contains .N else
      match nd.kind with
      | .str | .eof => (shOf sh a).contains .T
      | .re => (shOf sh a).contains .T && (H.nonempty.contains nd.tok || (shOf sh a).contains .N)
      | .seq => (!nd.kids.any (fun k => (shOf sh k).contains Sh.T) || (shOf sh a).contains .T) &&
                (!nd.kids.all (fun k => canFalsy (shOf sh k)) || (shOf sh a).contains .N)
      | .choice => !nd.kids.any (fun k => (shOf sh k).contains Sh.T) || (shOf sh a).contains .T
      | .opt => (shOf sh a).contains .N && (!nd.kids.any (fun k => (shOf sh k).contains Sh.T) || (shOf sh a).contains .T)
      | .star => (shOf sh a).contains .E && (!nd.kids.any (fun k => (shOf sh k).contains Sh.T) || (shOf sh a).contains .T)
      | .plus => (!nd.kids.any (fun k => canFalsy (shOf sh k)) || (shOf sh a).contains .E) &&
                 (!nd.kids.any (fun k => (shOf sh k).contains Sh.T) || (shOf sh a).contains .T)
      | .andP | .notP => (shOf sh a).contains .N
      | .unord => false) = true := by
  simp only [okShNode, Bool.and_eq_true] at h
  exact h.1.2

/-- results of `finish` when the inner result is not hollow -/
theorem finish_ok {nd : Node} {v : Sh} {p : Nat} (hv : NET v) :
    finish nd (.ok v p) = .ok (if nd.suppress then .N else v) p := by
  simp only [finish]
  by_cases hs : nd.suppress = true
  · simp [hs]
  · simp only [hs]
    have : v ≠ .H := by rcases hv with h | h | h <;> subst h <;> simp
    simp [this]

def ShOk (g : Graph) (L : Lex) (sh : ShTab) (n : Nat) : Prop :=
  ∀ a c p v q, parse g L n a c p = .ok v q → v ∈ shOf sh a ∧ NET v

theorem finish_inv {nd : Node} {r : Res} {v : Sh} {q : Nat} (h : finish nd r = .ok v q) :
    ∃ v', r = .ok v' q ∧ (nd.suppress = true → v = .N) ∧ (nd.suppress = false → NET v' → v = v') := by
  cases r with
  | ok v' p =>
    simp only [finish, Res.ok.injEq] at h
    obtain ⟨h1, rfl⟩ := h
    refine ⟨v', rfl, fun hs => ?_, fun hs hn => ?_⟩
    · simp [hs] at h1; exact h1.symm
    · simp only [hs] at h1
      have : v' ≠ .H := by rcases hn with h | h | h <;> subst h <;> simp
      simp [this] at h1
      exact h1.symm
  | fail => simp [finish] at h
  | fuel => simp [finish] at h
  | bad => simp [finish] at h

theorem contains_iff {l : List Sh} {v : Sh} : l.contains v = true ↔ v ∈ l := by simp

theorem any_hasT {sh : ShTab} {ks : List Nat} : (ks.any fun k => (shOf sh k).contains Sh.T) = true ↔
    ∃ e, e ∈ ks ∧ Sh.T ∈ shOf sh e := by
  simp [List.any_eq_true]

theorem lexTok_sh {H : Hyps} {sh : ShTab} {L : Lex} (hL : LexOk H L) {a : Nat} {nd : Node}
    (hok : okShNode H sh a nd = true) (hs : nd.suppress = false)
    (hm : nd.kind = .str ∨ nd.kind = .re ∨ nd.kind = .eof) {p1 : Nat} {v' : Sh} {q' : Nat}
    (hr : lexTok nd L p1 = .ok v' q') : NET v' ∧ v' ∈ shOf sh a := by
  have hout := okSh_out hok
  simp only [hs, Bool.false_eq_true, if_false] at hout
  rcases hm with hk | hk | hk <;> simp only [hk] at hout <;> simp only [lexTok, hk] at hr
  · cases ht : L.tok nd.tok p1 with
    | none => rw [ht] at hr; simp at hr
    | some len =>
      rw [ht] at hr; simp only [Res.ok.injEq] at hr
      obtain ⟨hv, _⟩ := hr; subst hv
      exact ⟨Or.inr (Or.inr rfl), contains_iff.1 hout⟩
  · simp only [Bool.and_eq_true, Bool.or_eq_true, contains_iff] at hout
    cases ht : L.tok nd.tok p1 with
    | none => rw [ht] at hr; simp at hr
    | some len =>
      rw [ht] at hr; simp only [Res.ok.injEq] at hr
      obtain ⟨hv, _⟩ := hr
      by_cases hl : len = 0
      · simp only [hl, if_true] at hv
        subst hv
        refine ⟨Or.inl rfl, ?_⟩
        rcases hout.2 with hne | hN
        · exfalso
          have := hL.1 nd.tok (by simpa using hne) p1 len ht
          omega
        · exact hN
      · simp only [hl, if_false] at hv
        subst hv
        exact ⟨Or.inr (Or.inr rfl), hout.1⟩
  · by_cases he : L.input.size = p1
    · simp only [he, if_true, Res.ok.injEq] at hr
      obtain ⟨hv, _⟩ := hr; subst hv
      exact ⟨Or.inr (Or.inr rfl), contains_iff.1 hout⟩
    · simp [he] at hr

theorem shapes_sound {g : Graph} {H : Hyps} {sh : ShTab} {L : Lex} (hwf : wfSh g H sh = true)
    (hL : LexOk H L) : ∀ n, ShOk g L sh n := by
  intro n
  induction n with
  | zero => intro a c p v q h; simp [parse] at h
  | succ n ih =>
    intro a c p v q h
    unfold parse at h
    cases hnd : g.get a with
    | none => simp [hnd] at h
    | some nd =>
      simp only [hnd] at h
      have hok := wf_node hwf hnd
      obtain ⟨hsupp, hsubA⟩ := okSh_common hok
      have hout := okSh_out hok
      simp only [hsupp, Bool.not_true, Bool.false_eq_true, if_false] at h
      -- suppressed nodes yield N
      by_cases hs : nd.suppress = true
      · simp only [hs, if_true] at hout
        have hN : Sh.N ∈ shOf sh a := contains_iff.1 hout
        have key : ∀ r, finish nd r = .ok v q → v ∈ shOf sh a ∧ NET v := by
          intro r hr
          obtain ⟨_, _, h1, _⟩ := finish_inv hr
          rw [h1 hs]
          exact ⟨hN, Or.inl rfl⟩
        cases hk : nd.kind <;> simp only [hk] at h
        case seq => exact key _ h
        case choice => exact key _ h
        case unord => simp at h
        case opt =>
          cases hkids : nd.kids with
          | nil => simp [hkids] at h
          | cons k ks => cases ks with
            | cons _ _ => simp [hkids] at h
            | nil => simp only [hkids] at h; exact key _ h
        case star =>
          cases hkids : nd.kids with
          | nil => simp [hkids] at h
          | cons k ks => cases ks with
            | cons _ _ => simp [hkids] at h
            | nil => simp only [hkids] at h; exact key _ h
        case plus =>
          cases hkids : nd.kids with
          | nil => simp [hkids] at h
          | cons k ks => cases ks with
            | cons _ _ => simp [hkids] at h
            | nil => simp only [hkids] at h; exact key _ h
        case andP =>
          cases hkids : nd.kids with
          | nil => simp [hkids] at h
          | cons k ks => cases ks with
            | cons _ _ => simp [hkids] at h
            | nil => simp only [hkids] at h; exact key _ h
        case notP =>
          cases hkids : nd.kids with
          | nil => simp [hkids] at h
          | cons k ks => cases ks with
            | cons _ _ => simp [hkids] at h
            | nil => simp only [hkids] at h; exact key _ h
        all_goals (
          cases hsk : skipGen g L (fun e q => parse g L n e true q) n c p with
          | ok w p1 => rw [hsk] at h; simp only at h; exact key _ h
          | fail => rw [hsk] at h; simp at h
          | fuel => rw [hsk] at h; simp at h
          | bad => rw [hsk] at h; simp at h)
      · have hs' : nd.suppress = false := by simpa using hs
        simp only [hs', Bool.false_eq_true, if_false] at hout
        have ihf : ∀ c, ∀ e p v q, (fun e p => parse g L n e c p) e p = .ok v q → v ∈ shOf sh e ∧ NET v :=
          fun c e p v q h => ih e c p v q h
        have key : ∀ r, finish nd r = .ok v q → (∀ v' q', r = .ok v' q' → NET v' ∧ v' ∈ shOf sh a) →
            v ∈ shOf sh a ∧ NET v := by
          intro r hr hres
          obtain ⟨v', hr', _, h2⟩ := finish_inv hr
          obtain ⟨hn, hm⟩ := hres v' q hr'
          rw [h2 hs' hn]
          exact ⟨hm, hn⟩
        cases hk : nd.kind <;> simp only [hk] at h hout
        case unord => simp at h
        case seq =>
          refine key _ h ?_
          intro v' q' hr
          cases hsl : seqLoop (fun e p => parse g L n e c p) nd.kids p .E with
          | ok acc p1 =>
            rw [hsl] at hr
            simp only [Res.ok.injEq] at hr
            obtain ⟨hv, _⟩ := hr
            obtain ⟨h1, h2, h3⟩ := seqLoop_sh (sh := sh) (ihf c) nd.kids p .E acc p1 hsl (Or.inl rfl)
            simp only [Bool.and_eq_true, Bool.or_eq_true, Bool.not_eq_true', contains_iff] at hout
            rcases h1 with hE | hT
            · subst hE
              simp only [if_true] at hv
              subst hv
              refine ⟨Or.inl rfl, ?_⟩
              rcases hout.2 with hno | hyes
              · exfalso
                have : nd.kids.all (fun k => canFalsy (shOf sh k)) = true := by
                  simp only [List.all_eq_true]; exact fun e he => h3 rfl e he
                rw [this] at hno; simp at hno
              · exact hyes
            · subst hT
              have : (Sh.T = Sh.E) = False := by simp
              simp only [this, if_false] at hv
              subst hv
              refine ⟨Or.inr (Or.inr rfl), ?_⟩
              rcases hout.1 with hno | hyes
              · exfalso
                rcases h2 rfl with hh | hh
                · simp at hh
                · have := any_hasT.2 hh
                  rw [this] at hno; simp at hno
              · exact hyes
          | fail => rw [hsl] at hr; simp at hr
          | fuel => rw [hsl] at hr; simp at hr
          | bad => rw [hsl] at hr; simp at hr
        case choice =>
          refine key _ h ?_
          intro v' q' hr
          obtain ⟨hT, hex⟩ := choiceLoop_sh (sh := sh) (ihf c) nd.kids p p v' q' (okSh_kids hok (Or.inl hk)) hr
          subst hT
          refine ⟨Or.inr (Or.inr rfl), ?_⟩
          simp only [Bool.or_eq_true, Bool.not_eq_true', contains_iff] at hout
          rcases hout with hno | hyes
          · exfalso
            have := any_hasT.2 hex
            rw [this] at hno; simp at hno
          · exact hyes
        case opt =>
          cases hkids : nd.kids with
          | nil => simp [hkids] at h
          | cons k ks => cases ks with
            | cons _ _ => simp [hkids] at h
            | nil =>
              simp only [hkids] at h hout
              refine key _ h ?_
              intro v' q' hr
              simp only [Bool.and_eq_true, Bool.or_eq_true, Bool.not_eq_true', contains_iff,
                List.any_cons, List.any_nil, Bool.or_false] at hout
              cases hp : parse g L n k c p with
              | ok w p1 =>
                rw [hp] at hr
                simp only [Res.ok.injEq] at hr
                obtain ⟨hv, _⟩ := hr
                obtain ⟨hm, _⟩ := ih k c p w p1 hp
                have hsubk := okSh_kids hok (Or.inr hk) k (by simp [hkids])
                have := sub_mem hsubk hm
                simp only [List.mem_cons, List.mem_nil_iff, or_false] at this
                rcases this with hw | hw
                · subst hw; simp only [Sh.wrap1] at hv; subst hv
                  exact ⟨Or.inl rfl, hout.1⟩
                · subst hw; simp only [Sh.wrap1] at hv; subst hv
                  refine ⟨Or.inr (Or.inr rfl), ?_⟩
                  rcases hout.2 with hno | hyes
                  · exfalso
                    have : (shOf sh k).contains Sh.T = true := contains_iff.2 hm
                    rw [this] at hno; simp at hno
                  · exact hyes
              | fail =>
                rw [hp] at hr
                simp only [Res.ok.injEq] at hr
                obtain ⟨hv, _⟩ := hr
                subst hv
                exact ⟨Or.inl rfl, hout.1⟩
              | fuel => rw [hp] at hr; simp at hr
              | bad => rw [hp] at hr; simp at hr
        case star =>
          cases hkids : nd.kids with
          | nil => simp [hkids] at h
          | cons k ks => cases ks with
            | cons _ _ => simp [hkids] at h
            | nil =>
              simp only [hkids] at h hout
              refine key _ h ?_
              intro v' q' hr
              simp only [Bool.and_eq_true, Bool.or_eq_true, Bool.not_eq_true', contains_iff,
                List.any_cons, List.any_nil, Bool.or_false] at hout
              obtain ⟨h1, h2, _⟩ := repLoop_sh (shk := shOf sh k) (fun p v q h => ih k c p v q h)
                (by
                  intro f hf p v q hfp
                  cases hsep : nd.sep with
                  | none => simp [hsep] at hf
                  | some s =>
                    simp only [hsep, Option.map, Option.some.injEq] at hf
                    subst hf
                    exact (ih s c p v q hfp).2)
                n p .E false false v' q' hr (Or.inl rfl) (by simp)
              rcases h1 with hE | hT
              · subst hE; exact ⟨Or.inr (Or.inl rfl), hout.1⟩
              · subst hT
                refine ⟨Or.inr (Or.inr rfl), ?_⟩
                rcases hout.2 with hno | hyes
                · exfalso
                  rcases h2 rfl with hh | hh
                  · simp at hh
                  · have : (shOf sh k).contains Sh.T = true := contains_iff.2 hh
                    rw [this] at hno; simp at hno
                · exact hyes
        case plus =>
          cases hkids : nd.kids with
          | nil => simp [hkids] at h
          | cons k ks => cases ks with
            | cons _ _ => simp [hkids] at h
            | nil =>
              simp only [hkids] at h hout
              refine key _ h ?_
              intro v' q' hr
              simp only [Bool.and_eq_true, Bool.or_eq_true, Bool.not_eq_true', contains_iff,
                List.any_cons, List.any_nil, Bool.or_false] at hout
              obtain ⟨h1, h2, h3⟩ := repLoop_sh (shk := shOf sh k) (fun p v q h => ih k c p v q h)
                (by
                  intro f hf p v q hfp
                  cases hsep : nd.sep with
                  | none => simp [hsep] at hf
                  | some s =>
                    simp only [hsep, Option.map, Option.some.injEq] at hf
                    subst hf
                    exact (ih s c p v q hfp).2)
                n p .E true false v' q' hr (Or.inl rfl) (by simp)
              rcases h1 with hE | hT
              · subst hE
                refine ⟨Or.inr (Or.inl rfl), ?_⟩
                rcases hout.1 with hno | hyes
                · exfalso
                  have := (h3 rfl).2 rfl
                  rw [this] at hno; simp at hno
                · exact hyes
              · subst hT
                refine ⟨Or.inr (Or.inr rfl), ?_⟩
                rcases hout.2 with hno | hyes
                · exfalso
                  rcases h2 rfl with hh | hh
                  · simp at hh
                  · have : (shOf sh k).contains Sh.T = true := contains_iff.2 hh
                    rw [this] at hno; simp at hno
                · exact hyes
        case andP =>
          cases hkids : nd.kids with
          | nil => simp [hkids] at h
          | cons k ks => cases ks with
            | cons _ _ => simp [hkids] at h
            | nil =>
              simp only [hkids] at h
              refine key _ h ?_
              intro v' q' hr
              cases hp : parse g L n k c p with
              | ok w p1 =>
                rw [hp] at hr; simp only [Res.ok.injEq] at hr
                obtain ⟨hv, _⟩ := hr; subst hv
                exact ⟨Or.inl rfl, contains_iff.1 hout⟩
              | fail => rw [hp] at hr; simp at hr
              | fuel => rw [hp] at hr; simp at hr
              | bad => rw [hp] at hr; simp at hr
        case notP =>
          cases hkids : nd.kids with
          | nil => simp [hkids] at h
          | cons k ks => cases ks with
            | cons _ _ => simp [hkids] at h
            | nil =>
              simp only [hkids] at h
              refine key _ h ?_
              intro v' q' hr
              cases hp : parse g L n k c p with
              | ok w p1 => rw [hp] at hr; simp at hr
              | fail =>
                rw [hp] at hr; simp only [Res.ok.injEq] at hr
                obtain ⟨hv, _⟩ := hr; subst hv
                exact ⟨Or.inl rfl, contains_iff.1 hout⟩
              | fuel => rw [hp] at hr; simp at hr
              | bad => rw [hp] at hr; simp at hr
        all_goals (
          cases hsk : skipGen g L (fun e q => parse g L n e true q) n c p with
          | fail => rw [hsk] at h; simp at h
          | fuel => rw [hsk] at h; simp at h
          | bad => rw [hsk] at h; simp at h
          | ok w p1 =>
            rw [hsk] at h
            simp only at h
            refine key _ h ?_
            intro v' q' hr
            exact lexTok_sh hL hok hs' (by simp [hk]) hr)

end Rec
