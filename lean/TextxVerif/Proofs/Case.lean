import TextxVerif.Peg.Case
import TextxVerif.Proofs.PegCongr
/-!
Lemmas for C20: case-folded-equal inputs give the same token table (string
tokens by the `StrMatch` model, regex tokens by the stated assumption), the same
whitespace skipping for case-neutral whitespace sets, hence — through
`Peg.run_congr` — the same parse.
-/
namespace Peg.Case

variable {lower : Char → Char}

theorem FoldEq.symm {a b : Array Char} (h : FoldEq lower a b) : FoldEq lower b a := Eq.symm h

theorem FoldEq.size_eq {a b : Array Char} (h : FoldEq lower a b) : a.size = b.size := by
  have := congrArg List.length h
  simpa using this

theorem FoldEq.getElem {a b : Array Char} (h : FoldEq lower a b) (i : Nat) (ha : i < a.size) (hb : i < b.size) :
    lower a[i] = lower b[i] := by
  have h1 : (a.toList.map lower)[i]? = (b.toList.map lower)[i]? := by rw [h]
  simpa [List.getElem?_map, ha, hb] using h1

theorem slice_eq (a : Array Char) (pos n : Nat) : slice a pos n = (a.toList.drop pos).take n := by
  unfold slice
  rw [Array.toList_extract]
  simp

theorem slice_map_lower {a b : Array Char} (h : FoldEq lower a b) (pos n : Nat) :
    (slice a pos n).map lower = (slice b pos n).map lower := by
  rw [slice_eq, slice_eq]
  rw [List.map_take, List.map_drop, List.map_take, List.map_drop, h]

/-- `StrMatch` with `ignore_case` does not see letter case -/
theorem strMatchLen_foldEq {a b : Array Char} (h : FoldEq lower a b) (lit : List Char) (pos : Nat) :
    strMatchLen lower lit true a pos = strMatchLen lower lit true b pos := by
  unfold strMatchLen
  simp only [↓reduceIte, slice_map_lower h]

theorem tokRow_foldEq {a b : Array Char} (h : FoldEq lower a b) (rx : Array Char → Nat → Option Nat) (t : Tok)
    (hstr : ∀ lit ic, t = .str lit ic → ic = true) (hre : t.isRx = true → ∀ p, rx a p = rx b p) :
    tokRow lower rx t a = tokRow lower rx t b := by
  have hsz := h.size_eq
  cases t with
  | str lit ic =>
    have : ic = true := hstr lit ic rfl
    subst this
    apply Array.ext
    · simp [tokRow, hsz]
    · intro i h1 h2
      simp [tokRow, strMatchLen_foldEq h]
  | re =>
    apply Array.ext
    · simp [tokRow, hsz]
    · intro i h1 h2
      simp [tokRow, hre rfl]
  | kw lit =>
    apply Array.ext
    · simp [tokRow, hsz]
    · intro i h1 h2
      simp [tokRow, hre rfl]
  | other => rfl

theorem tokTable_foldEq {a b : Array Char} (h : FoldEq lower a b) (rx : Rx) (toks : Array Tok)
    (hstr : AllIc toks) (hre : ∀ (i : Nat) (t : Tok), toks[i]? = some t → t.isRx = true → RxFoldInv lower rx i) :
    tokTable lower rx toks a = tokTable lower rx toks b := by
  apply Array.ext
  · simp [tokTable]
  · intro i h1 h2
    have hi : i < toks.size := by simpa [tokTable] using h1
    simp only [tokTable, Array.getElem_ofFn]
    apply tokRow_foldEq h
    · intro lit ic ht
      exact hstr i lit ic (by rw [Array.getElem?_eq_getElem hi]; exact congrArg some ht)
    · intro ht p
      exact hre i toks[i] (Array.getElem?_eq_getElem hi) ht a b h p

/-- the run on one input depends on the regex engine only through its answers *on that input* (the driver
uses this: per input it plugs in the rows measured on the real `re` for that input) -/
theorem tokTable_congr_rx (rx rx' : Rx) (toks : Array Tok) (input : Array Char)
    (h : ∀ i p, rx i input p = rx' i input p) : tokTable lower rx toks input = tokTable lower rx' toks input := by
  apply Array.ext
  · simp [tokTable]
  · intro i h1 h2
    have hi : i < toks.size := by simpa [tokTable] using h1
    simp only [tokTable, Array.getElem_ofFn]
    generalize toks[i] = t
    cases t with
    | str lit ic => rfl
    | re => simp [tokRow, h]
    | kw lit => simp [tokRow, h]
    | other => rfl

theorem run_congr_rx (rx rx' : Rx) (L : Lang) (input : Array Char) (fuel : Nat)
    (h : ∀ i p, rx i input p = rx' i input p) : L.run lower rx input fuel = L.run lower rx' input fuel := by
  unfold Lang.run Lang.grammar
  rw [tokTable_congr_rx rx rx' L.toks input h]

theorem WsSafe.stripEol {ws : List Char} (h : WsSafe lower ws) : WsSafe lower (stripEol ws) := by
  intro c hc d hd
  exact h c (List.mem_filter.mp hc).1 d hd

theorem mem_ws_foldEq {a b : Array Char} (h : FoldEq lower a b) {ws : List Char} (hws : WsSafe lower ws)
    (i : Nat) (ha : i < a.size) (hb : i < b.size) : a[i] ∈ ws ↔ b[i] ∈ ws := by
  have e := h.getElem i ha hb
  constructor
  · intro m
    have : b[i] = a[i] := hws _ m _ e.symm
    rw [this]; exact m
  · intro m
    have : a[i] = b[i] := hws _ m _ e
    rw [this]; exact m

theorem skipWsFrom_foldEq {a b : Array Char} (h : FoldEq lower a b) {ws : List Char} (hws : WsSafe lower ws) :
    ∀ f p, skipWsFrom b ws f p = skipWsFrom a ws f p := by
  intro f
  induction f with
  | zero => intro p; rfl
  | succ f ih =>
    intro p
    have hsz := h.size_eq
    unfold skipWsFrom
    by_cases hp : p < a.size
    · have hp' : p < b.size := hsz ▸ hp
      simp only [hp, hp', ↓reduceDIte]
      by_cases m : a[p] ∈ ws
      · have m' : b[p] ∈ ws := (mem_ws_foldEq h hws p hp hp').mp m
        simp only [m, m', ↓reduceIte, ih]
      · have m' : ¬ b[p] ∈ ws := fun x => m ((mem_ws_foldEq h hws p hp hp').mpr x)
        simp only [m, m', ↓reduceIte]
    · have hp' : ¬ p < b.size := hsz ▸ hp
      simp only [hp, hp', ↓reduceDIte]

/-- the two configurations of one language on case-folded-equal inputs are `Similar` -/
theorem similar_of_foldEq {rx : Rx} {L : Lang} (hn : NoCaseSensitiveTerminal lower rx L) {a b : Array Char}
    (h : FoldEq lower a b) : Similar (WsSafe lower) (L.grammar lower rx a) (L.grammar lower rx b) where
  nodes := rfl
  comments := rfl
  memo := rfl
  toks := (tokTable_foldEq h rx L.toks hn.strs hn.regexes).symm
  size := h.size_eq.symm
  skip := fun _ hws f p => skipWsFrom_foldEq h hws f p

theorem wsOk_of_neutral {rx : Rx} {L : Lang} (hw : WsNeutral lower L) (a : Array Char) :
    WsOk (WsSafe lower) (L.grammar lower rx a) where
  strip := fun _ h => h.stripEol
  node := hw.node

theorem lookup_mem {tab : List (Char × Char)} {d v : Char} (h : tab.lookup d = some v) : (d, v) ∈ tab := by
  induction tab with
  | nil => simp at h
  | cons kv tab ih =>
    obtain ⟨k, x⟩ := kv
    by_cases hk : d = k
    · subst hk
      simp only [List.lookup_cons_self, Option.some.injEq] at h
      subst h
      exact List.mem_cons_self
    · have : (d == k) = false := by simpa using hk
      simp only [List.lookup_cons, this] at h
      exact List.mem_cons_of_mem _ (ih h)

theorem wsSafeTab_sound {tab : List (Char × Char)} {ws : List Char} (h : wsSafeTab tab ws = true) :
    WsSafe (lowerTab tab) ws := by
  intro c hc d e
  unfold wsSafeTab at h
  have hcs := List.all_eq_true.mp h c hc
  have hkv : ∀ k v, (k, v) ∈ tab → k ≠ c ∧ v ≠ c := by
    intro k v hm
    have := List.all_eq_true.mp hcs (k, v) hm
    simpa using this
  -- `c` is not a key of the table
  have hlc : lowerTab tab c = c := by
    unfold lowerTab
    cases hl : tab.lookup c with
    | none => rfl
    | some v => exact absurd rfl (hkv c v (lookup_mem hl)).1
  rw [hlc] at e
  unfold lowerTab at e
  cases hl : tab.lookup d with
  | none => simpa [hl] using e
  | some v =>
    rw [hl] at e
    exact absurd e (hkv d v (lookup_mem hl)).2

theorem wsNeutralB_sound {tab : List (Char × Char)} {L : Lang} (h : wsNeutralB tab L = true) :
    WsNeutral (lowerTab tab) L := by
  unfold wsNeutralB at h
  rw [Bool.and_eq_true, List.all_eq_true] at h
  refine ⟨wsSafeTab_sound h.1, ?_⟩
  intro id nd hnd w hw
  have hm : nd ∈ L.nodes.toList := List.mem_of_getElem? (by rw [Array.getElem?_toList]; exact hnd)
  have := h.2 nd hm
  rw [hw] at this
  exact wsSafeTab_sound this

theorem allIc_iff (toks : Array Tok) : allIc toks = true ↔ AllIc toks := by
  unfold allIc AllIc
  rw [List.all_eq_true]
  constructor
  · intro h i lit ic hi
    have hm : Tok.str lit ic ∈ toks.toList := List.mem_of_getElem? (by rw [Array.getElem?_toList]; exact hi)
    exact h _ hm
  · intro h t ht
    obtain ⟨i, hi⟩ := List.mem_iff_getElem?.mp ht
    rw [Array.getElem?_toList] at hi
    cases t with
    | str lit ic => exact h i lit ic hi
    | re => rfl
    | kw lit => rfl
    | other => rfl

/-! ## the regex cache: compiled objects do not depend on the history of the process -/

theorem lookup_mem' {α β : Type} [BEq α] [LawfulBEq α] {l : List (α × β)} {k : α} {v : β}
    (h : l.lookup k = some v) : (k, v) ∈ l := by
  induction l with
  | nil => simp at h
  | cons kv l ih =>
    obtain ⟨k', x⟩ := kv
    by_cases hk : k = k'
    · subst hk
      simp only [List.lookup_cons_self, Option.some.injEq] at h
      subst h
      exact List.mem_cons_self
    · have : (k == k') = false := by simpa using hk
      simp only [List.lookup_cons, this] at h
      exact List.mem_cons_of_mem _ (ih h)

theorem cacheOk_nil : CacheOk [] := by
  intro k r h
  cases h

theorem reCompile_ok {c : ReCache} (hc : CacheOk c) (pat : List Char) (ic : Bool) :
    CacheOk (reCompile c pat ic).1 ∧ (reCompile c pat ic).2 = ⟨pat, ic⟩ := by
  unfold reCompile
  cases hl : c.lookup (pat, ic) with
  | some r => exact ⟨hc, hc (pat, ic) r (lookup_mem' hl)⟩
  | none =>
    refine ⟨?_, rfl⟩
    intro k r hm
    rcases List.mem_cons.mp hm with e | hm'
    · cases e; rfl
    · exact hc k r hm'

theorem compileLitS_ok (isWord isDigit : Char → Bool) (cfg : Cfg) {c : ReCache} (hc : CacheOk c) (l : Lit) :
    CacheOk (compileLitS isWord isDigit cfg c l).1 ∧
      (compileLitS isWord isDigit cfg c l).2 = compileLit isWord isDigit cfg l := by
  cases l with
  | str s =>
    simp only [compileLitS, compileLit]
    by_cases hk : (cfg.autokwd && kwdLike isWord isDigit s) = true
    · have := reCompile_ok hc (s ++ ['\\', 'b']) cfg.ignoreCase
      simp only [hk, ↓reduceIte]
      exact ⟨this.1, by rw [this.2]⟩
    · simp only [hk]
      exact ⟨hc, rfl⟩
  | re src =>
    simp only [compileLitS, compileLit]
    have := reCompile_ok hc src cfg.ignoreCase
    exact ⟨this.1, by rw [this.2]⟩

theorem buildMM_ok (isWord isDigit : Char → Bool) (cfg : Cfg) (lits : List Lit) :
    ∀ {c : ReCache}, CacheOk c → CacheOk (buildMM isWord isDigit c cfg lits).1 ∧
      (buildMM isWord isDigit c cfg lits).2 = lits.map (compileLit isWord isDigit cfg) := by
  induction lits with
  | nil => intro c hc; exact ⟨hc, rfl⟩
  | cons l ls ih =>
    intro c hc
    have h1 := compileLitS_ok isWord isDigit cfg hc l
    have h2 := ih h1.1
    simp only [buildMM]
    exact ⟨h2.1, by simp only [List.map_cons, h1.2, h2.2]⟩

theorem buildAll_ok (isWord isDigit : Char → Bool) (hist : List (Cfg × List Lit)) :
    ∀ {c : ReCache}, CacheOk c → CacheOk (buildAll isWord isDigit c hist) := by
  induction hist with
  | nil => intro c hc; exact hc
  | cons h rest ih =>
    intro c hc
    obtain ⟨cfg, lits⟩ := h
    unfold buildAll
    exact ih (buildMM_ok isWord isDigit cfg lits hc).1

end Peg.Case
