import TextxVerif.Obj.Build
/-! Helper lemmas for C06: spans of well-formed parse trees. -/
namespace Obj

/-- terminals are non-empty, ordered and non-overlapping -/
def SpanOK (ls : List (Nat × Nat)) : Prop :=
  (∀ l ∈ ls, 0 < l.2) ∧ ls.Pairwise (fun a b => a.1 + a.2 ≤ b.1)

/-- well-formed parse tree (the `Prop` form of `PT.wfB` without the input bound) -/
def PT.WF (t : PT) : Prop := t.full = true ∧ SpanOK t.leaves

def firstPos : List (Nat × Nat) → Nat
  | [] => 0
  | l :: _ => l.1

def lastEnd : List (Nat × Nat) → Nat
  | [] => 0
  | [l] => l.1 + l.2
  | _ :: l :: ls => lastEnd (l :: ls)

/-- sub-tree relation (reflexive) -/
inductive PT.Sub : PT → PT → Prop
  | refl (t : PT) : PT.Sub t t
  | kid {s c : PT} {k : Kind} {ks : List PT} : c ∈ ks → PT.Sub s c → PT.Sub s (.nt k ks)

theorem firstPos_append {a b : List (Nat × Nat)} (h : a ≠ []) : firstPos (a ++ b) = firstPos a := by
  cases a with
  | nil => exact absurd rfl h
  | cons x xs => rfl

theorem lastEnd_cons {x : Nat × Nat} {b : List (Nat × Nat)} (h : b ≠ []) : lastEnd (x :: b) = lastEnd b := by
  cases b with
  | nil => exact absurd rfl h
  | cons y ys => rfl

theorem lastEnd_append {a b : List (Nat × Nat)} (h : b ≠ []) : lastEnd (a ++ b) = lastEnd b := by
  induction a with
  | nil => rfl
  | cons x xs ih =>
    have : xs ++ b ≠ [] := by simp [h]
    rw [List.cons_append, lastEnd_cons this, ih]

theorem SpanOK.append_left {a b : List (Nat × Nat)} (h : SpanOK (a ++ b)) : SpanOK a :=
  ⟨fun l hl => h.1 l (List.mem_append_left _ hl), (List.pairwise_append.mp h.2).1⟩

theorem SpanOK.append_right {a b : List (Nat × Nat)} (h : SpanOK (a ++ b)) : SpanOK b :=
  ⟨fun l hl => h.1 l (List.mem_append_right _ hl), (List.pairwise_append.mp h.2).2.1⟩

theorem SpanOK.first_le {ls : List (Nat × Nat)} (h : SpanOK ls) {l : Nat × Nat} (hl : l ∈ ls) :
    firstPos ls ≤ l.1 := by
  cases ls with
  | nil => cases hl
  | cons x xs =>
    rcases List.mem_cons.mp hl with rfl | hm
    · exact Nat.le_refl _
    · have := (List.pairwise_cons.mp h.2).1 l hm
      simp only [firstPos]; omega

theorem SpanOK.le_last {ls : List (Nat × Nat)} (h : SpanOK ls) {l : Nat × Nat} (hl : l ∈ ls) :
    l.1 + l.2 ≤ lastEnd ls := by
  induction ls generalizing l with
  | nil => cases hl
  | cons x xs ih =>
    cases xs with
    | nil =>
      rcases List.mem_cons.mp hl with rfl | hm
      · exact Nat.le_refl _
      · cases hm
    | cons y ys =>
      have hxs : SpanOK (y :: ys) := SpanOK.append_right (a := [x]) h
      rcases List.mem_cons.mp hl with rfl | hm
      · have h1 := (List.pairwise_cons.mp h.2).1 y (List.mem_cons_self)
        have h2 := ih hxs (l := y) (List.mem_cons_self)
        have h3 := h.1 y (by simp)
        simp only [lastEnd] at h2 ⊢
        omega
      · exact ih hxs hm

theorem SpanOK.nonempty {ls : List (Nat × Nat)} (h : SpanOK ls) (hne : ls ≠ []) : firstPos ls < lastEnd ls := by
  cases ls with
  | nil => exact absurd rfl hne
  | cons x xs =>
    have h1 := h.le_last (l := x) (List.mem_cons_self)
    have h2 := h.1 x (List.mem_cons_self)
    simp only [firstPos]; omega

theorem lastEnd_mem : ∀ a : List (Nat × Nat), a ≠ [] → ∃ l ∈ a, lastEnd a = l.1 + l.2 := by
  intro a
  induction a with
  | nil => intro h; exact absurd rfl h
  | cons x xs ih =>
    intro _
    cases xs with
    | nil => exact ⟨x, List.mem_cons_self, rfl⟩
    | cons z zs =>
      obtain ⟨l, hl, he⟩ := ih (by simp)
      exact ⟨l, List.mem_cons_of_mem _ hl, by simpa [lastEnd] using he⟩

theorem firstPos_mem : ∀ a : List (Nat × Nat), a ≠ [] → ∃ l ∈ a, firstPos a = l.1 := by
  intro a h
  cases a with
  | nil => exact absurd rfl h
  | cons x xs => exact ⟨x, List.mem_cons_self, rfl⟩

theorem SpanOK.append_le {a b : List (Nat × Nat)} (h : SpanOK (a ++ b)) (ha : a ≠ []) (hb : b ≠ []) :
    lastEnd a ≤ firstPos b := by
  cases b with
  | nil => exact absurd rfl hb
  | cons y ys =>
    -- lastEnd a is the end of some leaf of a
    obtain ⟨l, hl, he⟩ := lastEnd_mem a ha
    have := (List.pairwise_append.mp h.2).2.2 l hl y (List.mem_cons_self)
    simp only [firstPos]; omega

/-! ## leaves of full trees -/

mutual
theorem PT.leaves_ne_nil : (t : PT) → t.full = true → t.leaves ≠ []
  | .term _ _ _ _, _ => by simp [PT.leaves]
  | .nt _ ks, h => by
    simp only [PT.full, Bool.and_eq_true, Bool.not_eq_true', List.isEmpty_eq_false_iff] at h
    simp only [PT.leaves]
    exact leavesL_ne_nil ks h.1 h.2
theorem leavesL_ne_nil : (ks : List PT) → ks ≠ [] → fullL ks = true → leavesL ks ≠ []
  | [], h, _ => absurd rfl h
  | k :: ks, _, h => by
    simp only [fullL, Bool.and_eq_true] at h
    simp only [leavesL]
    intro hnil
    exact PT.leaves_ne_nil k h.1 (List.append_eq_nil_iff.mp hnil).1
end

mutual
theorem PT.span_eq : (t : PT) → t.full = true → t.pos = firstPos t.leaves ∧ t.posEnd = lastEnd t.leaves
  | .term p l _ _, _ => by simp [PT.pos, PT.posEnd, PT.leaves, firstPos, lastEnd]
  | .nt _ ks, h => by
    simp only [PT.full, Bool.and_eq_true, Bool.not_eq_true', List.isEmpty_eq_false_iff] at h
    have := spanL_eq ks h.1 h.2
    simp only [PT.pos, PT.posEnd, PT.leaves]
    exact ⟨this.1, this.2 _⟩
theorem spanL_eq : (ks : List PT) → ks ≠ [] → fullL ks = true →
    posL ks = firstPos (leavesL ks) ∧ ∀ d, endL ks d = lastEnd (leavesL ks)
  | [], h, _ => absurd rfl h
  | [k], _, h => by
    simp only [fullL, Bool.and_eq_true] at h
    have := PT.span_eq k h.1
    simp only [posL, endL, leavesL, List.append_nil]
    exact ⟨this.1, fun _ => this.2⟩
  | k :: k2 :: ks, _, h => by
    simp only [fullL, Bool.and_eq_true] at h
    have hk := PT.span_eq k h.1
    have hrest := spanL_eq (k2 :: ks) (by simp) (by simp [fullL, h.2])
    have hne : leavesL (k2 :: ks) ≠ [] := leavesL_ne_nil (k2 :: ks) (by simp) (by simp [fullL, h.2])
    have hkne := PT.leaves_ne_nil k h.1
    constructor
    · simp only [posL]
      rw [show leavesL (k :: k2 :: ks) = k.leaves ++ leavesL (k2 :: ks) from rfl, firstPos_append hkne]
      exact hk.1
    · intro d
      rw [show leavesL (k :: k2 :: ks) = k.leaves ++ leavesL (k2 :: ks) from rfl, lastEnd_append hne]
      simp only [endL]
      exact hrest.2 d
end

theorem fullL_of_mem {ks : List PT} (h : fullL ks = true) {c : PT} (hc : c ∈ ks) : c.full = true := by
  induction ks with
  | nil => cases hc
  | cons k ks ih =>
    simp only [fullL, Bool.and_eq_true] at h
    rcases List.mem_cons.mp hc with rfl | hm
    · exact h.1
    · exact ih h.2 hm

/-- the leaves of a child are a contiguous part of the leaves of the list -/
theorem leavesL_split {ks : List PT} {c : PT} (hc : c ∈ ks) :
    ∃ l1 l2, ks = l1 ++ c :: l2 ∧ leavesL ks = leavesL l1 ++ c.leaves ++ leavesL l2 := by
  induction ks with
  | nil => cases hc
  | cons k ks ih =>
    rcases List.mem_cons.mp hc with rfl | hm
    · exact ⟨[], ks, rfl, by simp [leavesL]⟩
    · obtain ⟨l1, l2, h1, h2⟩ := ih hm
      refine ⟨k :: l1, l2, by simp [h1], ?_⟩
      simp only [leavesL, h2, List.append_assoc]

theorem leavesL_append (a b : List PT) : leavesL (a ++ b) = leavesL a ++ leavesL b := by
  induction a with
  | nil => rfl
  | cons k ks ih => simp [leavesL, ih]

theorem fullL_append {a b : List PT} : fullL (a ++ b) = true ↔ fullL a = true ∧ fullL b = true := by
  induction a with
  | nil => simp [fullL]
  | cons k ks ih => simp [fullL, ih, and_assoc]

/-- a child of a well-formed node is well-formed and lies inside the node -/
theorem PT.WF.kid {k : Kind} {ks : List PT} (h : (PT.nt k ks).WF) {c : PT} (hc : c ∈ ks) :
    c.WF ∧ (PT.nt k ks).pos ≤ c.pos ∧ c.posEnd ≤ (PT.nt k ks).posEnd := by
  obtain ⟨hfull, hspan⟩ := h
  have hf := hfull
  simp only [PT.full, Bool.and_eq_true, Bool.not_eq_true', List.isEmpty_eq_false_iff] at hf
  have hcf := fullL_of_mem hf.2 hc
  obtain ⟨l1, l2, _, hl⟩ := leavesL_split hc
  simp only [PT.leaves] at hspan
  rw [hl] at hspan
  have hcspan : SpanOK c.leaves := hspan.append_left.append_right
  have hse := PT.span_eq _ hfull
  have hce := PT.span_eq c hcf
  have hcne := PT.leaves_ne_nil c hcf
  simp only [PT.leaves] at hse
  rw [hl] at hse
  refine ⟨⟨hcf, hcspan⟩, ?_, ?_⟩
  · rw [hse.1, hce.1]
    obtain ⟨x, hx, hxe⟩ := firstPos_mem c.leaves hcne
    rw [hxe]
    exact hspan.first_le (by simp [hx])
  · rw [hse.2, hce.2]
    obtain ⟨l, hl', he⟩ := lastEnd_mem c.leaves hcne
    rw [he]
    exact hspan.le_last (by simp [hl'])

/-- sub-trees of a well-formed tree are well-formed and nested in it -/
theorem PT.WF.sub {s t : PT} (hs : PT.Sub s t) (h : t.WF) : s.WF ∧ t.pos ≤ s.pos ∧ s.posEnd ≤ t.posEnd := by
  induction hs with
  | refl => exact ⟨h, Nat.le_refl _, Nat.le_refl _⟩
  | kid hc _ ih =>
    have hk := h.kid hc
    have := ih hk.1
    exact ⟨this.1, by omega, by omega⟩

theorem PT.WF.nonempty {t : PT} (h : t.WF) : t.pos < t.posEnd := by
  have := PT.span_eq t h.1
  rw [this.1, this.2]
  exact h.2.nonempty (PT.leaves_ne_nil t h.1)

/-- the children of a well-formed node are ordered and do not overlap -/
theorem PT.WF.kids_ordered {k : Kind} {ks : List PT} (h : (PT.nt k ks).WF) :
    ks.Pairwise (fun a b => a.posEnd ≤ b.pos) := by
  obtain ⟨hfull, hspan⟩ := h
  simp only [PT.full, Bool.and_eq_true, Bool.not_eq_true', List.isEmpty_eq_false_iff] at hfull
  simp only [PT.leaves] at hspan
  have hf := hfull.2
  clear hfull
  induction ks with
  | nil => exact List.Pairwise.nil
  | cons a rest ih =>
    simp only [fullL, Bool.and_eq_true] at hf
    simp only [leavesL] at hspan
    refine List.Pairwise.cons ?_ (ih hspan.append_right hf.2)
    intro b hb
    obtain ⟨l1, l2, _, hl⟩ := leavesL_split hb
    have hbf := fullL_of_mem hf.2 hb
    have hae := PT.span_eq a hf.1
    have hbe := PT.span_eq b hbf
    have hane := PT.leaves_ne_nil a hf.1
    have hbne := PT.leaves_ne_nil b hbf
    rw [hae.2, hbe.1]
    rw [hl] at hspan
    -- a.leaves ++ (leavesL l1 ++ b.leaves ++ leavesL l2)
    have h1 : SpanOK (a.leaves ++ (leavesL l1 ++ b.leaves ++ leavesL l2)) := hspan
    cases hbl : b.leaves with
    | nil => exact absurd hbl hbne
    | cons y ys =>
      obtain ⟨l, hl', he⟩ : ∃ l ∈ a.leaves, lastEnd a.leaves = l.1 + l.2 := by
        exact lastEnd_mem _ hane
      have := (List.pairwise_append.mp h1.2).2.2 l hl' y (by simp [hbl])
      simp only [firstPos]; omega

theorem PT.wfB_WF {t : PT} {n : Nat} (h : t.wfB n = true) : t.WF ∧ t.posEnd ≤ n := by
  simp only [PT.wfB, Bool.and_eq_true, List.all_eq_true, decide_eq_true_eq] at h
  obtain ⟨⟨⟨hf, hpos⟩, hord⟩, hin⟩ := h
  have hO : ∀ ls : List (Nat × Nat), leavesOrdered ls = true → (∀ l ∈ ls, 0 < l.2) →
      ls.Pairwise (fun a b => a.1 + a.2 ≤ b.1) := by
    intro ls
    induction ls with
    | nil => intros; exact List.Pairwise.nil
    | cons a rest ih =>
      intro ho hp
      cases rest with
      | nil => exact List.pairwise_singleton _ _
      | cons b rest' =>
        simp only [leavesOrdered, Bool.and_eq_true, decide_eq_true_eq] at ho
        have ihh := ih ho.2 (fun l hl => hp l (List.mem_cons_of_mem _ hl))
        refine List.Pairwise.cons ?_ ihh
        intro c hc
        rcases List.mem_cons.mp hc with rfl | hm
        · exact ho.1
        · have h1 := (List.pairwise_cons.mp ihh).1 c hm
          have h2 := hp b (by simp)
          omega
  have hwf : t.WF := ⟨hf, hpos, hO _ hord hpos⟩
  refine ⟨hwf, ?_⟩
  have hse := PT.span_eq t hf
  rw [hse.2]
  have hne := PT.leaves_ne_nil t hf
  obtain ⟨l, hl, he⟩ := lastEnd_mem _ hne
  rw [he]; exact hin l hl

end Obj
