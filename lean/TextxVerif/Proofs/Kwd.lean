import TextxVerif.Proofs.Re
import TextxVerif.Kwd
/-!
Lemmas for C21: what the generated keyword regex accepts, the complete result
of the `lit\b` pattern, agreement of the two literal matchers away from glued
keywords, and congruence of the small PEG in its literal matcher.
-/
namespace Kwd
open Re

/-! ## the generated regexes have the modelled shape -/
theorem kwProbe_shape : Gen.Regexes.kwProbe = kwRe false ['k', 'w', '_', '1'] := rfl
theorem kwProbeI_shape : Gen.Regexes.kwProbeI = kwRe true ['k', 'w', '_', '1'] := rfl
theorem keywordI_eq : Gen.Regexes.keywordI = Gen.Regexes.keyword := rfl
theorem symProbe : Gen.Regexes.symProbeIsStr = true := rfl

def W : R := .cls false [.cat .word false]
def kwHead : R := .cls true [.cat .digit false, .cat .word true]
theorem keyword_shape : Gen.Regexes.keyword = .seq kwHead (.star true W) := rfl

theorem clsTest_W (cc : CharClasses) (c : Char) : clsTest cc false [.cat .word false] c = cc.isWord c := by
  simp [clsTest, CItem.test, Cat.test]

theorem clsTest_kwHead (cc : CharClasses) (c : Char) :
    clsTest cc true [.cat .digit false, .cat .word true] c = (cc.isWord c && !cc.isDigit c) := by
  simp only [clsTest, CItem.test, Cat.test, List.any_cons, List.any_nil, Bool.or_false]
  cases cc.isWord c <;> cases cc.isDigit c <;> rfl

/-! ## keyword-like = an identifier: a non-digit word character followed by word characters -/
theorem dropWhile_stops (P : Char → Bool) (l : List Char) : Stops P (l.dropWhile P) := by
  intro c hc
  induction l with
  | nil => simp at hc
  | cons d ds ih =>
    simp only [List.dropWhile_cons] at hc
    split at hc
    · exact ih hc
    · rename_i h; simp at hc; subst hc; simpa using h

theorem mem_takeWhile (P : Char → Bool) (l : List Char) (x : Char) (h : x ∈ l.takeWhile P) : P x = true := by
  have := List.all_takeWhile (p := P) (l := l)
  rw [List.all_eq_true] at this
  exact this x h

theorem dropWhile_nil_iff (P : Char → Bool) (l : List Char) : l.dropWhile P = [] ↔ l.all P = true := by
  induction l with
  | nil => simp
  | cons c cs ih =>
    simp only [List.dropWhile_cons, List.all_cons, Bool.and_eq_true]
    by_cases h : P c = true
    · simp [h, ih]
    · simp [h]

theorem isKeywordLike_eq (cc : CharClasses) (ic : Bool) (l : List Char) :
    isKeywordLike cc ic l =
      match l with
      | [] => false
      | c :: cs => cc.isWord c && !cc.isDigit c && cs.all cc.isWord := by
  have hre : (if ic then Gen.Regexes.keywordI else Gen.Regexes.keyword) = .seq kwHead (.star true W) := by
    cases ic <;> rfl
  unfold isKeywordLike
  rw [hre]
  cases l with
  | nil => simp [pyMatch, pyMatchSt, m, kwHead, step]
  | cons c cs =>
    simp only
    by_cases hc : (cc.isWord c && !cc.isDigit c) = true
    · have hstep : m cc kwHead (none, c :: cs) = [(some c, cs)] := by
        simp [kwHead, m, step, clsTest_kwHead, hc]
      have hsplit : cs = cs.takeWhile cc.isWord ++ cs.dropWhile cc.isWord := (List.takeWhile_append_dropWhile).symm
      have hstar : m cc (.star true W) (some c, cs) =
          splits (some c) (cs.takeWhile cc.isWord) (cs.dropWhile cc.isWord) := by
        have := m_star_cls cc false [.cat .word false] (cs.takeWhile cc.isWord) (cs.dropWhile cc.isWord)
          (by intro d hd; rw [clsTest_W]; exact mem_takeWhile cc.isWord cs d hd)
          (by intro d hd; rw [clsTest_W]; exact dropWhile_stops cc.isWord cs d hd) (some c)
        rw [← hsplit] at this
        exact this
      have hm : (m cc (.seq kwHead (.star true W)) (none, c :: cs)).head? =
          some (lastOr (some c) (cs.takeWhile cc.isWord), cs.dropWhile cc.isWord) := by
        show ((m cc kwHead (none, c :: cs)).flatMap (m cc (.star true W))).head? = _
        rw [hstep]
        simp only [List.flatMap_cons, List.flatMap_nil, List.append_nil]
        rw [hstar]
        exact splits_head _ _ _
      simp only [pyMatch, pyMatchSt, hm, Option.map_some, hc, Bool.true_and]
      have hlen : (cs.dropWhile cc.isWord).length ≤ cs.length := by
        have := congrArg List.length hsplit
        simp only [List.length_append] at this
        omega
      by_cases hall : cs.all cc.isWord = true
      · have : cs.dropWhile cc.isWord = [] := by
          rw [dropWhile_nil_iff]; exact hall
        simp [this, hall]
      · have hne : cs.dropWhile cc.isWord ≠ [] := by
          intro h; rw [dropWhile_nil_iff] at h; exact hall h
        have hpos : 0 < (cs.dropWhile cc.isWord).length := List.length_pos_iff.mpr hne
        have hall' : cs.all cc.isWord = false := by simpa using hall
        simp only [hall', List.length_cons]
        simp
        omega
    · have hc' : (cc.isWord c && !cc.isDigit c) = false := by simpa using hc
      have hstep : m cc kwHead (none, c :: cs) = [] := by
        simp [kwHead, m, step, clsTest_kwHead, hc']
      simp [pyMatch, pyMatchSt, m_seq_nil_left hstep, hc']

/-! ## the `lit\b` pattern has at most one match: the literal, at a word boundary -/
def chrTest (cc : CharClasses) (ic : Bool) (c d : Char) : Bool :=
  if ic then cc.fold d == cc.fold c else d == c

theorem litMatch_nil (cc : CharClasses) (ic : Bool) (s : List Char) : litMatch cc ic [] s = true := by
  cases ic <;> simp [litMatch]

theorem litMatch_cons_nil (cc : CharClasses) (ic : Bool) (c : Char) (cs : List Char) :
    litMatch cc ic (c :: cs) [] = false := by
  cases ic <;> simp [litMatch]

theorem litMatch_cons_cons (cc : CharClasses) (ic : Bool) (c d : Char) (cs t : List Char) :
    litMatch cc ic (c :: cs) (d :: t) = (chrTest cc ic c d && litMatch cc ic cs t) := by
  cases ic <;> simp [litMatch, chrTest, List.take_succ_cons]

theorem m_litChr (cc : CharClasses) (ic : Bool) (c : Char) (s : St) :
    m cc (litChr ic c) s = step (chrTest cc ic c) s := by
  cases ic <;> rfl

theorem m_kwRe (cc : CharClasses) (ic : Bool) (l : List Char) : ∀ (p : Option Char) (s : List Char),
    m cc (kwRe ic l) (p, s) =
      if litMatch cc ic l s = true ∧ atBoundary cc (lastOr p (s.take l.length), s.drop l.length) = true
      then [(lastOr p (s.take l.length), s.drop l.length)] else [] := by
  induction l with
  | nil =>
    intro p s
    simp [kwRe, m, litMatch_nil, lastOr]
  | cons c cs ih =>
    intro p s
    cases s with
    | nil => simp [kwRe, m, m_litChr, step, litMatch_cons_nil]
    | cons d t =>
      show (m cc (litChr ic c) (p, d :: t)).flatMap (m cc (kwRe ic cs)) = _
      rw [m_litChr]
      simp only [step, litMatch_cons_cons]
      by_cases hd : chrTest cc ic c d = true
      · simp only [hd, if_true, List.flatMap_cons, List.flatMap_nil, List.append_nil, Bool.true_and]
        rw [ih (some d) t]
        simp [lastOr, List.take_succ_cons]
      · simp [hd]

/-- next character is not a word character (or there is none) -/
abbrev NextNotWord (cc : CharClasses) (t : List Char) : Prop := isWordO cc t.head? = false

/-- the character before the end of a match of a keyword-like literal is a word character -/
theorem lastOr_take_word (cc : CharClasses) (ic : Bool)
    (hfw : ic = true → ∀ a b, cc.fold a = cc.fold b → cc.isWord a = cc.isWord b) :
    ∀ (l s : List Char) (p : Option Char), l ≠ [] → (∀ x ∈ l, cc.isWord x = true) → litMatch cc ic l s = true →
      isWordO cc (lastOr p (s.take l.length)) = true := by
  intro l
  induction l with
  | nil => intro s p h; exact absurd rfl h
  | cons c cs ih =>
    intro s p _ hw hm
    cases s with
    | nil => simp [litMatch_cons_nil] at hm
    | cons d t =>
      rw [litMatch_cons_cons] at hm
      simp only [Bool.and_eq_true] at hm
      have hdw : cc.isWord d = true := by
        have hcw := hw c (by simp)
        cases ic with
        | false =>
          have : d = c := by simpa [chrTest] using hm.1
          rw [this]; exact hcw
        | true =>
          have : cc.fold d = cc.fold c := by simpa [chrTest] using hm.1
          rw [hfw rfl d c this]; exact hcw
      simp only [List.length_cons, List.take_succ_cons, lastOr]
      cases cs with
      | nil => simpa [lastOr, isWordO] using hdw
      | cons e es =>
        exact ih t (some d) (by simp) (fun x hx => hw x (by simp [hx])) hm.2

theorem kw_all_word (cc : CharClasses) (ic : Bool) (l : List Char) (h : isKeywordLike cc ic l = true) :
    l ≠ [] ∧ ∀ x ∈ l, cc.isWord x = true := by
  rw [isKeywordLike_eq] at h
  cases l with
  | nil => simp at h
  | cons c cs =>
    simp only [Bool.and_eq_true, List.all_eq_true] at h
    refine ⟨by simp, ?_⟩
    intro x hx
    simp at hx
    rcases hx with hx | hx
    · subst hx; exact h.1.1
    · exact h.2 x hx

theorem litMatch_length (cc : CharClasses) (ic : Bool) : ∀ (l s : List Char), litMatch cc ic l s = true →
    l.length ≤ s.length := by
  intro l
  induction l with
  | nil => intro s _; simp
  | cons c cs ih =>
    intro s h
    cases s with
    | nil => simp [litMatch_cons_nil] at h
    | cons d t =>
      rw [litMatch_cons_cons] at h
      simp only [Bool.and_eq_true] at h
      have := ih t h.2
      simp; omega

/-- the token a keyword-like literal compiles to under autokwd -/
theorem tokMatch_kw (cc : CharClasses) (ic : Bool)
    (hfw : ic = true → ∀ a b, cc.fold a = cc.fold b → cc.isWord a = cc.isWord b)
    (l : List Char) (hk : isKeywordLike cc ic l = true) (ug : Bool) (p : Option Char) (s : List Char) :
    tokMatch cc ug (.re (kwRe ic l) (some l)) (p, s) =
      if litMatch cc ic l s = true ∧ NextNotWord cc (s.drop l.length)
      then some ((lastOr p (s.take l.length), s.drop l.length), (l, l)) else none := by
  obtain ⟨hne, hw⟩ := kw_all_word cc ic l hk
  simp only [tokMatch, pyMatchSt, m_kwRe]
  by_cases hm : litMatch cc ic l s = true
  · have hlast := lastOr_take_word cc ic hfw l s p hne hw hm
    have hlen := litMatch_length cc ic l s hm
    have hpos : 0 < l.length := List.length_pos_iff.mpr hne
    have hdl : s.length - (s.drop l.length).length ≠ 0 := by
      rw [List.length_drop]; omega
    generalize s.drop l.length = rest at *
    generalize lastOr p (s.take l.length) = q at *
    by_cases hn : isWordO cc rest.head? = true
    · simp [hm, atBoundary, hlast, hn]
    · have hn' : isWordO cc rest.head? = false := by simpa using hn
      simp [hm, atBoundary, hlast, hn', hdl]
  · simp [hm]

theorem tokMatch_str (cc : CharClasses) (ic ug : Bool) (l : List Char) (p : Option Char) (s : List Char) :
    tokMatch cc ug (.str l ic) (p, s) =
      if litMatch cc ic l s = true then some ((lastOr p (s.take l.length), s.drop l.length), (l, l)) else none := rfl

/-! ## results stay inside the text -/
theorem skipByAux_suffix (ws : List Char) : ∀ (l : List Char) (p : Option Char), (skipByAux ws p l).2 <:+ l := by
  intro l
  induction l with
  | nil => intro p; simp [skipByAux]
  | cons c cs ih =>
    intro p
    simp only [skipByAux]
    split
    · exact (ih (some c)).trans (List.suffix_cons c cs)
    · exact List.suffix_refl _

theorem skipBy_suffix (ws : List Char) (s : St) : (skipBy ws s).2 <:+ s.2 := skipByAux_suffix ws s.2 s.1

/-- the default whitespace set is the one of `Re.skipWs` (shared with the base-type model) -/
theorem skipBy_default (s : St) : skipBy defaultWs s = skipWs s := by
  obtain ⟨p, l⟩ := s
  show skipByAux defaultWs p l = skipWsAux p l
  induction l generalizing p with
  | nil => rfl
  | cons c cs ih =>
    simp only [skipByAux, skipWsAux]
    have : defaultWs.contains c = isWs c := by
      simp only [defaultWs, isWs, List.contains_cons, List.contains_nil, Bool.or_false]
      cases h1 : c == ' ' <;> cases h2 : c == '\t' <;> cases h3 : c == '\n' <;> cases h4 : c == '\r' <;> rfl
    rw [this]
    split
    · exact ih (some c)
    · rfl

theorem mem_mG (cc : CharClasses) (pre body : R) (s t u : St) (h : (t, u) ∈ mG cc pre body s) :
    t ∈ m cc pre s ∧ u ∈ m cc body t := by
  simp only [mG, List.mem_flatMap, List.mem_map] at h
  obtain ⟨t', ht', u', hu', heq⟩ := h
  simp only [Prod.mk.injEq] at heq
  obtain ⟨rfl, rfl⟩ := heq
  exact ⟨ht', hu'⟩

theorem tokMatch_suffix (cc : CharClasses) (ug : Bool) (tk : Tok) (s u : St) (v : TV)
    (h : tokMatch cc ug tk s = some (u, v)) : u.2 <:+ s.2 := by
  cases tk with
  | str l ic =>
    simp only [tokMatch] at h
    split at h
    · simp at h; rw [← h.1]; exact List.drop_suffix _ _
    · simp at h
  | re r val =>
    simp only [tokMatch, pyMatchSt] at h
    split at h
    · rename_i t ht
      split at h
      · simp at h
      · simp at h
        rw [← h.1]
        exact m_suffix cc r s t (List.mem_of_mem_head? ht)
    · simp at h
  | reG pre body =>
    simp only [tokMatch] at h
    split at h
    · rename_i t w ht
      obtain ⟨h1, h2⟩ := mem_mG cc pre body s t w (List.mem_of_mem_head? ht)
      split at h
      · simp at h
      · simp at h
        rw [← h.1]
        exact (m_suffix cc body t w h2).trans (m_suffix cc pre s t h1)
    · simp at h

/-- a literal matcher that only moves to the right -/
def Rightward (lit : List Char → St → Option (St × TV)) : Prop :=
  ∀ l s u v, lit l s = some (u, v) → u.2 <:+ s.2

theorem litTok_rightward (cc : CharClasses) (cfg : Cfg) (ug : Bool) : Rightward (litTok cc cfg ug) :=
  fun _ s u v h => tokMatch_suffix cc ug _ s u v h

theorem term_suffix (ws : List Char) {tm : St → Option (St × TV)} (htm : ∀ s u v, tm s = some (u, v) → u.2 <:+ s.2)
    (s t : St) (toks : List Tk) (h : term ws tm s = some (t, toks)) : t.2 <:+ s.2 := by
  simp only [term] at h
  split at h
  · rename_i u v hu
    simp at h
    rw [← h.1]
    exact (htm _ _ _ hu).trans (skipBy_suffix ws s)
  · simp at h

theorem starP_suffix (f : St → Option (St × List Tk)) (hf : ∀ t u toks, f t = some (u, toks) → u.2 <:+ t.2) :
    ∀ (n : Nat) (s : St), ((starP f n s).1).2 <:+ s.2 := by
  intro n
  induction n with
  | zero => intro s; exact List.suffix_refl _
  | succ n ih =>
    intro s
    simp only [starP]
    split
    · rename_i t toks ht
      split
      · exact (ih t).trans (hf s t toks ht)
      · exact List.suffix_refl _
    · exact List.suffix_refl _

theorem sepLoop_suffix (f sep : St → Option (St × List Tk))
    (hf : ∀ t u toks, f t = some (u, toks) → u.2 <:+ t.2)
    (hsep : ∀ t u toks, sep t = some (u, toks) → u.2 <:+ t.2) :
    ∀ (n : Nat) (s : St), ((sepLoop f sep n s).1).2 <:+ s.2 := by
  intro n
  induction n with
  | zero => intro s; exact List.suffix_refl _
  | succ n ih =>
    intro s
    simp only [sepLoop]
    split
    · rename_i t ts ht
      split
      · rename_i u tu hu
        split
        · exact ((ih u).trans (hf t u tu hu)).trans (hsep s t ts ht)
        · exact List.suffix_refl _
      · exact List.suffix_refl _
    · exact List.suffix_refl _

theorem parse_suffix (cc : CharClasses) (o : Opts) (lit : List Char → St → Option (St × TV)) (hl : Rightward lit)
    (g : PE) : ∀ (s t : St) (toks : List Tk), parse cc o lit g s = some (t, toks) → t.2 <:+ s.2 := by
  induction g with
  | lit l => intro s t toks h; exact term_suffix o.ws (hl l) s t toks h
  | ident => intro s t toks h; exact term_suffix o.ws (fun s u v h => tokMatch_suffix cc _ _ s u v h) s t toks h
  | int => intro s t toks h; exact term_suffix o.ws (fun s u v h => tokMatch_suffix cc _ _ s u v h) s t toks h
  | rx pre body => intro s t toks h; exact term_suffix o.ws (fun s u v h => tokMatch_suffix cc _ _ s u v h) s t toks h
  | seq a b iha ihb =>
    intro s t toks h
    simp only [parse] at h
    split at h
    · rename_i u ta hu
      split at h
      · rename_i w tb hw
        simp at h
        rw [← h.1]
        exact (ihb u w tb hw).trans (iha s u ta hu)
      · simp at h
    · simp at h
  | choice a b iha ihb =>
    intro s t toks h
    simp only [parse] at h
    split at h
    · rename_i r hr
      simp at h; subst h
      exact iha s t toks hr
    · exact ihb s t toks h
  | star a ih =>
    intro s t toks h
    simp only [parse] at h
    simp at h
    have := starP_suffix (parse cc o lit a) ih s.2.length s
    rw [h] at this
    exact this
  | opt a ih =>
    intro s t toks h
    simp only [parse] at h
    split at h
    · rename_i r hr
      simp at h; subst h
      exact ih s t toks hr
    · simp at h; rw [← h.1]; exact List.suffix_refl _
  | notP a _ =>
    intro s t toks h
    simp only [parse] at h
    split at h
    · simp at h
    · simp at h; rw [← h.1]; exact List.suffix_refl _
  | empty =>
    intro s t toks h
    simp only [parse] at h
    simp at h; rw [← h.1]; exact List.suffix_refl _
  | sepPlus a sep iha ihs =>
    intro s t toks h
    simp only [parse] at h
    split at h
    · rename_i u ta hu
      simp at h
      have := sepLoop_suffix (parse cc o lit a) (parse cc o lit sep) iha ihs u.2.length u
      rw [← h.1]
      exact this.trans (iha s u ta hu)
    · simp at h

/-! ## the parser is a congruence in its literal matcher -/
theorem starP_congr (f g : St → Option (St × List Tk)) (hf : ∀ t u toks, f t = some (u, toks) → u.2 <:+ t.2) :
    ∀ (n : Nat) (s : St), (∀ t : St, t.2 <:+ s.2 → f t = g t) → starP f n s = starP g n s := by
  intro n
  induction n with
  | zero => intro s _; rfl
  | succ n ih =>
    intro s h
    simp only [starP]
    rw [← h s (List.suffix_refl _)]
    split
    · rename_i t toks ht
      have hts := hf s t toks ht
      rw [ih t (fun u hu => h u (hu.trans hts))]
    · rfl

theorem sepLoop_congr (f g sep sep' : St → Option (St × List Tk))
    (hf : ∀ t u toks, f t = some (u, toks) → u.2 <:+ t.2)
    (hsep : ∀ t u toks, sep t = some (u, toks) → u.2 <:+ t.2) :
    ∀ (n : Nat) (s : St), (∀ t : St, t.2 <:+ s.2 → f t = g t ∧ sep t = sep' t) →
      sepLoop f sep n s = sepLoop g sep' n s := by
  intro n
  induction n with
  | zero => intro s _; rfl
  | succ n ih =>
    intro s h
    simp only [sepLoop]
    rw [← (h s (List.suffix_refl _)).2]
    split
    · rename_i t ts ht
      have hts := hsep s t ts ht
      rw [← (h t hts).1]
      split
      · rename_i u tu hu
        have hut := (hf t u tu hu).trans hts
        rw [ih u (fun w hw => h w (hw.trans hut))]
      · rfl
    · rfl

theorem parse_congr (cc : CharClasses) (o : Opts) (lit1 lit2 : List Char → St → Option (St × TV))
    (hl : Rightward lit1) (g : PE) :
    ∀ (s : St), (∀ l ∈ g.lits, ∀ t : St, t.2 <:+ s.2 → lit1 l t = lit2 l t) →
      parse cc o lit1 g s = parse cc o lit2 g s := by
  induction g with
  | lit l =>
    intro s h
    simp only [parse, term]
    rw [h l (by simp [PE.lits]) (skipBy o.ws s) (skipBy_suffix o.ws s)]
  | ident => intro s _; rfl
  | int => intro s _; rfl
  | rx pre body => intro s _; rfl
  | seq a b iha ihb =>
    intro s h
    simp only [parse]
    rw [← iha s (fun l hl' t ht => h l (by simp [PE.lits, hl']) t ht)]
    split
    · rename_i u ta hu
      have hus := parse_suffix cc o lit1 hl a s u ta hu
      rw [ihb u (fun l hl' t ht => h l (by simp [PE.lits, hl']) t (ht.trans hus))]
    · rfl
  | choice a b iha ihb =>
    intro s h
    simp only [parse]
    rw [← iha s (fun l hl' t ht => h l (by simp [PE.lits, hl']) t ht),
      ← ihb s (fun l hl' t ht => h l (by simp [PE.lits, hl']) t ht)]
  | star a ih =>
    intro s h
    simp only [parse]
    rw [starP_congr (parse cc o lit1 a) (parse cc o lit2 a) (parse_suffix cc o lit1 hl a) s.2.length s
      (fun t ht => ih t (fun l hl' u hu => h l (by simpa [PE.lits] using hl') u (hu.trans ht)))]
  | opt a ih =>
    intro s h
    simp only [parse]
    rw [← ih s (fun l hl' t ht => h l (by simpa [PE.lits] using hl') t ht)]
  | notP a ih =>
    intro s h
    simp only [parse]
    rw [← ih s (fun l hl' t ht => h l (by simpa [PE.lits] using hl') t ht)]
  | empty => intro s _; rfl
  | sepPlus a sep iha ihs =>
    intro s h
    simp only [parse]
    rw [← iha s (fun l hl' t ht => h l (by simp [PE.lits, hl']) t ht)]
    split
    · rename_i u ta hu
      have hus := parse_suffix cc o lit1 hl a s u ta hu
      rw [sepLoop_congr (parse cc o lit1 a) (parse cc o lit2 a) (parse cc o lit1 sep) (parse cc o lit2 sep)
        (parse_suffix cc o lit1 hl a) (parse_suffix cc o lit1 hl sep) u.2.length u
        (fun t ht => ⟨iha t (fun l hl' w hw => h l (by simp [PE.lits, hl']) w ((hw.trans ht).trans hus)),
          ihs t (fun l hl' w hw => h l (by simp [PE.lits, hl']) w ((hw.trans ht).trans hus))⟩)]
    · rfl

end Kwd
