import TextxVerif.Proofs.ExportMM
/-! PlantUML renderer: the written text splits into the rendered lines and the line-based
recogniser accepts them, reporting one declaration per common / abstract class. -/
namespace Dot

/-! ### lines -/

theorem splitLines_line (acc l rest : Str) (h : ∀ c ∈ l, c ≠ '\n') :
    splitLines acc (l ++ '\n' :: rest) = (acc.reverse ++ l) :: splitLines [] rest := by
  induction l generalizing acc with
  | nil => simp [splitLines]
  | cons c cs ih =>
    have hc := h c (by simp)
    simp only [List.cons_append, splitLines, hc, if_false]
    rw [ih (c :: acc) (fun d hd => h d (by simp [hd]))]
    simp

theorem splitLines_unlines (ls : List Str) (h : ∀ l ∈ ls, ∀ c ∈ l, c ≠ '\n') :
    splitLines [] (unlines ls) = ls ++ [[]] := by
  induction ls with
  | nil => simp [unlines, splitLines]
  | cons l ls ih =>
    have : unlines (l :: ls) = l ++ '\n' :: unlines ls := by simp [unlines]
    rw [this, splitLines_line [] l _ (h l (by simp)), ih (fun x hx => h x (by simp [hx]))]
    simp

theorem usteps_append (s : UState) (a b : List Str) :
    usteps s (a ++ b) = (usteps s a).bind (fun s' => usteps s' b) := by
  induction a generalizing s with
  | nil => simp [usteps]
  | cons l ls ih =>
    simp only [List.cons_append, usteps]
    cases ustep s l with
    | none => simp
    | some s' => exact ih s'

/-! ### names -/

/-- a name that can be written on a PlantUML line: no newline, blank or brace -/
def NameOk (n : Str) : Prop := ∀ c ∈ n, c ≠ '\n' ∧ c ≠ ' ' ∧ c ≠ '{' ∧ c ≠ '}'

def PAttrOk (a : MAttr) : Prop := NameOk a.name ∧ NameOk a.clsName ∧ NameOk a.clsFqn ∧ NameOk a.mult

def PClsOk (c : MCls) : Prop :=
  NameOk c.fqn ∧ c.fqn ≠ cl!"class" ∧ NameOk c.name ∧ ∀ a ∈ c.attrs, PAttrOk a

theorem NameOk.noNl {n : Str} (h : NameOk n) : ∀ c ∈ n, c ≠ '\n' := fun c hc => (h c hc).1

theorem NameOk.noBrace {n : Str} (h : NameOk n) : hasBrace n = false := by
  simp only [hasBrace, List.any_eq_false, Bool.or_eq_true, decide_eq_true_eq, not_or]
  exact fun c hc => ⟨(h c hc).2.2.1, (h c hc).2.2.2⟩

theorem hasBrace_append (a b : Str) : hasBrace (a ++ b) = (hasBrace a || hasBrace b) := by
  simp [hasBrace]

/-- no newline -/
def NoNl (l : Str) : Prop := ∀ c ∈ l, c ≠ '\n'

instance (l : Str) : Decidable (NoNl l) := by unfold NoNl; infer_instance

theorem NoNl.append {a b : Str} (ha : NoNl a) (hb : NoNl b) : NoNl (a ++ b) := by
  intro c hc
  rcases List.mem_append.mp hc with hc | hc
  · exact ha c hc
  · exact hb c hc

theorem NoNl.cons {c : Char} {l : Str} (hc : c ≠ '\n') (hl : NoNl l) : NoNl (c :: l) := by
  intro d hd
  rcases List.mem_cons.mp hd with hd | hd
  · subst hd; exact hc
  · exact hl d hd

theorem NameOk.noNl' {n : Str} (h : NameOk n) : NoNl n := fun c hc => (h c hc).1

theorem ustep_top_nil (cs : List Str) :
    ustep { mode := .top, classes := cs } [] = some { mode := .top, classes := cs } := by
  simp [ustep]

theorem takeWhile_name (n rest : Str) (h : NameOk n) : (n ++ ' ' :: rest).takeWhile (· ≠ ' ') = n := by
  induction n with
  | nil => simp
  | cons c cs ih =>
    have hc := (h c (by simp)).2.1
    simp only [List.cons_append, List.takeWhile, ne_eq, hc, not_false_eq_true, decide_true]
    rw [ih (fun d hd => h d (by simp [hd]))]

/-- a line that starts with a name other than `class`, followed by a blank, is not a class declaration -/
theorem not_class_prefix (n rest : Str) (h : NameOk n) (hne : n ≠ cl!"class") :
    startsWith cl!"class " (n ++ ' ' :: rest) = false := by
  cases hp : startsWith cl!"class " (n ++ ' ' :: rest) with
  | false => rfl
  | true =>
    exfalso
    unfold startsWith at hp
    rw [List.isPrefixOf_iff_prefix] at hp
    obtain ⟨t, ht⟩ := hp
    have h1 := takeWhile_name n rest h
    rw [← ht] at h1
    simp [List.takeWhile] at h1
    exact hne h1.symm

/-! ### single lines -/

theorem isInfix_mid (p a b : Str) (hp : p ≠ []) : isInfix p (a ++ (p ++ b)) = true := by
  induction a with
  | nil =>
    cases hpb : p ++ b with
    | nil => simp at hpb; exact absurd hpb.1 hp
    | cons c cs =>
      have : p.isPrefixOf (c :: cs) = true := by
        rw [← hpb, List.isPrefixOf_iff_prefix]; exact List.prefix_append p b
      simp [isInfix, this]
  | cons c cs ih => simp [isInfix, ih]

/-- a relation line in the `top` state -/
theorem ustep_rel (l : Str) (cs : List Str) (h2 : ' ' ∈ l) (h3 : startsWith cl!"class " l = false)
    (h4 : hasBrace l = false) (h5 : isInfix cl!"-->" l = true ∨ isInfix cl!"<|--" l = true) :
    ustep { mode := .top, classes := cs } l = some { mode := .top, classes := cs } := by
  have e1 : l ≠ [] := by rintro rfl; simp at h2
  have e2 : l ≠ cl!"@enduml" := by rintro rfl; revert h2; decide
  have e3 : l ≠ cl!"legend" := by rintro rfl; revert h2; decide
  simp only [ustep, e1, e2, e3, h3, h4, if_false, Bool.false_eq_true]
  rcases h5 with h5 | h5
  · simp [h5]
  · simp [h5]

theorem NameOk.noSpace {n : Str} (h : NameOk n) : ∀ c ∈ n, c ≠ ' ' := fun c hc => (h c hc).2.1

theorem typName_noBrace (t : Typ) : hasBrace (typName t) = false := by cases t <;> decide
theorem typName_noNl (t : Typ) : NoNl (typName t) := by cases t <;> decide

def stereo (c : MCls) : Str := if c.typ = .common then [] else cl!"<<" ++ typName c.typ ++ cl!">>"

theorem stereo_noBrace (c : MCls) : hasBrace (stereo c) = false := by
  unfold stereo; split
  · rfl
  · simp only [hasBrace_append, typName_noBrace]; decide

theorem stereo_noNl (c : MCls) : NoNl (stereo c) := by
  unfold stereo; split
  · decide
  · exact NoNl.append (NoNl.append (by decide) (typName_noNl _)) (by decide)

def classLine (c : MCls) : Str := cl!"class " ++ c.fqn ++ ' ' :: stereo c ++ cl!" {"

theorem ustep_class (c : MCls) (hf : NameOk c.fqn) (cs : List Str) :
    ustep { mode := .top, classes := cs } (classLine c) = some { mode := .inClass, classes := c.fqn :: cs } := by
  have e0 : classLine c = 'c' :: 'l' :: 'a' :: 's' :: 's' :: ' ' :: (c.fqn ++ ' ' :: stereo c ++ cl!" {") := by
    simp [classLine]
  have e1 : classLine c ≠ [] := by rw [e0]; simp
  have e2 : classLine c ≠ cl!"@enduml" := by rw [e0]; simp
  have e3 : classLine c ≠ cl!"legend" := by rw [e0]; simp
  have e4 : startsWith cl!"class " (classLine c) = true := by rw [e0]; simp [startsWith, List.isPrefixOf]
  have e5 : endsWith cl!" {" (classLine c) = true := by
    simp [endsWith, classLine, List.isPrefixOf]
  have e6 : (classLine c).dropLast = cl!"class " ++ c.fqn ++ ' ' :: stereo c ++ [' '] := by
    have : classLine c = (cl!"class " ++ c.fqn ++ ' ' :: stereo c ++ [' ']) ++ ['{'] := by simp [classLine]
    rw [this, List.dropLast_concat]
  have e7 : hasBrace (classLine c).dropLast = false := by
    rw [e6]
    have : cl!"class " ++ c.fqn ++ ' ' :: stereo c ++ [' '] = cl!"class " ++ (c.fqn ++ ([' '] ++ (stereo c ++ [' ']))) := by simp
    rw [this]
    simp only [hasBrace_append, hf.noBrace, stereo_noBrace]
    decide
  have e8 : className (classLine c) = c.fqn := by
    unfold className
    rw [e0]
    simp only [List.drop_succ_cons, List.drop_zero]
    have : c.fqn ++ ' ' :: stereo c ++ cl!" {" = c.fqn ++ ' ' :: (stereo c ++ cl!" {") := by simp
    rw [this]
    exact takeWhile_name _ _ hf
  simp only [ustep, e1, e2, e3, e4, e5, e7, e8, if_false, if_true, Bool.not_false, Bool.and_self]

theorem attrType_noBrace {a : MAttr} (h : PAttrOk a) : hasBrace (attrType a) = false := by
  unfold attrType
  split
  · simp only [hasBrace_append, h.2.1.noBrace]; decide
  · exact h.2.1.noBrace

theorem attrType_noNl {a : MAttr} (h : PAttrOk a) : NoNl (attrType a) := by
  unfold attrType
  split
  · exact NoNl.append (NoNl.append (by decide) h.2.1.noNl') (by decide)
  · exact h.2.1.noNl'

theorem pumlAttrLine_ok {a : MAttr} (h : PAttrOk a) :
    startsWith cl!"  " (pumlAttrLine a) = true ∧ hasBrace (pumlAttrLine a) = false ∧
      pumlAttrLine a ≠ cl!"}" ∧ NoNl (pumlAttrLine a) := by
  refine ⟨by simp [pumlAttrLine, startsWith, List.isPrefixOf], ?_, by simp [pumlAttrLine], ?_⟩
  · unfold pumlAttrLine
    split
    · simp only [hasBrace_append, h.1.noBrace, attrType_noBrace h]; decide
    · simp only [hasBrace_append, h.1.noBrace, attrType_noBrace h]; decide
  · unfold pumlAttrLine
    refine NoNl.append (NoNl.append (NoNl.append (by decide) h.1.noNl') (by decide)) ?_
    split
    · exact attrType_noNl h
    · exact NoNl.append (NoNl.append (by decide) (attrType_noNl h)) (by decide)

theorem usteps_attrs (as : List MAttr) (h : ∀ a ∈ as, PAttrOk a) (cs : List Str) :
    usteps { mode := .inClass, classes := cs } (as.map pumlAttrLine) = some { mode := .inClass, classes := cs } := by
  induction as with
  | nil => rfl
  | cons a as ih =>
    obtain ⟨h1, h2, h3, _⟩ := pumlAttrLine_ok (h a (by simp))
    simp only [List.map_cons, usteps, ustep, h3, h1, h2, if_false, Bool.not_false, Bool.and_self, if_true]
    exact ih (fun b hb => h b (by simp [hb]))

/-! ### items -/

/-- the class a PlantUML item declares -/
def declared : MItem → List Str
  | .cls c => if c.typ = .match then [] else [c.fqn]
  | _ => []

theorem pumlClassLines_eq (c : MCls) :
    pumlClassLines c =
      [[], [], classLine c] ++ (if c.typ = .common then (c.attrs.filter isPlainAttr).map pumlAttrLine else []) ++ [cl!"}"] := by
  simp [pumlClassLines, classLine, stereo]

theorem classLine_noNl (c : MCls) (hf : NameOk c.fqn) : NoNl (classLine c) := by
  unfold classLine
  exact NoNl.append (NoNl.append (NoNl.append (by decide) hf.noNl') (NoNl.cons (by decide) (stereo_noNl c))) (by decide)

theorem usteps_item (all : List MCls) (hall : ∀ c ∈ all, PClsOk c) (it : MItem) (hin : ItemIn all it) (cs : List Str) :
    usteps { mode := .top, classes := cs } (pumlItem it) =
        some { mode := .top, classes := (declared it).reverse ++ cs } ∧
      ∀ l ∈ pumlItem it, NoNl l := by
  cases it with
  | cls c =>
    obtain ⟨hf, _, _, hattrs⟩ := hall c hin
    by_cases hm : c.typ = .match
    · simp [pumlItem, declared, hm, usteps]
    · constructor
      · simp only [pumlItem, hm, if_false, declared, pumlClassLines_eq]
        have h1 : usteps { mode := .top, classes := cs } [[], [], classLine c] =
            some { mode := .inClass, classes := c.fqn :: cs } := by
          simp only [usteps, ustep_top_nil, ustep_class c hf cs]
        have h2 : usteps { mode := .inClass, classes := c.fqn :: cs }
            (if c.typ = .common then (c.attrs.filter isPlainAttr).map pumlAttrLine else []) =
            some { mode := .inClass, classes := c.fqn :: cs } := by
          split
          · exact usteps_attrs _ (fun a ha => hattrs a (List.mem_filter.mp ha).1) _
          · rfl
        rw [usteps_append, usteps_append, h1, Option.bind_some, h2, Option.bind_some]
        simp [usteps, ustep]
      · intro l hl
        simp only [pumlItem, hm, if_false, pumlClassLines_eq] at hl
        rcases List.mem_append.mp hl with hl | hl
        · rcases List.mem_append.mp hl with hl | hl
          · simp only [List.mem_cons, List.not_mem_nil, or_false] at hl
            rcases hl with rfl | rfl | rfl
            · decide
            · decide
            · exact classLine_noNl c hf
          · split at hl
            · obtain ⟨b, hb, rfl⟩ := List.mem_map.mp hl
              exact (pumlAttrLine_ok (hattrs b (List.mem_filter.mp hb).1)).2.2.2
            · simp at hl
        · simp only [List.mem_singleton] at hl; subst hl; decide
  | blank =>
    constructor
    · simp [pumlItem, declared, usteps, ustep]
    · intro l hl
      simp only [pumlItem, List.mem_cons, List.not_mem_nil, or_false] at hl
      rcases hl with rfl | rfl <;> decide
  | link c a =>
    obtain ⟨hc, ha⟩ := hin
    obtain ⟨hf, hne, _, hattrs⟩ := hall c hc
    obtain ⟨hn, _, hcf, hmu⟩ := hattrs a ha
    have harr : ∀ b : Bool, hasBrace (if b then cl!"*-->" else cl!"-->") = false := by intro b; cases b <;> decide
    have harr' : ∀ b : Bool, NoNl (if b then cl!"*-->" else cl!"-->") := by intro b; cases b <;> decide
    have hmul : hasBrace (if a.mult = cl!"1" then [] else ['"'] ++ (a.mult ++ ['"'])) = false := by
      split
      · rfl
      · simp only [hasBrace_append, hmu.noBrace]; decide
    have hmul' : NoNl (if a.mult = cl!"1" then [] else ['"'] ++ (a.mult ++ ['"'])) := by
      split
      · decide
      · exact NoNl.append (by decide) (NoNl.append hmu.noNl' (by decide))
    have e : pumlItem (.link c a) =
        [c.fqn ++ ([' '] ++ ((if a.cont then cl!"*-->" else cl!"-->") ++ ([' '] ++
          ((if a.mult = cl!"1" then [] else ['"'] ++ (a.mult ++ ['"'])) ++ ([' '] ++ (a.clsFqn ++ (cl!": " ++ a.name)))))))] := by
      simp only [pumlItem]
      congr 1
      split <;> split <;> simp
    rw [e]
    constructor
    · simp only [usteps, declared, List.reverse_nil, List.nil_append]
      rw [ustep_rel]
      · simp
      · exact not_class_prefix c.fqn _ hf hne
      · simp only [hasBrace_append, hf.noBrace, harr, hmul, hcf.noBrace, hn.noBrace]
        decide
      · left
        cases a.cont
        · exact isInfix_mid cl!"-->" (c.fqn ++ [' ']) _ (by simp) |> fun h => by simpa using h
        · exact isInfix_mid cl!"-->" (c.fqn ++ [' ', '*']) _ (by simp) |> fun h => by simpa using h
    · intro l hl
      simp only [List.mem_singleton] at hl
      subst hl
      exact NoNl.append hf.noNl' (NoNl.append (by decide) (NoNl.append (harr' _) (NoNl.append (by decide)
        (NoNl.append hmul' (NoNl.append (by decide) (NoNl.append hcf.noNl' (NoNl.append (by decide) hn.noNl')))))))
  | inh b s' =>
    obtain ⟨hb, hs⟩ := hin
    obtain ⟨hf, hne, _, _⟩ := hall b hb
    obtain ⟨hsf, _, _, _⟩ := hall s' hs
    have e : pumlItem (.inh b s') = [b.fqn ++ ([' '] ++ (cl!"<|-- " ++ s'.fqn))] := by simp [pumlItem]
    rw [e]
    constructor
    · simp only [usteps, declared, List.reverse_nil, List.nil_append]
      rw [ustep_rel]
      · simp
      · exact not_class_prefix b.fqn _ hf hne
      · simp only [hasBrace_append, hf.noBrace, hsf.noBrace]
        decide
      · right
        exact isInfix_mid cl!"<|--" (b.fqn ++ [' ']) _ (by simp) |> fun h => by simpa using h
    · intro l hl
      simp only [List.mem_singleton] at hl
      subst hl
      exact NoNl.append hf.noNl' (NoNl.append (by decide) (NoNl.append (by decide) hsf.noNl'))

theorem usteps_items (all : List MCls) (hall : ∀ c ∈ all, PClsOk c) (items : List MItem)
    (hin : ∀ it ∈ items, ItemIn all it) (cs : List Str) :
    usteps { mode := .top, classes := cs } (items.flatMap pumlItem) =
        some { mode := .top, classes := (items.flatMap declared).reverse ++ cs } ∧
      ∀ l ∈ items.flatMap pumlItem, NoNl l := by
  induction items generalizing cs with
  | nil => simp [usteps]
  | cons it items ih =>
    obtain ⟨h1, n1⟩ := usteps_item all hall it (hin it (by simp)) cs
    obtain ⟨h2, n2⟩ := ih (fun x hx => hin x (by simp [hx])) ((declared it).reverse ++ cs)
    constructor
    · rw [List.flatMap_cons, usteps_append, h1, Option.bind_some, h2]
      simp
    · intro l hl
      rw [List.flatMap_cons, List.mem_append] at hl
      rcases hl with hl | hl
      · exact n1 l hl
      · exact n2 l hl

/-! ### legend, header, whole document -/

def legendRow (c : MCls) : Str := cl!"  | " ++ c.name ++ cl!" | " ++ dotEscape c.matchStr ++ cl!" |"

theorem usteps_rows (rules : List MCls) (cs : List Str) :
    usteps { mode := .inLegend, classes := cs } (rules.map legendRow) = some { mode := .inLegend, classes := cs } := by
  induction rules with
  | nil => rfl
  | cons r rs ih =>
    have : legendRow r ≠ cl!"end legend" := by simp [legendRow]
    simp only [List.map_cons, usteps, ustep, this, if_false]
    exact ih

theorem usteps_legend (rules : List MCls) (cs : List Str) :
    usteps { mode := .top, classes := cs } (pumlLegend rules) = some { mode := .top, classes := cs } := by
  unfold pumlLegend
  split
  · rfl
  · have e : (rules.map fun c => cl!"  | " ++ c.name ++ cl!" | " ++ dotEscape c.matchStr ++ cl!" |") = rules.map legendRow := rfl
    rw [e, usteps_append, usteps_append]
    have h1 : usteps { mode := .top, classes := cs } [[], cl!"legend", cl!"  Match rules:", cl!"  |= Name  |= Rule details |"] =
        some { mode := .inLegend, classes := cs } := by
      simp [usteps, ustep]
    rw [h1, Option.bind_some, usteps_rows, Option.bind_some]
    simp [usteps, ustep]

theorem legend_noNl (rules : List MCls) (h : ∀ c ∈ rules, NameOk c.name) : ∀ l ∈ pumlLegend rules, NoNl l := by
  unfold pumlLegend
  split
  · simp
  · intro l hl
    rcases List.mem_append.mp hl with hl | hl
    · rcases List.mem_append.mp hl with hl | hl
      · simp only [List.mem_cons, List.not_mem_nil, or_false] at hl
        rcases hl with rfl | rfl | rfl | rfl <;> decide
      · obtain ⟨c, hc, rfl⟩ := List.mem_map.mp hl
        exact NoNl.append (NoNl.append (NoNl.append (NoNl.append (by decide) (h c hc).noNl') (by decide))
          (dotEscape_no_newline _)) (by decide)
    · simp only [List.mem_cons, List.not_mem_nil, or_false] at hl
      rcases hl with rfl | rfl <;> decide

/-- a `linetype` argument that fits on its line -/
def LinetypeOk : Option Str → Prop
  | none => True
  | some l => NoNl l ∧ hasBrace l = false

theorem usteps_header (lt : Option Str) (h : LinetypeOk lt) :
    usteps { mode := .u0, classes := [] } (pumlHeader lt) = some { mode := .top, classes := [] } ∧
      ∀ l ∈ pumlHeader lt, NoNl l := by
  cases lt with
  | none =>
    constructor
    · decide
    · decide
  | some l =>
    obtain ⟨h1, h2⟩ := h
    constructor
    · have hb : hasBrace (cl!"skinparam linetype " ++ l) = false := by
        simp only [hasBrace_append, h2]; decide
      have e : cl!"skinparam linetype " ++ l =
          's' :: 'k' :: 'i' :: 'n' :: 'p' :: 'a' :: 'r' :: 'a' :: 'm' :: ' ' :: (cl!"linetype " ++ l) := by simp
      have hl : ustep { mode := .top, classes := [] } (cl!"skinparam linetype " ++ l) =
          some { mode := .top, classes := [] } := by
        simp only [ustep, hb]
        rw [e]
        simp [startsWith, List.isPrefixOf]
      have h0 : usteps { mode := .u0, classes := [] } [cl!"@startuml", cl!"set namespaceSeparator ."] =
          some { mode := .top, classes := [] } := by decide
      show usteps _ ([cl!"@startuml", cl!"set namespaceSeparator ."] ++ [cl!"skinparam linetype " ++ l]) = _
      rw [usteps_append, h0, Option.bind_some]
      simp only [usteps, hl]
    · intro x hx
      simp only [pumlHeader, List.mem_cons, List.not_mem_nil, or_false] at hx
      rcases hx with rfl | rfl | rfl
      · decide
      · decide
      · exact NoNl.append (by decide) h1

/-- **PlantUML document.** -/
theorem pumlRecognise_lines (all : List MCls) (hall : ∀ c ∈ all, PClsOk c) (lt : Option Str) (hlt : LinetypeOk lt)
    (items : List MItem) (hin : ∀ it ∈ items, ItemIn all it) (rules : List MCls) (hr : ∀ c ∈ rules, c ∈ all) :
    pumlRecognise (unlines (pumlHeader lt ++ items.flatMap pumlItem ++ pumlLegend rules ++ [cl!"@enduml"])) =
      some (items.flatMap declared) := by
  obtain ⟨h1, n1⟩ := usteps_header lt hlt
  obtain ⟨h2, n2⟩ := usteps_items all hall items hin []
  have h3 := usteps_legend rules ((items.flatMap declared).reverse ++ [])
  have n3 := legend_noNl rules (fun c hc => (hall c (hr c hc)).2.2.1)
  have hn : ∀ l ∈ pumlHeader lt ++ items.flatMap pumlItem ++ pumlLegend rules ++ [cl!"@enduml"], ∀ c ∈ l, c ≠ '\n' := by
    intro l hl
    rcases List.mem_append.mp hl with hl | hl
    · rcases List.mem_append.mp hl with hl | hl
      · rcases List.mem_append.mp hl with hl | hl
        · exact n1 l hl
        · exact n2 l hl
      · exact n3 l hl
    · simp only [List.mem_singleton] at hl; subst hl; decide
  unfold pumlRecognise
  rw [splitLines_unlines _ hn]
  rw [usteps_append, usteps_append, usteps_append, usteps_append, h1, Option.bind_some, h2, Option.bind_some, h3,
    Option.bind_some]
  simp [usteps, ustep]

end Dot
