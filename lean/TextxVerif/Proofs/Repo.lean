import TextxVerif.Repo
/-!
Helper lemmas for the model-repository machine (C17, C18): dictionary facts,
the safety invariant of one load (`Inv`, `Good`, `Mono`), preserved by
`loadModelWith` / `loadCalls` / `internal` for every parser satisfying
`ParseSafe`, hence for every nesting depth.
-/
namespace Repo

/-! ## dictionaries -/
namespace Dict

theorem has_iff (d : Dict) (f : File) : d.has f = true ↔ f ∈ d.keys := by
  induction d with
  | nil => simp [has, keys]
  | cons e r ih =>
    simp only [has, keys, List.any_cons, List.map_cons, List.mem_cons, Bool.or_eq_true, beq_iff_eq] at *
    constructor
    · rintro (h | h)
      · exact Or.inl h.symm
      · exact Or.inr (ih.1 h)
    · rintro (h | h)
      · exact Or.inl h.symm
      · exact Or.inr (ih.2 h)

theorem has_false_iff (d : Dict) (f : File) : d.has f = false ↔ f ∉ d.keys := by
  rw [← has_iff]; cases d.has f <;> simp

theorem mem_keys_of_mem {d : Dict} {e : File × Inst} (h : e ∈ d) : e.1 ∈ d.keys :=
  List.mem_map_of_mem (f := (·.1)) h

theorem mem_vals_of_mem {d : Dict} {e : File × Inst} (h : e ∈ d) : e.2 ∈ d.vals :=
  List.mem_map_of_mem (f := (·.2)) h

theorem set_of_not_mem (d : Dict) (f : File) (i : Inst) (h : f ∉ d.keys) : d.set f i = d ++ [(f, i)] := by
  induction d with
  | nil => rfl
  | cons e r ih =>
    obtain ⟨g, j⟩ := e
    simp only [keys, List.map_cons, List.mem_cons, not_or] at h
    have hr : f ∉ keys r := h.2
    have hne : ¬ g = f := fun hh => h.1 hh.symm
    simp [set, hne, ih hr]

theorem set_of_mem (d : Dict) (f : File) (i : Inst) (hn : d.keys.Nodup) (h : (f, i) ∈ d) : d.set f i = d := by
  induction d with
  | nil => cases h
  | cons e r ih =>
    obtain ⟨g, j⟩ := e
    simp only [keys, List.map_cons, List.nodup_cons] at hn
    by_cases hg : g = f
    · subst hg
      rcases List.mem_cons.1 h with h | h
      · cases h; simp [set]
      · exact absurd (mem_keys_of_mem h) hn.1
    · rcases List.mem_cons.1 h with h | h
      · cases h; exact absurd rfl hg
      · simp [set, hg, ih hn.2 h]

theorem get?_of_has (d : Dict) (f : File) (h : d.has f = true) : (f, (d.get? f).getD 0) ∈ d := by
  induction d with
  | nil => simp [has] at h
  | cons e r ih =>
    obtain ⟨g, j⟩ := e
    by_cases hg : g = f
    · subst hg; simp [get?]
    · have hr : has r f = true := by
        simp only [has, List.any_cons, Bool.or_eq_true, beq_iff_eq] at h
        rcases h with h | h
        · exact absurd h hg
        · exact h
      have := ih hr
      have hb : (g == f) = false := by simp [hg]
      simp only [get?, List.find?_cons, hb] at this ⊢
      exact List.mem_cons_of_mem _ this

theorem get?_of_mem (d : Dict) (f : File) (i : Inst) (hn : d.keys.Nodup) (h : (f, i) ∈ d) : d.get? f = some i := by
  induction d with
  | nil => cases h
  | cons e r ih =>
    obtain ⟨g, j⟩ := e
    simp only [keys, List.map_cons, List.nodup_cons] at hn
    rcases List.mem_cons.1 h with h | h
    · cases h; simp [get?]
    · have hne : ¬ g = f := fun hh => hn.1 (hh ▸ mem_keys_of_mem h)
      have := ih hn.2 h
      have hb : (g == f) = false := by simp [hne]
      simp only [get?, List.find?_cons, hb] at this ⊢
      exact this

theorem mem_removeVals (d : Dict) (p : Inst → Bool) (e : File × Inst) :
    e ∈ d.removeVals p ↔ e ∈ d ∧ p e.2 = false := by
  simp [removeVals, List.mem_filter]

theorem removeVals_eq_self (d : Dict) (p : Inst → Bool) (h : ∀ e ∈ d, p e.2 = false) : d.removeVals p = d := by
  simp only [removeVals]
  exact List.filter_eq_self.2 (fun e he => by simp [h e he])

theorem removeVals_append (d d' : Dict) (p : Inst → Bool) :
    (d ++ d').removeVals p = d.removeVals p ++ d'.removeVals p := by
  simp [removeVals]

theorem removeVals_eq_nil (d : Dict) (p : Inst → Bool) (h : ∀ e ∈ d, p e.2 = true) : d.removeVals p = [] := by
  simp only [removeVals]
  exact List.filter_eq_nil_iff.2 (fun e he => by simp [h e he])

end Dict

/-! ## the invariant of one load -/

/-- facts about the state before the main load: `B` the shared dict, `n0` the next
instance number, `L0` the local dicts -/
structure BaseOK (B : Dict) (n0 : Nat) (L0 : Inst → Dict) : Prop where
  lt : ∀ e ∈ B, e.2 < n0
  loc : ∀ e ∈ B, ∀ x ∈ L0 e.2, x ∈ B

/-- holds in every state of a load, whatever its outcome -/
structure Inv (B : Dict) (n0 : Nat) (L0 : Inst → Dict) (st : St) : Prop where
  split : ∃ N, st.all = B ++ N ∧ ∀ e ∈ N, n0 ≤ e.2
  oldc : ∀ e ∈ B, st.constr e.2 = false
  newc : ∀ e ∈ st.all, n0 ≤ e.2 → st.constr e.2 = true
  frame : ∀ i, i < n0 → st.loc i = L0 i
  le : n0 ≤ st.next

/-- holds as long as nothing failed -/
structure Good (n0 : Nat) (st : St) : Prop where
  nodup : st.all.keys.Nodup
  lt : ∀ e ∈ st.all, e.2 < st.next
  file : ∀ e ∈ st.all, st.fileOf e.2 = e.1
  locIn : ∀ i, n0 ≤ i → i < st.next → ∀ x ∈ st.loc i, x ∈ st.all

/-- what a successful piece of a load leaves untouched; `x` is the one model
whose local dict may grow -/
structure MonoX (x : Inst) (st st' : St) : Prop where
  next : st.next ≤ st'.next
  all : ∀ e ∈ st.all, e ∈ st'.all
  fileOf : ∀ i, i < st.next → st'.fileOf i = st.fileOf i
  defsOf : ∀ i, i < st.next → st'.defsOf i = st.defsOf i
  constr : ∀ i, i < st.next → st'.constr i = st.constr i
  loc : ∀ i, i < st.next → i ≠ x → st'.loc i = st.loc i
  tgt : st'.tgt = st.tgt

theorem MonoX.refl (x : Inst) (st : St) : MonoX x st st :=
  ⟨Nat.le_refl _, fun _ h => h, fun _ _ => rfl, fun _ _ => rfl, fun _ _ => rfl, fun _ _ _ => rfl, rfl⟩

theorem MonoX.trans {x : Inst} {a b c : St} (h1 : MonoX x a b) (h2 : MonoX x b c) : MonoX x a c where
  next := Nat.le_trans h1.next h2.next
  all := fun e he => h2.all e (h1.all e he)
  fileOf := fun i hi => by rw [h2.fileOf i (Nat.lt_of_lt_of_le hi h1.next), h1.fileOf i hi]
  defsOf := fun i hi => by rw [h2.defsOf i (Nat.lt_of_lt_of_le hi h1.next), h1.defsOf i hi]
  constr := fun i hi => by rw [h2.constr i (Nat.lt_of_lt_of_le hi h1.next), h1.constr i hi]
  loc := fun i hi hx => by rw [h2.loc i (Nat.lt_of_lt_of_le hi h1.next) hx, h1.loc i hi hx]
  tgt := by rw [h2.tgt, h1.tgt]

/-- nothing below `st.next` changes at all -/
abbrev Mono (st st' : St) : Prop := MonoX st.next st st'

theorem Mono.toX {st st' : St} (h : Mono st st') (x : Inst) : MonoX x st st' where
  next := h.next
  all := h.all
  fileOf := h.fileOf
  defsOf := h.defsOf
  constr := h.constr
  loc := fun i hi _ => h.loc i hi (Nat.ne_of_lt hi)
  tgt := h.tgt


/-! ## single operations -/

section ops
variable {B : Dict} {n0 : Nat} {L0 : Inst → Dict}

theorem Inv.all_old_or_new {st : St} (hI : Inv B n0 L0 st) (hB : BaseOK B n0 L0) (e : File × Inst)
    (he : e ∈ st.all) : (e ∈ B ∧ e.2 < n0) ∨ n0 ≤ e.2 := by
  obtain ⟨N, hN, hge⟩ := hI.split
  rw [hN] at he
  rcases List.mem_append.1 he with h | h
  · exact Or.inl ⟨h, hB.lt e h⟩
  · exact Or.inr (hge e h)

theorem Inv.mem_B_of_lt {st : St} (hI : Inv B n0 L0 st) (e : File × Inst) (he : e ∈ st.all) (hlt : e.2 < n0) :
    e ∈ B := by
  obtain ⟨N, hN, hge⟩ := hI.split
  rw [hN] at he
  rcases List.mem_append.1 he with h | h
  · exact h
  · exact absurd (hge e h) (Nat.not_le.2 hlt)

theorem Inv.B_sub {st : St} (hI : Inv B n0 L0 st) (e : File × Inst) (he : e ∈ B) : e ∈ st.all := by
  obtain ⟨N, hN, _⟩ := hI.split
  rw [hN]; exact List.mem_append_left _ he

/-- `self.local_models[g] = j` for a model of this load -/
theorem setLoc_inv {st : St} (hI : Inv B n0 L0 st) (i : Inst) (g : File) (j : Inst) (hi : n0 ≤ i) :
    Inv B n0 L0 (st.setLoc i g j) where
  split := hI.split
  oldc := hI.oldc
  newc := hI.newc
  frame := fun k hk => by
    have : k ≠ i := by omega
    simp [St.setLoc, upd, this, hI.frame k hk]
  le := hI.le

theorem mem_set (d : Dict) (f : File) (i : Inst) (e : File × Inst) (h : e ∈ d.set f i) : e ∈ d ∨ e = (f, i) := by
  induction d with
  | nil => simp [Dict.set] at h; exact Or.inr h
  | cons x r ih =>
    obtain ⟨g, j⟩ := x
    by_cases hg : g = f
    · simp only [Dict.set, hg, if_true] at h
      rcases List.mem_cons.1 h with h | h
      · exact Or.inr (by rw [h])
      · exact Or.inl (List.mem_cons_of_mem _ h)
    · simp only [Dict.set, hg, if_false] at h
      rcases List.mem_cons.1 h with h | h
      · exact Or.inl (by rw [h]; exact List.mem_cons_self)
      · rcases ih h with h | h
        · exact Or.inl (List.mem_cons_of_mem _ h)
        · exact Or.inr h

theorem setLoc_good {st : St} (hG : Good n0 st) (i : Inst) (g : File) (j : Inst) (hm : (g, j) ∈ st.all) :
    Good n0 (st.setLoc i g j) where
  nodup := hG.nodup
  lt := hG.lt
  file := hG.file
  locIn := fun k hk hk' x hx => by
    by_cases hki : k = i
    · subst hki
      simp only [St.setLoc, upd, if_true] at hx
      rcases mem_set _ _ _ _ hx with h | h
      · exact hG.locIn k hk hk' x h
      · rw [h]; exact hm
    · simp only [St.setLoc, upd, hki, if_false] at hx
      exact hG.locIn k hk hk' x hx

theorem setLoc_monoX (st : St) (i : Inst) (g : File) (j : Inst) : MonoX i st (st.setLoc i g j) where
  next := Nat.le_refl _
  all := fun _ h => h
  fileOf := fun _ _ => rfl
  defsOf := fun _ _ => rfl
  constr := fun _ _ => rfl
  loc := fun k _ hk => by simp [St.setLoc, upd, hk]
  tgt := rfl

/-- storing a model of this load under a new key -/
theorem setAll_new_inv {st : St} (hI : Inv B n0 L0 st) (g : File) (j : Inst) (hg : g ∉ st.all.keys)
    (hj : n0 ≤ j) (hc : st.constr j = true) : Inv B n0 L0 (st.setAll g j) where
  split := by
    obtain ⟨N, hN, hge⟩ := hI.split
    refine ⟨N ++ [(g, j)], ?_, ?_⟩
    · show st.all.set g j = _
      rw [Dict.set_of_not_mem _ _ _ hg, hN, List.append_assoc]
    · intro e he
      rcases List.mem_append.1 he with h | h
      · exact hge e h
      · simp at h; rw [h]; exact hj
  oldc := hI.oldc
  newc := fun e he hge => by
    simp only [St.setAll, Dict.set_of_not_mem _ _ _ hg] at he
    rcases List.mem_append.1 he with h | h
    · exact hI.newc e h hge
    · simp at h; rw [h]; exact hc
  frame := hI.frame
  le := hI.le

theorem setAll_new_good {st : St} (hG : Good n0 st) (g : File) (j : Inst) (hg : g ∉ st.all.keys)
    (hj : j < st.next) (hf : st.fileOf j = g) : Good n0 (st.setAll g j) where
  nodup := by
    simp only [St.setAll, Dict.set_of_not_mem _ _ _ hg, Dict.keys, List.map_append, List.map_cons, List.map_nil]
    have := hG.nodup
    simp only [Dict.keys] at this hg
    exact List.nodup_append.2 ⟨this, by simp, by
      intro a ha b hb
      simp at hb; subst hb
      intro hab; subst hab; exact hg ha⟩
  lt := fun e he => by
    simp only [St.setAll, Dict.set_of_not_mem _ _ _ hg] at he
    rcases List.mem_append.1 he with h | h
    · exact hG.lt e h
    · simp at h; rw [h]; exact hj
  file := fun e he => by
    simp only [St.setAll, Dict.set_of_not_mem _ _ _ hg] at he
    rcases List.mem_append.1 he with h | h
    · exact hG.file e h
    · simp at h; rw [h]; exact hf
  locIn := fun k hk hk' x hx => by
    simp only [St.setAll, Dict.set_of_not_mem _ _ _ hg]
    exact List.mem_append_left _ (hG.locIn k hk hk' x hx)

theorem setAll_new_monoX (st : St) (x : Inst) (g : File) (j : Inst) (hg : g ∉ st.all.keys) :
    MonoX x st (st.setAll g j) where
  next := Nat.le_refl _
  all := fun e he => by
    simp only [St.setAll, Dict.set_of_not_mem _ _ _ hg]; exact List.mem_append_left _ he
  fileOf := fun _ _ => rfl
  defsOf := fun _ _ => rfl
  constr := fun _ _ => rfl
  loc := fun _ _ _ => rfl
  tgt := rfl

theorem setAll_mem_eq {st : St} (hn : st.all.keys.Nodup) (g : File) (j : Inst) (hm : (g, j) ∈ st.all) :
    st.setAll g j = st := by
  simp [St.setAll, Dict.set_of_mem _ _ _ hn hm]

/-- `update_model_in_repo_based_on_filename` for the model `i` being constructed -/
theorem registerSelf_inv {st : St} (hI : Inv B n0 L0 st) (i : Inst) (hi : n0 ≤ i) (hc : st.constr i = true) :
    Inv B n0 L0 (st.registerSelf i) := by
  unfold St.registerSelf
  split
  · exact hI
  · rename_i h
    exact setAll_new_inv hI _ _ ((Dict.has_false_iff _ _).1 (by simpa using h)) hi hc

theorem registerSelf_good {st : St} (hG : Good n0 st) (i : Inst) (hi : i < st.next) :
    Good n0 (st.registerSelf i) := by
  unfold St.registerSelf
  split
  · exact hG
  · rename_i h
    exact setAll_new_good hG _ _ ((Dict.has_false_iff _ _).1 (by simpa using h)) hi rfl

theorem registerSelf_monoX (st : St) (x i : Inst) : MonoX x st (st.registerSelf i) := by
  unfold St.registerSelf
  split
  · exact MonoX.refl _ _
  · rename_i h
    exact setAll_new_monoX st x _ _ ((Dict.has_false_iff _ _).1 (by simpa using h))

theorem registerSelf_next (st : St) (i : Inst) : (st.registerSelf i).next = st.next := by
  unfold St.registerSelf; split <;> rfl

theorem registerSelf_constr (st : St) (i : Inst) : (st.registerSelf i).constr = st.constr := by
  unfold St.registerSelf; split <;> rfl

theorem registerSelf_reads (st : St) (i : Inst) : (st.registerSelf i).reads = st.reads := by
  unfold St.registerSelf; split <;> rfl

/-- removing models of this load from the repositories -/
theorem removeFromRepos_inv {st : St} (hB : BaseOK B n0 L0) (hI : Inv B n0 L0 st) (models rm : List Inst)
    (hrm : ∀ m ∈ rm, n0 ≤ m) (hmod : ∀ m ∈ models, m < n0 → m ∈ B.vals) :
    Inv B n0 L0 (removeFromRepos st models rm) := by
  unfold removeFromRepos
  split
  · exact hI
  · have keepB : ∀ e ∈ B, (rm.contains e.2) = false := fun e he => by
      have h1 := hB.lt e he
      cases hc : rm.contains e.2
      · rfl
      · have h2 := hrm e.2 (by simpa using hc)
        exact absurd h2 (Nat.not_le.2 h1)
    exact
    { split := by
        obtain ⟨N, hN, hge⟩ := hI.split
        refine ⟨N.removeVals (rm.contains ·), ?_, ?_⟩
        · simp only [hN, Dict.removeVals_append, Dict.removeVals_eq_self B _ keepB]
        · intro e he
          exact hge e ((Dict.mem_removeVals _ _ _).1 he).1
      oldc := hI.oldc
      newc := fun e he hge => hI.newc e ((Dict.mem_removeVals _ _ _).1 he).1 hge
      frame := fun k hk => by
        simp only
        split
        · rename_i hmem
          have hkB : k ∈ B.vals := hmod k (by simpa using hmem) hk
          obtain ⟨e, heB, hek⟩ := List.mem_map.1 hkB
          rw [hI.frame k hk]
          apply Dict.removeVals_eq_self
          intro x hx
          have hxB : x ∈ B := hB.loc e heB x (by rw [hek]; exact hx)
          exact keepB x hxB
        · exact hI.frame k hk
      le := hI.le }

theorem included_lt_mem_B {st : St} (hI : Inv B n0 L0 st) (j : Inst) (hj : n0 ≤ j) :
    ∀ m ∈ included st j, m < n0 → m ∈ B.vals := by
  intro m hm hlt
  have hmv : m ∈ st.all.vals := by
    unfold included at hm
    split at hm
    · exact hm
    · rcases List.mem_append.1 hm with h | h
      · exact h
      · have hmj : m = j := by simpa using h
        rw [hmj] at hlt
        exact absurd hj (Nat.not_le.2 hlt)
  obtain ⟨e, he, hem⟩ := List.mem_map.1 hmv
  have := hI.mem_B_of_lt e he (by rw [hem]; exact hlt)
  exact List.mem_map.2 ⟨e, this, hem⟩

theorem constr_included_ge {st : St} (hI : Inv B n0 L0 st) (j : Inst) (hj : n0 ≤ j) :
    ∀ m ∈ (included st j).filter st.constr, n0 ≤ m := by
  intro m hm
  obtain ⟨hin, hc⟩ := List.mem_filter.1 hm
  rcases Nat.lt_or_ge m n0 with hlt | hge
  · have hmB := included_lt_mem_B hI j hj m hin hlt
    obtain ⟨e, heB, hem⟩ := List.mem_map.1 hmB
    have h1 := hI.oldc e heB
    rw [hem] at h1
    rw [h1] at hc; cases hc
  · exact hge

theorem cleanupA_inv {st : St} (hB : BaseOK B n0 L0) (hI : Inv B n0 L0 st) (j : Inst) (hj : n0 ≤ j) :
    Inv B n0 L0 (cleanupA st j) :=
  removeFromRepos_inv hB hI _ _ (constr_included_ge hI j hj) (included_lt_mem_B hI j hj)

theorem cleanupA_next (st : St) (j : Inst) : (cleanupA st j).next = st.next := by
  unfold cleanupA removeFromRepos; simp only; split <;> rfl

theorem cleanupA_reads (st : St) (j : Inst) : (cleanupA st j).reads = st.reads := by
  unfold cleanupA removeFromRepos; simp only; split <;> rfl

end ops


/-! ## safety of the load functions -/

theorem Dict.mem_keys_set (d : Dict) (f : File) (i : Inst) : f ∈ (d.set f i).keys := by
  induction d with
  | nil => simp [Dict.set, Dict.keys]
  | cons x r ih =>
    obtain ⟨g, j⟩ := x
    by_cases hg : g = f
    · simp [Dict.set, hg, Dict.keys]
    · simp only [Dict.set, hg, if_false, Dict.keys, List.map_cons, List.mem_cons]
      exact Or.inr ih

section safe
variable {B : Dict} {n0 : Nat} {L0 : Inst → Dict}

/-- what the load functions need from the parser of imported files -/
def ParseSafe (B : Dict) (n0 : Nat) (L0 : Inst → Dict) (parse : Parse) : Prop :=
  ∀ st g st1 r j, Inv B n0 L0 st → Good n0 st → g ∉ st.all.keys → parse st g = (st1, r, j) →
    Inv B n0 L0 st1 ∧ (r = .ok → Good n0 st1 ∧ Mono st st1 ∧ (g, j) ∈ st1.all ∧ st.next ≤ j)

theorem loadModelWith_safe {parse : Parse} (hp : ParseSafe B n0 L0 parse)
    {st st1 : St} {i : Inst} {g : File} {r : Res}
    (hI : Inv B n0 L0 st) (hG : Good n0 st) (hi0 : n0 ≤ i) (hi : i < st.next)
    (h : loadModelWith parse st i g = (st1, r)) :
    Inv B n0 L0 st1 ∧
      (r = .ok → Good n0 st1 ∧ MonoX i st st1 ∧ g ∈ st1.all.keys) := by
  unfold loadModelWith at h
  split at h
  · -- already a local model
    rename_i hloc
    cases h
    refine ⟨hI, fun _ => ⟨hG, MonoX.refl _ _, ?_⟩⟩
    obtain ⟨e, he, hek⟩ := List.mem_map.1 ((Dict.has_iff _ _).1 hloc)
    have := hG.locIn i hi0 hi e he
    rw [← hek]; exact Dict.mem_keys_of_mem this
  · split at h
    · -- cached in all_models
      rename_i hall
      cases h
      have hm := Dict.get?_of_has _ _ hall
      exact ⟨setLoc_inv hI _ _ _ hi0, fun _ => ⟨setLoc_good hG _ _ _ hm, setLoc_monoX _ _ _ _,
        (Dict.has_iff _ _).1 hall⟩⟩
    · rename_i hnl hna
      have hg : g ∉ st.all.keys := (Dict.has_false_iff _ _).1 (by simpa using hna)
      cases hpe : parse st g with
      | mk st' rj =>
        obtain ⟨r', j⟩ := rj
        obtain ⟨hI', hok⟩ := hp st g st' r' j hI hG hg hpe
        rw [hpe] at h
        cases r' with
        | ok =>
          simp only at h
          cases h
          obtain ⟨hG', hM, hm, hj⟩ := hok rfl
          have heq : st'.setAll g j = st' := setAll_mem_eq hG'.nodup g j hm
          rw [heq]
          exact ⟨setLoc_inv hI' _ _ _ hi0, fun _ => ⟨setLoc_good hG' _ _ _ hm,
            (hM.toX i).trans (setLoc_monoX _ _ _ _), Dict.mem_keys_of_mem hm⟩⟩
        | fail k => simp only at h; cases h; exact ⟨hI', fun h => by cases h⟩
        | fuel => simp only at h; cases h; exact ⟨hI', fun h => by cases h⟩

theorem loadCalls_safe {parse : Parse} (hp : ParseSafe B n0 L0 parse) (i : Inst)
    (hi0 : n0 ≤ i) :
    ∀ (cs : List (Option File)) (st st1 : St) (r : Res), Inv B n0 L0 st → Good n0 st → i < st.next →
      st.constr i = true → loadCalls parse i st cs = (st1, r) →
      Inv B n0 L0 st1 ∧
        (r = .ok → Good n0 st1 ∧ MonoX i st st1 ∧ (∀ g, some g ∈ cs → g ∈ st1.all.keys)) := by
  intro cs
  induction cs with
  | nil =>
    intro st st1 r hI hG _ _ h
    simp only [loadCalls] at h
    cases h
    exact ⟨hI, fun _ => ⟨hG, MonoX.refl _ _, by simp⟩⟩
  | cons c cs ih =>
    intro st st1 r hI hG hi hc h
    simp only [loadCalls] at h
    have hI1 := registerSelf_inv hI i hi0 hc
    have hG1 := registerSelf_good (n0 := n0) hG i hi
    have hM1 := registerSelf_monoX st i i
    cases c with
    | none => simp only at h; cases h; exact ⟨hI1, fun h => by cases h⟩
    | some g =>
      simp only at h
      cases hl : loadModelWith parse (st.registerSelf i) i g with
      | mk st2 r2 =>
        rw [hl] at h
        have hi1 : i < (st.registerSelf i).next := by rw [registerSelf_next]; exact hi
        obtain ⟨hI2, hok2⟩ := loadModelWith_safe hp hI1 hG1 hi0 hi1 hl
        cases r2 with
        | ok =>
          simp only at h
          obtain ⟨hG2, hM2, hall2⟩ := hok2 rfl
          have hi2 : i < st2.next := Nat.lt_of_lt_of_le hi1 hM2.next
          have hc2 : st2.constr i = true := by
            rw [hM2.constr i hi1, registerSelf_constr]; exact hc
          obtain ⟨hI3, hok3⟩ := ih st2 st1 r hI2 hG2 hi2 hc2 h
          refine ⟨hI3, fun hr => ?_⟩
          obtain ⟨hG3, hM3, hall3⟩ := hok3 hr
          refine ⟨hG3, (hM1.trans hM2).trans hM3, ?_⟩
          intro g' hg'
          rcases List.mem_cons.1 hg' with h' | h'
          · cases h'
            obtain ⟨e, he, hek⟩ := List.mem_map.1 hall2
            rw [← hek]; exact Dict.mem_keys_of_mem (hM3.all e he)
          · exact hall3 g' h'
        | fail k => simp only at h; cases h; exact ⟨hI2, fun h => by cases h⟩
        | fuel => simp only at h; cases h; exact ⟨hI2, fun h => by cases h⟩


theorem reads_inv {st : St} (hI : Inv B n0 L0 st) (rs : List File) : Inv B n0 L0 { st with reads := rs } :=
  ⟨hI.split, hI.oldc, hI.newc, hI.frame, hI.le⟩

theorem reads_good {st : St} (hG : Good n0 st) (rs : List File) : Good n0 { st with reads := rs } :=
  ⟨hG.nodup, hG.lt, hG.file, hG.locIn⟩

theorem alloc_inv (hB : BaseOK B n0 L0) {st : St} (hI : Inv B n0 L0 st) (S : Spec) (g : File) :
    Inv B n0 L0 (st.alloc S g) where
  split := hI.split
  oldc := fun e he => by
    have h1 := hB.lt e he
    have h2 := hI.le
    have hne : e.2 ≠ st.next := Nat.ne_of_lt (Nat.lt_of_lt_of_le h1 h2)
    simp only [St.alloc, upd, hne, if_false]
    exact hI.oldc e he
  newc := fun e he hge => by
    simp only [St.alloc, upd]
    split
    · rfl
    · exact hI.newc e he hge
  frame := fun k hk => by
    have hne : k ≠ st.next := Nat.ne_of_lt (Nat.lt_of_lt_of_le hk hI.le)
    simp only [St.alloc, upd, hne, if_false]
    exact hI.frame k hk
  le := Nat.le_succ_of_le hI.le

theorem alloc_good {st : St} (hG : Good n0 st) (S : Spec) (g : File) : Good n0 (st.alloc S g) where
  nodup := hG.nodup
  lt := fun e he => Nat.lt_succ_of_lt (hG.lt e he)
  file := fun e he => by
    have hne : e.2 ≠ st.next := Nat.ne_of_lt (hG.lt e he)
    simp only [St.alloc, upd, hne, if_false]
    exact hG.file e he
  locIn := fun k hk hk' x hx => by
    simp only [St.alloc, upd] at hx
    split at hx
    · cases hx
    · rename_i hne
      have hk'' : k < st.next := by
        have : k < st.next + 1 := hk'
        omega
      exact hG.locIn k hk hk'' x hx

theorem alloc_mono (st : St) (S : Spec) (g : File) : Mono st (st.alloc S g) where
  next := Nat.le_succ _
  all := fun _ h => h
  fileOf := fun i hi => by simp [St.alloc, upd, Nat.ne_of_lt hi]
  defsOf := fun i hi => by simp [St.alloc, upd, Nat.ne_of_lt hi]
  constr := fun i hi => by simp [St.alloc, upd, Nat.ne_of_lt hi]
  loc := fun i hi _ => by simp [St.alloc, upd, Nat.ne_of_lt hi]
  tgt := rfl

theorem reads_mono (st : St) (rs : List File) : Mono st { st with reads := rs } :=
  MonoX.refl _ _ |> fun h => ⟨h.next, h.all, h.fileOf, h.defsOf, h.constr, h.loc, h.tgt⟩

/-- the state in which the imports of a freshly parsed model are followed -/
def afterCallback (S : Spec) (st : St) (g : File) : St :=
  (({ st with reads := g :: st.reads } : St).alloc S g).setAll g st.next

theorem afterCallback_facts (hB : BaseOK B n0 L0) (S : Spec) {st : St} {g : File}
    (hI : Inv B n0 L0 st) (hG : Good n0 st) (hg : g ∉ st.all.keys) :
    Inv B n0 L0 (afterCallback S st g) ∧ Good n0 (afterCallback S st g) ∧
      Mono st (afterCallback S st g) ∧ (g, st.next) ∈ (afterCallback S st g).all ∧
      st.next < (afterCallback S st g).next ∧ (afterCallback S st g).constr st.next = true ∧
      (afterCallback S st g).next = st.next + 1 := by
  have hI1 := alloc_inv hB (reads_inv hI (g :: st.reads)) S g
  have hG1 := alloc_good (reads_good hG (g :: st.reads)) S g
  have hM1 : Mono st (({ st with reads := g :: st.reads } : St).alloc S g) :=
    MonoX.trans (reads_mono st (g :: st.reads))
      (alloc_mono ({ st with reads := g :: st.reads } : St) S g : MonoX st.next _ _)
  have hc : (({ st with reads := g :: st.reads } : St).alloc S g).constr st.next = true := by
    simp [St.alloc, upd]
  have hf : (({ st with reads := g :: st.reads } : St).alloc S g).fileOf st.next = g := by
    simp [St.alloc, upd]
  have hg' : g ∉ (({ st with reads := g :: st.reads } : St).alloc S g).all.keys := hg
  refine ⟨setAll_new_inv hI1 g st.next hg' hI.le hc, ?_, ?_, ?_, ?_, ?_, ?_⟩
  · exact setAll_new_good hG1 g st.next hg' (Nat.lt_succ_self _) hf
  · exact MonoX.trans hM1 (setAll_new_monoX _ _ g st.next hg')
  · show (g, st.next) ∈ Dict.set _ g st.next
    rw [Dict.set_of_not_mem _ _ _ hg']; simp
  · exact Nat.lt_succ_self _
  · exact hc
  · rfl

theorem internal_unfold (S : Spec) (fuel : Nat) (st : St) (g : File) :
    internal S (fuel + 1) st g =
      if S.syntaxErr g then ({ st with reads := g :: st.reads }, .fail .syntax, 0) else
      match loadCalls (internal S fuel) st.next (afterCallback S st g) (S.calls g) with
      | (st1, .ok) => if S.modFault g then (st1, .fail .modproc, 0) else (st1, .ok, st.next)
      | (st1, .fuel) => (st1, .fuel, 0)
      | (st1, r) => (cleanupA st1 st.next, r, 0) := by
  rfl

theorem internal_safe (hB : BaseOK B n0 L0) (S : Spec) : ∀ fuel, ParseSafe B n0 L0 (internal S fuel)
  | 0 => by
    intro st g st1 r j hI _ _ h
    simp only [internal] at h
    cases h
    exact ⟨hI, fun h => by cases h⟩
  | fuel + 1 => by
    intro st g st1 r j hI hG hg h
    have ih := internal_safe hB S fuel
    rw [internal_unfold] at h
    split at h
    · cases h
      exact ⟨reads_inv hI _, fun h => by cases h⟩
    · obtain ⟨hIa, hGa, hMa, hma, hlt, hca, _⟩ := afterCallback_facts hB S hI hG hg
      cases hl : loadCalls (internal S fuel) st.next (afterCallback S st g) (S.calls g) with
      | mk st2 r2 =>
        rw [hl] at h
        obtain ⟨hI2, hok2⟩ := loadCalls_safe ih st.next hI.le (S.calls g) _ st2 r2 hIa hGa hlt hca hl
        cases r2 with
        | ok =>
          simp only at h
          obtain ⟨hG2, hM2, _⟩ := hok2 rfl
          split at h
          · cases h; exact ⟨hI2, fun h => by cases h⟩
          · cases h
            exact ⟨hI2, fun _ => ⟨hG2, MonoX.trans hMa hM2, hM2.all _ hma, Nat.le_refl _⟩⟩
        | fuel => simp only at h; cases h; exact ⟨hI2, fun h => by cases h⟩
        | fail k =>
          simp only at h; cases h
          exact ⟨cleanupA_inv hB hI2 _ hI.le, fun h => by cases h⟩

end safe


/-! ## what no load ever touches: attributes of existing instances -/

structure Stable (st st' : St) : Prop where
  next : st.next ≤ st'.next
  fileOf : ∀ i, i < st.next → st'.fileOf i = st.fileOf i
  defsOf : ∀ i, i < st.next → st'.defsOf i = st.defsOf i

theorem Stable.refl (st : St) : Stable st st := ⟨Nat.le_refl _, fun _ _ => rfl, fun _ _ => rfl⟩

theorem Stable.trans {a b c : St} (h1 : Stable a b) (h2 : Stable b c) : Stable a c where
  next := Nat.le_trans h1.next h2.next
  fileOf := fun i hi => by rw [h2.fileOf i (Nat.lt_of_lt_of_le hi h1.next), h1.fileOf i hi]
  defsOf := fun i hi => by rw [h2.defsOf i (Nat.lt_of_lt_of_le hi h1.next), h1.defsOf i hi]

theorem Stable.of_eq {st st' : St} (h1 : st'.next = st.next) (h2 : st'.fileOf = st.fileOf)
    (h3 : st'.defsOf = st.defsOf) : Stable st st' :=
  ⟨by rw [h1]; exact Nat.le_refl _, fun _ _ => by rw [h2], fun _ _ => by rw [h3]⟩

theorem setLoc_stable (st : St) (i g j) : Stable st (st.setLoc i g j) := Stable.of_eq rfl rfl rfl
theorem setAll_stable (st : St) (g j) : Stable st (st.setAll g j) := Stable.of_eq rfl rfl rfl
theorem registerSelf_stable (st : St) (i) : Stable st (st.registerSelf i) := by
  unfold St.registerSelf; split
  · exact Stable.refl _
  · exact setAll_stable _ _ _
theorem removeFromRepos_stable (st : St) (ms rm) : Stable st (removeFromRepos st ms rm) := by
  unfold removeFromRepos; split
  · exact Stable.refl _
  · exact Stable.of_eq rfl rfl rfl
theorem cleanupA_stable (st : St) (j) : Stable st (cleanupA st j) := removeFromRepos_stable _ _ _
theorem alloc_stable (st : St) (S g) : Stable st (st.alloc S g) :=
  ⟨Nat.le_succ _, fun i hi => by simp [St.alloc, upd, Nat.ne_of_lt hi],
   fun i hi => by simp [St.alloc, upd, Nat.ne_of_lt hi]⟩

def ParseStable (parse : Parse) : Prop := ∀ st g, Stable st (parse st g).1

theorem loadModelWith_stable {parse : Parse} (hp : ParseStable parse) (st : St) (i : Inst) (g : File) :
    Stable st (loadModelWith parse st i g).1 := by
  unfold loadModelWith
  split
  · exact Stable.refl _
  · split
    · exact setLoc_stable _ _ _ _
    · have := hp st g
      cases hpe : parse st g with
      | mk st' rj =>
        obtain ⟨r', j⟩ := rj
        rw [hpe] at this
        cases r' with
        | ok => exact (this.trans (setAll_stable _ _ _)).trans (setLoc_stable _ _ _ _)
        | fail k => exact this
        | fuel => exact this

theorem loadCalls_stable {parse : Parse} (hp : ParseStable parse) (i : Inst) :
    ∀ (cs : List (Option File)) (st : St), Stable st (loadCalls parse i st cs).1 := by
  intro cs
  induction cs with
  | nil => intro st; exact Stable.refl _
  | cons c cs ih =>
    intro st
    simp only [loadCalls]
    cases c with
    | none => exact registerSelf_stable _ _
    | some g =>
      simp only
      have h1 := loadModelWith_stable hp (st.registerSelf i) i g
      cases hl : loadModelWith parse (st.registerSelf i) i g with
      | mk st2 r2 =>
        rw [hl] at h1
        cases r2 with
        | ok => exact ((registerSelf_stable _ _).trans h1).trans (ih st2)
        | fail k => exact (registerSelf_stable _ _).trans h1
        | fuel => exact (registerSelf_stable _ _).trans h1

theorem afterCallback_stable (S : Spec) (st : St) (g : File) : Stable st (afterCallback S st g) :=
  (Stable.trans (Stable.of_eq rfl rfl rfl : Stable st ({ st with reads := g :: st.reads } : St))
    (alloc_stable _ S g)).trans (setAll_stable _ _ _)

theorem internal_stable (S : Spec) : ∀ fuel, ParseStable (internal S fuel)
  | 0 => fun st _ => by simp only [internal]; exact Stable.refl _
  | fuel + 1 => by
    intro st g
    rw [internal_unfold]
    split
    · exact Stable.of_eq rfl rfl rfl
    · have h1 := loadCalls_stable (internal_stable S fuel) st.next (S.calls g) (afterCallback S st g)
      have h0 := afterCallback_stable S st g
      cases hl : loadCalls (internal S fuel) st.next (afterCallback S st g) (S.calls g) with
      | mk st2 r2 =>
        rw [hl] at h1
        cases r2 with
        | ok => simp only; split <;> exact h0.trans h1
        | fuel => exact h0.trans h1
        | fail k => exact (h0.trans h1).trans (cleanupA_stable _ _)

end Repo
