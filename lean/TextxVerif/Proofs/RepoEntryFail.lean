import TextxVerif.Proofs.RepoEntry
/-!
Failure paths of the other entry points of a load (C18): a main model without file name
(`loadStr`) and the explicit pre-load (`preload`), reduced to the lemmas about the main load
(`loadMain_fail`, `finishMain_fail`, `loadMain_nofault`).
-/
namespace Repo

/-- what a failed load through any entry point leaves behind, from the facts `loadMain_fail` /
`loadStr_fail` provide: with a global repository the dict is the one before, and the state is
well formed again -/
theorem clean_of_fail {S : Spec} {st0 st' : St} (hwf : WF st0) (hg : S.glob = true)
    (hI : InvW (base S st0).all (base S st0).next (base S st0).loc st')
    (hall : S.glob = true → st'.all = (base S st0).all) (hS : Stable (base S st0) st') :
    st'.all = st0.all ∧ WF st' := by
  have hb : base S st0 = st0 := by simp [base, hg]
  rw [hb] at hI hall hS
  have hall' := hall hg
  refine ⟨hall', ?_⟩
  exact
  { nodup := by rw [hall']; exact hwf.nodup
    lt := fun e he => by rw [hall'] at he; exact Nat.lt_of_lt_of_le (hwf.lt e he) hS.next
    file := fun e he => by
      rw [hall'] at he
      rw [hS.fileOf _ (hwf.lt e he)]; exact hwf.file e he
    locIn := fun e he x hx => by
      rw [hall'] at he ⊢
      rw [hI.frame _ (hwf.lt e he)] at hx
      exact hwf.locIn e he x hx
    noConstr := fun e he => by rw [hall'] at he; exact hI.oldc e he }

/-- models that existed before a failed load are untouched -/
theorem survivors_of_fail {S : Spec} {st0 st' : St}
    (hI : InvW (base S st0).all (base S st0).next (base S st0).loc st') (hS : Stable (base S st0) st') :
    ∀ i, i < st0.next → st'.loc i = st0.loc i ∧ st'.fileOf i = st0.fileOf i ∧ st'.defsOf i = st0.defsOf i := by
  intro i hi
  have hi' : i < (base S st0).next := by rw [base_next]; exact hi
  refine ⟨?_, ?_, ?_⟩
  · rw [hI.frame i hi', base_loc]
  · rw [hS.fileOf i hi']; unfold base; split <;> rfl
  · rw [hS.defsOf i hi']; unfold base; split <;> rfl

/-- a failing load of a model without file name: the same facts as `loadMain_fail` -/
theorem loadStr_fail (S : Spec) (fuel : Nat) (st0 : St) (a : File) {st' : St} {k : Kind} {j : Inst}
    (hwf : WF (base S st0)) (ha : a ∉ (base S st0).all.keys) (h : loadStr S fuel st0 a = (st', .fail k, j)) :
    InvW (base S st0).all (base S st0).next (base S st0).loc st' ∧
      (S.glob = true → st'.all = (base S st0).all) ∧ Stable (base S st0) st' := by
  cases hc : S.calls a with
  | cons c cs =>
    rw [loadStr_eq_loadMain S fuel st0 a ha (Or.inr (by rw [hc]; exact List.cons_ne_nil _ _))] at h
    exact loadMain_fail S fuel st0 a hwf h
  | nil =>
    -- nothing registers the model: only the `is_main_model` part can fail
    rw [loadStr_nocalls S fuel st0 a hc] at h
    split at h
    · cases h
      exact ⟨(reads_inv hwf.inv _).toW, fun _ => rfl, Stable.of_eq rfl rfl rfl⟩
    · obtain ⟨hI, _, hS, _, hca, _⟩ := strStart_facts S hwf a
      obtain ⟨h1, h2, h3⟩ := finishMain_fail S hwf a hI hca h
      exact ⟨h1, h2, hS.trans h3⟩

/-- with every fault repaired the `is_main_model` part can only fail at an unresolvable reference -/
theorem finishMain_nofault (S : Spec) (hS : NoFault S) (b : St) (f : File) (st1 : St) :
    (finishMain S b f st1).2.1 = .ok ∨ (finishMain S b f st1).2.1 = .fail .semantic := by
  unfold finishMain
  simp only [hS.mod f, Bool.false_eq_true, if_false]
  split
  · exact Or.inr rfl
  · have : (List.any (modelsOf st1 b.next) fun m =>
        S.objFault (((st1.setTargets S (modelsOf st1 b.next)).endConstruction
          (modelsOf st1 b.next)).fileOf m)) = false := by
      apply List.any_eq_false.2
      intro m _
      simp [hS.obj]
    unfold modelsOf at this
    simp only [this, Bool.false_eq_true, if_false]
    simp

/-- with every fault repaired a model without file name can only fail at an unresolvable reference -/
theorem loadStr_nofault (S : Spec) (hS : NoFault S) (fuel : Nat) (st0 : St) (a : File) :
    (loadStr S fuel st0 a).2.1 = .ok ∨ (loadStr S fuel st0 a).2.1 = .fail .semantic ∨
      (loadStr S fuel st0 a).2.1 = .fuel := by
  rw [loadStr_unfold]
  simp only [hS.syn a, Bool.false_eq_true, if_false]
  have h1 := loadCalls_nofail (internal_nofail S hS fuel) (base S st0).next (S.calls a) (strStart S (base S st0) a)
  cases hl : loadCalls (internal S fuel) (base S st0).next (strStart S (base S st0) a) (S.calls a) with
  | mk st1 r1 =>
    rw [hl] at h1
    cases r1 with
    | fuel => exact Or.inr (Or.inr rfl)
    | fail k' => exact absurd rfl (h1 k' (hS.calls a))
    | ok =>
      simp only
      rcases finishMain_nofault S hS (base S st0) a st1 with h | h
      · exact Or.inl h
      · exact Or.inr (Or.inl h)

/-! ## one statement for the entry points that load one main model -/

/-- how the load of one main model enters textX: `file f` is `model_from_file(f)` or
`model_from_str(text, file_name=f)` (the same code, see RepoEntry.lean), `str a` is
`model_from_str(text)` for a model without file name that gets the invented name `a` -/
inductive Entry
  | file (f : File)
  | str (a : File)
deriving DecidableEq, Repr

def Entry.run (S : Spec) (fuel : Nat) (st : St) : Entry → St × Res × Inst
  | .file f => loadMain S fuel st f
  | .str a => loadStr S fuel st a

/-- the invented name of a model without file name is not a key of the dict the load starts from
(true for the name textX invents: `anonKey_fresh`) -/
def Entry.Admissible (S : Spec) (st : St) : Entry → Prop
  | .file _ => True
  | .str a => a ∉ (base S st).all.keys

theorem Entry.run_fail (S : Spec) (fuel : Nat) (st0 : St) (e : Entry) {st' : St} {k : Kind} {j : Inst}
    (hwf : WF (base S st0)) (he : e.Admissible S st0) (h : e.run S fuel st0 = (st', .fail k, j)) :
    InvW (base S st0).all (base S st0).next (base S st0).loc st' ∧
      (S.glob = true → st'.all = (base S st0).all) ∧ Stable (base S st0) st' := by
  cases e with
  | file f => exact loadMain_fail S fuel st0 f hwf h
  | str a => exact loadStr_fail S fuel st0 a hwf he h

theorem Entry.run_ok (S : Spec) (fuel : Nat) (st0 : St) (e : Entry) {st' : St} {j : Inst}
    (hwf : WF (base S st0)) (he : e.Admissible S st0) (h : e.run S fuel st0 = (st', .ok, j)) :
    ∃ f, LoadOK S (base S st0) f st' j := by
  cases e with
  | file f => exact ⟨f, (loadMain_ok S fuel st0 f hwf h).toLoad⟩
  | str a => exact ⟨a, loadStr_ok S fuel st0 a hwf he h⟩

theorem Entry.run_nofault (S : Spec) (hS : NoFault S) (fuel : Nat) (st0 : St) (e : Entry) :
    (e.run S fuel st0).2.1 = .ok ∨ (e.run S fuel st0).2.1 = .fail .semantic ∨ (e.run S fuel st0).2.1 = .fuel := by
  cases e with
  | file f => exact loadMain_nofault S hS fuel st0 f
  | str a => exact loadStr_nofault S hS fuel st0 a

/-! ## the explicit pre-load -/

theorem preload_nil (S : Spec) (fuel : Nat) (st : St) : preload S fuel st [] = (st, .ok) := rfl

theorem preload_cons_cached (S : Spec) (fuel : Nat) (st : St) (g : File) (cs : List (Option File))
    (h : st.all.has g = true) : preload S fuel st (some g :: cs) = preload S fuel st cs := by
  simp [preload, h]

theorem preload_cons_ok (S : Spec) (fuel : Nat) (st st1 : St) (g : File) (j : Inst) (cs : List (Option File))
    (h : st.all.has g = false) (hl : loadMain S fuel st g = (st1, .ok, j)) :
    preload S fuel st (some g :: cs) = preload S fuel st1 cs := by
  simp [preload, h, hl]

/-- A failing pre-load is a successful pre-load of the calls before the failing one (each a main
load of its own) followed by one failing main load — or a pattern without file —, and that failing
main load leaves the dict as it found it: the dict afterwards is the one the completed main loads
left (`st1.all`), which extends the dict before the pre-load. -/
theorem preload_fail (S : Spec) (hg : S.glob = true) (fuel : Nat) :
    ∀ (calls : List (Option File)) (st0 st' : St) (k : Kind), WF st0 → preload S fuel st0 calls = (st', .fail k) →
      WF st' ∧ (∃ N, st'.all = st0.all ++ N) ∧
      ∃ cs1 c cs2 st1, calls = cs1 ++ c :: cs2 ∧ preload S fuel st0 cs1 = (st1, .ok) ∧ st'.all = st1.all ∧
        ((c = none ∧ st' = st1) ∨ ∃ g j, c = some g ∧ loadMain S fuel st1 g = (st', .fail k, j)) := by
  intro calls
  induction calls with
  | nil => intro st0 st' k _ h; simp only [preload] at h; cases h
  | cons c cs ih =>
    intro st0 st' k hwf h
    cases c with
    | none =>
      simp only [preload] at h
      cases h
      exact ⟨hwf, ⟨[], by simp⟩, [], none, cs, st0, rfl, rfl, rfl, Or.inl ⟨rfl, rfl⟩⟩
    | some g =>
      cases hhas : st0.all.has g with
      | true =>
        rw [preload_cons_cached S fuel st0 g cs hhas] at h
        obtain ⟨h1, h2, cs1, c, cs2, st1, e1, e2, e3, e4⟩ := ih st0 st' k hwf h
        refine ⟨h1, h2, some g :: cs1, c, cs2, st1, by rw [e1]; rfl, ?_, e3, e4⟩
        rw [preload_cons_cached S fuel st0 g cs1 hhas]; exact e2
      | false =>
        cases hl : loadMain S fuel st0 g with
        | mk st1 rj =>
          obtain ⟨r1, j1⟩ := rj
          cases r1 with
          | fuel => simp [preload, hhas, hl] at h
          | fail k' =>
            have hk : (st1, Res.fail k') = (st', Res.fail k) := by simpa [preload, hhas, hl] using h
            cases hk
            obtain ⟨hI, hall, hS⟩ := loadMain_fail S fuel st0 g (hwf.base S) hl
            obtain ⟨ha, hw⟩ := clean_of_fail hwf hg hI hall hS
            exact ⟨hw, ⟨[], by simp [ha]⟩, [], some g, cs, st0, rfl, rfl, ha, Or.inr ⟨g, j1, rfl, hl⟩⟩
          | ok =>
            rw [preload_cons_ok S fuel st0 st1 g j1 cs hhas hl] at h
            have hok := loadMain_ok S fuel st0 g (hwf.base S) hl
            obtain ⟨N0, hN0, _⟩ := hok.invW.split
            rw [base_of_glob S st0 hg] at hN0
            obtain ⟨h1, ⟨N, hN⟩, cs1, c, cs2, st2, e1, e2, e3, e4⟩ := ih st1 st' k hok.wf h
            refine ⟨h1, ⟨N0 ++ N, by rw [hN, hN0, List.append_assoc]⟩, some g :: cs1, c, cs2, st2,
              by rw [e1]; rfl, ?_, e3, e4⟩
            rw [preload_cons_ok S fuel st0 st1 g j1 cs1 hhas hl]; exact e2

end Repo
