import TextxVerif.Peg.Rec
/-! Fuel monotonicity of the recogniser: a result other than `.fuel` is stable under more fuel. -/
namespace Rec
open Peg (Node Kind)

theorem seqLoop_mono {f f' : Nat → Nat → Res}
    (h : ∀ e p, f e p ≠ .fuel → f' e p = f e p) :
    ∀ es p acc, seqLoop f es p acc ≠ .fuel → seqLoop f' es p acc = seqLoop f es p acc := by
  intro es
  induction es with
  | nil => intro p acc _; simp [seqLoop]
  | cons e es ih =>
    intro p acc hne
    simp only [seqLoop] at hne ⊢
    cases hf : f e p with
    | ok v q =>
      rw [hf] at hne
      rw [h e p (by rw [hf]; simp), hf]
      exact ih q _ hne
    | fail => rw [h e p (by rw [hf]; simp), hf]
    | bad => rw [h e p (by rw [hf]; simp), hf]
    | fuel => rw [hf] at hne; exact absurd rfl hne

theorem choiceLoop_mono {f f' : Nat → Nat → Res}
    (h : ∀ e p, f e p ≠ .fuel → f' e p = f e p) :
    ∀ es cpos p, choiceLoop f es cpos p ≠ .fuel → choiceLoop f' es cpos p = choiceLoop f es cpos p := by
  intro es
  induction es with
  | nil => intro cpos p _; simp [choiceLoop]
  | cons e es ih =>
    intro cpos p hne
    simp only [choiceLoop] at hne ⊢
    cases hf : f e p with
    | ok v q =>
      rw [hf] at hne
      rw [h e p (by rw [hf]; simp), hf]
      by_cases hv : v = .N
      · simp only [hv, if_true] at hne ⊢; exact ih cpos q hne
      · simp only [hv, if_false]
    | fail =>
      rw [hf] at hne
      rw [h e p (by rw [hf]; simp), hf]
      exact ih cpos cpos hne
    | bad => rw [h e p (by rw [hf]; simp), hf]
    | fuel => rw [hf] at hne; exact absurd rfl hne

/-- pointwise "at least as defined" for the optional separator parser -/
def OptLe : Option (Nat → Res) → Option (Nat → Res) → Prop
  | none, none => True
  | some f, some f' => ∀ p, f p ≠ .fuel → f' p = f p
  | _, _ => False

theorem sepStep_mono {fs fs' : Option (Nat → Res)} (h : OptLe fs fs') (pos : Nat) (acc : Sh) (prev : Bool) :
    sepStep fs pos acc prev ≠ .fuel → sepStep fs' pos acc prev = sepStep fs pos acc prev := by
  intro hne
  cases fs with
  | none => cases fs' with
    | none => rfl
    | some _ => exact absurd h (by simp [OptLe])
  | some f => cases fs' with
    | none => exact absurd h (by simp [OptLe])
    | some f' =>
      simp only [OptLe] at h
      simp only [sepStep] at hne ⊢
      by_cases hp : prev = true
      · simp only [hp, if_true] at hne ⊢
        cases hf : f pos with
        | ok v q => rw [h pos (by rw [hf]; simp), hf]
        | fail => rw [h pos (by rw [hf]; simp), hf]
        | bad => rw [h pos (by rw [hf]; simp), hf]
        | fuel => rw [hf] at hne; exact absurd rfl hne
      · simp [hp]

theorem repLoop_mono {fk fk' : Nat → Res} {fs fs' : Option (Nat → Res)}
    (hk : ∀ p, fk p ≠ .fuel → fk' p = fk p) (hs : OptLe fs fs') :
    ∀ j j' pos acc first prev, j ≤ j' → repLoop fk fs j pos acc first prev ≠ .fuel →
      repLoop fk' fs' j' pos acc first prev = repLoop fk fs j pos acc first prev := by
  intro j
  induction j with
  | zero => intro j' pos acc first prev _ hne; simp [repLoop] at hne
  | succ j ih =>
    intro j' pos acc first prev hle hne
    obtain ⟨j'', rfl⟩ : ∃ j'', j' = j'' + 1 := ⟨j' - 1, by omega⟩
    simp only [repLoop] at hne ⊢
    cases hsp : sepStep fs pos acc prev with
    | ok acc1 p1 =>
      rw [hsp] at hne
      rw [sepStep_mono hs pos acc prev (by rw [hsp]; simp), hsp]
      simp only at hne ⊢
      cases hf : fk p1 with
      | ok v p2 =>
        rw [hf] at hne
        rw [hk p1 (by rw [hf]; simp), hf]
        simp only at hne ⊢
        by_cases hv : v.truthy = true
        · simp only [hv, if_true] at hne ⊢
          exact ih j'' p2 _ false true (by omega) hne
        · simp [hv]
      | fail => rw [hk p1 (by rw [hf]; simp), hf]
      | bad => rw [hk p1 (by rw [hf]; simp), hf]
      | fuel => rw [hf] at hne; exact absurd rfl hne
    | fail => rw [sepStep_mono hs pos acc prev (by rw [hsp]; simp), hsp]
    | bad => rw [sepStep_mono hs pos acc prev (by rw [hsp]; simp), hsp]
    | fuel => rw [hsp] at hne; exact absurd rfl hne

theorem commentsLoop_mono {f f' : Nat → Res} (skip : Nat → Nat)
    (h : ∀ p, f p ≠ .fuel → f' p = f p) :
    ∀ j j' pos, j ≤ j' → commentsLoop f skip j pos ≠ .fuel →
      commentsLoop f' skip j' pos = commentsLoop f skip j pos := by
  intro j
  induction j with
  | zero => intro j' pos _ hne; simp [commentsLoop] at hne
  | succ j ih =>
    intro j' pos hle hne
    obtain ⟨j'', rfl⟩ : ∃ j'', j' = j'' + 1 := ⟨j' - 1, by omega⟩
    simp only [commentsLoop] at hne ⊢
    cases hf : f pos with
    | ok v q =>
      rw [hf] at hne
      rw [h pos (by rw [hf]; simp), hf]
      exact ih j'' _ (by omega) hne
    | fail => rw [h pos (by rw [hf]; simp), hf]
    | bad => rw [h pos (by rw [hf]; simp), hf]
    | fuel => rw [hf] at hne; exact absurd rfl hne

theorem finish_ne_fuel {nd : Node} {r : Res} : finish nd r ≠ .fuel → r ≠ .fuel := by
  intro h hr; subst hr; simp [finish] at h

theorem parse_mono (g : Graph) (L : Lex) :
    ∀ n m a c p, n ≤ m → parse g L n a c p ≠ .fuel → parse g L m a c p = parse g L n a c p := by
  intro n
  induction n with
  | zero => intro m a c p _ h; simp [parse] at h
  | succ n ih =>
    intro m a c p hle hne
    obtain ⟨m, rfl⟩ : ∃ m', m = m' + 1 := ⟨m - 1, by omega⟩
    have hle' : n ≤ m := by omega
    have ih2 : ∀ c, ∀ e q, parse g L n e c q ≠ .fuel → parse g L m e c q = parse g L n e c q :=
      fun c e q h => ih m e c q hle' h
    unfold parse at hne ⊢
    cases hnd : g.get a with
    | none => simp only [hnd] at hne ⊢
    | some nd =>
      simp only [hnd] at hne ⊢
      by_cases hsup : supported nd = true
      case neg => simp [hsup]
      simp only [hsup, Bool.not_true, Bool.false_eq_true, if_false] at hne ⊢
      cases hk : nd.kind <;> simp only [hk] at hne ⊢
      case seq =>
        have hne' := finish_ne_fuel hne
        have : seqLoop (fun e p => parse g L n e c p) nd.kids p .E ≠ .fuel := by
          intro h; rw [h] at hne'; exact hne' rfl
        rw [seqLoop_mono (f := fun e p => parse g L n e c p) (f' := fun e p => parse g L m e c p)
          (fun e q h => ih2 c e q h) nd.kids p .E this]
      case choice =>
        have hne' := finish_ne_fuel hne
        rw [choiceLoop_mono (f := fun e p => parse g L n e c p) (f' := fun e p => parse g L m e c p)
          (fun e q h => ih2 c e q h) nd.kids p p hne']
      case opt =>
        cases hkids : nd.kids with
        | nil => rfl
        | cons k ks =>
          cases ks with
          | cons _ _ => rfl
          | nil =>
            simp only [hkids] at hne ⊢
            have hne' := finish_ne_fuel hne
            have : parse g L n k c p ≠ .fuel := by
              intro h; rw [h] at hne'; exact hne' rfl
            rw [ih2 c k p this]
      case andP =>
        cases hkids : nd.kids with
        | nil => rfl
        | cons k ks =>
          cases ks with
          | cons _ _ => rfl
          | nil =>
            simp only [hkids] at hne ⊢
            have hne' := finish_ne_fuel hne
            have : parse g L n k c p ≠ .fuel := by
              intro h; rw [h] at hne'; exact hne' rfl
            rw [ih2 c k p this]
      case notP =>
        cases hkids : nd.kids with
        | nil => rfl
        | cons k ks =>
          cases ks with
          | cons _ _ => rfl
          | nil =>
            simp only [hkids] at hne ⊢
            have hne' := finish_ne_fuel hne
            have : parse g L n k c p ≠ .fuel := by
              intro h; rw [h] at hne'; exact hne' rfl
            rw [ih2 c k p this]
      case star =>
        cases hkids : nd.kids with
        | nil => rfl
        | cons k ks =>
          cases ks with
          | cons _ _ => rfl
          | nil =>
            simp only [hkids] at hne ⊢
            have hne' := finish_ne_fuel hne
            rw [repLoop_mono (fk := fun p => parse g L n k c p) (fk' := fun p => parse g L m k c p)
              (fs := nd.sep.map fun s p => parse g L n s c p) (fs' := nd.sep.map fun s p => parse g L m s c p)
              (fun q h => ih2 c k q h)
              (by cases nd.sep with
                  | none => simp [OptLe]
                  | some s => simp only [Option.map, OptLe]; exact fun q h => ih2 c s q h)
              n m p .E false false hle' hne']
      case plus =>
        cases hkids : nd.kids with
        | nil => rfl
        | cons k ks =>
          cases ks with
          | cons _ _ => rfl
          | nil =>
            simp only [hkids] at hne ⊢
            have hne' := finish_ne_fuel hne
            rw [repLoop_mono (fk := fun p => parse g L n k c p) (fk' := fun p => parse g L m k c p)
              (fs := nd.sep.map fun s p => parse g L n s c p) (fs' := nd.sep.map fun s p => parse g L m s c p)
              (fun q h => ih2 c k q h)
              (by cases nd.sep with
                  | none => simp [OptLe]
                  | some s => simp only [Option.map, OptLe]; exact fun q h => ih2 c s q h)
              n m p .E true false hle' hne']
      all_goals (
        have key : skipGen g L (fun e q => parse g L n e true q) n c p ≠ .fuel →
            skipGen g L (fun e q => parse g L m e true q) m c p =
            skipGen g L (fun e q => parse g L n e true q) n c p := by
          intro hs
          unfold skipGen at hs ⊢
          by_cases hc : c = true
          · simp only [hc, if_true]
          · simp only [hc] at hs ⊢
            cases hcm : g.comments with
            | none => simp only
            | some cm =>
              simp only [hcm] at hs ⊢
              exact commentsLoop_mono (f := fun q => parse g L n cm true q) (f' := fun q => parse g L m cm true q)
                (skipWs g L) (fun q h => ih2 true cm q h) n m _ hle' hs
        have : skipGen g L (fun e q => parse g L n e true q) n c p ≠ .fuel := by
          intro h; rw [h] at hne; exact hne rfl
        rw [key this])

/-- any two fuel values that both give a result other than `.fuel` give the same one -/
theorem parse_det (g : Graph) (L : Lex) {n m a c p} (h1 : parse g L n a c p ≠ .fuel)
    (h2 : parse g L m a c p ≠ .fuel) : parse g L n a c p = parse g L m a c p := by
  by_cases h : n ≤ m
  · exact (parse_mono g L n m a c p h h1).symm
  · exact parse_mono g L m n a c p (by omega) h2

end Rec
