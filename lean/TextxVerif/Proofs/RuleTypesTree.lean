import TextxVerif.RuleTypesTree
import TextxVerif.Proofs.RuleTypesInh
import TextxVerif.Proofs.RuleTypesInhAll
import TextxVerif.Proofs.RuleTypesObj
import TextxVerif.Proofs.RuleTypesAlts
/-!
Helper lemmas for C03, part 5: the children of a root rule's node against the
alternative of the rule's body that produced them (`Derives`), the executable
recogniser (`matchB`, `treeOK`) against its specification, and the result of an
abstract rule's node against `Reach` / `textx_isinstance`.
-/
namespace RuleTypes

/-! ### `nmHeads` -/

theorem nmHeads_nil (k : Kinds) : nmHeads k [] = [] := rfl

theorem nmHeads_cons_term (k : Kinds) (a b : String) (xs : List PT) :
    nmHeads k (.term a b :: xs) = nmHeads k xs := by
  simp [nmHeads, PT.isNM]

theorem nmHeads_cons_asgn (k : Kinds) (a : String) (ks xs : List PT) :
    nmHeads k (.asgn a ks :: xs) = nmHeads k xs := by
  simp [nmHeads, PT.isNM]

theorem nmHeads_cons_nt (k : Kinds) (r : Nat) (ks xs : List PT) :
    nmHeads k (.nt r ks :: xs) = if k r = .mtch then nmHeads k xs else r :: nmHeads k xs := by
  by_cases h : k r = .mtch
  · simp [nmHeads, PT.isNM, h]
  · simp [nmHeads, PT.isNM, List.filter_cons, h, PT.head]

theorem nmHeads_append (k : Kinds) (a b : List PT) : nmHeads k (a ++ b) = nmHeads k a ++ nmHeads k b := by
  simp [nmHeads, List.filter_append, List.filterMap_append]

/-- the first child that is the node of a non-match rule is the node of the first rule in `nmHeads` -/
theorem find_isNM_head (k : Kinds) : ∀ kids : List PT,
    (kids.find? (PT.isNM k)).bind PT.head = (nmHeads k kids).head?
  | [] => by simp [nmHeads]
  | .term a b :: xs => by
    rw [nmHeads_cons_term]
    simp only [List.find?, PT.isNM]
    exact find_isNM_head k xs
  | .asgn a ks :: xs => by
    rw [nmHeads_cons_asgn]
    simp only [List.find?, PT.isNM]
    exact find_isNM_head k xs
  | .nt r ks :: xs => by
    rw [nmHeads_cons_nt]
    by_cases h : k r = .mtch
    · simp only [List.find?, PT.isNM, h, bne_self_eq_false, if_true]
      exact find_isNM_head k xs
    · have hb : (k r != .mtch) = true := by simpa using h
      simp [List.find?, PT.isNM, hb, h, PT.head]

theorem find_isNM_some {k : Kinds} {kids : List PT} {x : PT} (h : kids.find? (PT.isNM k) = some x) :
    ∃ S ks, x = .nt S ks ∧ k S ≠ .mtch ∧ (nmHeads k kids).head? = some S := by
  have hp := List.find?_some h
  have hh := find_isNM_head k kids
  rw [h] at hh
  cases x with
  | term a b => simp [PT.isNM] at hp
  | asgn a ks => simp [PT.isNM] at hp
  | nt S ks =>
    refine ⟨S, ks, rfl, ?_, ?_⟩
    · simpa [PT.isNM] using hp
    · simpa [PT.head] using hh.symm

theorem find_isNM_none {k : Kinds} {kids : List PT} (h : kids.find? (PT.isNM k) = none) :
    (nmHeads k kids).head? = none := by
  have hh := find_isNM_head k kids
  rw [h] at hh
  simpa using hh.symm

theorem firstNMof_eq_head (k : Kinds) : ∀ a : List Nat,
    firstNMof k a = (a.filter fun r => k r != .mtch).head?
  | [] => by simp [firstNMof]
  | r :: rs => by
    have ih := firstNMof_eq_head k rs
    unfold firstNMof at ih ⊢
    by_cases h : (k r != .mtch) = true
    · simp [List.find?, h]
    · simp only [List.find?, List.filter_cons, h]
      first | exact ih | simpa using ih

/-! ### alternatives -/

theorem mem_altsSeq_cons {x : Body} {xs : List Body} {a r : List Nat} (ha : a ∈ x.alts) (hr : r ∈ altsSeq xs) :
    a ++ r ∈ altsSeq (x :: xs) := by
  simp only [altsSeq, List.mem_flatMap, List.mem_map]
  exact ⟨a, ha, r, hr, rfl⟩

theorem mem_altsChoice {x : Body} {a : List Nat} : ∀ {xs : List Body}, x ∈ xs → a ∈ x.alts → a ∈ altsChoice xs
  | [], hm, _ => by cases hm
  | y :: ys, hm, ha => by
    simp only [altsChoice, List.mem_append]
    rcases List.mem_cons.mp hm with rfl | hm'
    · exact Or.inl ha
    · exact Or.inr (mem_altsChoice hm' ha)

/-- **the children are those of one alternative**: the nodes of non-match rules among the
children are, in order, the non-match references of one alternative of the body -/
theorem derives_alt {k : Kinds} {b : Body} {kids : List PT} (h : Derives k b kids) :
    ∃ a, a ∈ b.alts ∧ nmHeads k kids = a.filter fun r => k r != .mtch := by
  induction h with
  | lit => exact ⟨[], by simp [Body.alts], by simp [nmHeads_cons_term, nmHeads_nil]⟩
  | @refNode r ks =>
    refine ⟨[r], by simp [Body.alts], ?_⟩
    rw [nmHeads_cons_nt]
    by_cases h : k r = .mtch
    · simp [h, nmHeads_nil]
    · simp [h, nmHeads_nil]
  | @refTerm r _ _ hm =>
    exact ⟨[r], by simp [Body.alts], by simp [nmHeads_cons_term, nmHeads_nil, hm]⟩
  | seqNil => exact ⟨[], by simp [Body.alts, altsSeq], by simp [nmHeads_nil]⟩
  | seqCons _ _ ih1 ih2 =>
    obtain ⟨a, ha, e1⟩ := ih1
    obtain ⟨r, hr, e2⟩ := ih2
    refine ⟨a ++ r, ?_, ?_⟩
    · simp only [Body.alts] at hr ⊢
      exact mem_altsSeq_cons ha hr
    · rw [nmHeads_append, e1, e2, List.filter_append]
  | choice hm _ ih =>
    obtain ⟨a, ha, e⟩ := ih
    exact ⟨a, by simp only [Body.alts]; exact mem_altsChoice hm ha, e⟩

/-- the same through `FirstNM` (no side condition on the body) -/
theorem derives_firstNM {k : Kinds} {b : Body} {kids : List PT} (h : Derives k b kids) :
    FirstNM k b (nmHeads k kids).head? := by
  induction h with
  | lit => rw [nmHeads_cons_term]; exact .lit
  | @refNode r ks =>
    rw [nmHeads_cons_nt]
    by_cases h : k r = .mtch
    · simp only [h, if_true, nmHeads_nil, List.head?_nil]; exact .refM h
    · simp only [h, if_false, nmHeads_nil, List.head?_cons]; exact .refNM h
  | @refTerm r _ _ hm => rw [nmHeads_cons_term]; exact .refM hm
  | seqNil => exact .seqNil
  | @seqCons x xs ks ks' _ _ ih1 ih2 =>
    rw [nmHeads_append, List.head?_append]
    cases hh : (nmHeads k ks).head? with
    | none => rw [hh] at ih1; simpa using FirstNM.seqTail ih1 ih2
    | some s => rw [hh] at ih1; simpa using FirstNM.seqHead ih1
  | choice hm _ ih => exact .choice hm ih

/-! ### the recogniser -/

theorem mem_matchChoice {k : Kinds} {x : Body} {kids rest : List PT} :
    ∀ {xs : List Body}, x ∈ xs → rest ∈ matchB k x kids → rest ∈ matchChoice k xs kids
  | [], hm, _ => by cases hm
  | y :: ys, hm, h => by
    simp only [matchChoice, List.mem_append]
    rcases List.mem_cons.mp hm with rfl | hm'
    · exact Or.inl h
    · exact Or.inr (mem_matchChoice hm' h)

theorem matchB_complete {k : Kinds} {b : Body} {pre : List PT} (h : Derives k b pre) :
    ∀ rest, rest ∈ matchB k b (pre ++ rest) := by
  induction h with
  | lit => intro rest; simp [matchB]
  | refNode => intro rest; simp [matchB]
  | refTerm hm => intro rest; simp [matchB, hm]
  | seqNil => intro rest; simp [matchB, matchSeq]
  | @seqCons x xs ks ks' _ _ ih1 ih2 =>
    intro rest
    simp only [matchB, matchSeq, List.mem_flatMap, List.append_assoc]
    refine ⟨ks' ++ rest, ih1 _, ?_⟩
    have := ih2 rest
    simpa only [matchB] using this
  | choice hm _ ih =>
    intro rest
    simp only [matchB]
    exact mem_matchChoice hm (ih rest)

mutual
theorem matchB_sound (k : Kinds) : ∀ (b : Body) (kids rest : List PT), rest ∈ matchB k b kids →
    ∃ pre, kids = pre ++ rest ∧ Derives k b pre
  | .lit, kids, rest, h => by
    match kids, h with
    | .term a b :: tl, h =>
      simp only [matchB, List.mem_singleton] at h
      subst h
      exact ⟨[.term a b], rfl, .lit⟩
    | [], h => simp [matchB] at h
    | .nt _ _ :: _, h => simp [matchB] at h
    | .asgn _ _ :: _, h => simp [matchB] at h
  | .ref r, kids, rest, h => by
    match kids, h with
    | .term a b :: tl, h =>
      simp only [matchB] at h
      by_cases hm : k r = .mtch
      · simp only [hm, if_true, List.mem_singleton] at h
        subst h
        exact ⟨[.term a b], rfl, .refTerm hm⟩
      · simp [hm] at h
    | .nt r' ks :: tl, h =>
      simp only [matchB] at h
      by_cases hr : r' = r
      · simp only [hr, if_true, List.mem_singleton] at h
        subst h; subst hr
        exact ⟨[.nt r' ks], rfl, .refNode⟩
      · simp [hr] at h
    | [], h => simp [matchB] at h
    | .asgn _ _ :: _, h => simp [matchB] at h
  | .seq xs, kids, rest, h => by
    simp only [matchB] at h
    exact matchSeq_sound k xs kids rest h
  | .choice xs, kids, rest, h => by
    simp only [matchB] at h
    obtain ⟨pre, x, hm, e, hd⟩ := matchChoice_sound k xs kids rest h
    exact ⟨pre, e, .choice hm hd⟩
  | .other _, _, _, h => by simp [matchB] at h
theorem matchSeq_sound (k : Kinds) : ∀ (xs : List Body) (kids rest : List PT), rest ∈ matchSeq k xs kids →
    ∃ pre, kids = pre ++ rest ∧ Derives k (.seq xs) pre
  | [], kids, rest, h => by
    simp only [matchSeq, List.mem_singleton] at h
    subst h
    exact ⟨[], rfl, .seqNil⟩
  | x :: xs, kids, rest, h => by
    simp only [matchSeq, List.mem_flatMap] at h
    obtain ⟨mid, h1, h2⟩ := h
    obtain ⟨p1, e1, d1⟩ := matchB_sound k x kids mid h1
    obtain ⟨p2, e2, d2⟩ := matchSeq_sound k xs mid rest h2
    exact ⟨p1 ++ p2, by rw [e1, e2, List.append_assoc], .seqCons d1 d2⟩
theorem matchChoice_sound (k : Kinds) : ∀ (xs : List Body) (kids rest : List PT), rest ∈ matchChoice k xs kids →
    ∃ pre x, x ∈ xs ∧ kids = pre ++ rest ∧ Derives k x pre
  | [], _, _, h => by simp [matchChoice] at h
  | x :: xs, kids, rest, h => by
    simp only [matchChoice, List.mem_append] at h
    rcases h with h | h
    · obtain ⟨pre, e, d⟩ := matchB_sound k x kids rest h
      exact ⟨pre, x, List.mem_cons_self .., e, d⟩
    · obtain ⟨pre, y, hm, e, d⟩ := matchChoice_sound k xs kids rest h
      exact ⟨pre, y, List.mem_cons_of_mem _ hm, e, d⟩
end

/-- the recogniser decides `Derives` -/
theorem derivesB_iff (k : Kinds) (b : Body) (kids : List PT) : derivesB k b kids = true ↔ Derives k b kids := by
  unfold derivesB
  rw [List.any_eq_true]
  constructor
  · rintro ⟨rest, hm, he⟩
    have : rest = [] := by simpa using he
    subst this
    obtain ⟨pre, e, d⟩ := matchB_sound k b kids [] hm
    rw [List.append_nil] at e
    subst e
    exact d
  · intro h
    have := matchB_complete h []
    rw [List.append_nil] at this
    exact ⟨[], this, rfl⟩

mutual
theorem treeOK_iff (g : Gram) (k : Kinds) : ∀ t : PT, treeOK g k t = true ↔ WfTree g k t
  | .term _ _ => by simp [treeOK, WfTree]
  | .asgn _ ks => by simp only [treeOK, WfTree]; exact treeOKL_iff g k ks
  | .nt r ks => by
    simp only [treeOK, WfTree, Bool.and_eq_true]
    rw [treeOKL_iff g k ks]
    apply and_congr_left'
    by_cases hk : k r = .abstr
    · simp only [hk, if_true, true_imp_iff]
      cases hg : g[r]? with
      | none => simp
      | some rule =>
        simp only [Option.some.injEq, exists_eq_left']
        rw [derivesB_iff]
    · simp [hk]
theorem treeOKL_iff (g : Gram) (k : Kinds) : ∀ l : List PT, treeOKL g k l = true ↔ WfTreeL g k l
  | [] => by simp [treeOKL, WfTreeL]
  | x :: xs => by
    simp only [treeOKL, WfTreeL, Bool.and_eq_true]
    rw [treeOK_iff g k x, treeOKL_iff g k xs]
end

theorem wfTreeL_mem {g : Gram} {k : Kinds} : ∀ {l : List PT}, WfTreeL g k l → ∀ x ∈ l, WfTree g k x
  | [], _, x, hx => by cases hx
  | y :: ys, h, x, hx => by
    simp only [WfTreeL] at h
    rcases List.mem_cons.mp hx with rfl | hx'
    · exact h.1
    · exact wfTreeL_mem h.2 x hx'

/-! ### results -/

theorem proc_notNM_prim (k : Kinds) (x : PT) (h : PT.isNM k x = false) : ∃ s, proc k x = .prim s := by
  cases x with
  | term a b => exact ⟨b, by simp [proc]⟩
  | asgn a ks => exact ⟨"", by simp [proc]⟩
  | nt S ks =>
    have hm : k S = .mtch := by simpa [PT.isNM] using h
    exact ⟨flatL ks, by simp [proc, hm]⟩

/-- abstract rule, no child is the node of a non-match rule: a plain value -/
theorem proc_abstr_nonm_prim (k : Kinds) (R : Nat) (kids : List PT) (hk : k R = .abstr)
    (hf : kids.find? (PT.isNM k) = none) : ∃ s, proc k (.nt R kids) = .prim s := by
  have hall : ∀ x ∈ kids, PT.isNM k x = false := by
    intro x hx
    have := List.find?_eq_none.mp hf x hx
    simpa using this
  by_cases hlen : kids.length = 1
  · match kids, hlen, hall with
    | [x], _, hall =>
      rw [proc_abstr_single k R x hk]
      exact proc_notNM_prim k x (hall x (by simp))
  · cases hnt : kids.find? PT.isNT with
    | none =>
      refine ⟨rawL kids, ?_⟩
      simp only [proc, hk, if_neg hlen, procFirst_eq_find, hf, hnt, Option.map_none]
    | some x =>
      rw [proc_abstr_match_nt k R kids x hk hlen hf hnt]
      exact proc_notNM_prim k x (hall x (List.mem_of_find?_eq_some hnt))

/-- what the node of rule `R` yields when it is an object of rule `o`: `R` is common and `o = R`, or
`R` is abstract and `o` is reached from it through abstract-rule alternatives (`Reach`) and along
`_tx_inh_by` entries (`Path`) -/
def ResultOK (g : Gram) (k : Kinds) (R : Nat) (o : Nat) : Prop :=
  (k R = .common ∧ o = R) ∨ (k R = .abstr ∧ Reach g k R o ∧ Path (inhBy g k) R o)

mutual
theorem proc_reach (g : Gram) (k : Kinds) : ∀ (t : PT), WfTree g k t → ∀ R kids, t = .nt R kids →
    ∀ o attrs, proc k t = .obj o attrs → ResultOK g k R o
  | .term _ _, _, _, _, h, _, _, _ => by cases h
  | .asgn _ _, _, _, _, h, _, _, _ => by cases h
  | .nt R kids, hw, R', kids', heq, o, attrs, hp => by
    cases heq
    simp only [WfTree] at hw
    obtain ⟨hder, hwl⟩ := hw
    cases hkR : k R with
    | mtch => simp [proc, hkR] at hp
    | common =>
      simp only [proc, hkR, Val.obj.injEq] at hp
      exact Or.inl ⟨hkR, hp.1.symm⟩
    | abstr =>
      obtain ⟨rule, hR, hd⟩ := hder hkR
      cases hf : kids.find? (PT.isNM k) with
      | none =>
        obtain ⟨s, hs⟩ := proc_abstr_nonm_prim k R kids hkR hf
        rw [hs] at hp
        cases hp
      | some x =>
        rw [proc_abstr_nm k R kids x hkR hf] at hp
        obtain ⟨S, ks, rfl, _, hhead⟩ := find_isNM_some hf
        have hx : PT.nt S ks ∈ kids := List.mem_of_find?_eq_some hf
        have hfn : FirstNM k rule.body (some S) := by
          have := derives_firstNM hd
          rwa [hhead] at this
        have hedge : Edge g k R S := ⟨rule, hR, hkR, hfn⟩
        have hin : S ∈ inhBy g k R := edge_mem_inhBy g k hedge
        rcases procL_reach g k kids hwl _ hx S ks rfl o attrs hp with ⟨_, rfl⟩ | ⟨_, hr, hpth⟩
        · exact Or.inr ⟨hkR, .edge hedge, .step hin (.refl _)⟩
        · exact Or.inr ⟨hkR, .trans hedge hr, .step hin hpth⟩
theorem procL_reach (g : Gram) (k : Kinds) : ∀ (l : List PT), WfTreeL g k l → ∀ x ∈ l, ∀ R kids, x = .nt R kids →
    ∀ o attrs, proc k x = .obj o attrs → ResultOK g k R o
  | [], _, x, hx, _, _, _, _, _, _ => by cases hx
  | y :: ys, hw, x, hx, R, kids, heq, o, attrs, hp => by
    simp only [WfTreeL] at hw
    rcases List.mem_cons.mp hx with h | hx'
    · rw [h] at heq hp
      exact proc_reach g k y hw.1 R kids heq o attrs hp
    · exact procL_reach g k ys hw.2 x hx' R kids heq o attrs hp
end

/-- **the result of an abstract rule, by the alternative that matched**: the children belong to one
alternative `a` of the body; if `a` has a first non-match reference `S`, the result is the result of
the node of `S` (the first child that is the node of a non-match rule); if `a` references match rules
only, the result is a plain value -/
theorem proc_alternative (k : Kinds) (R : Nat) (b : Body) (kids : List PT) (hk : k R = .abstr)
    (hd : Derives k b kids) :
    ∃ a, a ∈ b.alts ∧ (nmHeads k kids = a.filter fun r => k r != .mtch) ∧
      (∀ S, firstNMof k a = some S → ∃ ks, kids.find? (PT.isNM k) = some (.nt S ks) ∧
          proc k (.nt R kids) = proc k (.nt S ks)) ∧
      (firstNMof k a = none → ∃ s, proc k (.nt R kids) = .prim s) := by
  obtain ⟨a, ha, e⟩ := derives_alt hd
  refine ⟨a, ha, e, ?_, ?_⟩
  · intro S hS
    rw [firstNMof_eq_head, ← e] at hS
    cases hf : kids.find? (PT.isNM k) with
    | none => rw [find_isNM_none hf] at hS; cases hS
    | some x =>
      obtain ⟨S', ks, rfl, _, hhead⟩ := find_isNM_some hf
      rw [hhead] at hS
      cases hS
      exact ⟨ks, rfl, proc_abstr_nm k R kids _ hk hf⟩
  · intro hn
    rw [firstNMof_eq_head, ← e] at hn
    cases hf : kids.find? (PT.isNM k) with
    | none => exact proc_abstr_nonm_prim k R kids hk hf
    | some x =>
      obtain ⟨S', ks, _, _, hhead⟩ := find_isNM_some hf
      rw [hhead] at hn
      cases hn

/-! ### the dispatch against its clause-by-clause specification -/

theorem isNT_of_isNM {k : Kinds} {x : PT} (h : PT.isNM k x = true) : x.isNT = true := by
  cases x <;> simp_all [PT.isNM, PT.isNT]

theorem find_none_of_all {p : PT → Bool} {l : List PT} (h : ∀ y ∈ l, p y = false) : l.find? p = none := by
  rw [List.find?_eq_none]
  intro y hy
  simp [h y hy]

theorem find_split {p : PT → Bool} {pre post : List PT} {x : PT} (hpre : ∀ y ∈ pre, p y = false) (hx : p x = true) :
    (pre ++ x :: post).find? p = some x := by
  rw [List.find?_append, find_none_of_all hpre]
  simp [List.find?, hx]

/-- soundness of `proc` for the specification -/
theorem yields_proc {k : Kinds} {t : PT} {v : Val} (h : Yields k t v) : proc k t = v := by
  induction h with
  | term => simp [proc]
  | asgn => simp [proc]
  | mtch hk => simp [proc, hk]
  | common hk => simp [proc, hk]
  | single hk _ ih => rw [proc_abstr_single _ _ _ hk, ih]
  | firstNM hk _ hpre hx _ ih => rw [proc_abstr_nm _ _ _ _ hk (find_split hpre hx), ih]
  | @onlyMatchNT r pre post x v hk hlen hall hpre hx _ ih =>
    rw [proc_abstr_match_nt _ _ _ _ hk hlen (find_none_of_all hall) (find_split hpre hx), ih]
  | @text r kids hk hlen hall =>
    have h1 : kids.find? PT.isNT = none := find_none_of_all hall
    have h2 : kids.find? (PT.isNM k) = none := by
      apply find_none_of_all
      intro y hy
      cases hnm : PT.isNM k y with
      | false => rfl
      | true => have := isNT_of_isNM hnm; rw [hall y hy] at this; cases this
    simp only [proc, hk, if_neg hlen, procFirst_eq_find, h1, h2, Option.map_none]

mutual
/-- completeness: `proc` yields a value the specification allows, for every tree -/
theorem proc_yields (k : Kinds) : ∀ t : PT, Yields k t (proc k t)
  | .term raw val => by simp only [proc]; exact .term
  | .asgn a ks => by simp only [proc]; exact .asgn
  | .nt r kids => by
    cases hk : k r with
    | mtch => simp only [proc, hk]; exact .mtch hk
    | common => simp only [proc, hk]; exact .common hk
    | abstr =>
      by_cases hlen : kids.length = 1
      · match kids, hlen with
        | [x], _ =>
          rw [proc_abstr_single k r x hk]
          exact .single hk (procL_yields k [x] x (by simp))
      · cases hf : kids.find? (PT.isNM k) with
        | some x =>
          rw [proc_abstr_nm k r kids x hk hf]
          obtain ⟨hx, pre, post, e, hpre⟩ := List.find?_eq_some_iff_append.mp hf
          subst e
          exact .firstNM hk hlen (fun y hy => by simpa using hpre y hy) hx
            (procL_yields k (pre ++ x :: post) x (by simp))
        | none =>
          have hall : ∀ y ∈ kids, PT.isNM k y = false := by
            intro y hy
            have := List.find?_eq_none.mp hf y hy
            simpa using this
          cases hnt : kids.find? PT.isNT with
          | some x =>
            rw [proc_abstr_match_nt k r kids x hk hlen hf hnt]
            obtain ⟨hx, pre, post, e, hpre⟩ := List.find?_eq_some_iff_append.mp hnt
            subst e
            exact .onlyMatchNT hk hlen hall (fun y hy => by simpa using hpre y hy) hx
              (procL_yields k (pre ++ x :: post) x (by simp))
          | none =>
            have hallnt : ∀ y ∈ kids, y.isNT = false := by
              intro y hy
              have := List.find?_eq_none.mp hnt y hy
              simpa using this
            simp only [proc, hk, if_neg hlen, procFirst_eq_find, hf, hnt, Option.map_none]
            exact .text hk hlen hallnt
theorem procL_yields (k : Kinds) : ∀ (l : List PT), ∀ x ∈ l, Yields k x (proc k x)
  | [], x, hx => by cases hx
  | y :: ys, x, hx => by
    rcases List.mem_cons.mp hx with h | hx'
    · rw [h]; exact proc_yields k y
    · exact procL_yields k ys x hx'
end

end RuleTypes
