import TextxVerif.Select
/-! Helper lemmas for provider selection (C32). -/
namespace Select

variable {P T : Type}

theorem lookupLoop_none (d : Dict P T) (ks : List String) :
    lookupLoop d ks = none ↔ ∀ k, k ∈ ks → d.get? k = none := by
  induction ks with
  | nil => simp [lookupLoop]
  | cons k ks ih =>
    cases h : d.get? k with
    | none => simp [lookupLoop, h, ih]
    | some p => simp [lookupLoop, h]

/-- the loop returns the entry of the first key that is registered -/
theorem lookupLoop_some (d : Dict P T) (ks : List String) (p : Provider P T) :
    lookupLoop d ks = some p ↔
      ∃ i, ∃ h : i < ks.length, d.get? ks[i] = some p ∧ ∀ j, (hj : j < i) → d.get? (ks[j]'(by omega)) = none := by
  induction ks with
  | nil => simp [lookupLoop]
  | cons k ks ih =>
    cases hk : d.get? k with
    | some q =>
      simp only [lookupLoop, hk, Option.some.injEq]
      constructor
      · intro e
        exact ⟨0, by simp, by simp [hk, e], fun j hj => absurd hj (Nat.not_lt_zero j)⟩
      · rintro ⟨i, hi, hget, hbefore⟩
        cases i with
        | zero => simpa [hk] using hget
        | succ i =>
          have := hbefore 0 (Nat.succ_pos i)
          simp [hk] at this
    | none =>
      simp only [lookupLoop, hk, ih]
      constructor
      · rintro ⟨i, hi, hget, hbefore⟩
        refine ⟨i + 1, by simp; omega, by simpa using hget, ?_⟩
        intro j hj
        cases j with
        | zero => simpa using hk
        | succ j => simpa using hbefore j (by omega)
      · rintro ⟨i, hi, hget, hbefore⟩
        cases i with
        | zero => simp [hk] at hget
        | succ i =>
          refine ⟨i, by simpa using hi, by simpa using hget, ?_⟩
          intro j hj
          simpa using hbefore (j + 1) (by omega)

theorem get?_register (parse : String → T) (raw : List (String × RegVal P)) (k : String) :
    Dict.get? (register parse raw) k = (raw.lookup k).map (convert parse) := by
  induction raw with
  | nil => simp [register, Dict.get?, List.lookup]
  | cons e raw ih =>
    obtain ⟨k', v⟩ := e
    simp only [register, List.map_cons, Dict.get?, List.lookup] at ih ⊢
    by_cases h : k' = k
    · subst h; simp
    · have h' : (k == k') = false := by simpa using fun e => h e.symm
      simp [h, h', ih]

theorem lookupLoop_congr (d d' : Dict P T) (ks : List String)
    (h : ∀ k, k ∈ ks → d.get? k = d'.get? k) : lookupLoop d ks = lookupLoop d' ks := by
  induction ks with
  | nil => rfl
  | cons k ks ih =>
    have hk := h k (by simp)
    have := ih (fun k' hk' => h k' (by simp [hk']))
    simp [lookupLoop, hk, this]

/-! ## registration order does not matter (a Python dict has one entry per key) -/

theorem lookup_some_iff_mem {β : Type} (k : String) (v : β) :
    ∀ (l : List (String × β)), (l.map (·.1)).Nodup → (l.lookup k = some v ↔ (k, v) ∈ l)
  | [], _ => by simp
  | (k', v') :: l, hnd => by
    rw [List.map_cons, List.nodup_cons] at hnd
    have ih := lookup_some_iff_mem k v l hnd.2
    by_cases hk : k = k'
    · subst hk
      have hnot : (k, v) ∉ l := fun hm => hnd.1 (List.mem_map.2 ⟨(k, v), hm, rfl⟩)
      simp only [List.lookup_cons, beq_self_eq_true, Option.some.injEq, List.mem_cons, Prod.mk.injEq, true_and,
        hnot, or_false]
      exact eq_comm
    · have hk' : (k == k') = false := by simpa using hk
      simp only [List.lookup_cons, hk', ih, List.mem_cons, Prod.mk.injEq, hk, false_and, false_or]

/-- with unique keys `lookup` is invariant under permutation of the entries -/
theorem lookup_perm {β : Type} {l l' : List (String × β)} (hp : l'.Perm l) (hnd : (l.map (·.1)).Nodup)
    (k : String) : l'.lookup k = l.lookup k := by
  have hnd' : (l'.map (·.1)).Nodup := (hp.map _).nodup_iff.2 hnd
  apply Option.ext
  intro v
  rw [lookup_some_iff_mem k v l' hnd', lookup_some_iff_mem k v l hnd, hp.mem_iff]

theorem select_perm (order : List KeyExpr) (parse : String → T) (raw raw' : List (String × RegVal P))
    (hk : (raw.map (·.1)).Nodup) (hp : raw'.Perm raw) (cls attr : String) (g : Option T) :
    select order (register parse raw') cls attr g = select order (register parse raw) cls attr g := by
  cases g with
  | some t => rfl
  | none =>
    simp only [select]
    rw [lookupLoop_congr (register parse raw') (register parse raw) _
      (fun k _ => by rw [get?_register, get?_register, lookup_perm hp hk])]

/-! ## the visitor's stores -/

theorem visit_fold_asg (b : Bool) : ∀ (occs : List (Occ T)) (v : Visited T),
    (occs.foldl (visitStep b) v).asgProv = v.asgProv ++ occs.map (fun o => if b then some o.rrel else none)
  | [], v => by simp
  | o :: occs, v => by
    simp only [List.foldl_cons, List.map_cons]
    rw [visit_fold_asg b occs]
    simp [visitStep]

theorem visit_asg (b : Bool) (occs : List (Occ T)) :
    (visit b occs).asgProv = occs.map (fun o => if b then some o.rrel else none) := by
  simp [visit, visit_fold_asg]

/-- the per-attribute slot holds what the last assignment of the attribute so far wrote -/
theorem visit_fold_attr (b : Bool) : ∀ (occs : List (Occ T)) (v : Visited T) (done : List (Occ T)),
    (∀ a, v.attrProv.lookup a = ((done.filter (fun o' => o'.attr = a)).getLast?).map (·.rrel)) →
    ∀ a, (occs.foldl (visitStep b) v).attrProv.lookup a =
      (((done ++ occs).filter (fun o' => o'.attr = a)).getLast?).map (·.rrel)
  | [], v, done, h => by simpa using h
  | o :: occs, v, done, h => by
    intro a
    have := visit_fold_attr b occs (visitStep b v o) (done ++ [o]) (by
      intro a'
      by_cases ha : o.attr = a'
      · simp [visitStep, List.filter_append, ha]
      · have hb : (a' == o.attr) = false := by simpa using fun e => ha e.symm
        simp [visitStep, List.lookup_cons, hb, List.filter_append, ha, h a']) a
    simpa using this

theorem visit_attr (b : Bool) (occs : List (Occ T)) (a : String) :
    (visit b occs).attrProv.lookup a = ((occs.filter (fun o' => o'.attr = a)).getLast?).map (·.rrel) := by
  have := visit_fold_attr b occs { attrProv := [], asgProv := [] } [] (by simp) a
  simpa [visit] using this

/-- repaired visitor: the stores give back the RREL written at the assignment itself -/
theorem refRrel_visit_repaired (occs : List (Occ T)) (i : Nat) (o : Occ T) (hi : occs[i]? = some o) :
    refRrel (visit true occs) i o.attr = occRrel occs i := by
  simp [refRrel, visit_asg, occRrel, hi]

/-- pinned visitor: the stores give the RREL of the last assignment of the same attribute -/
theorem refRrel_visit_pinned (occs : List (Occ T)) (i : Nat) (o : Occ T) (hi : occs[i]? = some o) :
    refRrel (visit false occs) i o.attr = occRrelLastWins occs i := by
  simp only [refRrel, visit_asg, occRrelLastWins, hi, List.getElem?_map, Option.map_some,
    Bool.false_eq_true, visit_attr]
  cases (occs.filter (fun o' => o'.attr = o.attr)).getLast? <;> rfl

/-- a history sees the dictionary only through the calls it yields -/
theorem run_congr (order : List KeyExpr) (view : P → Option (RrelObj T)) (parse : String → T) :
    ∀ (steps : List (Step P T)) (d d' : Dict P T),
      (∀ r, callOf order view d r = callOf order view d' r) →
      run order view parse d steps = run order view parse d' steps
  | [], _, _, _ => rfl
  | s :: rest, d, d', h => by
    cases hs : s.reg with
    | some raw => simp only [run, hs]
    | none =>
      simp only [run, hs, List.cons.injEq]
      exact ⟨List.map_congr_left (fun r _ => h r), run_congr order view parse rest d d' h⟩

variable {O : Type}

/-- closed form of one pass (`resolveRef` mirrors the statements of the code) -/
theorem resolveRef_eq (order : List KeyExpr) (view : P → Option (RrelObj T)) (d : Dict P T) (env : Env O)
    (ask : Call P T → Answer O) (r : Ref T) :
    resolveRef order view d env ask r =
      ([callOf order view d r],
        match ask (callOf order view d r) with
        | .found o => .bound o
        | .postponed => .delayed
        | .nothing =>
          match env.builtin? r.name with
          | some b => .bound b
          | none => .unknown) := by
  simp only [resolveRef]
  cases ask (callOf order view d r) with
  | found o => rfl
  | postponed => rfl
  | nothing => cases env.builtin? r.name <;> rfl

end Select
