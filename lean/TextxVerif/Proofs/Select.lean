import TextxVerif.Select
/-! Helper lemmas for provider selection (C32). -/
namespace Select

variable {P T : Type}

theorem lookupLoop_none (d : Dict P T) (ks : List String) :
    lookupLoop d ks = none ↔ ∀ k, k ∈ ks → d.get? k = none := by
  induction ks with
  | nil => simp [lookupLoop]
  | cons k ks ih =>
    cases h : d.get? k with
    | none => simp [lookupLoop, h, ih]
    | some p => simp [lookupLoop, h]

/-- the loop returns the entry of the first key that is registered -/
theorem lookupLoop_some (d : Dict P T) (ks : List String) (p : Provider P T) :
    lookupLoop d ks = some p ↔
      ∃ i, ∃ h : i < ks.length, d.get? ks[i] = some p ∧ ∀ j, (hj : j < i) → d.get? (ks[j]'(by omega)) = none := by
  induction ks with
  | nil => simp [lookupLoop]
  | cons k ks ih =>
    cases hk : d.get? k with
    | some q =>
      simp only [lookupLoop, hk, Option.some.injEq]
      constructor
      · intro e
        exact ⟨0, by simp, by simp [hk, e], fun j hj => absurd hj (Nat.not_lt_zero j)⟩
      · rintro ⟨i, hi, hget, hbefore⟩
        cases i with
        | zero => simpa [hk] using hget
        | succ i =>
          have := hbefore 0 (Nat.succ_pos i)
          simp [hk] at this
    | none =>
      simp only [lookupLoop, hk, ih]
      constructor
      · rintro ⟨i, hi, hget, hbefore⟩
        refine ⟨i + 1, by simp; omega, by simpa using hget, ?_⟩
        intro j hj
        cases j with
        | zero => simpa using hk
        | succ j => simpa using hbefore j (by omega)
      · rintro ⟨i, hi, hget, hbefore⟩
        cases i with
        | zero => simp [hk] at hget
        | succ i =>
          refine ⟨i, by simpa using hi, by simpa using hget, ?_⟩
          intro j hj
          simpa using hbefore (j + 1) (by omega)

theorem get?_register (parse : String → T) (raw : List (String × RegVal P)) (k : String) :
    Dict.get? (register parse raw) k = (raw.lookup k).map (convert parse) := by
  induction raw with
  | nil => simp [register, Dict.get?, List.lookup]
  | cons e raw ih =>
    obtain ⟨k', v⟩ := e
    simp only [register, List.map_cons, Dict.get?, List.lookup] at ih ⊢
    by_cases h : k' = k
    · subst h; simp
    · have h' : (k == k') = false := by simpa using fun e => h e.symm
      simp [h, h', ih]

theorem lookupLoop_congr (d d' : Dict P T) (ks : List String)
    (h : ∀ k, k ∈ ks → d.get? k = d'.get? k) : lookupLoop d ks = lookupLoop d' ks := by
  induction ks with
  | nil => rfl
  | cons k ks ih =>
    have hk := h k (by simp)
    have := ih (fun k' hk' => h k' (by simp [hk']))
    simp [lookupLoop, hk, this]

end Select
