import TextxVerif.ProcMatch
/-! Helper lemmas for `Proc.matchE` (C33: match processors inside composite match rules). -/
namespace Proc

theorem cutP_append {α : Type} (p : α → Bool) (l1 l2 : List α) :
    cutP p (l1 ++ l2) =
      match cutP p l1 with
      | some r => some r
      | none =>
        match cutP p l2 with
        | some r => some (l1 ++ r.1, r.2)
        | none => none := by
  induction l1 with
  | nil => simp only [List.nil_append, cutP]; cases cutP p l2 <;> rfl
  | cons e es ih =>
    simp only [List.cons_append, cutP]
    by_cases hr : p e = true
    · simp [hr]
    · simp only [hr, Bool.false_eq_true, if_false]
      rw [ih]
      cases h1 : cutP p es with
      | some f => simp
      | none =>
        cases h2 : cutP p l2 with
        | some f => simp
        | none => simp

theorem cutP_some {α : Type} (p : α → Bool) (l : List α) (r : List α × α) (h : cutP p l = some r) :
    ∃ post, l = r.1 ++ r.2 :: post ∧ (∀ e ∈ r.1, p e = false) ∧ p r.2 = true := by
  induction l generalizing r with
  | nil => simp [cutP] at h
  | cons e es ih =>
    simp only [cutP] at h
    by_cases hr : p e = true
    · simp only [hr, if_true, Option.some.injEq] at h
      subst h
      exact ⟨es, by simp, by simp, hr⟩
    · simp only [hr, Bool.false_eq_true, if_false] at h
      have hr' : p e = false := by simpa using hr
      cases h1 : cutP p es with
      | none => rw [h1] at h; simp at h
      | some g =>
        rw [h1] at h
        simp only [Option.some.injEq] at h
        subst h
        obtain ⟨post, h2, h3, h4⟩ := ih g h1
        refine ⟨post, ?_, ?_, h4⟩
        · simp only [List.cons_append]; rw [← h2]
        · intro x hx
          rcases List.mem_cons.1 hx with rfl | hx
          · exact hr'
          · exact h3 x hx

theorem cutP_none_iff {α : Type} (p : α → Bool) (l : List α) : cutP p l = none ↔ ∀ e ∈ l, p e = false := by
  induction l with
  | nil => simp [cutP]
  | cons e es ih =>
    simp only [cutP, List.mem_cons, forall_eq_or_imp]
    by_cases hr : p e = true
    · simp [hr]
    · simp only [hr, Bool.false_eq_true, if_false]
      have hr' : p e = false := by simpa using hr
      cases h1 : cutP p es with
      | some f =>
        simp only [reduceCtorEq, false_iff, not_and]
        intro _ hall
        rw [ih.2 hall] at h1
        cases h1
      | none =>
        simp only [true_iff]
        exact ⟨by first | exact hr' | trivial, ih.1 h1⟩

/-- a finished call list seen through `R` -/
def liftM (R : Nat → Nat → Bool) (l : List MCall) : Except MFail (List MCall) :=
  match cutP (fun c => R c.rule c.pos) l with
  | some r => .error ⟨r.1, r.2⟩
  | none => .ok l

mutual
theorem matchE_lift (R : Nat → Nat → Bool) : ∀ (t : MNode), matchE R t = liftM R (mcalls t)
  | .term r p => by
      simp only [matchE, mcalls, liftM, cutP]
      by_cases hR : R r p = true
      · simp [hR]
      · simp [hR]
  | .nonterm r p ks => by
      rw [matchE, mcalls, matchListE_lift R ks]
      generalize mcallsList ks = l
      unfold liftM
      rw [cutP_append]
      cases h1 : cutP (fun c => R c.rule c.pos) l with
      | some f => simp
      | none =>
        simp only [cutP]
        by_cases hR : R r p = true
        · simp [hR]
        · simp [hR]
theorem matchListE_lift (R : Nat → Nat → Bool) : ∀ (ks : MNodes), matchListE R ks = liftM R (mcallsList ks)
  | .nil => by simp [matchListE, mcallsList, liftM, cutP]
  | .cons n rest => by
      rw [matchListE, mcallsList, matchE_lift R n, matchListE_lift R rest]
      generalize mcalls n = a
      generalize mcallsList rest = b
      unfold liftM
      rw [cutP_append]
      cases h1 : cutP (fun c => R c.rule c.pos) a with
      | some f => simp
      | none =>
        cases h2 : cutP (fun c => R c.rule c.pos) b with
        | some f => simp
        | none => simp
end

theorem matchE_error (R : Nat → Nat → Bool) (t : MNode) (f : MFail) (h : matchE R t = .error f) :
    cutP (fun c => R c.rule c.pos) (mcalls t) = some (f.log, f.call) := by
  rw [matchE_lift] at h
  unfold liftM at h
  cases h1 : cutP (fun c => R c.rule c.pos) (mcalls t) with
  | some g => rw [h1] at h; simp only [Except.error.injEq] at h; rw [← h]
  | none => rw [h1] at h; simp at h

end Proc
