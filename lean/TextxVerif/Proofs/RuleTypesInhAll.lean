import TextxVerif.Proofs.RuleTypesInh
/-!
Helper lemmas for C03, part 6: bounds on the inheritance walk (`addRef`) that hold
for **all** operators (optional, repetitions, unordered groups, predicates are
`Body.other`, walked like a sequence as the code does):

* lower bound — every first non-match reference of an alternative of the documented
  part of a body is listed (`FirstNM` has no rule for `other`, so alternatives that
  pass through such a node make no claim);
* upper bound — everything listed is a referenced rule that is not a match rule.
-/
namespace RuleTypes

structure WalkLow (k : Kinds) (b : Body) (acc : List Nat) (res : List Nat × Bool) : Prop where
  mono : ∀ x, x ∈ acc → x ∈ res.1
  mem : ∀ x, FirstNM k b (some x) → x ∈ res.1
  stop : res.2 = true → ¬ FirstNM k b none

mutual
theorem addRef_low (k : Kinds) : ∀ (b : Body) (acc : List Nat), WalkLow k b acc (addRef k b acc)
  | .lit, acc => by
    simp only [addRef]
    exact ⟨fun _ h => h, fun x h => (by cases h), fun h => (by cases h)⟩
  | .ref r, acc => by
    simp only [addRef]
    by_cases hk : k r = .mtch
    · simp only [hk, ne_eq, not_true, if_false]
      refine ⟨fun _ h => h, fun x h => ?_, fun h => (by cases h)⟩
      rcases firstNM_ref.mp h with ⟨h1, _⟩ | ⟨_, h2⟩
      · exact absurd hk h1
      · cases h2
    · simp only [ne_eq, hk, not_false_eq_true, if_true]
      refine ⟨fun x h => ?_, fun x h => ?_, fun _ h => ?_⟩
      · by_cases hr : r ∈ acc
        · simpa [hr] using h
        · simp [hr, h]
      · rcases firstNM_ref.mp h with ⟨_, h2⟩ | ⟨h1, _⟩
        · cases h2
          by_cases hr : r ∈ acc
          · simp [hr]
          · simp [hr]
        · exact absurd h1 hk
      · rcases firstNM_ref.mp h with ⟨_, h2⟩ | ⟨h1, _⟩
        · cases h2
        · exact hk h1
  | .seq xs, acc => by
    simp only [addRef]
    exact addSeq_low k xs acc
  | .choice xs, acc => by
    simp only [addRef]
    exact addChoice_low k xs acc
  | .other xs, acc => by
    simp only [addRef]
    exact ⟨(addSeq_low k xs acc).mono, fun x h => (by cases h), fun _ h => (by cases h)⟩
theorem addSeq_low (k : Kinds) : ∀ (xs : List Body) (acc : List Nat), WalkLow k (.seq xs) acc (addSeq k xs acc)
  | [], acc => by
    simp only [addSeq]
    exact ⟨fun _ h => h, fun x h => (by cases firstNM_seq_nil.mp h), fun h => (by cases h)⟩
  | x :: xs, acc => by
    have hx := addRef_low k x acc
    rcases hres : addRef k x acc with ⟨acc1, b⟩
    rw [hres] at hx
    cases b with
    | true =>
      simp only [addSeq, hres]
      have hnone : ¬ FirstNM k x none := hx.stop rfl
      refine ⟨hx.mono, fun y h => ?_, fun _ h => ?_⟩
      · rcases firstNM_seq_cons.mp h with ⟨s, hs, h'⟩ | ⟨h', _⟩
        · cases hs; exact hx.mem y h'
        · exact absurd h' hnone
      · rcases firstNM_seq_cons.mp h with ⟨s, hs, _⟩ | ⟨h', _⟩
        · cases hs
        · exact hnone h'
    | false =>
      simp only [addSeq, hres]
      have hrest := addSeq_low k xs acc1
      refine ⟨fun y h => hrest.mono y (hx.mono y h), fun y h => ?_, fun hb h => ?_⟩
      · rcases firstNM_seq_cons.mp h with ⟨s, hs, h'⟩ | ⟨_, h'⟩
        · cases hs; exact hrest.mono y (hx.mem y h')
        · exact hrest.mem y h'
      · rcases firstNM_seq_cons.mp h with ⟨s, hs, _⟩ | ⟨_, h'⟩
        · cases hs
        · exact hrest.stop hb h'
theorem addChoice_low (k : Kinds) : ∀ (xs : List Body) (acc : List Nat),
    WalkLow k (.choice xs) acc (addChoice k xs acc)
  | [], acc => by
    simp only [addChoice]
    exact ⟨fun _ h => h, fun x h => absurd h firstNM_choice_nil, fun _ h => firstNM_choice_nil h⟩
  | x :: xs, acc => by
    have hx := addRef_low k x acc
    rcases hres : addRef k x acc with ⟨acc1, b1⟩
    rw [hres] at hx
    have hrest := addChoice_low k xs acc1
    rcases hres2 : addChoice k xs acc1 with ⟨acc2, b2⟩
    rw [hres2] at hrest
    simp only [addChoice, hres, hres2]
    refine ⟨fun y h => hrest.mono y (hx.mono y h), fun y h => ?_, fun hb h => ?_⟩
    · rcases firstNM_choice_cons.mp h with h' | h'
      · exact hrest.mono y (hx.mem y h')
      · exact hrest.mem y h'
    · simp only [Bool.and_eq_true] at hb
      rcases firstNM_choice_cons.mp h with h' | h'
      · exact hx.stop hb.1 h'
      · exact hrest.stop hb.2 h'
end

/-- **lower bound, all operators**: the first non-match reference of an alternative of an abstract
rule is in the rule's `_tx_inh_by` -/
theorem edge_mem_inhBy (g : Gram) (k : Kinds) {R S : Nat} (h : Edge g k R S) : S ∈ inhBy g k R := by
  obtain ⟨rule, hR, hk, hf⟩ := h
  unfold inhBy
  rw [hR]
  simp only [hk, if_true]
  cases hb : rule.body with
  | ref t =>
    rw [hb] at hf
    rcases firstNM_ref.mp hf with ⟨_, h2⟩ | ⟨_, h2⟩
    · cases h2; simp
    · cases h2
  | lit => rw [hb] at hf; cases hf
  | seq xs => rw [hb] at hf; exact (addRef_low k (.seq xs) []).mem S hf
  | choice xs => rw [hb] at hf; exact (addRef_low k (.choice xs) []).mem S hf
  | other xs => rw [hb] at hf; cases hf

/-- `Reach` is contained in `Path` over the lists, for every grammar -/
theorem reach_path (g : Gram) (k : Kinds) {R o : Nat} (h : Reach g k R o) : Path (inhBy g k) R o := by
  induction h with
  | edge e => exact .step (edge_mem_inhBy g k e) (.refl _)
  | trans e _ ih => exact .step (edge_mem_inhBy g k e) ih

/-- upper bound of the walk, all operators: what is listed is referenced and not a match rule -/
theorem addRef_nm (k : Kinds) : ∀ (b : Body) (acc : List Nat),
    ∀ x ∈ (addRef k b acc).1, x ∈ acc ∨ (x ∈ b.refs ∧ k x ≠ .mtch) := by
  intro b
  induction b using Body.rec (motive_2 := fun xs =>
      (∀ acc, ∀ x ∈ (addSeq k xs acc).1, x ∈ acc ∨ (x ∈ refsL xs ∧ k x ≠ .mtch)) ∧
      (∀ acc, ∀ x ∈ (addChoice k xs acc).1, x ∈ acc ∨ (x ∈ refsL xs ∧ k x ≠ .mtch))) with
  | lit => intro acc x hx; simp only [addRef] at hx; exact Or.inl hx
  | ref r =>
    intro acc x hx
    simp only [addRef] at hx
    by_cases hk : k r = .mtch
    · simp only [hk, ne_eq, not_true, if_false] at hx; exact Or.inl hx
    · simp only [ne_eq, hk, not_false_eq_true, if_true] at hx
      by_cases hr : r ∈ acc
      · simp only [hr, if_true] at hx; exact Or.inl hx
      · simp only [hr, if_false, List.mem_append, List.mem_singleton] at hx
        rcases hx with h | h
        · exact Or.inl h
        · subst h; exact Or.inr ⟨by simp [Body.refs], hk⟩
  | seq xs ih => intro acc x hx; simp only [addRef] at hx; simpa [Body.refs] using ih.1 acc x hx
  | choice xs ih => intro acc x hx; simp only [addRef] at hx; simpa [Body.refs] using ih.2 acc x hx
  | other xs ih => intro acc x hx; simp only [addRef] at hx; simpa [Body.refs] using ih.1 acc x hx
  | nil =>
    constructor
    · intro acc x hx; simp only [addSeq] at hx; exact Or.inl hx
    · intro acc x hx; simp only [addChoice] at hx; exact Or.inl hx
  | cons b bs ihb ihbs =>
    constructor
    · intro acc x hx
      simp only [addSeq] at hx
      rcases hres : addRef k b acc with ⟨acc1, s⟩
      rw [hres] at hx
      have hb := ihb acc
      rw [hres] at hb
      cases s with
      | true =>
        rcases hb x hx with h | h
        · exact Or.inl h
        · exact Or.inr ⟨by simp [refsL, h.1], h.2⟩
      | false =>
        simp only at hx
        rcases ihbs.1 acc1 x hx with h | h
        · rcases hb x h with h' | h'
          · exact Or.inl h'
          · exact Or.inr ⟨by simp [refsL, h'.1], h'.2⟩
        · exact Or.inr ⟨by simp [refsL, h.1], h.2⟩
    · intro acc x hx
      simp only [addChoice] at hx
      rcases hres : addRef k b acc with ⟨acc1, s⟩
      rw [hres] at hx
      have hb := ihb acc
      rw [hres] at hb
      rcases hres2 : addChoice k bs acc1 with ⟨acc2, s2⟩
      rw [hres2] at hx
      have h2 := ihbs.2 acc1
      rw [hres2] at h2
      simp only at hx
      rcases h2 x hx with h | h
      · rcases hb x h with h' | h'
        · exact Or.inl h'
        · exact Or.inr ⟨by simp [refsL, h'.1], h'.2⟩
      · exact Or.inr ⟨by simp [refsL, h.1], h.2⟩

/-- **upper bound, all operators**: an entry of `_tx_inh_by` of `R` is a rule that `R`, an abstract
rule, references and that is not a match rule -/
theorem inhBy_upper (g : Gram) (k : Kinds) (hk : KindSpec g k) (R : Nat) (rule : Rule) (hR : g[R]? = some rule) :
    ∀ S ∈ inhBy g k R, k R = .abstr ∧ S ∈ rule.body.refs ∧ k S ≠ .mtch := by
  intro S hS
  have hsub := inhBy_sub g k R rule hR S hS
  unfold inhBy at hS
  rw [hR] at hS
  simp only at hS
  by_cases hab : k R = .abstr
  · refine ⟨hab, hsub, ?_⟩
    simp only [hab, if_true] at hS
    cases hb : rule.body with
    | ref t =>
      rw [hb] at hS
      simp only [List.mem_singleton] at hS
      subst hS
      have hnm := ((hk R).2.1.mp hab).2
      have hno := ((hk R).2.1.mp hab).1
      cases hnm with
      | attrs hr ha =>
        rw [hR] at hr; cases hr
        obtain ⟨rule', hr', ha'⟩ := hno
        rw [hR] at hr'; cases hr'
        rw [ha] at ha'; cases ha'
      | ref hr hs hn =>
        rw [hR] at hr; cases hr
        rw [hb] at hs
        simp only [Body.refs, List.mem_singleton] at hs
        subst hs
        intro hm
        exact (hk _).2.2.mp hm hn
    | lit => rw [hb] at hS; simp [addRef] at hS
    | seq xs =>
      rw [hb] at hS
      rcases addRef_nm k (.seq xs) [] S hS with h | h
      · cases h
      · exact h.2
    | choice xs =>
      rw [hb] at hS
      rcases addRef_nm k (.choice xs) [] S hS with h | h
      · cases h
      · exact h.2
    | other xs =>
      rw [hb] at hS
      rcases addRef_nm k (.other xs) [] S hS with h | h
      · cases h
      · exact h.2
  · simp [hab] at hS

/-- the non-match rules an abstract rule references (anywhere in its body, under any operator) -/
def nmRefs (g : Gram) (k : Kinds) (R : Nat) : List Nat :=
  match g[R]? with
  | some rule => if k R = .abstr then rule.body.refs.filter (fun s => k s != .mtch) else []
  | none => []

theorem path_mono {inh inh' : Nat → List Nat} (h : ∀ a y, y ∈ inh a → y ∈ inh' a) {a b : Nat}
    (hp : Path inh a b) : Path inh' a b := by
  induction hp with
  | refl => exact .refl _
  | step hy _ ih => exact .step (h _ _ hy) ih

theorem inhBy_sub_nmRefs (g : Gram) (k : Kinds) (hk : KindSpec g k) (R S : Nat) (h : S ∈ inhBy g k R) :
    S ∈ nmRefs g k R := by
  cases hR : g[R]? with
  | none => simp [inhBy, hR] at h
  | some rule =>
    obtain ⟨h1, h2, h3⟩ := inhBy_upper g k hk R rule hR S h
    simp only [nmRefs, hR, h1, if_true, List.mem_filter]
    exact ⟨h2, by simpa using h3⟩

end RuleTypes
