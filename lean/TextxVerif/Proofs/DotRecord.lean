import TextxVerif.Proofs.DotEscape
import TextxVerif.Export
/-! Record labels: `{name|attrs}` with safe `name`, `attrs` is a well-formed record with
one top-level field that holds exactly two sub-fields. -/
namespace Dot

def RMode.plain : RMode → Prop
  | .fresh => True
  | .text _ => True
  | _ => False

theorem rsteps_append (s : RState) (a b : Str) :
    rsteps s (a ++ b) = (rsteps s a).bind (fun s' => rsteps s' b) := by
  induction a generalizing s with
  | nil => simp [rsteps]
  | cons c cs ih =>
    simp only [List.cons_append, rsteps]
    cases rstep s c with
    | none => simp
    | some s' => exact ih s'

/-- a safe fragment neither opens nor closes a field: depth and "plain" mode are kept -/
theorem rsteps_scan (f : Str) (d : Nat) (m : RMode) (e e' : Bool) (hm : m.plain)
    (h : scan isSpecial e f = some e') :
    ∃ m', rsteps { depth := d, mode := m, esc := e } f = some { depth := d, mode := m', esc := e' } ∧ m'.plain := by
  induction f generalizing m e with
  | nil =>
    simp only [scan, Option.some.injEq] at h
    exact ⟨m, by simp [rsteps, h], hm⟩
  | cons c cs ih =>
    cases e
    · simp only [scan] at h
      by_cases hb : c = '\\'
      · subst hb
        simp only [if_true] at h
        cases m with
        | fresh =>
          obtain ⟨m', h1, h2⟩ := ih .fresh true trivial h
          exact ⟨m', by simpa [rsteps, rstep] using h1, h2⟩
        | text p =>
          obtain ⟨m', h1, h2⟩ := ih (.text p) true trivial h
          exact ⟨m', by simpa [rsteps, rstep] using h1, h2⟩
        | inPort => exact absurd hm (by simp [RMode.plain])
        | table => exact absurd hm (by simp [RMode.plain])
      · simp only [hb, if_false] at h
        cases hs : isSpecial c
        · simp only [hs] at h
          simp only [isSpecial, Bool.or_eq_false_iff, decide_eq_false_iff_not] at hs
          obtain ⟨⟨⟨⟨⟨_, h2⟩, h3⟩, h4⟩, h5⟩, h6⟩ := hs
          by_cases hsp : c = ' '
          · obtain ⟨m', h1, hp⟩ := ih m false hm h
            exact ⟨m', by simpa [rsteps, rstep, hb, h2, h3, h4, h5, h6, hsp] using h1, hp⟩
          · cases m with
            | fresh =>
              obtain ⟨m', h1, hp⟩ := ih (.text false) false trivial h
              exact ⟨m', by simpa [rsteps, rstep, hb, h2, h3, h4, h5, h6, hsp] using h1, hp⟩
            | text p =>
              obtain ⟨m', h1, hp⟩ := ih (.text p) false trivial h
              exact ⟨m', by simpa [rsteps, rstep, hb, h2, h3, h4, h5, h6, hsp] using h1, hp⟩
            | inPort => exact absurd hm (by simp [RMode.plain])
            | table => exact absurd hm (by simp [RMode.plain])
        · simp [hs] at h
    · simp only [scan] at h
      cases m with
      | fresh =>
        obtain ⟨m', h1, hp⟩ := ih (.text false) false trivial h
        exact ⟨m', by simpa [rsteps, rstep] using h1, hp⟩
      | text p =>
        obtain ⟨m', h1, hp⟩ := ih (.text p) false trivial h
        exact ⟨m', by simpa [rsteps, rstep] using h1, hp⟩
      | inPort => exact absurd hm (by simp [RMode.plain])
      | table => exact absurd hm (by simp [RMode.plain])

/-- the label `{name|attrs}` is a well-formed record label -/
theorem recOk_recordLabel {n a : Str} (hn : Safe n) (ha : Safe a) : recOk (recordLabel n a) = true := by
  obtain ⟨m1, h1, p1⟩ := rsteps_scan n 1 .fresh false false trivial hn
  obtain ⟨m2, h2, p2⟩ := rsteps_scan a 1 .fresh false false trivial ha
  have e : recordLabel n a = ['{'] ++ n ++ ['|'] ++ a ++ ['}'] := by simp [recordLabel]
  have s0 : rsteps rinit ['{'] = some { depth := 1, mode := .fresh, esc := false } := by decide
  have s1 : rsteps { depth := 1, mode := m1, esc := false } ['|'] = some { depth := 1, mode := .fresh, esc := false } := by
    cases m1 <;> first | rfl | exact absurd p1 (by simp [RMode.plain])
  have s2 : rsteps { depth := 1, mode := m2, esc := false } ['}'] = some { depth := 0, mode := .table, esc := false } := by
    cases m2 <;> first | rfl | exact absurd p2 (by simp [RMode.plain])
  simp only [recOk, e, rsteps_append, s0, h1, s1, h2, s2, Option.bind_some]
  decide

end Dot
