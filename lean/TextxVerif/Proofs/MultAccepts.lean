import TextxVerif.Proofs.MultEvents
/-!
Helper lemmas for C02, part 5 — the executable trace matcher `accepts`
decides `Events` (sound and complete).
-/
namespace Mult

variable {V : Type}

theorem mem_splits {α : Type} : ∀ (t : List α) (p : List α × List α), p ∈ splits t ↔ t = p.1 ++ p.2
  | [], p => by
      obtain ⟨u, v⟩ := p
      simp [splits]
  | x :: xs, p => by
      obtain ⟨u, v⟩ := p
      simp only [splits, List.mem_cons, List.mem_map]
      constructor
      · rintro (h | ⟨q, hq, h⟩)
        · cases h; simp
        · cases h
          rw [(mem_splits xs q).mp hq]; simp
      · intro h
        cases u with
        | nil => left; simp at h; simp [h]
        | cons y u =>
            right
            simp at h
            refine ⟨(u, v), (mem_splits xs (u, v)).mpr h.2, by simp [h.1]⟩

theorem mem_splits3 {α : Type} (t : List α) (q : List α × List α × List α) :
    q ∈ splits3 t ↔ t = q.1 ++ q.2.1 ++ q.2.2 := by
  obtain ⟨v, u, w⟩ := q
  simp only [splits3, List.mem_flatMap, List.mem_map]
  constructor
  · rintro ⟨p, hp, r, hr, h⟩
    cases h
    rw [(mem_splits t p).mp hp, (mem_splits p.2 r).mp hr]; simp
  · intro h
    refine ⟨(v, u ++ w), (mem_splits t _).mpr (by simp [h]), (u, w), (mem_splits _ _).mpr rfl, rfl⟩

theorem asgnAcc_iff (a : Attr) (op : Op) (t : List (Ev V)) :
    asgnAcc a op t = true ↔ Events (.asgn a op) t := by
  simp only [Events]
  cases t with
  | nil => cases op <;> simp [asgnAcc]
  | cons e t =>
      cases t with
      | nil => simp [asgnAcc]
      | cons e' t => simp [asgnAcc]

theorem starAcc_sound (f : Acc V) (L : List (Ev V) → Prop) (hf : ∀ u, f u = true → L u) :
    ∀ (n : Nat) (t : List (Ev V)), starAcc f n t = true → ∃ us : List (List (Ev V)), (∀ u ∈ us, L u) ∧ t = us.flatten
  | 0, t, h => by
      simp [starAcc] at h
      exact ⟨[], by simp, by simp [h]⟩
  | n + 1, t, h => by
      simp only [starAcc, Bool.or_eq_true, List.any_eq_true, Bool.and_eq_true] at h
      rcases h with h | ⟨p, hp, ⟨_, h2⟩, h3⟩
      · exact ⟨[], by simp, by simpa using h⟩
      · obtain ⟨us, hus, e⟩ := starAcc_sound f L hf n p.2 h3
        refine ⟨p.1 :: us, ?_, ?_⟩
        · intro u hu
          rcases List.mem_cons.mp hu with rfl | hu
          · exact hf _ h2
          · exact hus u hu
        · rw [(mem_splits t p).mp hp, e]; simp

theorem starAcc_complete (f : Acc V) (L : List (Ev V) → Prop) (hf : ∀ u, L u → f u = true) :
    ∀ (us : List (List (Ev V))) (n : Nat), (∀ u ∈ us, L u) → us.flatten.length ≤ n →
      starAcc f n us.flatten = true
  | [], n, _, _ => by cases n <;> simp [starAcc]
  | u :: us, n, hus, hn => by
      by_cases hu : u = []
      · subst hu
        simpa using starAcc_complete f L hf us n (fun u hu => hus u (by simp [hu])) (by simpa using hn)
      · have hpos : 1 ≤ u.length := by
          cases u with
          | nil => exact absurd rfl hu
          | cons _ _ => simp
        simp only [List.flatten_cons, List.length_append] at hn
        cases n with
        | zero => omega
        | succ n =>
            simp only [starAcc, Bool.or_eq_true, List.any_eq_true, Bool.and_eq_true]
            right
            refine ⟨(u, us.flatten), (mem_splits _ _).mpr (by simp), ⟨?_, hf u (hus u (by simp))⟩, ?_⟩
            · simp [hu]
            · exact starAcc_complete f L hf us n (fun u hu => hus u (by simp [hu])) (by omega)

mutual
theorem accepts_iff : ∀ (b : Body) (t : List (Ev V)), accepts b t = true ↔ Events b t
  | .leaf, t => by simp [accepts, Events]
  | .asgn a op, t => by simpa [accepts] using asgnAcc_iff a op t
  | .seq xs, t => by simpa [accepts, Events] using seqAcc_iff xs t
  | .choice xs, t => by simpa [accepts, Events] using altAcc_iff xs t
  | .opt x, t => by
      simp only [accepts, Events, Bool.or_eq_true, List.isEmpty_iff]
      rw [accepts_iff x t]
  | .rep _ x, t => by
      simp only [accepts, Events]
      constructor
      · exact starAcc_sound (accepts x) (Events x) (fun u h => (accepts_iff x u).mp h) _ t
      · rintro ⟨us, hus, rfl⟩
        exact starAcc_complete (accepts x) (Events x) (fun u h => (accepts_iff x u).mpr h) us _ hus (Nat.le_refl _)
  | .unordered xs, t => by simpa [accepts, Events] using unAcc_iff xs t
theorem seqAcc_iff : ∀ (xs : List Body) (t : List (Ev V)), seqAcc (acceptsEach xs) t = true ↔ EventsSeq xs t
  | [], t => by simp [acceptsEach, seqAcc, EventsSeq]
  | x :: xs, t => by
      simp only [acceptsEach, seqAcc, EventsSeq, List.any_eq_true, Bool.and_eq_true]
      constructor
      · rintro ⟨p, hp, h1, h2⟩
        exact ⟨p.1, p.2, (mem_splits t p).mp hp, (accepts_iff x p.1).mp h1, (seqAcc_iff xs p.2).mp h2⟩
      · rintro ⟨u, v, e, h1, h2⟩
        exact ⟨(u, v), (mem_splits t _).mpr e, (accepts_iff x u).mpr h1, (seqAcc_iff xs v).mpr h2⟩
theorem altAcc_iff : ∀ (xs : List Body) (t : List (Ev V)), altAcc (acceptsEach xs) t = true ↔ EventsAny xs t
  | [], t => by simp [acceptsEach, altAcc, EventsAny]
  | x :: xs, t => by
      simp only [acceptsEach, altAcc, EventsAny, Bool.or_eq_true]
      rw [accepts_iff x t, altAcc_iff xs t]
theorem unAcc_iff : ∀ (xs : List Body) (t : List (Ev V)), unAcc (acceptsEach xs) t = true ↔ EventsUn xs t
  | [], t => by simp [acceptsEach, unAcc, EventsUn]
  | x :: xs, t => by
      simp only [acceptsEach, unAcc, EventsUn, List.any_eq_true, Bool.and_eq_true]
      constructor
      · rintro ⟨q, hq, h1, h2⟩
        exact ⟨q.1, q.2.1, q.2.2, (mem_splits3 t q).mp hq, (accepts_iff x _).mp h1, (unAcc_iff xs _).mp h2⟩
      · rintro ⟨v, u, w, e, h1, h2⟩
        exact ⟨(v, u, w), (mem_splits3 t _).mpr e, (accepts_iff x u).mpr h1, (unAcc_iff xs _).mpr h2⟩
end

end Mult
