import TextxVerif.Proofs.Rrel
/-!
The path of an expansion: the named objects traversed, each consumed name part
being the name of the object its step reached.
-/
set_option linter.unusedVariables false
namespace Rrel

theorem NamedBy.append {H : Heap} : ∀ {q1 : List Obj} {c1 : List String} {q2 : List Obj}
    {c2 : List String}, NamedBy H q1 c1 → NamedBy H q2 c2 → NamedBy H (q1 ++ q2) (c1 ++ c2) := by
  intro q1 c1 q2 c2 h1 h2
  induction h1 with
  | nil => simpa using h2
  | consumed hn _ ih => exact NamedBy.consumed hn ih
  | fixed hn _ ih => exact NamedBy.fixed hn ih

/-- what one expansion does to path and names -/
def Trace (H : Heap) (s t : St) : Prop :=
  ∃ q c, t.path = s.path ++ q ∧ s.ns = c ++ t.ns ∧ NamedBy H q c

theorem Trace.refl (H : Heap) (s : St) : Trace H s s := ⟨[], [], by simp, by simp, NamedBy.nil⟩

theorem Trace.trans {H : Heap} {s m t : St} (h1 : Trace H s m) (h2 : Trace H m t) : Trace H s t := by
  obtain ⟨q1, c1, a1, a2, a3⟩ := h1
  obtain ⟨q2, c2, b1, b2, b3⟩ := h2
  exact ⟨q1 ++ q2, c1 ++ c2, by rw [b1, a1, List.append_assoc], by rw [a2, b2, List.append_assoc],
    a3.append b3⟩

theorem atom_trace (H : Heap) (a : Atom) (f : Bool) (s : St) (r : Obj × List String × Bool)
    (h : AtomStep H a f s.o s.ns r) : Trace H s (s.next r) := by
  obtain ⟨r1, r2, r3⟩ := r
  cases a with
  | nav attr m =>
    obtain ⟨_, _, _, l, _, _, _, hc⟩ := h
    cases m with
    | tilde =>
      simp only [Cand] at hc
      obtain ⟨_, h1, h2⟩ := hc
      subst h1 h2
      exact ⟨[], [], by simp [St.next], by simp [St.next], NamedBy.nil⟩
    | fixed fx =>
      simp only [Cand] at hc
      obtain ⟨_, h0, h1, h2⟩ := hc
      subst h1 h2
      exact ⟨[r1], [], by simp [St.next], by simp [St.next], NamedBy.fixed h0 NamedBy.nil⟩
    | consume =>
      simp only [Cand] at hc
      obtain ⟨_, n, h1, h0, h2⟩ := hc
      subst h2
      exact ⟨[r1], [n], by simp [St.next], by simp [St.next, h1], NamedBy.consumed h0 NamedBy.nil⟩
  | parent T =>
    obtain ⟨_, _, _, _, _, h4, h5⟩ := h
    simp only at h4 h5
    subst h4 h5
    exact ⟨[], [], by simp [St.next], by simp [St.next], NamedBy.nil⟩
  | dots n =>
    obtain ⟨_, h4, h5⟩ := h
    simp only at h4 h5
    subst h4 h5
    exact ⟨[], [], by simp [St.next], by simp [St.next], NamedBy.nil⟩

theorem zeros_trace (H : Heap) (e : E) (f : Bool) (s t : St) (ht : t ∈ zeros H e f s) :
    Trace H s t := by
  have : t.path = s.path ∧ t.ns = s.ns := by
    simp only [zeros] at ht
    split at ht
    · simp only [List.mem_append] at ht
      rcases ht with ht | ht
      · split at ht
        · simp at ht; subst ht; exact ⟨rfl, rfl⟩
        · simp at ht
      · split at ht
        · simp at ht; subst ht; exact ⟨rfl, rfl⟩
        · simp at ht
    · simp at ht; subst ht; exact ⟨rfl, rfl⟩
  exact ⟨[], [], by simp [this.1], by simp [this.2], NamedBy.nil⟩

theorem exp_trace (H : Heap) : ∀ (e : E) (f : Bool) (s t : St), Exp H e f s t → Trace H s t
  | .atom _ a, f, s, t, h => by
    obtain ⟨r, hr, rfl⟩ := h
    exact atom_trace H a f s r hr
  | .grp _ e, f, s, t, h => exp_trace H e f s t h
  | .alt a b, f, s, t, h => by
    rcases h with h | h
    · exact exp_trace H a f s t h
    · exact exp_trace H b f s t h
  | .cat a b, f, s, t, h => by
    obtain ⟨m, h1, h2⟩ := h
    exact (exp_trace H a f s m h1).trans (exp_trace H b false m t h2)
  | .star _ e, f, s, t, h => by
    have hstar : ∀ u v : St, Star (fun x y => Exp H e false x y) u v → Trace H u v := by
      intro u v huv
      induction huv with
      | refl a => exact Trace.refl H a
      | step h1 _ ih => exact (exp_trace H e false _ _ h1).trans ih
    rcases h with hz | ⟨m, h1, h2⟩
    · exact zeros_trace H e f s t hz
    · exact (exp_trace H e f s m h1).trans (hstar m t h2)

theorem proxyPath_last (s : St) : (proxyPath s).getLast? = some s.o := by
  unfold proxyPath
  split
  · assumption
  · simp

theorem proxyPath_cases (s : St) :
    (proxyPath s = s.path ∧ s.path.getLast? = some s.o) ∨
    (proxyPath s = s.path ++ [s.o] ∧ s.path.getLast? ≠ some s.o) := by
  unfold proxyPath
  split
  · left; exact ⟨rfl, by assumption⟩
  · right; exact ⟨rfl, by assumption⟩

end Rrel
