import TextxVerif.Proofs.Resolve
import TextxVerif.Proofs.ResolveList
/-! Helper lemmas for list-valued reference attributes under the resolver loop (C09). -/
namespace Resolve

/-- the resolved list of a pass stays duplicate-free -/
theorem step_res_nodup (P : Provider) : ∀ p res, p.Nodup → res.Nodup → (∀ x, x ∈ p → x ∉ res) →
    (step P p res).2.Nodup
  | [], res, _, hres, _ => by simpa [step] using hres
  | r :: rs, res, hnd, hres, hdis => by
      have hrs : rs.Nodup := (List.nodup_cons.1 hnd).2
      have hr : r ∉ rs := (List.nodup_cons.1 hnd).1
      by_cases hready : P.ready res r = true
      · simp only [step, hready, if_true]
        refine step_res_nodup P rs (r :: res) hrs ?_ ?_
        · exact List.nodup_cons.2 ⟨hdis r (by simp), hres⟩
        · intro x hx
          simp only [List.mem_cons, not_or]
          exact ⟨fun e => hr (e ▸ hx), hdis x (by simp [hx])⟩
      · simp only [step, hready]
        exact step_res_nodup P rs res hrs hres (fun x hx => hdis x (by simp [hx]))

theorem loop_res_nodup (P : Provider) : ∀ n p res, p.Nodup → res.Nodup → (∀ x, x ∈ p → x ∉ res) →
    (loop P n p res).2.Nodup
  | 0, p, res, _, hres, _ => by simpa [loop] using hres
  | n+1, p, res, hnd, hres, hdis => by
      have hs := step_disjoint P p res hnd hdis
      have hn := step_res_nodup P p res hnd hres hdis
      simp only [loop]
      split
      · exact hn
      · exact loop_res_nodup P n _ _ hs.1 hn hs.2

/-- in a list with pairwise distinct ids the id identifies the element -/
theorem eq_of_id_eq {L : List LRef} (h : L.Pairwise (fun a b => a.id ≠ b.id)) :
    ∀ a b, a ∈ L → b ∈ L → a.id = b.id → a = b := by
  induction L with
  | nil => intro a b ha; simp at ha
  | cons x xs ih =>
    have hx := List.pairwise_cons.1 h
    intro a b ha hb hab
    rcases List.mem_cons.1 ha with hax | ha' <;> rcases List.mem_cons.1 hb with hbx | hb'
    · rw [hax, hbx]
    · have := hx.1 b hb'; rw [hax] at hab; exact absurd hab this
    · have := hx.1 a ha'; rw [hbx] at hab; exact absurd hab.symm this
    · exact ih hx.2 a b ha' hb' hab

/-- `attrSeq` picks exactly the references of `L` that occur in `seq` -/
theorem mem_attrSeq {L : List LRef} (hid : L.Pairwise (fun a b => a.id ≠ b.id)) (seq : List Ref)
    (l : LRef) : l ∈ attrSeq L seq ↔ l ∈ L ∧ l.id ∈ seq := by
  unfold attrSeq
  rw [List.mem_filterMap]
  constructor
  · rintro ⟨r, hr, hf⟩
    have h1 := List.find?_some hf
    have h2 := List.mem_of_find?_eq_some hf
    have : l.id = r := by simpa using h1
    exact ⟨h2, this ▸ hr⟩
  · rintro ⟨hl, hs⟩
    refine ⟨l.id, hs, ?_⟩
    cases hf : L.find? (fun x => x.id == l.id) with
    | none =>
      have := List.find?_eq_none.1 hf l hl
      simp at this
    | some l' =>
      have h1 := List.find?_some hf
      have h2 := List.mem_of_find?_eq_some hf
      have : l'.id = l.id := by simpa using h1
      rw [eq_of_id_eq hid l' l h2 hl this]

/-- a reference of `L` is inserted at most once when `seq` is duplicate-free -/
theorem attrSeq_nodup (L : List LRef) : ∀ seq : List Ref, seq.Nodup → (attrSeq L seq).Nodup
  | [], _ => by simp [attrSeq]
  | r :: rs, h => by
      have hr : r ∉ rs := (List.nodup_cons.1 h).1
      have ih := attrSeq_nodup L rs (List.nodup_cons.1 h).2
      unfold attrSeq at ih ⊢
      rw [List.filterMap_cons]
      cases hf : L.find? (fun l => l.id == r) with
      | none => simpa using ih
      | some l =>
        simp only
        refine List.nodup_cons.2 ⟨?_, ih⟩
        intro hmem
        rcases List.mem_filterMap.1 hmem with ⟨r', hr', hf'⟩
        have h1 : l.id = r := by simpa using List.find?_some hf
        have h2 : l.id = r' := by simpa using List.find?_some hf'
        exact hr (h1 ▸ h2 ▸ hr')

/-- position-ordered insertion of any arrangement of `refs` (strictly
increasing positions) rebuilds `refs` -/
theorem listAfter_eq_of_perm (refs seq : List LRef)
    (hpos : refs.Pairwise (fun a b => a.pos < b.pos)) (hperm : seq.Perm refs) :
    listAfter seq = refs := by
  have hsorted : refs.Pairwise (fun a b => a.pos ≤ b.pos) := hpos.imp Nat.le_of_lt
  have hp : (listAfter seq).Perm refs := (listAfter_perm seq).trans hperm
  refine List.Perm.eq_of_pairwise (le := fun a b => a.pos ≤ b.pos) ?_ (listAfter_sorted seq) hsorted hp
  intro a b ha hb h1 h2
  exact eq_of_pos_eq hpos a b (hp.subset ha) hb (Nat.le_antisymm h1 h2)

/-- the list attribute holds, in textual order, exactly its references that got resolved -/
theorem attrAfter_eq_filter (L : List LRef) (hpos : L.Pairwise (fun a b => a.pos < b.pos))
    (hid : L.Pairwise (fun a b => a.id ≠ b.id)) (res : List Ref) (hres : res.Nodup) :
    attrAfter L res.reverse = L.filter (fun l => decide (l.id ∈ res)) := by
  unfold attrAfter
  refine listAfter_eq_of_perm _ _ (hpos.filter _) ?_
  have hL : L.Nodup := hpos.imp (fun {a b} h e => by rw [e] at h; exact Nat.lt_irrefl _ h)
  refine (List.perm_ext_iff_of_nodup (attrSeq_nodup L _ ((List.reverse_perm res).nodup_iff.2 hres))
    (hL.sublist List.filter_sublist)).2 ?_
  intro l
  rw [mem_attrSeq hid, List.mem_filter]
  simp

end Resolve
