import TextxVerif.Resolve
/-! Helper lemmas for the resolver loop (C08, C09). -/
namespace Resolve

theorem step_length (P : Provider) : ∀ p res, (step P p res).1.length ≤ p.length
  | [], res => by simp [step]
  | r :: rs, res => by
      simp only [step]
      split
      · have := step_length P rs (r :: res); simp; omega
      · have := step_length P rs res; simp; omega

theorem step_res_mono (P : Provider) : ∀ p res x, x ∈ res → x ∈ (step P p res).2
  | [], res, x, h => by simpa [step] using h
  | r :: rs, res, x, h => by
      simp only [step]
      split
      · exact step_res_mono P rs (r :: res) x (by simp [h])
      · exact step_res_mono P rs res x h

/-- a pass that keeps every reference pending changed nothing and nobody is ready -/
theorem step_noprogress (P : Provider) : ∀ p res, (step P p res).1.length = p.length →
    (step P p res).2 = res ∧ ∀ r, r ∈ p → P.ready res r = false
  | [], res, _ => by simp [step]
  | r :: rs, res, h => by
      by_cases hr : P.ready res r = true
      · simp only [step, hr, if_true] at h
        have := step_length P rs (r :: res); simp at h; omega
      · simp only [step, hr] at h ⊢
        simp at h
        have ih := step_noprogress P rs res h
        refine ⟨by simpa using ih.1, ?_⟩
        intro x hx
        cases hx with
        | head => simpa using hr
        | tail _ hx => exact ih.2 x hx

/-- soundness of a pass: everything it adds is derivable -/
theorem step_sound (P : Provider) (U : List Ref) : ∀ p res, (∀ x, x ∈ p → x ∈ U) →
    (∀ x, x ∈ res → Derivable P U x) → ∀ x, x ∈ (step P p res).2 → Derivable P U x
  | [], res, _, h, x, hx => by simp [step] at hx; exact h x hx
  | r :: rs, res, hU, h, x, hx => by
      have hUrs : ∀ x, x ∈ rs → x ∈ U := fun y hy => hU y (by simp [hy])
      by_cases hr : P.ready res r = true
      · simp only [step, hr, if_true] at hx
        refine step_sound P U rs (r :: res) hUrs ?_ x hx
        intro y hy
        cases hy with
        | head => exact Derivable.step res (hU r (by simp)) h hr
        | tail _ hy => exact h y hy
      · simp only [step, hr] at hx
        exact step_sound P U rs res hUrs h x hx

/-- pending ∪ resolved is preserved by a pass -/
theorem step_partition (P : Provider) : ∀ p res x,
    (x ∈ p ∨ x ∈ res) ↔ (x ∈ (step P p res).1 ∨ x ∈ (step P p res).2)
  | [], res, x => by simp [step]
  | r :: rs, res, x => by
      by_cases hr : P.ready res r = true
      · simp only [step, hr, if_true]
        rw [← step_partition P rs (r :: res) x]
        simp only [List.mem_cons]; grind
      · simp only [step, hr]
        have := step_partition P rs res x
        simp only [List.mem_cons] at this ⊢; grind

/-- at a stuck fixpoint nothing pending is derivable (completeness) -/
theorem fixpoint_complete (P : Provider) (U p res : List Ref)
    (hstuck : ∀ r, r ∈ p → P.ready res r = false)
    (hall : ∀ x, x ∈ U → x ∈ p ∨ x ∈ res) :
    ∀ x, Derivable P U x → x ∈ res := by
  intro x hx
  induction hx with
  | step S hU hS hready ih =>
      rename_i r
      rcases hall r hU with hp | hr
      · have h1 := hstuck r hp
        have h2 := P.mono S res r ih hready
        simp [h1] at h2
      · exact hr

theorem step_stuck (P : Provider) : ∀ p res, (∀ r, r ∈ p → P.ready res r = false) → step P p res = (p, res)
  | [], res, _ => by simp [step]
  | r :: rs, res, h => by
      have hr : P.ready res r = false := h r (by simp)
      have ih := step_stuck P rs res (fun x hx => h x (by simp [hx]))
      simp [step, hr, ih]

/-- the loop ends with nothing pending, or with a pending list on which nobody is ready -/
theorem loop_fixpoint (P : Provider) : ∀ n p res, p.length < n →
    (loop P n p res).1 = [] ∨ ∀ r, r ∈ (loop P n p res).1 → P.ready (loop P n p res).2 r = false
  | 0, p, res, h => by omega
  | n+1, p, res, h => by
      simp only [loop]
      by_cases h1 : (step P p res).1 = [] ∨ (step P p res).1.length = p.length
      · simp only [h1, if_true]
        rcases h1 with h1 | h1
        · exact Or.inl h1
        · right
          have hs := step_noprogress P p res h1
          have hst := step_stuck P p res hs.2
          rw [hst]
          exact hs.2
      · simp only [h1, if_false]
        have hl := step_length P p res
        have : (step P p res).1.length ≠ p.length := fun e => h1 (Or.inr e)
        exact loop_fixpoint P n _ _ (by omega)

theorem step_pending_sub (P : Provider) : ∀ p res x, x ∈ (step P p res).1 → x ∈ p
  | [], res, x, h => by simp [step] at h
  | r :: rs, res, x, h => by
      by_cases hr : P.ready res r = true
      · simp only [step, hr, if_true] at h
        simp [step_pending_sub P rs (r :: res) x h]
      · simp only [step, hr] at h
        cases h with
        | head => simp
        | tail _ h => simp [step_pending_sub P rs res x h]

theorem loop_sound (P : Provider) (U : List Ref) : ∀ n p res, (∀ x, x ∈ p → x ∈ U) →
    (∀ x, x ∈ res → Derivable P U x) → ∀ x, x ∈ (loop P n p res).2 → Derivable P U x
  | 0, p, res, _, h, x, hx => by simpa [loop] using h x (by simpa [loop] using hx)
  | n+1, p, res, hU, h, x, hx => by
      simp only [loop] at hx
      have hs := step_sound P U p res hU h
      split at hx
      · exact hs x hx
      · exact loop_sound P U n _ _ (fun y hy => hU y (step_pending_sub P p res y hy)) hs x hx

theorem loop_partition (P : Provider) : ∀ n p res x,
    (x ∈ p ∨ x ∈ res) ↔ (x ∈ (loop P n p res).1 ∨ x ∈ (loop P n p res).2)
  | 0, p, res, x => by simp [loop]
  | n+1, p, res, x => by
      simp only [loop]
      split
      · exact step_partition P p res x
      · rw [step_partition P p res x]; exact loop_partition P n _ _ x

/-- C09 core: starting from all references pending, the loop resolves exactly the derivable ones -/
theorem loop_lfp (P : Provider) (refs : List Ref) (n : Nat) (hn : refs.length < n) (x : Ref) :
    x ∈ (loop P n refs []).2 ↔ Derivable P refs x := by
  constructor
  · exact loop_sound P refs n refs [] (fun _ h => h) (by simp) x
  · intro hd
    have hpart := loop_partition P n refs []
    rcases loop_fixpoint P n refs [] hn with hnil | hstuck
    · cases hd with
      | step S hU _ _ =>
        have := (hpart x).1 (Or.inl hU)
        simpa [hnil] using this
    · exact fixpoint_complete P refs _ _ hstuck (fun y hy => (hpart y).1 (Or.inl hy)) x hd
end Resolve

namespace Resolve

/-- the loop needs no more than `|pending| + 1` rounds: extra fuel changes nothing -/
theorem loop_fuel_succ (P : Provider) : ∀ n p res, p.length < n →
    loop P (n+1) p res = loop P n p res
  | 0, p, res, h => by omega
  | n+1, p, res, h => by
      rw [loop]
      conv => rhs; rw [loop]
      by_cases h1 : (step P p res).1 = [] ∨ (step P p res).1.length = p.length
      · simp only [h1, if_true]
      · simp only [h1, if_false]
        have hl := step_length P p res
        have : (step P p res).1.length ≠ p.length := fun e => h1 (Or.inr e)
        exact loop_fuel_succ P n _ _ (by omega)

theorem loop_fuel (P : Provider) (p res : List Ref) : ∀ n m, p.length < n → n ≤ m →
    loop P m p res = loop P n p res := by
  intro n m hn hm
  induction m with
  | zero => omega
  | succ m ih =>
    by_cases h : n = m + 1
    · subst h; rfl
    · rw [loop_fuel_succ P m p res (by omega)]
      exact ih (by omega)

theorem loop_pending_sub (P : Provider) : ∀ n p res x, x ∈ (loop P n p res).1 → x ∈ p
  | 0, p, res, x, h => by simpa [loop] using h
  | n+1, p, res, x, h => by
      simp only [loop] at h
      split at h
      · exact step_pending_sub P p res x h
      · exact step_pending_sub P p res x (loop_pending_sub P n _ _ x h)

/-- pending stays duplicate-free and disjoint from the resolved list -/
theorem step_disjoint (P : Provider) : ∀ p res, p.Nodup → (∀ x, x ∈ p → x ∉ res) →
    (step P p res).1.Nodup ∧ ∀ x, x ∈ (step P p res).1 → x ∉ (step P p res).2
  | [], res, _, _ => by simp [step]
  | r :: rs, res, hnd, hdis => by
      have hrs : rs.Nodup := (List.nodup_cons.1 hnd).2
      have hr : r ∉ rs := (List.nodup_cons.1 hnd).1
      by_cases hready : P.ready res r = true
      · simp only [step, hready, if_true]
        refine step_disjoint P rs (r :: res) hrs ?_
        intro x hx
        simp only [List.mem_cons, not_or]
        exact ⟨fun e => hr (e ▸ hx), hdis x (by simp [hx])⟩
      · simp only [step, hready]
        have ih := step_disjoint P rs res hrs (fun x hx => hdis x (by simp [hx]))
        have hsub : ∀ x, x ∈ (step P rs res).1 → x ∈ rs := step_pending_sub P rs res
        have hr2 : r ∉ (step P rs res).2 := by
          intro h
          have := (step_partition P rs res r).2 (Or.inr h)
          rcases this with h | h
          · exact hr h
          · exact hdis r (by simp) h
        refine ⟨List.nodup_cons.2 ⟨fun h => hr (hsub r h), ih.1⟩, ?_⟩
        intro x hx
        rcases List.mem_cons.1 hx with rfl | hx
        · exact hr2
        · exact ih.2 x hx

theorem loop_disjoint (P : Provider) : ∀ n p res, p.Nodup → (∀ x, x ∈ p → x ∉ res) →
    ∀ x, x ∈ (loop P n p res).1 → x ∉ (loop P n p res).2
  | 0, p, res, _, hdis, x, hx => by simpa [loop] using hdis x (by simpa [loop] using hx)
  | n+1, p, res, hnd, hdis, x, hx => by
      have hs := step_disjoint P p res hnd hdis
      simp only [loop] at hx ⊢
      split
      · rename_i h; simp only [h, if_true] at hx; exact hs.2 x hx
      · rename_i h; simp only [h, if_false] at hx
        exact loop_disjoint P n _ _ hs.1 hs.2 x hx

/-- `Derivable` does not depend on the order (or multiplicity) of the universe list -/
theorem Derivable.congr (P : Provider) (U U' : List Ref) (h : ∀ x, x ∈ U → x ∈ U') :
    ∀ x, Derivable P U x → Derivable P U' x := by
  intro x hx
  induction hx with
  | step S hU _ hready ih => exact Derivable.step S (h _ hU) ih hready

end Resolve
