import TextxVerif.KwdSrc
/-! Lemmas about the escape decoder of grammar string literals (C21). -/
namespace Kwd

theorem map_ne_fuel {x : Except DecErr (List Char)} {f : List Char → List Char}
    (h : x ≠ .error .fuel) : x.map f ≠ .error .fuel := by
  cases x with
  | ok v => simp [Except.map]
  | error e => simpa [Except.map] using h

theorem chrOf_rest {n : Nat} {r : List Char} {c : Char} {rest : List Char}
    (h : chrOf n r = .ok c rest) : rest = r := by
  unfold chrOf at h
  split at h
  · injection h with _ h2; exact h2.symm
  · split at h <;> cases h

theorem hexEsc_len {k : Nat} {cs : List Char} {c : Char} {rest : List Char}
    (h : hexEsc k cs = .ok c rest) : rest.length ≤ cs.length := by
  unfold hexEsc at h
  simp only at h
  split at h
  · split at h
    · rw [chrOf_rest h]; simp
    · cases h
  · cases h

theorem nameEsc_len {names : Names} {cs : List Char} {c : Char} {rest : List Char}
    (h : nameEsc names cs = .ok c rest) : rest.length ≤ cs.length := by
  unfold nameEsc at h
  split at h
  · simp only at h
    split at h
    · split at h
      · injection h with _ h2; subst h2; simp; omega
      · cases h
    · cases h
  · cases h

/-- an escape sequence consumes at least nothing: the text after it is no longer than the text
after the backslash -/
theorem escape_len {names : Names} {cs : List Char} {c : Char} {rest : List Char}
    (h : escape names cs = .ok c rest) : rest.length ≤ cs.length := by
  unfold escape at h
  split at h
  · cases h
  · rename_i d ds
    split at h
    · have := hexEsc_len h; simp; omega
    · split at h
      · have := hexEsc_len h; simp; omega
      · split at h
        · have := hexEsc_len h; simp; omega
        · split at h
          · simp only at h
            rw [chrOf_rest h]; simp; omega
          · split at h
            · have := nameEsc_len h; simp; omega
            · split at h
              · injection h with _ h2; subst h2; simp
              · cases h

theorem decAux_ne_fuel (names : Names) : ∀ (n : Nat) (s : List Char), s.length ≤ n →
    decAux names n s ≠ .error .fuel := by
  intro n
  induction n using Nat.strongRecOn with
  | _ n ih =>
    intro s hs
    cases s with
    | nil => simp [decAux]
    | cons c cs =>
      cases n with
      | zero => simp at hs
      | succ n =>
        simp only [List.length_cons] at hs
        unfold decAux
        split
        · split
          · rename_i ch rest hesc
            have hl := escape_len hesc
            exact map_ne_fuel (ih n (by omega) rest (by omega))
          · simp
          · simp
          · exact map_ne_fuel (ih n (by omega) cs (by omega))
        · exact map_ne_fuel (ih n (by omega) cs (by omega))

/-- the fuel of the decoder (the length of the text) never runs out -/
theorem decodeEscapes_ne_fuel (names : Names) (s : List Char) : decodeEscapes names s ≠ .error .fuel :=
  decAux_ne_fuel names s.length s (Nat.le_refl _)

theorem decAux_plain (names : Names) : ∀ (n : Nat) (s : List Char), s.length ≤ n → '\\' ∉ s →
    decAux names n s = .ok s := by
  intro n
  induction n with
  | zero =>
    intro s hs _
    cases s with
    | nil => simp [decAux]
    | cons c cs => simp at hs
  | succ n ih =>
    intro s hs hb
    cases s with
    | nil => simp [decAux]
    | cons c cs =>
      simp only [List.mem_cons, not_or] at hb
      simp only [List.length_cons] at hs
      have hc : ¬ c = '\\' := fun h => hb.1 h.symm
      simp only [decAux, hc, if_false, ih cs (by omega) hb.2, Except.map]

/-- a text without a backslash is its own decoding (the guard `if "\\" in to_match` is an optimisation) -/
theorem decodeEscapes_plain (names : Names) (s : List Char) (h : '\\' ∉ s) : decodeEscapes names s = .ok s :=
  decAux_plain names s.length s (Nat.le_refl _) h

/-- the guard is transparent: a token denotes the decoding of the text between its quotes -/
theorem litOfSrc_eq (names : Names) (tok : List Char) : litOfSrc names tok = decodeEscapes names (unquote tok) := by
  unfold litOfSrc
  simp only
  split
  · rfl
  · rename_i h
    rw [decodeEscapes_plain]
    simpa using h

end Kwd
