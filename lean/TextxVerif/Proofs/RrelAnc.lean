import TextxVerif.Proofs.RrelTerm
/-!
An independent meaning for `anc` / `root` (and with them for `parent(T)`, the dots and the
"model root" of leading navigation steps).

`anc H o = ancF H H.depth o` walks up `H.depth` times at most.  On a finite heap `U` with
acyclic parent chains and `U.length ≤ H.depth` the truncation never happens:

* `mem_anc_iff`  — `p ∈ anc H o ↔ TransGen (ParentOf H) o p` (the strict ancestors);
* `anc_unfold`   — `anc H o = []` for a root, `p :: anc H p` when `o.parent = p`
                   (the fuel-free reading of `while hasattr(obj, "parent"): obj = obj.parent`);
* `anc_getElem`  — `(anc H o)[k]? = parentIter H (k+1) o` (the `(k+1)`-fold parent, for every `k`);
* `root_spec`    — `root H o` has no parent and is `o` or an ancestor of `o`.

The driver's heaps have `depth = number of objects`, i.e. `U = [0, …, depth-1]`.
-/
namespace Rrel

/-- `b = a.parent` -/
def ParentOf (H : Heap) (a b : Obj) : Prop := H.parent a = some b

/-- the `k`-fold parent (`none`: the chain ends earlier) -/
def parentIter (H : Heap) : Nat → Obj → Option Obj
  | 0, o => some o
  | k+1, o => (H.parent o).bind (parentIter H k)

/-- parent chains do not return to their start -/
def Acyclic (H : Heap) : Prop := ∀ a, ¬ Relation.TransGen (ParentOf H) a a

/-- a rank that decreases along `parent` (e.g. the nesting depth of a containment tree)
excludes cycles -/
theorem acyclic_of_rank (H : Heap) (rk : Obj → Nat)
    (h : ∀ a b, H.parent a = some b → rk b < rk a) : Acyclic H := by
  have key : ∀ a b, Relation.TransGen (ParentOf H) a b → rk b < rk a := by
    intro a b hab
    induction hab with
    | single h1 => exact h _ _ h1
    | tail _ h2 ih => exact Nat.lt_trans (h _ _ h2) ih
  intro a ha
  exact Nat.lt_irrefl _ (key a a ha)

theorem ancF_trans (H : Heap) : ∀ (n : Nat) (o p : Obj), p ∈ ancF H n o →
    Relation.TransGen (ParentOf H) o p
  | 0, o, p, h => by simp [ancF] at h
  | n+1, o, p, h => by
    simp only [ancF] at h
    cases hp : H.parent o with
    | none => simp [hp] at h
    | some q =>
      simp only [hp, List.mem_cons] at h
      rcases h with h | h
      · rw [h]; exact .single hp
      · exact Relation.TransGen.trans (.single hp) (ancF_trans H n q p h)

/-- the chain `o, parent o, …` has no repetition on an acyclic heap -/
theorem ancF_nodup (H : Heap) (hac : Acyclic H) : ∀ (n : Nat) (o : Obj), (o :: ancF H n o).Nodup
  | 0, o => by simp [ancF]
  | n+1, o => by
    rw [List.nodup_cons]
    refine ⟨fun hm => hac o (ancF_trans H (n+1) o o hm), ?_⟩
    simp only [ancF]
    cases hp : H.parent o with
    | none => simp
    | some q => exact ancF_nodup H hac n q

theorem ancF_length_le (H : Heap) : ∀ (n : Nat) (o : Obj), (ancF H n o).length ≤ n
  | 0, o => by simp [ancF]
  | n+1, o => by
    simp only [ancF]
    cases hp : H.parent o with
    | none => simp
    | some q => have := ancF_length_le H n q; simp; omega

/-- once the chain has ended, more fuel changes nothing -/
theorem ancF_sat (H : Heap) : ∀ (n : Nat) (o : Obj), (ancF H n o).length < n →
    ancF H (n+1) o = ancF H n o
  | 0, o, h => by simp at h
  | n+1, o, h => by
    rw [ancF]
    conv => rhs; rw [ancF]
    cases hp : H.parent o with
    | none => rfl
    | some q =>
      simp only [ancF, hp, List.length_cons] at h
      simp only
      rw [ancF_sat H n q (by omega)]

/-- … and the object reached last has no parent -/
theorem ancF_last (H : Heap) : ∀ (n : Nat) (o : Obj), (ancF H n o).length < n →
    H.parent ((ancF H n o).getLast?.getD o) = none
  | 0, o, h => by simp at h
  | n+1, o, h => by
    simp only [ancF] at h ⊢
    cases hp : H.parent o with
    | none => simp [hp]
    | some q =>
      simp only [hp, List.length_cons] at h
      simp only [List.getLast?_cons, Option.getD_some]
      exact ancF_last H n q (by omega)

theorem ancF_step (H : Heap) : ∀ (n : Nat) (o b c : Obj), b ∈ ancF H n o → H.parent b = some c →
    c ∈ ancF H (n+1) o
  | 0, o, b, c, h, _ => by simp [ancF] at h
  | n+1, o, b, c, h, hb => by
    rw [ancF]
    simp only [ancF] at h
    cases hp : H.parent o with
    | none => simp [hp] at h
    | some q =>
      simp only [hp, List.mem_cons] at h ⊢
      rcases h with h | h
      · right
        subst h
        cases n with
        | zero => simp [ancF, hb]
        | succ n => simp [ancF, hb]
      · right; exact ancF_step H n q b c h hb

theorem ancF_getElem (H : Heap) : ∀ (n k : Nat) (o : Obj), k < n →
    (ancF H n o)[k]? = parentIter H (k+1) o
  | 0, k, o, h => by omega
  | n+1, k, o, h => by
    simp only [ancF, parentIter]
    cases hp : H.parent o with
    | none => simp
    | some q =>
      cases k with
      | zero => simp [parentIter]
      | succ k =>
        simp only [List.getElem?_cons_succ, Option.bind_some]
        rw [ancF_getElem H n k q (by omega)]

section
variable {H : Heap} {U : List Obj}

/-- on a finite acyclic heap every chain is shorter than the number of objects -/
theorem ancF_short (hU : FinHeap H U) (hac : Acyclic H) (n : Nat) (o : Obj) (ho : o ∈ U) :
    (ancF H n o).length < U.length := by
  have h1 := ancF_nodup H hac n o
  have h2 : (o :: ancF H n o) ⊆ U := by
    intro x hx
    rcases List.mem_cons.mp hx with hx | hx
    · rw [hx]; exact ho
    · exact ancF_mem hU n o ho x hx
  have := List.Nodup.length_le_of_subset h1 h2
  simp only [List.length_cons] at this
  omega

/-- with `U.length ≤ fuel` the fuel does not matter -/
theorem ancF_stable (hU : FinHeap H U) (hac : Acyclic H) (o : Obj) (ho : o ∈ U) :
    ∀ (m n : Nat), U.length ≤ n → ancF H (n + m) o = ancF H n o
  | 0, n, _ => rfl
  | m+1, n, hn => by
    have h1 := ancF_stable hU hac o ho m n hn
    have h2 := ancF_short hU hac (n + m) o ho
    rw [← Nat.add_assoc, ancF_sat H (n + m) o (by omega), h1]

theorem parentIter_short (hU : FinHeap H U) (hac : Acyclic H) (o : Obj) (ho : o ∈ U) (k : Nat) (p : Obj)
    (h : parentIter H k o = some p) : k < U.length := by
  cases k with
  | zero => exact List.length_pos_of_mem ho
  | succ k =>
    have h1 := ancF_getElem H (k+1) k o (by omega)
    rw [h] at h1
    have h2 : k < (ancF H (k+1) o).length := by
      rcases Nat.lt_or_ge k (ancF H (k+1) o).length with h3 | h3
      · exact h3
      · rw [List.getElem?_eq_none h3] at h1; cases h1
    have := ancF_short hU hac (k+1) o ho
    omega

theorem anc_getElem (hU : FinHeap H U) (hd : U.length ≤ H.depth) (hac : Acyclic H) (o : Obj)
    (ho : o ∈ U) (k : Nat) : (anc H o)[k]? = parentIter H (k+1) o := by
  rcases Nat.lt_or_ge k H.depth with hk | hk
  · exact ancF_getElem H H.depth k o hk
  · have h1 : (anc H o)[k]? = none :=
      List.getElem?_eq_none (Nat.le_trans (ancF_length_le H H.depth o) hk)
    rw [h1]
    cases h2 : parentIter H (k+1) o with
    | none => rfl
    | some p =>
      have := parentIter_short hU hac o ho (k+1) p h2
      omega

theorem anc_unfold (hU : FinHeap H U) (hd : U.length ≤ H.depth) (hac : Acyclic H) (o : Obj)
    (ho : o ∈ U) :
    anc H o = match H.parent o with
      | none => []
      | some p => p :: anc H p := by
  have hpos : 0 < H.depth := Nat.lt_of_lt_of_le (List.length_pos_of_mem ho) hd
  obtain ⟨d, hdep⟩ : ∃ d, H.depth = d + 1 := ⟨H.depth - 1, by omega⟩
  simp only [anc, hdep]
  rw [ancF]
  cases hp : H.parent o with
  | none => rfl
  | some p =>
    simp only
    have h1 := ancF_short hU hac (d + 1) o ho
    simp only [ancF, hp, List.length_cons] at h1
    rw [ancF_sat H d p (by omega)]

theorem mem_anc_iff (hU : FinHeap H U) (hd : U.length ≤ H.depth) (hac : Acyclic H) (o : Obj)
    (ho : o ∈ U) (p : Obj) : p ∈ anc H o ↔ Relation.TransGen (ParentOf H) o p := by
  constructor
  · exact ancF_trans H H.depth o p
  · intro h
    have hsat : ancF H (H.depth + 1) o = ancF H H.depth o :=
      ancF_sat H H.depth o (Nat.lt_of_lt_of_le (ancF_short hU hac H.depth o ho) hd)
    induction h with
    | single h =>
      rename_i b
      have hpos : 0 < H.depth := Nat.lt_of_lt_of_le (List.length_pos_of_mem ho) hd
      obtain ⟨d, hdep⟩ : ∃ d, H.depth = d + 1 := ⟨H.depth - 1, by omega⟩
      have h' : H.parent o = some b := h
      simp [anc, hdep, ancF, h']
    | tail _ hbc ih =>
      have := ancF_step H H.depth o _ _ ih hbc
      rw [hsat] at this
      exact this

theorem root_spec (hU : FinHeap H U) (hd : U.length ≤ H.depth) (hac : Acyclic H) (o : Obj)
    (ho : o ∈ U) :
    H.parent (root H o) = none ∧ (root H o = o ∨ Relation.TransGen (ParentOf H) o (root H o)) := by
  refine ⟨ancF_last H H.depth o (Nat.lt_of_lt_of_le (ancF_short hU hac H.depth o ho) hd), ?_⟩
  simp only [root]
  cases hl : (anc H o).getLast? with
  | none => left; rfl
  | some r =>
    right
    simp only [Option.getD_some]
    exact ancF_trans H H.depth o r (List.mem_of_getLast? hl)

end

end Rrel
