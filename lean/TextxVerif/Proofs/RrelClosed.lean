import TextxVerif.Proofs.Rrel
/-!
Completeness of the RREL search — part 1: when the search gives up (`Res.cont W`),
the final visited set `W` is *closed*: every key in it satisfies the closure
condition of its node (`KeyCond`), with respect to the (static) continuation of
that node.  Continuations are described by coverage predicates `Cov`.
-/
set_option linter.unusedVariables false
namespace Rrel

/-- "handing `(o, ns)` to this consumer is covered by the visited set `V`" -/
abbrev Cov := Vis → Obj → List String → Prop

def inV (i : Nat) : Cov := fun V o ns => (o, i, ns.length) ∈ V

/-- a non-first evaluation of `e` at `(o, ns)` is covered: the guards it starts with are in `V` -/
def entry : E → Cov
  | .atom i _ => inV i
  | .grp i _ => inV i
  | .star i _ => inV i
  | .alt a b => fun V o ns => entry a V o ns ∧ entry b V o ns
  | .cat a _ => entry a

def Mono (κ : Cov) : Prop := ∀ V V' o ns, (∀ x ∈ V, x ∈ V') → κ V o ns → κ V' o ns

/-- the guarded nodes of `e`, each with the coverage predicate of its consumer, given the
one of `e` itself -/
def nodes : E → Cov → List (E × Cov)
  | .atom i a, κ => [(.atom i a, κ)]
  | .grp i e, κ => (.grp i e, κ) :: nodes e κ
  | .alt a b, κ => nodes a κ ++ nodes b κ
  | .cat a b, κ => nodes a (entry b) ++ nodes b κ
  | .star i e, κ => (.star i e, κ) :: nodes e (inV i)

def nid : E → Option Nat
  | .atom i _ => some i
  | .grp i _ => some i
  | .star i _ => some i
  | _ => none

/-- closure condition of one key of a guarded node -/
def KeyCond (H : Heap) (ns0 : List String) (V : Vis) : E → Cov → Key → Prop
  | .atom _ a, κ, x => ∀ ns, ns <:+ ns0 → ns.length = x.2.2 →
      ∀ l, atomRes H a false x.1 ns = some l → ∀ r ∈ l, κ V r.1 r.2.1
  | .grp _ e, _, x => ∀ ns, ns <:+ ns0 → ns.length = x.2.2 → entry e V x.1 ns
  | .star _ e, κ, x => ∀ ns, ns <:+ ns0 → ns.length = x.2.2 → κ V x.1 ns ∧ entry e V x.1 ns
  | .alt _ _, _, _ => True
  | .cat _ _, _, _ => True

/-- key `x` satisfies the closure condition of the node(s) of `N` it belongs to -/
def Good (H : Heap) (ns0 : List String) (N : List (E × Cov)) (V : Vis) (x : Key) : Prop :=
  ∀ p ∈ N, nid p.1 = some x.2.1 → KeyCond H ns0 V p.1 p.2 x

/-- a *first* evaluation of `e` from `s` is covered -/
def CovF (H : Heap) : E → Cov → Vis → St → Prop
  | .atom _ a, κ, V, s => ∀ l, atomRes H a true s.o s.ns = some l → ∀ r ∈ l, κ V r.1 r.2.1
  | .grp _ e, κ, V, s => CovF H e κ V s
  | .alt a b, κ, V, s => CovF H a κ V s ∧ CovF H b κ V s
  | .cat a b, _, V, s => CovF H a (entry b) V s
  | .star i e, κ, V, s => (∀ z ∈ zeros H e true s, κ V z.o z.ns) ∧ CovF H e (inV i) V s

theorem inV_mono (i : Nat) : Mono (inV i) := fun _ _ _ _ h hx => h _ hx

theorem entry_mono : ∀ e : E, Mono (entry e)
  | .atom i _ => inV_mono i
  | .grp i _ => inV_mono i
  | .star i _ => inV_mono i
  | .alt a b => fun V V' o ns h hx => ⟨entry_mono a V V' o ns h hx.1, entry_mono b V V' o ns h hx.2⟩
  | .cat a _ => entry_mono a

theorem KeyCond_mono (H : Heap) (ns0 : List String) (V V' : Vis) (h : ∀ x ∈ V, x ∈ V')
    (e : E) (κ : Cov) (hκ : Mono κ) (x : Key) (hc : KeyCond H ns0 V e κ x) :
    KeyCond H ns0 V' e κ x := by
  cases e with
  | atom i a => exact fun ns h1 h2 l h3 r h4 => hκ V V' _ _ h (hc ns h1 h2 l h3 r h4)
  | grp i e => exact fun ns h1 h2 => entry_mono e V V' _ _ h (hc ns h1 h2)
  | star i e =>
    exact fun ns h1 h2 => ⟨hκ V V' _ _ h (hc ns h1 h2).1, entry_mono e V V' _ _ h (hc ns h1 h2).2⟩
  | alt a b => trivial
  | cat a b => trivial

theorem CovF_mono (H : Heap) : ∀ (e : E) (κ : Cov), Mono κ → ∀ (V V' : Vis) (s : St),
    (∀ x ∈ V, x ∈ V') → CovF H e κ V s → CovF H e κ V' s
  | .atom _ a, κ, hκ, V, V', s, h, hc => fun l h1 r h2 => hκ V V' _ _ h (hc l h1 r h2)
  | .grp _ e, κ, hκ, V, V', s, h, hc => CovF_mono H e κ hκ V V' s h hc
  | .alt a b, κ, hκ, V, V', s, h, hc =>
    ⟨CovF_mono H a κ hκ V V' s h hc.1, CovF_mono H b κ hκ V V' s h hc.2⟩
  | .cat a b, _, _, V, V', s, h, hc => CovF_mono H a (entry b) (entry_mono b) V V' s h hc
  | .star i e, κ, hκ, V, V', s, h, hc =>
    ⟨fun z hz => hκ V V' _ _ h (hc.1 z hz), CovF_mono H e (inV i) (inV_mono i) V V' s h hc.2⟩

theorem suffix_unique {a b l : List String} (ha : a <:+ l) (hb : b <:+ l)
    (hlen : a.length = b.length) : a = b :=
  (List.suffix_of_suffix_length_le ha hb (Nat.le_of_eq hlen)).eq_of_length hlen

theorem atomRes_ns (H : Heap) (a : Atom) (f : Bool) (o : Obj) (ns : List String)
    (l : List (Obj × List String × Bool)) (r : Obj × List String × Bool)
    (h : atomRes H a f o ns = some l) (hr : r ∈ l) : r.2.1 <:+ ns := by
  have hs := atomRes_sound H a f o ns l r h hr
  cases a with
  | nav attr m =>
    obtain ⟨_, _, _, l', _, _, _, hc⟩ := hs
    cases m with
    | tilde => simp [Cand] at hc; rw [hc.2.1]; exact List.suffix_refl _
    | fixed fx => simp [Cand] at hc; rw [hc.2.2.1]; exact List.suffix_refl _
    | consume =>
      simp only [Cand] at hc
      obtain ⟨_, n, h1, _⟩ := hc
      rw [h1]; exact List.suffix_cons _ _
  | parent T =>
    obtain ⟨_, _, _, _, _, h4, _⟩ := hs
    rw [h4]; exact List.suffix_refl _
  | dots n =>
    obtain ⟨_, h4, _⟩ := hs
    rw [h4]; exact List.suffix_refl _

section closed
variable (H : Heap) (ns0 : List String) (N : List (E × Cov)) (A : Nat → Prop)

/-- contract of a consumer with coverage predicate `κ`: when it gives up, the visited set
only grew, the value handed over is covered, and every new key is good and allowed -/
def KOK (k : St → Vis → Res) (κ : Cov) : Prop :=
  ∀ t V1 V2, t.ns <:+ ns0 → k t V1 = .cont V2 →
    (∀ x ∈ V1, x ∈ V2) ∧ κ V2 t.o t.ns ∧ (∀ x ∈ V2, x ∉ V1 → Good H ns0 N V2 x ∧ A x.2.1)

variable {H ns0 N A}

theorem Good_mono (hNmono : ∀ p ∈ N, Mono p.2) {V V' : Vis} (h : ∀ x ∈ V, x ∈ V') {x : Key}
    (hg : Good H ns0 N V x) : Good H ns0 N V' x :=
  fun p hp hid => KeyCond_mono H ns0 V V' h p.1 p.2 (hNmono p hp) x (hg p hp hid)

theorem feed_closed (hNmono : ∀ p ∈ N, Mono p.2) {k : St → Vis → Res} {κ : Cov}
    (hk : KOK H ns0 N A k κ) (hκ : Mono κ) :
    ∀ (l : List St) (V V' : Vis), (∀ t ∈ l, t.ns <:+ ns0) → feed k l V = .cont V' →
      (∀ x ∈ V, x ∈ V') ∧ (∀ t ∈ l, κ V' t.o t.ns) ∧
      (∀ x ∈ V', x ∉ V → Good H ns0 N V' x ∧ A x.2.1)
  | [], V, V', _, h => by
    simp only [feed, Res.cont.injEq] at h
    subst h
    exact ⟨fun _ hx => hx, by simp, fun x hx hnx => absurd hx hnx⟩
  | t :: ts, V, V', hs, h => by
    simp only [feed] at h
    cases hkt : k t V with
    | cont V1 =>
      simp only [hkt] at h
      obtain ⟨h1, h2, h3⟩ := hk t V V1 (hs t (by simp)) hkt
      obtain ⟨h4, h5, h6⟩ := feed_closed hNmono hk hκ ts V1 V' (fun u hu => hs u (by simp [hu])) h
      refine ⟨fun x hx => h4 x (h1 x hx), ?_, ?_⟩
      · intro u hu
        rcases List.mem_cons.1 hu with rfl | hu
        · exact hκ V1 V' _ _ h4 h2
        · exact h5 u hu
      · intro x hx hnx
        by_cases hx1 : x ∈ V1
        · exact ⟨Good_mono hNmono h4 (h3 x hx1 hnx).1, (h3 x hx1 hnx).2⟩
        · exact h6 x hx hx1
    | found s => simp [hkt] at h
    | postponed => simp [hkt] at h
    | fuel => simp [hkt] at h

/-- a key that was just guarded: good as soon as the closure condition of *its* node holds -/
theorem good_of_keyCond (hNinj : ∀ p ∈ N, ∀ q ∈ N, nid p.1 = nid q.1 → nid p.1 ≠ none → p = q)
    {e : E} {κ : Cov} {i : Nat} (he : (e, κ) ∈ N) (hid : nid e = some i) {V : Vis} {x : Key}
    (hx : x.2.1 = i) (hc : KeyCond H ns0 V e κ x) : Good H ns0 N V x := by
  intro p hp hpid
  have : p = (e, κ) := hNinj p hp (e, κ) he (by rw [hpid, hid, hx]) (by rw [hpid]; simp)
  subst this
  exact hc

theorem guard_cases (f : Bool) (s : St) (i : Nat) (V : Vis) :
    (f = true ∧ guard f s i V = some V) ∨
    (f = false ∧ key s i ∈ V ∧ guard f s i V = none) ∨
    (f = false ∧ key s i ∉ V ∧ guard f s i V = some (key s i :: V)) := by
  cases f with
  | true => left; simp [guard]
  | false =>
    by_cases h : key s i ∈ V
    · right; left; simp [guard, h]
    · right; right; simp [guard, h]

theorem next_ns_suffix {a : Atom} {f : Bool} {s : St} {l0 : List (Obj × List String × Bool)}
    (ha : atomRes H a f s.o s.ns = some l0) (hs : s.ns <:+ ns0) :
    ∀ t ∈ l0.map s.next, t.ns <:+ ns0 := by
  intro t ht
  obtain ⟨r, hr, rfl⟩ := List.mem_map.1 ht
  exact (atomRes_ns H a f s.o s.ns l0 r ha hr).trans hs

/-- **closure**: a sub-evaluation that gives up leaves every key it added good -/
theorem eval_closed (hNinj : ∀ p ∈ N, ∀ q ∈ N, nid p.1 = nid q.1 → nid p.1 ≠ none → p = q)
    (hNmono : ∀ p ∈ N, Mono p.2) :
    ∀ (n : Nat) (e : E) (f : Bool) (s : St) (V : Vis) (k : St → Vis → Res) (κ : Cov) (V' : Vis),
      s.ns <:+ ns0 → Mono κ → (∀ p ∈ nodes e κ, p ∈ N) → (∀ i ∈ e.ids, A i) →
      KOK H ns0 N A k κ → eval H n e f s V k = .cont V' →
      (∀ x ∈ V, x ∈ V') ∧ (∀ x ∈ V', x ∉ V → Good H ns0 N V' x ∧ A x.2.1) ∧
      (f = true → CovF H e κ V' s) ∧ (f = false → entry e V' s.o s.ns) := by
  intro n
  induction n with
  | zero => intro e f s V k κ V' _ _ _ _ _ h; simp [eval] at h
  | succ n ih =>
    intro e f s V k κ V' hs hκ hN hA hk h
    cases e with
    | atom i a =>
      simp only [eval] at h
      have hin : (E.atom i a, κ) ∈ N := hN _ (by simp [nodes])
      rcases guard_cases f s i V with ⟨hf, hg⟩ | ⟨hf, hmem, hg⟩ | ⟨hf, hmem, hg⟩
      · simp only [hg] at h
        cases ha : atomRes H a f s.o s.ns with
        | none => simp [applyAtom, ha] at h
        | some l0 =>
          simp only [applyAtom, ha, Option.map] at h
          obtain ⟨h1, h2, h3⟩ := feed_closed hNmono hk hκ _ V V' (next_ns_suffix ha hs) h
          refine ⟨h1, h3, fun _ => ?_, fun hf' => by simp [hf] at hf'⟩
          intro l hl r hr
          subst hf
          rw [ha] at hl
          cases hl
          exact h2 (s.next r) (List.mem_map.2 ⟨r, hr, rfl⟩)
      · simp only [hg] at h
        cases h
        exact ⟨fun _ hx => hx, fun x hx hnx => absurd hx hnx, fun hf' => by simp [hf] at hf',
          fun _ => hmem⟩
      · simp only [hg] at h
        cases ha : atomRes H a f s.o s.ns with
        | none => simp [applyAtom, ha] at h
        | some l0 =>
          simp only [applyAtom, ha, Option.map] at h
          obtain ⟨h1, h2, h3⟩ := feed_closed hNmono hk hκ _ _ V' (next_ns_suffix ha hs) h
          refine ⟨fun x hx => h1 x (List.mem_cons_of_mem _ hx), ?_, fun hf' => by simp [hf] at hf',
            fun _ => h1 _ (List.mem_cons_self ..)⟩
          intro x hx hnx
          by_cases hxk : x = key s i
          · subst hxk
            refine ⟨good_of_keyCond hNinj hin rfl rfl ?_, hA i (by simp [E.ids])⟩
            intro ns hsuf hlen l hl r hr
            have hns : ns = s.ns := suffix_unique hsuf hs hlen
            subst hns
            subst hf
            have hl' : atomRes H a false s.o s.ns = some l := hl
            rw [ha] at hl'
            cases hl'
            exact h2 (s.next r) (List.mem_map.2 ⟨r, hr, rfl⟩)
          · exact h3 x hx (by simp [hxk, hnx])
    | grp i e =>
      simp only [eval] at h
      have hin : (E.grp i e, κ) ∈ N := hN _ (by simp [nodes])
      have hN' : ∀ p ∈ nodes e κ, p ∈ N := fun p hp => hN p (by simp [nodes, hp])
      have hA' : ∀ j ∈ e.ids, A j := fun j hj => hA j (by simp [E.ids, hj])
      rcases guard_cases f s i V with ⟨hf, hg⟩ | ⟨hf, hmem, hg⟩ | ⟨hf, hmem, hg⟩
      · simp only [hg] at h
        obtain ⟨h1, h2, h3, h4⟩ := ih e f s V k κ V' hs hκ hN' hA' hk h
        exact ⟨h1, h2, fun hf' => h3 hf', fun hf' => by simp [hf] at hf'⟩
      · simp only [hg] at h
        cases h
        exact ⟨fun _ hx => hx, fun x hx hnx => absurd hx hnx, fun hf' => by simp [hf] at hf',
          fun _ => hmem⟩
      · simp only [hg] at h
        obtain ⟨h1, h2, h3, h4⟩ := ih e f s _ k κ V' hs hκ hN' hA' hk h
        refine ⟨fun x hx => h1 x (List.mem_cons_of_mem _ hx), ?_, fun hf' => by simp [hf] at hf',
          fun _ => h1 _ (List.mem_cons_self ..)⟩
        intro x hx hnx
        by_cases hxk : x = key s i
        · subst hxk
          refine ⟨good_of_keyCond hNinj hin rfl rfl ?_, hA i (by simp [E.ids])⟩
          intro ns hsuf hlen
          have hns : ns = s.ns := suffix_unique hsuf hs hlen
          subst hns
          exact h4 hf
        · exact h2 x hx (by simp [hxk, hnx])
    | alt a b =>
      simp only [eval] at h
      have hNa : ∀ p ∈ nodes a κ, p ∈ N := fun p hp => hN p (by simp [nodes, hp])
      have hNb : ∀ p ∈ nodes b κ, p ∈ N := fun p hp => hN p (by simp [nodes, hp])
      have hAa : ∀ j ∈ a.ids, A j := fun j hj => hA j (by simp [E.ids, hj])
      have hAb : ∀ j ∈ b.ids, A j := fun j hj => hA j (by simp [E.ids, hj])
      cases hea : eval H n a f s V k with
      | cont V1 =>
        simp only [hea] at h
        obtain ⟨a1, a2, a3, a4⟩ := ih a f s V k κ V1 hs hκ hNa hAa hk hea
        obtain ⟨b1, b2, b3, b4⟩ := ih b f s V1 k κ V' hs hκ hNb hAb hk h
        refine ⟨fun x hx => b1 x (a1 x hx), ?_, ?_, ?_⟩
        · intro x hx hnx
          by_cases hx1 : x ∈ V1
          · exact ⟨Good_mono hNmono b1 (a2 x hx1 hnx).1, (a2 x hx1 hnx).2⟩
          · exact b2 x hx hx1
        · intro hf
          exact ⟨CovF_mono H a κ hκ V1 V' s b1 (a3 hf), b3 hf⟩
        · intro hf
          exact ⟨entry_mono a V1 V' _ _ b1 (a4 hf), b4 hf⟩
      | found s' => simp [hea] at h
      | postponed => simp [hea] at h
      | fuel => simp [hea] at h
    | cat a b =>
      simp only [eval] at h
      have hNa : ∀ p ∈ nodes a (entry b), p ∈ N := fun p hp => hN p (by simp [nodes, hp])
      have hNb : ∀ p ∈ nodes b κ, p ∈ N := fun p hp => hN p (by simp [nodes, hp])
      have hAa : ∀ j ∈ a.ids, A j := fun j hj => hA j (by simp [E.ids, hj])
      have hAb : ∀ j ∈ b.ids, A j := fun j hj => hA j (by simp [E.ids, hj])
      have hk1 : KOK H ns0 N A (fun m V1 => eval H n b false m V1 k) (entry b) := by
        intro t V1 V2 ht hkt
        obtain ⟨b1, b2, _, b4⟩ := ih b false t V1 k κ V2 ht hκ hNb hAb hk hkt
        exact ⟨b1, b4 rfl, b2⟩
      obtain ⟨a1, a2, a3, a4⟩ := ih a f s V _ (entry b) V' hs (entry_mono b) hNa hAa hk1 h
      exact ⟨a1, a2, a3, a4⟩
    | star i e =>
      simp only [eval] at h
      have hin : (E.star i e, κ) ∈ N := hN _ (by simp [nodes])
      have hN' : ∀ p ∈ nodes e (inV i), p ∈ N := fun p hp => hN p (by simp [nodes, hp])
      have hA' : ∀ j ∈ e.ids, A j := fun j hj => hA j (by simp [E.ids, hj])
      have hk1 : KOK H ns0 N A (fun m V3 => eval H n (.star i e) false m V3 k) (inV i) := by
        intro t V1 V2 ht hkt
        obtain ⟨b1, b2, _, b4⟩ := ih (.star i e) false t V1 k κ V2 ht hκ hN hA hk hkt
        exact ⟨b1, b4 rfl, b2⟩
      have hzs : ∀ t ∈ zeros H e f s, t.ns <:+ ns0 := by
        intro t ht
        simp only [zeros] at ht
        split at ht
        · simp only [List.mem_append] at ht
          rcases ht with ht | ht
          · split at ht
            · simp at ht; subst ht; exact hs
            · simp at ht
          · split at ht
            · simp at ht; subst ht; exact hs
            · simp at ht
        · simp at ht; subst ht; exact hs
      rcases guard_cases f s i V with ⟨hf, hg⟩ | ⟨hf, hmem, hg⟩ | ⟨hf, hmem, hg⟩
      · simp only [hg] at h
        cases hz : feed k (zeros H e f s) V with
        | cont V2 =>
          simp only [hz] at h
          obtain ⟨z1, z2, z3⟩ := feed_closed hNmono hk hκ _ V V2 hzs hz
          obtain ⟨e1, e2, e3, e4⟩ := ih e f s V2 _ (inV i) V' hs (inV_mono i) hN' hA' hk1 h
          refine ⟨fun x hx => e1 x (z1 x hx), ?_, ?_, fun hf' => by simp [hf] at hf'⟩
          · intro x hx hnx
            by_cases hx2 : x ∈ V2
            · exact ⟨Good_mono hNmono e1 (z3 x hx2 hnx).1, (z3 x hx2 hnx).2⟩
            · exact e2 x hx hx2
          · intro _
            subst hf
            exact ⟨fun z hz' => hκ V2 V' _ _ e1 (z2 z hz'), e3 rfl⟩
        | found s' => simp [hz] at h
        | postponed => simp [hz] at h
        | fuel => simp [hz] at h
      · simp only [hg] at h
        cases h
        exact ⟨fun _ hx => hx, fun x hx hnx => absurd hx hnx, fun hf' => by simp [hf] at hf',
          fun _ => hmem⟩
      · simp only [hg] at h
        cases hz : feed k (zeros H e f s) (key s i :: V) with
        | cont V2 =>
          simp only [hz] at h
          obtain ⟨z1, z2, z3⟩ := feed_closed hNmono hk hκ _ _ V2 hzs hz
          obtain ⟨e1, e2, e3, e4⟩ := ih e f s V2 _ (inV i) V' hs (inV_mono i) hN' hA' hk1 h
          have hkey : key s i ∈ V' := e1 _ (z1 _ (List.mem_cons_self ..))
          refine ⟨fun x hx => e1 x (z1 x (List.mem_cons_of_mem _ hx)), ?_,
            fun hf' => by simp [hf] at hf', fun _ => hkey⟩
          intro x hx hnx
          by_cases hxk : x = key s i
          · subst hxk
            refine ⟨good_of_keyCond hNinj hin rfl rfl ?_, hA i (by simp [E.ids])⟩
            intro ns hsuf hlen
            have hns : ns = s.ns := suffix_unique hsuf hs hlen
            subst hns
            subst hf
            refine ⟨hκ V2 V' _ _ e1 (z2 s (by simp [zeros])), e4 rfl⟩
          · by_cases hx2 : x ∈ V2
            · have hn1 : x ∉ key s i :: V := by simp [hxk, hnx]
              exact ⟨Good_mono hNmono e1 (z3 x hx2 hn1).1, (z3 x hx2 hn1).2⟩
            · exact e2 x hx hx2
        | found s' => simp [hz] at h
        | postponed => simp [hz] at h
        | fuel => simp [hz] at h

end closed

end Rrel
