import TextxVerif.RefList
import TextxVerif.Proofs.ResolveList
/-! Helper lemmas for `RefList` (C08): the two parallel Python lists of one key
are the position / target projections of the fused list `Resolve.listAfter` of
the key's references. -/
namespace RefList
open Resolve (LRef insertByPos listAfter)

/-- forget the key -/
def toL (r : KRef) : LRef := ⟨0, r.pos, r.tgt⟩

theorem pyInsert_zero {α : Type} (x : α) (l : List α) : pyInsert 0 x l = x :: l := by
  simp [pyInsert]

theorem pyInsert_succ {α : Type} (n : Nat) (x a : α) (l : List α) :
    pyInsert (n + 1) x (a :: l) = a :: pyInsert n x l := by
  simp [pyInsert]

/-- `bisect` + the two `insert`s = the fused `insertByPos` -/
theorem pyInsert_bisect {α : Type} (f : LRef → α) (r : LRef) : ∀ l : List LRef,
    pyInsert (bisect (l.map (·.pos)) r.pos) (f r) (l.map f) = (insertByPos r l).map f
  | [] => by simp [bisect, pyInsert, insertByPos]
  | x :: xs => by
      simp only [List.map_cons, bisect, insertByPos]
      by_cases h : r.pos < x.pos
      · simp [h, pyInsert_zero]
      · simp only [h, if_false, pyInsert_succ, List.map_cons]
        rw [pyInsert_bisect f r xs]

/-- the references of key `k` among `seq`, keys forgotten, in resolution order -/
def seqOf (k : Key) (seq : List KRef) : List LRef := (ofKey k seq).map toL

theorem seqOf_cons_eq (r : KRef) (rs : List KRef) : seqOf r.key (r :: rs) = toL r :: seqOf r.key rs := by
  simp [seqOf, ofKey]

theorem seqOf_cons_ne (k : Key) (r : KRef) (rs : List KRef) (h : ¬ r.key = k) :
    seqOf k (r :: rs) = seqOf k rs := by
  simp [seqOf, ofKey, h]

/-- invariant of the fold: both Python lists of every key are projections of one fused list -/
theorem foldl_resolve (seq : List KRef) : ∀ (st : State) (acc : Key → List LRef),
    (∀ k, st.positions k = (acc k).map (·.pos) ∧ st.values k = (acc k).map (·.tgt)) →
    ∀ k, (seq.foldl resolve st).positions k =
            ((seqOf k seq).foldl (fun a r => insertByPos r a) (acc k)).map (·.pos) ∧
         (seq.foldl resolve st).values k =
            ((seqOf k seq).foldl (fun a r => insertByPos r a) (acc k)).map (·.tgt) := by
  induction seq with
  | nil => intro st acc h k; simpa [seqOf, ofKey] using h k
  | cons r rs ih =>
    intro st acc h k
    simp only [List.foldl_cons]
    have hinv : ∀ k', (resolve st r).positions k' =
          ((fun k'' => if k'' = r.key then insertByPos (toL r) (acc k'') else acc k'') k').map (·.pos) ∧
        (resolve st r).values k' =
          ((fun k'' => if k'' = r.key then insertByPos (toL r) (acc k'') else acc k'') k').map (·.tgt) := by
      intro k'
      by_cases hk : k' = r.key
      · subst hk
        have hp := (h r.key).1
        have hv := (h r.key).2
        simp only [resolve, if_true]
        rw [hp, hv]
        have e1 := pyInsert_bisect (fun x : LRef => x.pos) (toL r) (acc r.key)
        have e2 := pyInsert_bisect (fun x : LRef => x.tgt) (toL r) (acc r.key)
        simp only [toL] at e1 e2 ⊢
        exact ⟨e1, e2⟩
      · simp only [resolve, hk, if_false]
        exact h k'
    have := ih (resolve st r) _ hinv k
    by_cases hk : r.key = k
    · subst hk
      rw [seqOf_cons_eq]
      simpa using this
    · rw [seqOf_cons_ne k r rs hk]
      have hk' : ¬ k = r.key := fun e => hk e.symm
      simpa [hk'] using this

theorem run_eq (seq : List KRef) (k : Key) :
    (run seq).positions k = (listAfter (seqOf k seq)).map (·.pos) ∧
      (run seq).values k = (listAfter (seqOf k seq)).map (·.tgt) := by
  have := foldl_resolve seq State.init (fun _ => []) (by intro k; simp [State.init]) k
  simpa [run, listAfter] using this

theorem seqOf_perm {seq refs : List KRef} (h : seq.Perm refs) (k : Key) : (seqOf k seq).Perm (seqOf k refs) :=
  (h.filter _).map _

theorem seqOf_pairwise {refs : List KRef} (h : refs.Pairwise (fun a b => a.key = b.key → a.pos < b.pos))
    (k : Key) : (seqOf k refs).Pairwise (fun a b => a.pos < b.pos) := by
  unfold seqOf ofKey
  rw [List.pairwise_map]
  have hf := h.filter (fun r => decide (r.key = k))
  refine List.Pairwise.imp_of_mem ?_ hf
  intro a b ha hb hab
  have ha' := (List.mem_filter.1 ha).2
  have hb' := (List.mem_filter.1 hb).2
  simp only [decide_eq_true_eq] at ha' hb'
  exact hab (ha'.trans hb'.symm)

end RefList
