import TextxVerif.Proofs.ExportTotal
import TextxVerif.Proofs.ExportPuml
/-! The executable domain checks of `Export.lean` imply the hypotheses of the theorems. -/
namespace Dot

theorem safe_of_B {s : Str} (h : safeB s = true) : Safe s := by
  unfold Safe
  simpa [safeB] using h

theorem primOk_of_B {p : Prim} (h : primOkB p = true) : PrimOk p := by
  cases p with
  | str s => trivial
  | lit ty t =>
    simp only [primOkB, Bool.and_eq_true] at h
    exact ⟨safe_of_B h.1, safe_of_B h.2⟩

theorem itemOk_of_B {x : Item} (h : itemOkB x = true) : ItemOk x := by
  cases x with
  | none => trivial
  | prim p => exact primOk_of_B h
  | obj t => trivial

theorem valOk_of_B {v : Val} (h : valOkB v = true) : ValOk v := by
  cases v with
  | none => trivial
  | one p => exact primOk_of_B h
  | ref t => trivial
  | many xs =>
    intro x hx
    exact itemOk_of_B (List.all_eq_true.mp h x hx)

theorem heapOk_of_B {h : Heap} (hb : heapOkB h = true) : HeapOk h := by
  intro o ho
  have := List.all_eq_true.mp hb o ho
  simp only [objOkB, Bool.and_eq_true] at this
  refine ⟨safe_of_B this.1, ?_⟩
  intro as has a ha
  have h2 := this.2
  rw [has] at h2
  have := List.all_eq_true.mp h2 a ha
  simp only [Bool.and_eq_true] at this
  exact ⟨safe_of_B this.1, valOk_of_B this.2⟩

theorem itemRefs_eq (x : Item) : itemRefs x = x.refs := by cases x <;> rfl
theorem valRefs_eq (v : Val) : valRefs v = v.refs := by
  have e : itemRefs = Item.refs := funext itemRefs_eq
  cases v <;> simp [valRefs, Val.refs, e]
theorem objRefs_eq (o : Obj) : objRefs o = o.refs := by
  unfold objRefs Obj.refs
  cases o.attrs with
  | none => rfl
  | some as =>
    have e : (fun a : AttrV => valRefs a.val) = (fun a => a.val.refs) := funext fun a => valRefs_eq a.val
    simp only [e]

theorem rootId_eq (r : Root) : rootId r = r.id := by cases r <;> rfl

theorem closed_of_B {h : Heap} {roots : List Root} (hb : closedB h roots = true) :
    Closed h ∧ ∀ r ∈ roots, Valid h r.id := by
  simp only [closedB, Bool.and_eq_true] at hb
  constructor
  · intro o ho t ht
    have := List.all_eq_true.mp hb.1 o ho
    rw [objRefs_eq] at this
    have := List.all_eq_true.mp this t ht
    exact Option.isSome_iff_exists.mp this
  · intro r hr
    have := List.all_eq_true.mp hb.2 r hr
    rw [rootId_eq] at this
    exact Option.isSome_iff_exists.mp this

theorem noAngle_of_B {s : Str} (h : noAngleB s = true) : NoAngle s := by
  intro c hc
  have := List.all_eq_true.mp h c hc
  simpa using this

theorem clsOk_of_B {c : MCls} (h : clsOkB c = true) : ClsOk c := by
  simp only [clsOkB, Bool.and_eq_true] at h
  refine ⟨safe_of_B h.1.1, noAngle_of_B h.1.2, ?_⟩
  intro a ha
  have := List.all_eq_true.mp h.2 a ha
  simp only [Bool.and_eq_true] at this
  exact ⟨safe_of_B this.1.1, safe_of_B this.1.2, safe_of_B this.2⟩

theorem nameOk_of_B {n : Str} (h : nameOkB n = true) : NameOk n := by
  intro c hc
  have := List.all_eq_true.mp h c hc
  simpa [and_assoc] using this

theorem pclsOk_of_B {c : MCls} (h : pclsOkB c = true) : PClsOk c := by
  simp only [pclsOkB, Bool.and_eq_true] at h
  refine ⟨nameOk_of_B h.1.1.1, by simpa using h.1.1.2, nameOk_of_B h.1.2, ?_⟩
  intro a ha
  have := List.all_eq_true.mp h.2 a ha
  simp only [Bool.and_eq_true] at this
  exact ⟨nameOk_of_B this.1.1.1, nameOk_of_B this.1.1.2, nameOk_of_B this.1.2, nameOk_of_B this.2⟩

theorem linetypeOk_of_B {lt : Option Str} (h : linetypeOkB lt = true) : LinetypeOk lt := by
  cases lt with
  | none => trivial
  | some l =>
    simp only [linetypeOkB, Bool.and_eq_true] at h
    refine ⟨?_, by simpa using h.2⟩
    intro c hc
    have := List.all_eq_true.mp h.1 c hc
    simpa using this

end Dot
