import TextxVerif.Proofs.LoadTreeFrame
/-!
# Histories of load attempts, and what a failed main attempt leaves registered

* `runHist_frame`: any sequence of attempts (failing or not, each with its own nested loads) leaves
  every class and the stored keys as the first one found them, and the state stays `Good`.
* `node_main_left`: when the attempt of a main model fails, none of the parsers of the attempt is
  left registered (`.error []`): each of them went through `_abort_model_construction` /
  the handler of `get_model_from_str`.
-/
namespace LoadTree

variable {α : Type}

theorem runF_same (table : List Load) (n : Nat) (L : Load) (sh : Sh α) (hg : Good sh) :
    Same sh (runF table n L sh).1 :=
  ⟨(runF_frame table n L sh hg).1, (runF_frame table n L sh hg).2.1, (runF_frame table n L sh hg).2.2⟩

theorem runHist_frame (hist : List (List Load × Nat × Load)) (sh : Sh α) (hg : Good sh) :
    Same sh (runHist hist sh) ∧ Good (runHist hist sh) := by
  induction hist generalizing sh with
  | nil => exact ⟨Same.rfl' _, hg⟩
  | cons x hist ih =>
    have s1 := runF_same x.1 x.2.1 x.2.2 sh hg
    obtain ⟨s2, g2⟩ := ih (runF x.1 x.2.1 x.2.2 sh).1 (hg.same s1)
    exact ⟨s1.trans s2, g2⟩

/-- a failing `front` leaves registered what was registered before, or nothing -/
theorem front_left {env : Env α} (isMain hasImports : Bool) (pid : Nat) (classes : List ClassId) (syntaxOk : Bool)
    (root : OT) (pre : Option Hook) (resolve : List Hook) (unresolved : Bool) (oprocs : List Hook)
    (repo : List PRec) (sh : Sh α) (res : Sh α × Except (List PRec) (List PRec))
    (hres : front env isMain hasImports pid classes syntaxOk root pre resolve unresolved oprocs repo sh = .inl res) :
    res.2 = .error repo ∨ res.2 = .error [] := by
  simp only [front] at hres
  split at hres
  · cases hres; exact .inl rfl
  · split at hres
    · cases hres; exact .inl rfl
    · split at hres
      · cases hres; exact .inr rfl
      · cases pre with
        | none =>
          simp only [] at hres
          split at hres
          · cases hres; exact .inr rfl
          · split at hres
            · cases hres; exact .inr rfl
            · cases hres
        | some hk =>
          simp only [] at hres
          split at hres
          · cases hres; exact .inr rfl
          · split at hres
            · cases hres; exact .inr rfl
            · cases hres

theorem ite_ok_err (c : Bool) (left : List PRec)
    (h : (if c = true then (Except.ok [] : Except (List PRec) (List PRec)) else .error []) = .error left) : left = [] := by
  cases c
  · simp only [Bool.false_eq_true, if_false] at h; cases h; rfl
  · simp only [if_true] at h; cases h

/-- a failing main model registers nothing -/
theorem back_main_left {env : Env α} (immut : Bool) (pid : Nat) (classes : List ClassId) (mproc : Hook)
    (P : PRec) (mine : List PRec) (sh : Sh α) (left : List PRec)
    (h : (back env true immut pid classes mproc P [] mine sh).2 = .error left) : left = [] := by
  cases immut with
  | true =>
    simp only [back, if_true] at h
    split at h
    · simp only [failOuter] at h
      cases h; rfl
    · exact ite_ok_err _ _ h
  | false =>
    simp only [back, if_true, Bool.false_eq_true, if_false] at h
    split at h
    · simp only [failOuter] at h
      cases h; rfl
    · exact ite_ok_err _ _ h

/-- **nothing of a failed main attempt stays registered** -/
theorem node_main_left (env : Env α) (L : Load) (sh : Sh α) (left : List PRec)
    (h : (node env true L [] sh).2 = .error left) : left = [] := by
  obtain ⟨pid, classes, syntaxOk, root, pre, imps, resolve, unresolved, oprocs, mproc⟩ := L
  simp only [node] at h
  generalize hfr : front env true (!imps.isEmpty) pid classes syntaxOk root pre resolve unresolved oprocs [] sh = fr at h
  cases fr with
  | inl res =>
    simp only [] at h
    rcases front_left _ _ _ _ _ _ _ _ _ _ _ _ res hfr with e | e <;> (rw [e] at h; cases h; rfl)
  | inr pr =>
    obtain ⟨P, sh1⟩ := pr
    simp only [] at h
    generalize importList env imps [] [] sh1 = ir at h
    obtain ⟨sh2, rr⟩ := ir
    cases rr with
    | error l =>
      simp only [failOuter] at h
      cases h; rfl
    | ok mine =>
      simp only [] at h
      exact back_main_left _ _ _ _ _ _ _ _ h

end LoadTree
