import TextxVerif.Obj.ClassTbl
/-! Lemmas about class tables and histories of meta-model constructions (C05). -/
namespace Obj

theorem ClassTbl.write_same (t : ClassTbl) (c : Nat) (as : List MetaAttr) : (t.write c as) c = some as := by
  simp [ClassTbl.write]

theorem ClassTbl.write_other (t : ClassTbl) {c c' : Nat} (as : List MetaAttr) (h : c' ≠ c) :
    (t.write c as) c' = t c' := by
  simp [ClassTbl.write, h]

/-- two tables that agree on `c`, or any two tables when the construction initialises `c`,
agree on `c` afterwards: a construction overwrites, it never reads -/
theorem build_agree (b : MMBuild) : ∀ (t t' : ClassTbl) (c : Nat),
    (t c = t' c ∨ c ∈ b.classes) → (t.build b) c = (t'.build b) c := by
  induction b with
  | nil =>
    intro t t' c h
    rcases h with h | h
    · exact h
    · simp [MMBuild.classes] at h
  | cons w rest ih =>
    obtain ⟨c0, as0⟩ := w
    intro t t' c h
    show ((t.write c0 as0).build rest) c = ((t'.write c0 as0).build rest) c
    apply ih
    by_cases hc : c = c0
    · left
      subst hc
      rw [ClassTbl.write_same, ClassTbl.write_same]
    · rcases h with h | h
      · left
        rw [ClassTbl.write_other _ _ hc, ClassTbl.write_other _ _ hc, h]
      · right
        have : c ∈ c0 :: rest.map (·.1) := by simpa [MMBuild.classes] using h
        rcases List.mem_cons.mp this with h1 | h1
        · exact absurd h1 hc
        · simpa [MMBuild.classes] using h1

/-- a construction all of whose writes to the classes in `cs` store what is there already
leaves those classes as they are -/
theorem build_keeps (cs : Nat → Prop) (b : MMBuild) : ∀ (t : ClassTbl),
    (∀ c as, cs c → (c, as) ∈ b → t c = some as) → ∀ c, cs c → (t.build b) c = t c := by
  induction b with
  | nil => intro t _ c _; rfl
  | cons w rest ih =>
    obtain ⟨c0, as0⟩ := w
    intro t hk c hc
    show ((t.write c0 as0).build rest) c = t c
    have h1 : ((t.write c0 as0).build rest) c = (t.write c0 as0) c := by
      apply ih _ _ c hc
      intro c' as' hc' hm
      by_cases e : c' = c0
      · subst e
        rw [ClassTbl.write_same]
        have a := hk c' as0 hc' (List.mem_cons_self ..)
        have b := hk c' as' hc' (List.mem_cons_of_mem _ hm)
        rw [a] at b
        exact b
      · rw [ClassTbl.write_other _ _ e]
        exact hk c' as' hc' (List.mem_cons_of_mem _ hm)
    rw [h1]
    by_cases e : c = c0
    · subst e
      rw [ClassTbl.write_same]
      exact (hk c as0 hc (List.mem_cons_self ..)).symm
    · exact ClassTbl.write_other _ _ e

theorem build_untouched (b : MMBuild) (t : ClassTbl) (c : Nat) (h : c ∉ b.classes) : (t.build b) c = t c := by
  apply build_keeps (fun x => x = c) b t _ c rfl
  intro c' as' hc' hm
  subst hc'
  exact absurd (List.mem_map.mpr ⟨(c', as'), hm, rfl⟩) h

theorem foldl_keeps (cs : Nat → Prop) (t0 : ClassTbl) (post : List MMBuild) : ∀ (t : ClassTbl),
    (∀ b' ∈ post, ∀ c as, cs c → (c, as) ∈ b' → t0 c = some as) → (∀ c, cs c → t c = t0 c) →
    ∀ c, cs c → (post.foldl ClassTbl.build t) c = t0 c := by
  induction post with
  | nil => intro t _ ht c hc; exact ht c hc
  | cons b' rest ih =>
    intro t hk ht c hc
    show (rest.foldl ClassTbl.build (t.build b')) c = t0 c
    apply ih _ (fun b'' hb'' => hk b'' (List.mem_cons_of_mem _ hb'')) _ c hc
    intro c' hc'
    rw [build_keeps cs b' t _ c' hc', ht c' hc']
    intro c'' as'' hc'' hm
    rw [ht c'' hc'']
    exact hk b' (List.mem_cons_self ..) c'' as'' hc'' hm

theorem tblAfter_snoc (pre : List MMBuild) (b : MMBuild) : tblAfter (pre ++ [b]) = (tblAfter pre).build b := by
  simp [tblAfter, List.foldl_append]

/-- the class table after `pre ++ b :: post` at a class that `b` initialises and that the later
constructions only re-initialise with the same list -/
theorem tblAfter_at (pre post : List MMBuild) (b : MMBuild) (cs : Nat → Prop)
    (hb : ∀ c, cs c → c ∈ b.classes)
    (hpost : ∀ b' ∈ post, ∀ c as, cs c → (c, as) ∈ b' → tblAfter [b] c = some as)
    (c : Nat) (hc : cs c) : tblAfter (pre ++ b :: post) c = tblAfter [b] c := by
  have e : pre ++ b :: post = (pre ++ [b]) ++ post := by simp
  rw [e]
  unfold tblAfter
  rw [List.foldl_append]
  apply foldl_keeps cs _ post _ hpost _ c hc
  intro c' hc'
  have := tblAfter_snoc pre b
  unfold tblAfter at this
  rw [this]
  show ((List.foldl ClassTbl.build ClassTbl.empty pre).build b) c' = (ClassTbl.empty.build b) c'
  exact build_agree b _ _ c' (Or.inr (hb c' hc'))

theorem view_congr {t t' : ClassTbl} {ph : PHeap} (h : ∀ o ∈ ph, t o.cls = t' o.cls) :
    ph.view t = ph.view t' := by
  unfold PHeap.view
  apply List.map_congr_left
  intro o ho
  simp [PObj.view, h o ho]

theorem lookup_of_mem_nodup : ∀ (l : List (MetaAttr × AVal)), (l.map (·.1.name)).Nodup →
    ∀ mv ∈ l, lookupAttr mv.1.name (l.map fun mv => (mv.1.name, mv.2)) = some mv.2 := by
  intro l
  induction l with
  | nil => intro _ mv h; cases h
  | cons x rest ih =>
    intro hnd mv hmv
    rw [List.map_cons, List.nodup_cons] at hnd
    rcases List.mem_cons.mp hmv with e | hm
    · subst e
      simp [lookupAttr]
    · have hne : x.1.name ≠ mv.1.name := by
        intro e
        apply hnd.1
        rw [e]
        exact List.mem_map.mpr ⟨mv, hm, rfl⟩
      simp only [List.map_cons, lookupAttr, hne, if_false]
      exact ih hnd.2 mv hm

/-- an object whose attributes are the ones its class lists (distinct names) is seen as it is -/
theorem view_forget (t : ClassTbl) (ident : Nat → Nat) (o : HObj)
    (ht : t (ident o.cls) = some (o.attrs.map (·.1))) (hnd : (o.attrs.map (·.1.name)).Nodup) :
    (o.forget ident).view t = o := by
  obtain ⟨cls, parent, pos, posEnd, attrs⟩ := o
  simp only [PObj.view, HObj.forget, PObj.getattr] at ht ⊢
  rw [ht]
  simp only [Option.getD_some, List.map_map]
  congr 1
  conv => rhs; rw [← List.map_id attrs]
  apply List.map_congr_left
  intro mv hmv
  simp [lookup_of_mem_nodup attrs hnd mv hmv]

end Obj
