import TextxVerif.Proofs.LinkLoc
/-! The line / column specification `lineColSpec` (C28) in terms of `count` and "last newline
before the offset" — what Python's `text.count("\n", 0, off)` and `text.rfind("\n", 0, off)` give. -/
namespace LinkLoc

/-- reading `n` characters of `s` from `(l, k)`: the line grows by the number of newlines read;
either no newline was read and the column grew by `n`, or the column minus one is the distance
to the character after the last newline read -/
theorem walk_meaning : ∀ (s : List Char) (n l k : Nat), n ≤ s.length →
    (walk s n (l, k)).1 = l + (s.take n).count '\n' ∧
    (((∀ i, i < n → s[i]? ≠ some '\n') ∧ (walk s n (l, k)).2 = k + n) ∨
     (1 ≤ (walk s n (l, k)).2 ∧ (walk s n (l, k)).2 ≤ n ∧
      s[n - (walk s n (l, k)).2]? = some '\n' ∧
      ∀ i, n - ((walk s n (l, k)).2 - 1) ≤ i → i < n → s[i]? ≠ some '\n')) := by
  intro s
  induction s with
  | nil =>
    intro n l k h
    have : n = 0 := by simpa using h
    subst this
    simp [walk]
  | cons c cs ih =>
    intro n l k h
    cases n with
    | zero => simp [walk]
    | succ m =>
      have hm : m ≤ cs.length := by simpa using h
      by_cases hc : c = '\n'
      · subst hc
        obtain ⟨h1, h2⟩ := ih m (l + 1) 1 hm
        simp only [walk, if_true, List.take_succ_cons, List.count_cons_self]
        refine ⟨by rw [h1]; omega, Or.inr ?_⟩
        rcases h2 with ⟨ha, hb⟩ | ⟨hb1, hb2, hb3, hb4⟩
        · rw [hb]
          refine ⟨by omega, by omega, by simp [show m + 1 - (1 + m) = 0 by omega], ?_⟩
          intro i hi1 hi2
          have hi : 1 ≤ i := by omega
          obtain ⟨i', rfl⟩ : ∃ i', i = i' + 1 := ⟨i - 1, by omega⟩
          simpa using ha i' (by omega)
        · refine ⟨hb1, by omega, ?_, ?_⟩
          · have : m + 1 - (walk cs m (l + 1, 1)).2 = (m - (walk cs m (l + 1, 1)).2) + 1 := by omega
            rw [this]; simpa using hb3
          · intro i hi1 hi2
            have hi : 1 ≤ i := by omega
            obtain ⟨i', rfl⟩ : ∃ i', i = i' + 1 := ⟨i - 1, by omega⟩
            simpa using hb4 i' (by omega) (by omega)
      · obtain ⟨h1, h2⟩ := ih m l (k + 1) hm
        simp only [walk, hc, if_false, List.take_succ_cons, List.count_cons]
        refine ⟨by rw [h1]; simp [hc], ?_⟩
        rcases h2 with ⟨ha, hb⟩ | ⟨hb1, hb2, hb3, hb4⟩
        · refine Or.inl ⟨?_, by rw [hb]; omega⟩
          intro i hi
          cases i with
          | zero => simpa using hc
          | succ i' => simpa using ha i' (by omega)
        · refine Or.inr ⟨hb1, by omega, ?_, ?_⟩
          · have : m + 1 - (walk cs m (l, k + 1)).2 = (m - (walk cs m (l, k + 1)).2) + 1 := by omega
            rw [this]; simpa using hb3
          · intro i hi1 hi2
            have hi : 1 ≤ i := by omega
            obtain ⟨i', rfl⟩ : ∃ i', i = i' + 1 := ⟨i - 1, by omega⟩
            simpa using hb4 i' (by omega) (by omega)

/-- `lineColSpec` = (1 + number of newlines before the offset, 1 + distance to the line start),
where the line start is offset 0 or the offset after the last newline before `pos` -/
theorem lineColSpec_meaning (input : List Char) (pos : Nat) (h : pos ≤ input.length) :
    (lineColSpec input pos).1 = (input.take pos).count '\n' + 1 ∧
    1 ≤ (lineColSpec input pos).2 ∧ (lineColSpec input pos).2 - 1 ≤ pos ∧
    (pos - ((lineColSpec input pos).2 - 1) = 0 ∨
      input[pos - ((lineColSpec input pos).2 - 1) - 1]? = some '\n') ∧
    (∀ i, pos - ((lineColSpec input pos).2 - 1) ≤ i → i < pos → input[i]? ≠ some '\n') := by
  obtain ⟨h1, h2⟩ := walk_meaning input pos 1 1 h
  unfold lineColSpec
  refine ⟨by rw [h1]; omega, ?_⟩
  rcases h2 with ⟨ha, hb⟩ | ⟨hb1, hb2, hb3, hb4⟩
  · rw [hb]
    refine ⟨by omega, by omega, Or.inl (by omega), ?_⟩
    intro i _ hi; exact ha i hi
  · refine ⟨hb1, by omega, Or.inr ?_, hb4⟩
    have : pos - ((walk input pos (1, 1)).2 - 1) - 1 = pos - (walk input pos (1, 1)).2 := by omega
    rw [this]; exact hb3

end LinkLoc
