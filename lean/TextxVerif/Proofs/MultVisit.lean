import TextxVerif.Proofs.Mult
/-!
Helper lemmas for C02, part 2 — the visitor pass (`visit`) and the two
grammar-level rejections.
-/
namespace Mult

/-! ### the visitor fold -/

theorem visitAsgn_rej (s : VSt) (p : Attr × Op) :
    (visitAsgn s p).rej = (s.rej || (decide (p.1 ∈ s.known) && (p.2 == .bool || decide (p.1 ∈ s.boolA)))) := by
  obtain ⟨a, op⟩ := p
  cases op <;> simp [visitAsgn]

theorem visitAsgn_known (s : VSt) (p : Attr × Op) (x : Attr) :
    x ∈ (visitAsgn s p).known ↔ x ∈ s.known ∨ x = p.1 := by
  obtain ⟨a, op⟩ := p
  by_cases h : a ∈ s.known <;> cases op <;> simp [visitAsgn, h] <;> grind

theorem visitAsgn_boolA (s : VSt) (p : Attr × Op) (x : Attr) :
    x ∈ (visitAsgn s p).boolA ↔ x ∈ s.boolA ∨ (x = p.1 ∧ p.2 = .bool) := by
  obtain ⟨a, op⟩ := p
  cases op <;> simp [visitAsgn]
  exact Or.comm

theorem visitAsgn_mult_many (s : VSt) (p : Attr × Op) (a : Attr)
    (h : ((visitAsgn s p).mult a).isMany = true) :
    (s.mult a).isMany = true ∨ (p.1 = a ∧ p.2.isList = true) := by
  obtain ⟨b, op⟩ := p
  by_cases hab : a = b
  · subst hab
    cases op <;> simp_all [visitAsgn, Op.isList, M.isMany]
  · have hba : ¬ b = a := fun e => hab e.symm
    cases op <;> simp [visitAsgn, upd_other _ _ hab] at h
    · exact Or.inl h
    · exact Or.inl h
    · left
      by_cases h1 : s.mult b = .oneMore <;> simp_all [upd_other _ _ hab]
    · exact Or.inl h

theorem foldl_visit_mult_many (a : Attr) : ∀ (l : List (Attr × Op)) (s : VSt),
    ((l.foldl visitAsgn s).mult a).isMany = true →
      (s.mult a).isMany = true ∨ ∃ op, (a, op) ∈ l ∧ op.isList = true
  | [], s, h => Or.inl h
  | p :: l, s, h => by
      simp only [List.foldl_cons] at h
      rcases foldl_visit_mult_many a l _ h with h1 | ⟨op, hm, ho⟩
      · rcases visitAsgn_mult_many s p a h1 with h2 | ⟨e1, e2⟩
        · exact Or.inl h2
        · refine Or.inr ⟨p.2, ?_, e2⟩
          rw [← e1]; simp
      · exact Or.inr ⟨op, by simp [hm], ho⟩

/-- an attribute starts the walk as a list only if it has a `*=` / `+=` assignment -/
theorem visit_mult_many (a : Attr) (l : List (Attr × Op))
    (h : ((visit l).mult a).isMany = true) : ∃ op, (a, op) ∈ l ∧ op.isList = true := by
  rcases foldl_visit_mult_many a l _ h with h1 | h1
  · simp [M.isMany] at h1
  · exact h1

theorem foldl_visit_rej_sticky : ∀ (l : List (Attr × Op)) (s : VSt),
    s.rej = true → (l.foldl visitAsgn s).rej = true
  | [], _, h => h
  | p :: l, s, h => by
      simp only [List.foldl_cons]
      apply foldl_visit_rej_sticky l
      rw [visitAsgn_rej]; simp [h]

/-- not rejected at the end ⇒ a known attribute is never assigned again with `?=`, nor
assigned again after a `?=` -/
theorem foldl_visit_core (a : Attr) : ∀ (l : List (Attr × Op)) (s : VSt),
    (l.foldl visitAsgn s).rej = false →
      s.rej = false ∧ ∀ op, (a, op) ∈ l → a ∈ s.known → op ≠ .bool ∧ a ∉ s.boolA
  | [], s, h => ⟨h, by simp⟩
  | p :: l, s, h => by
      simp only [List.foldl_cons] at h
      have ih := foldl_visit_core a l _ h
      have hr := ih.1
      rw [visitAsgn_rej] at hr
      refine ⟨by cases hs : s.rej <;> simp_all, ?_⟩
      intro op hm hk
      rcases List.mem_cons.mp hm with e | hm'
      · subst e
        simp [hk] at hr
        exact ⟨by intro e; simp [e] at hr, hr.2.2⟩
      · have := ih.2 op hm' ((visitAsgn_known s p a).mpr (Or.inl hk))
        refine ⟨this.1, fun hb => this.2 ((visitAsgn_boolA s p a).mpr (Or.inl hb))⟩

/-- not rejected and `a` has a `?=` assignment ⇒ that is the only assignment to `a` -/
theorem foldl_visit_single (a : Attr) : ∀ (l : List (Attr × Op)) (s : VSt),
    (l.foldl visitAsgn s).rej = false → (a, Op.bool) ∈ l → a ∉ s.known →
      (l.filter (fun p => p.1 = a)).length = 1 ∧ ∀ op, (a, op) ∈ l → op = .bool
  | [], _, _, hm, _ => by simp at hm
  | p :: l, s, h, hm, hk => by
      simp only [List.foldl_cons] at h
      by_cases hp : p.1 = a
      · -- this is an assignment to `a`; afterwards `a` is known
        have hkn : a ∈ (visitAsgn s p).known := (visitAsgn_known s p a).mpr (Or.inr hp.symm)
        have core := (foldl_visit_core a l _ h).2
        have hnb : (a, Op.bool) ∉ l := fun hin => (core _ hin hkn).1 rfl
        have hpb : p = (a, Op.bool) := by
          rcases List.mem_cons.mp hm with e | e
          · exact e.symm
          · exact absurd e hnb
        have hbool : a ∈ (visitAsgn s p).boolA := (visitAsgn_boolA s p a).mpr (Or.inr ⟨hp.symm, by rw [hpb]⟩)
        have hnone : ∀ op, (a, op) ∉ l := fun op hin => (core op hin hkn).2 hbool
        constructor
        · have : l.filter (fun p => p.1 = a) = [] := by
            apply List.filter_eq_nil_iff.mpr
            intro q hq hqa
            simp at hqa
            exact hnone q.2 (by rw [← hqa]; exact hq)
          simp [hp, this]
        · intro op hin
          rcases List.mem_cons.mp hin with e | e
          · rw [hpb] at e; simpa using e
          · exact absurd e (hnone op)
      · have hk' : a ∉ (visitAsgn s p).known := by
          intro hin
          rcases (visitAsgn_known s p a).mp hin with h1 | h1
          · exact hk h1
          · exact hp h1.symm
        have hm' : (a, Op.bool) ∈ l := by
          rcases List.mem_cons.mp hm with e | e
          · exact absurd (by rw [← e]) hp
          · exact e
        have ih := foldl_visit_single a l _ h hm' hk'
        constructor
        · simpa [List.filter_cons, hp] using ih.1
        · intro op hin
          rcases List.mem_cons.mp hin with e | e
          · exact absurd (by rw [← e]) hp
          · exact ih.2 op e

theorem visit_single (a : Attr) (l : List (Attr × Op)) (h : (visit l).rej = false)
    (hm : (a, Op.bool) ∈ l) :
    (l.filter (fun p => p.1 = a)).length = 1 ∧ ∀ op, (a, op) ∈ l → op = .bool :=
  foldl_visit_single a l _ h hm (by simp)

/-! ### `Can't use bool assignment inside repetition` -/

mutual
/-- some `?=` is reached by the walk with a "many" multiplicity -/
def bir (r : Bool) : Body → Bool
  | .leaf => false
  | .asgn _ op => r && op == .bool
  | .seq xs => birL r xs
  | .choice xs => birL r xs
  | .opt x => bir r x
  | .rep _ x => bir true x
  | .unordered xs => birL r xs
def birL (r : Bool) : List Body → Bool
  | [] => false
  | x :: xs => bir r x || birL r xs
end

theorem walkAsgn_rej (m : M) (a : Attr) (op : Op) (s : St) :
    (walkAsgn m a op s).rej = (s.rej || (m.isMany && op == .bool)) := by
  have hm := asgnMult_isMany op m
  by_cases hmany : (asgnMult op m).isMany = true
  · have : (walkAsgn m a op s).rej = (s.rej || (op == .bool)) := by simp [walkAsgn, hmany]
    rw [this]
    cases op <;> cases hmm : m.isMany <;> simp_all [Op.isList]
  · have hr : m.isMany = false := by cases h : m.isMany <;> simp_all
    by_cases hs : a ∈ s.seen <;> simp [walkAsgn, hmany, hs, hr]

mutual
theorem walk_rej (m : M) : ∀ (b : Body) (s : St), (walk m b s).rej = (s.rej || bir m.isMany b)
  | .leaf, s => by simp [walk, bir]
  | .asgn a op, s => by simp [walk, bir, walkAsgn_rej]
  | .seq xs, s => by simpa [walk, bir] using walkSeq_rej m xs s
  | .unordered xs, s => by simpa [walk, bir] using walkSeq_rej m xs s
  | .opt x, s => by simpa [walk, bir] using walk_rej m x s
  | .rep plus x, s => by
      have := walk_rej (repMult plus m) x s
      rw [repMult_isMany] at this
      simpa [walk, bir] using this
  | .choice xs, s => by simpa [walk, bir] using walkAlts_rej m xs s.seen s
theorem walkSeq_rej (m : M) : ∀ (xs : List Body) (s : St), (walkSeq m xs s).rej = (s.rej || birL m.isMany xs)
  | [], s => by simp [walkSeq, birL]
  | x :: xs, s => by
      simp only [walkSeq, birL]
      rw [walkSeq_rej m xs, walk_rej m x, Bool.or_assoc]
theorem walkAlts_rej (m : M) : ∀ (xs : List Body) (seen0 : List Attr) (acc : St),
    (walkAlts m xs seen0 acc).rej = (acc.rej || birL m.isMany xs)
  | [], _, acc => by simp [walkAlts, birL]
  | x :: xs, seen0, acc => by
      simp only [walkAlts, birL]
      rw [walkAlts_rej m xs, walk_rej m x, Bool.or_assoc]
end

/-- an accepted grammar: the visitor did not reject and no `?=` sits below a repetition -/
theorem accepted_iff (b : Body) :
    accepted b = true ↔ (visit (asgns b)).rej = false ∧ bir false b = false := by
  simp [accepted, infer, walk_rej, M.isMany]

/-! ### list operators make the count "many" -/

theorem Cnt.add_many_left (c : Cnt) : Cnt.add .many c = .many := by cases c <;> rfl
theorem Cnt.add_many_right (c : Cnt) : Cnt.add c .many = .many := by cases c <;> rfl
theorem Cnt.max_many_left (c : Cnt) : Cnt.max .many c = .many := by cases c <;> rfl
theorem Cnt.max_many_right (c : Cnt) : Cnt.max c .many = .many := by cases c <;> rfl

mutual
theorem count_many_of_mem (a : Attr) (op : Op) (ho : op.isList = true) :
    ∀ b : Body, (a, op) ∈ asgns b → count a b = .many
  | .leaf, h => by simp [asgns] at h
  | .asgn b op', h => by
      simp [asgns] at h
      obtain ⟨rfl, rfl⟩ := h
      simp [count, ho]
  | .seq xs, h => by simpa [count] using countSum_many_of_mem a op ho xs (by simpa [asgns] using h)
  | .unordered xs, h => by simpa [count] using countSum_many_of_mem a op ho xs (by simpa [asgns] using h)
  | .choice xs, h => by simpa [count] using countMax_many_of_mem a op ho xs (by simpa [asgns] using h)
  | .opt x, h => by simpa [count] using count_many_of_mem a op ho x (by simpa [asgns] using h)
  | .rep _ x, h => by
      have := count_many_of_mem a op ho x (by simpa [asgns] using h)
      simp [count, this]
theorem countSum_many_of_mem (a : Attr) (op : Op) (ho : op.isList = true) :
    ∀ xs : List Body, (a, op) ∈ asgnsL xs → countSum a xs = .many
  | [], h => by simp [asgnsL] at h
  | x :: xs, h => by
      simp only [asgnsL, List.mem_append] at h
      simp only [countSum]
      rcases h with h | h
      · rw [count_many_of_mem a op ho x h, Cnt.add_many_left]
      · rw [countSum_many_of_mem a op ho xs h, Cnt.add_many_right]
theorem countMax_many_of_mem (a : Attr) (op : Op) (ho : op.isList = true) :
    ∀ xs : List Body, (a, op) ∈ asgnsL xs → countMax a xs = .many
  | [], h => by simp [asgnsL] at h
  | x :: xs, h => by
      simp only [asgnsL, List.mem_append] at h
      simp only [countMax]
      rcases h with h | h
      · rw [count_many_of_mem a op ho x h, Cnt.max_many_left]
      · rw [countMax_many_of_mem a op ho xs h, Cnt.max_many_right]
end

/-- static core: the inferred multiplicity is "many" exactly when the count is -/
theorem isList_iff_count (b : Body) (a : Attr) : isList b a = true ↔ count a b = .many := by
  have h := (walk_inv a .one b { seen := [], mult := (visit (asgns b)).mult, rej := (visit (asgns b)).rej }).manyIff
  have h1 : M.one.isMany = false := rfl
  rw [h1] at h
  simp only [Bool.false_eq_true, if_false, List.not_mem_nil, and_false, or_false] at h
  simp only [isList, multOf, infer]
  rw [h]
  constructor
  · rintro (h1 | h1)
    · obtain ⟨op, hm, ho⟩ := visit_mult_many a _ h1
      exact count_many_of_mem a op ho b hm
    · exact h1
  · exact Or.inr

end Mult
