import TextxVerif.Proofs.PegGapSim
/-!
# Only the active set is skipped (C22): the comment cache without a comment model

Without a comment model every entry of `comment_positions` maps a position to itself (`IdC`); this is an
invariant of the whole parse (`parse_pres`), and under it every terminal is attempted exactly where
`skipTo` over the *current* whitespace set stops (`matchNode_term_pos`), in every whitespace mode.
-/
namespace Peg

/-- every entry of the comment cache maps a position to itself (what the cache holds when there is no comment model) -/
def IdC (s : PState) : Prop := ∀ e ∈ s.commentPos, e.2 = e.1

def Pres (q : SubParser) : Prop := ∀ e s, IdC s → IdC (q e s).2
def PresB (b : PState → Res × PState) : Prop := ∀ s, IdC s → IdC (b s).2

theorem IdC.of_cp {s t : PState} (h : IdC s) (e : t.commentPos = s.commentPos) : IdC t := by
  unfold IdC at *; rw [e]; exact h

theorem seqLoop_pres {q : SubParser} (hq : Pres q) : ∀ es s acc, IdC s → IdC (seqLoop q es s acc).2 := by
  intro es
  induction es with
  | nil => intro s acc h; exact h
  | cons e es ih =>
    intro s acc h
    simp only [seqLoop]
    have := hq e s h
    rcases h1 : q e s with ⟨r, t⟩
    rw [h1] at this
    cases r <;> simp only at this ⊢
    · exact ih _ _ this
    all_goals exact this

theorem choiceLoop_pres {q : SubParser} (hq : Pres q) : ∀ es c s, IdC s → IdC (choiceLoop q es c s).2 := by
  intro es
  induction es with
  | nil => intro c s h; exact h
  | cons e es ih =>
    intro c s h
    simp only [choiceLoop]
    have := hq e s h
    rcases h1 : q e s with ⟨r, t⟩
    rw [h1] at this
    cases r <;> simp only at this ⊢
    · rename_i v; cases v
      · exact ih _ _ this
      all_goals exact this
    · exact ih _ _ (this.of_cp rfl)
    all_goals exact this

theorem unordFor_pres {q : SubParser} (hq : Pres q) :
    ∀ es c s se m, IdC s → IdC (unordFor q es c s se m).2 := by
  intro es
  induction es with
  | nil => intro c s se m h; exact h
  | cons e es ih =>
    intro c s se m h
    simp only [unordFor]
    have := hq e s h
    rcases h1 : q e s with ⟨r, t⟩
    rw [h1] at this
    cases r <;> simp only at this ⊢
    · split
      · split
        · exact ih _ _ _ _ (this.of_cp rfl)
        · exact this
      · exact ih _ _ _ _ this
    · exact ih _ _ _ _ (this.of_cp rfl)
    all_goals exact this

theorem repLoop_pres {q : SubParser} (hq : Pres q) (e : Nat) (sep : Option Nat) :
    ∀ n s acc f pv, IdC s → IdC (repLoop q e sep n s acc f pv).2 := by
  intro n
  induction n with
  | zero => intro s acc f pv h; exact h
  | succ n ih =>
    intro s acc f pv h
    have elem : ∀ (s1 : PState) (acc1 : List Val), IdC s1 →
        IdC (match q e s1 with
            | (.ok v, s2) => if v.truthy then repLoop q e sep n s2 (v :: acc1) false true
                              else (.ok (.list acc1.reverse), s2)
            | (.nomatch, s2) => if f then (.nomatch, { s2 with pos := s.pos })
                                else (.ok (.list acc1.reverse), { s2 with pos := s.pos })
            | r => r).2 := by
      intro s1 acc1 h1
      have := hq e s1 h1
      rcases h2 : q e s1 with ⟨r, t⟩
      rw [h2] at this
      cases r <;> simp only at this ⊢
      · split
        · exact ih _ _ _ _ this
        · exact this
      · split <;> exact this
      all_goals exact this
    simp only [repLoop]
    cases sep with
    | none => exact elem s acc h
    | some sp =>
      cases pv
      · exact elem s acc h
      · simp only [if_true]
        have := hq sp s h
        rcases h2 : q sp s with ⟨r, t⟩
        rw [h2] at this
        cases r <;> simp only at this ⊢
        · exact elem t _ this
        · split <;> exact this
        all_goals exact this

theorem unordLoop_pres {q : SubParser} (hq : Pres q) (sep : Option Nat) :
    ∀ n todo s acc f sr, IdC s → IdC (unordLoop q sep n todo s acc f sr).2 := by
  intro n
  induction n with
  | zero => intro todo s acc f sr h; exact h
  | succ n ih =>
    intro todo s acc f sr h
    cases todo with
    | nil => exact h
    | cons e0 es0 =>
      have rest : ∀ (s1 : PState) (se : Bool) (sr1 : Option Val), IdC s1 →
          IdC (match unordFor q (e0 :: es0) s1.pos s1 se true with
              | (.hit v e, s2) =>
                  unordLoop q sep n (remove (e0 :: es0) e) s2
                    (v :: (match sr1 with | some sv => if sv.truthy then sv :: acc else acc | .none => acc)) false sr1
              | (.exhausted true, s2) =>
                  (.ok (if acc.isEmpty then .none else .list acc.reverse), { s2 with pos := s.pos })
              | (.exhausted false, s2) => (.nomatch, { s2 with pos := s.pos })
              | (.fuel, s2) => (.fuel, s2)
              | (.bad, s2) => (.bad, s2)).2 := by
        intro s1 se sr1 h1
        have := unordFor_pres hq (e0 :: es0) s1.pos s1 se true h1
        rcases h2 : unordFor q (e0 :: es0) s1.pos s1 se true with ⟨r, t⟩
        rw [h2] at this
        cases r <;> simp only at this ⊢
        · exact ih _ _ _ _ _ this
        · rename_i m; cases m <;> exact this
        all_goals exact this
      simp only [unordLoop]
      cases sep with
      | none => exact rest s false sr h
      | some sp =>
        cases f
        · simp only [Bool.not_false, if_true]
          have := hq sp s h
          rcases h2 : q sp s with ⟨r, t⟩
          rw [h2] at this
          cases r <;> simp only at this ⊢
          · exact rest t false (some _) this
          · exact rest _ true sr this
          all_goals exact this
        · exact rest s false sr h

theorem commentsIter_pres (g : Grammar) {q : SubParser} (hq : Pres q) (cm : Nat) :
    ∀ n, PresB (commentsIter g q cm n) := by
  intro n
  induction n with
  | zero => intro s h; exact h
  | succ n ih =>
    intro s h
    simp only [commentsIter]
    have := hq cm s h
    rcases h2 : q cm s with ⟨r, t⟩
    rw [h2] at this
    cases r <;> simp only at this ⊢
    · apply ih; split
      · exact this
      · exact this
    all_goals exact this

theorem withWsCtx_pres (nd : Node) {b : PState → Res × PState} (hb : PresB b) : PresB (withWsCtx nd b) := by
  intro s h
  unfold withWsCtx
  simp only
  cases nd.ws with
  | none =>
    cases nd.skipws with
    | none => exact hb s h
    | some v => exact IdC.of_cp (hb { s with skipws := v } (h.of_cp rfl)) rfl
  | some w =>
    cases nd.skipws with
    | none => exact IdC.of_cp (hb (s.setWs w) (h.of_cp rfl)) rfl
    | some v => exact IdC.of_cp (hb { s.setWs w with skipws := v } (h.of_cp rfl)) rfl

theorem withEol_pres (nd : Node) {b : PState → Res × PState} (hb : PresB b) : PresB (withEol nd b) := by
  intro s h
  unfold withEol
  simp only
  cases nd.eolterm with
  | false => exact hb s h
  | true => exact IdC.of_cp (hb (s.setEolterm true) (h.of_cp rfl)) rfl

theorem mem_of_lookup {a b : Nat} : ∀ {l : List (Nat × Nat)}, l.lookup a = some b → (a, b) ∈ l
  | [], h => by simp [List.lookup] at h
  | e :: l, h => by
    simp only [List.lookup] at h
    cases hae : a == e.1
    · rw [hae] at h; exact List.mem_cons_of_mem _ (mem_of_lookup h)
    · rw [hae] at h
      have : a = e.1 := by simpa using hae
      simp only [Option.some.injEq] at h
      subst h; subst this; exact List.mem_cons_self

theorem nmRaise_cp (s : PState) (a : Nat) : (s.nmRaise a).commentPos = s.commentPos := by
  unfold PState.nmRaise
  split
  · split
    · rfl
    · split <;> rfl
  · rfl

/-- without a comment model (and with an identity cache) the comment stage does not move -/
theorem commentStage_id {pc : PState → Res × PState} (hpc : ∀ s, pc s = (.ok .none, s)) {s : PState}
    (h : IdC s) :
    (commentStage pc s).1 = .ok .none ∧ (commentStage pc s).2.pos = s.pos ∧ IdC (commentStage pc s).2 := by
  unfold commentStage
  cases hl : (if s.skipws then s.commentPos.lookup s.pos else .none) with
  | some b =>
    simp only
    have hb : b = s.pos := by
      split at hl
      · exact h _ (mem_of_lookup hl)
      · simp at hl
    subst hb
    refine ⟨?_, ?_, h.of_cp rfl⟩ <;> first | trivial | rfl
  | none =>
    simp only
    split
    · exact ⟨by trivial, by trivial, h⟩
    · rw [hpc]
      refine ⟨rfl, rfl, ?_⟩
      intro e he
      simp only [List.mem_cons] at he
      rcases he with rfl | he
      · rfl
      · exact h e he

theorem tokenStage_cp (g : Grammar) (id : Nat) (nd : Node) (rs : Res × PState) :
    (tokenStage g id nd rs).2.commentPos = rs.2.commentPos := by
  obtain ⟨r, t⟩ := rs
  unfold tokenStage
  cases r <;> (try simp only)
  cases nd.kind <;> (try simp only)
  all_goals (split <;> first | rfl | exact nmRaise_cp _ _)

theorem tokenStage_term {g : Grammar} {id : Nat} {nd : Node} {rs : Res × PState} {i c len : Nat} {t : PState}
    (h : tokenStage g id nd rs = (.ok (.term i c len), t)) : c = rs.2.pos := by
  obtain ⟨r, u⟩ := rs
  unfold tokenStage at h
  cases r <;> (try simp only at h)
  · cases nd.kind <;> (try simp only at h)
    all_goals
      (split at h <;> (try split at h) <;> simp at h <;>
        (try (obtain ⟨h1, _⟩ := h; split at h1 <;> simp at h1 <;> exact h1.2.1.symm)))
  all_goals simp at h

theorem skipWs_cp (g : Grammar) (s : PState) : (skipWs g s).commentPos = s.commentPos := rfl

theorem matchNode_pres (g : Grammar) {pc : PState → Res × PState} (hpc : ∀ s, pc s = (.ok .none, s))
    (id : Nat) (nd : Node) : PresB (matchNode g pc id nd) := by
  intro s h
  rw [matchNode_eq]
  have h0 : IdC (if s.skipws then skipWs g s else s) := by split <;> exact h.of_cp rfl
  exact (commentStage_id hpc h0).2.2.of_cp (tokenStage_cp g id nd _)

/-- the token of a terminal is attempted exactly where whitespace skipping over the *active* set stops
(at the entry position itself when skipping is off) -/
theorem matchNode_term_pos {g : Grammar} {pc : PState → Res × PState} (hpc : ∀ s, pc s = (.ok .none, s))
    {id : Nat} {nd : Node} {s t : PState} (h : IdC s) {i c len : Nat}
    (hm : matchNode g pc id nd s = (.ok (.term i c len), t)) :
    c = if s.skipws then skipTo g.input s.ws s.pos else s.pos := by
  rw [matchNode_eq] at hm
  have h0 : IdC (if s.skipws then skipWs g s else s) := by split <;> exact h.of_cp rfl
  rw [tokenStage_term hm, (commentStage_id hpc h0).2.1]
  split <;> rfl

theorem bodyNode_pres {q : SubParser} (hq : Pres q) (n : Nat) (nd : Node) : PresB (bodyNode q n nd) := by
  intro s h
  unfold bodyNode
  have hp : ∀ e, IdC (match q e s with
      | (.ok v, s2) => ((.ok (.list [v]), s2) : Res × PState)
      | (.nomatch, s2) => (.ok .none, { s2 with pos := s.pos })
      | r => r).2 := by
    intro e
    have := hq e s h
    rcases h2 : q e s with ⟨r, t⟩
    rw [h2] at this
    cases r <;> exact this
  cases nd.kind <;> simp only
  case seq =>
    have := withWsCtx_pres nd (fun t ht => seqLoop_pres hq nd.kids t [] ht) s h
    rcases h2 : withWsCtx nd (fun s1 => seqLoop q nd.kids s1 []) s with ⟨r, t⟩
    rw [h2] at this
    cases r <;> exact this
  case choice =>
    have := withWsCtx_pres nd (fun t ht => choiceLoop_pres hq nd.kids s.pos t ht) s h
    rcases h2 : withWsCtx nd (fun s1 => choiceLoop q nd.kids s.pos s1) s with ⟨r, t⟩
    rw [h2] at this
    cases r
    · exact this
    · exact IdC.of_cp this (nmRaise_cp _ _)
    · exact this
    · exact this
  case opt =>
    rcases nd.kids with _ | ⟨e, _ | ⟨e2, es⟩⟩ <;> simp only
    · exact h
    · exact hp e
    · exact h
  case star =>
    rcases nd.kids with _ | ⟨e, _ | ⟨e2, es⟩⟩ <;> simp only
    · exact h
    · exact withEol_pres nd (fun t ht => repLoop_pres hq e nd.sep n t [] false false ht) s h
    · exact h
  case plus =>
    rcases nd.kids with _ | ⟨e, _ | ⟨e2, es⟩⟩ <;> simp only
    · exact h
    · exact withEol_pres nd (fun t ht => repLoop_pres hq e nd.sep n t [] true false ht) s h
    · exact h
  case unord =>
    have := withEol_pres nd (fun t ht => unordLoop_pres hq nd.sep n nd.kids t [] true .none ht) s h
    rcases h2 : withEol nd (fun s1 => unordLoop q nd.sep n nd.kids s1 [] true .none) s with ⟨r, t⟩
    rw [h2] at this
    cases r
    · exact this
    · exact IdC.of_cp this (nmRaise_cp _ _)
    · exact this
    · exact this
  case andP =>
    rcases nd.kids with _ | ⟨e, _ | ⟨e2, es⟩⟩ <;> simp only
    · exact h
    · have := hq e s h
      rcases h2 : q e s with ⟨r, t⟩
      rw [h2] at this
      cases r <;> exact this
    · exact h
  case notP =>
    rcases nd.kids with _ | ⟨e, _ | ⟨e2, es⟩⟩ <;> simp only
    · exact h
    · have := hq e s h
      rcases h2 : q e s with ⟨r, t⟩
      rw [h2] at this
      cases r
      · exact IdC.of_cp this (nmRaise_cp _ _)
      · exact this
      · exact this
      · exact this
    · exact h
  all_goals exact h

theorem wrap_pres (memo : Bool) (id : Nat) (nd : Node) {b : PState → Res × PState} (hb : PresB b) :
    PresB (wrap memo id nd b) := by
  intro s h
  unfold wrap
  cases hh : cacheHit memo id s with
  | some x =>
    simp only
    unfold cacheHit at hh
    split at hh <;> simp at hh <;> subst hh <;> exact h
  | none =>
    simp only
    have := hb s h
    rcases h2 : b s with ⟨r, t⟩
    rw [h2] at this
    cases r <;> simp only [cacheStore]
    · split <;> exact this
    · split <;> exact this
    all_goals exact this

theorem nodeParse_pres (g : Grammar) (hc : g.comments = none) {q : SubParser} (hq : Pres q) (n : Nat) :
    Pres (nodeParse g q n) := by
  intro id s h
  unfold nodeParse
  cases g.nodes[id]? with
  | none => exact h
  | some nd =>
    simp only
    have hpc : ∀ s, commentsLoop g q n s = (.ok .none, s) := by intro s; unfold commentsLoop; rw [hc]
    have hm := matchNode_pres g hpc id nd s h
    have hw := wrap_pres g.memo id nd (bodyNode_pres hq n nd) s h
    cases nd.kind <;> simp only
    all_goals first | exact hm | exact hw

theorem parse_pres (g : Grammar) (hc : g.comments = none) : ∀ n, Pres (parse g n)
  | 0 => fun _ _ h => h
  | n+1 => nodeParse_pres g hc (parse_pres g hc n) n

end Peg
