import TextxVerif.Proofs.RecSim
import TextxVerif.Peg.RecX
/-! Soundness of `Rec.checkX` (C24): the context-dependent rules `sepC` / `sepD` relate
`OneOrMore(z, sep=t)` to `Sequence[ZeroOrMore(Sequence[z, t]), z]`; they are sound for every lexer
that satisfies `NoTrailingSep` at the repetition node.  Everything else is `Proofs/RecSim.lean`. -/
namespace Rec
open Peg (Node Kind)

/-- result of `Sequence[st, k'']` from the result of the star loop of `st` and the parser of `k''` -/
def thenK (r : Res) (f : Nat → Res) : Res :=
  match r with
  | .ok a p =>
    (match f p with
     | .ok v p' => .ok (a.add v) p'
     | e => e)
  | e => e

theorem repLoop_none_acc {fk : Nat → Res} (hT : ∀ q v r, fk q = .ok v r → v = .T) :
    ∀ j p acc first prev a r, repLoop fk none j p acc first prev = .ok a r → a = acc ∨ a = .T := by
  intro j
  induction j with
  | zero => intro p acc first prev a r h; simp [repLoop] at h
  | succ j ih =>
    intro p acc first prev a r h
    simp only [repLoop, sepStep] at h
    cases hf : fk p with
    | ok v p2 =>
      have hv := hT p v p2 hf
      subst hv
      rw [hf] at h
      simp only [Sh.truthy, if_true, add_T] at h
      rcases ih p2 .T false true a r h with h' | h' <;> exact Or.inr h'
    | fail =>
      rw [hf] at h
      by_cases hfirst : first = true
      · simp [hfirst] at h
      · simp only [hfirst] at h
        simp only [Bool.false_eq_true, if_false, Res.ok.injEq] at h
        exact Or.inl h.1.symm
    | bad => rw [hf] at h; simp at h
    | fuel => rw [hf] at h; simp at h

theorem starThen_some {g : Graph} {b k' s' k'' : Nat} (h : starThen g b = some (k', s', k'')) :
    ∃ nb st, g.get b = some nb ∧ transparentSeq nb = true ∧ nb.kids = [st, k''] ∧
      starSepBody g st = some (k', s') := by
  unfold starThen at h
  cases hb : g.get b with
  | none => simp [hb] at h
  | some nb =>
    simp only [hb] at h
    by_cases ht : transparentSeq nb = true
    · simp only [ht, if_true] at h
      cases hk : nb.kids with
      | nil => simp [hk] at h
      | cons st ks =>
        cases ks with
        | nil => simp [hk] at h
        | cons k2 ks2 =>
          cases ks2 with
          | cons _ _ => simp [hk] at h
          | nil =>
            simp only [hk] at h
            cases hst : starSepBody g st with
            | none => simp [hst] at h
            | some pr =>
              obtain ⟨x, y⟩ := pr
              simp only [hst, Option.some.injEq, Prod.mk.injEq] at h
              obtain ⟨rfl, rfl, rfl⟩ := h
              exact ⟨nb, st, rfl, ht, hk, hst⟩
    · simp [ht] at h

/-- the body `Sequence[k', s']` yields only `T` -/
theorem body_val {s : Side} {H : Hyps} {L : Lex} (hs : s.Ok H L) {bd k' s' : Nat} {nbd : Node}
    (hb : s.g.get bd = some nbd) (ht : transparentSeq nbd = true) (hk : nbd.kids = [k', s'])
    (hK' : onlyT s.sh k' = true) (hS' : onlyT s.sh s' = true) {M : Nat} {c : Bool} {q : Nat} {v : Sh} {r : Nat}
    (h : parse s.g L M bd c q = .ok v r) : v = .T := by
  cases M with
  | zero => simp [parse] at h
  | succ m =>
    rw [body_eval hs hb ht hk hK' hS' m c q] at h
    cases h1 : parse s.g L m k' c q with
    | ok v1 q1 =>
      rw [h1] at h
      simp only at h
      cases h2 : parse s.g L m s' c q1 with
      | ok v2 q2 =>
        rw [h2] at h
        simp only [Res.ok.injEq] at h
        exact h.1.symm
      | fail => rw [h2] at h; simp at h
      | bad => rw [h2] at h; simp at h
      | fuel => rw [h2] at h; simp at h
    | fail => rw [h1] at h; simp at h
    | bad => rw [h1] at h; simp at h
    | fuel => rw [h1] at h; simp at h

/-- the node `Sequence[ZeroOrMore(Sequence[k', s']), k'']`, evaluated from the star loop and `k''` -/
theorem starThen_eval {s : Side} {H : Hyps} {L : Lex} (hs : s.Ok H L) {b st bd k' s' k'' : Nat}
    {nb nst nbd : Node} (hgb : s.g.get b = some nb) (htb : transparentSeq nb = true) (hkb : nb.kids = [st, k''])
    (hgst : s.g.get st = some nst) (hkst : nst.kind = .star) (hsupst : supported nst = true)
    (hsst : nst.suppress = false) (hsepst : nst.sep = none) (hkidsst : nst.kids = [bd])
    (hbd : s.g.get bd = some nbd) (htbd : transparentSeq nbd = true) (hkbd : nbd.kids = [k', s'])
    (hK' : onlyT s.sh k' = true) (hS' : onlyT s.sh s' = true) (hK'' : onlyT s.sh k'' = true)
    (M : Nat) (c : Bool) (p : Nat) :
    parse s.g L (M+2) b c p =
      thenK (repLoop (fun q => parse s.g L M bd c q) none M p .E false false)
        (fun r => parse s.g L (M+1) k'' c r) := by
  have hsb := (transparent_iff htb).2.2
  rw [parse_seq hgb htb, hkb]
  simp only [seqLoop]
  have hps := parse_star (L := L) (n := M) (c := c) (p := p) hgst hkst hsupst hkidsst
  simp only [hsepst, Option.map] at hps
  rw [hps]
  cases hX : repLoop (fun q => parse s.g L M bd c q) none M p .E false false with
  | ok a r =>
    have ha := repLoop_none_acc (fk := fun q => parse s.g L M bd c q)
      (fun q v r h => body_val hs hbd htbd hkbd hK' hS' h) M p .E false false a r hX
    have hfin : finish nst (.ok a r) = .ok a r :=
      finish_plain hsst (by rcases ha with h | h <;> subst h <;> simp [NET])
    rw [hfin]
    simp only [thenK]
    cases hk2 : parse s.g L (M+1) k'' c r with
    | ok w p2 =>
      have hw := onlyT_val hs hK'' hk2
      subst hw
      simp only [add_T, seqRes]
      have : (Sh.T = Sh.E) = False := by simp
      simp only [this, if_false]
      exact finish_plain hsb (Or.inr (Or.inr rfl))
    | fail => simp [seqRes, finish]
    | bad => simp [seqRes, finish]
    | fuel => simp [seqRes, finish]
  | fail => simp [thenK, seqRes, finish]
  | bad => simp [thenK, seqRes, finish]
  | fuel => simp [thenK, seqRes, finish]

/-! ### `OneOrMore(z, sep=t)` on the left -/

theorem sepC_loop {s₁ s₂ : Side} {H : Hyps} {L : Lex} (hs₁ : s₁.Ok H L) {bd k' s' k'' z t : Nat} {nbd : Node}
    (hb : s₂.g.get bd = some nbd) (ht : transparentSeq nbd = true) (hk : nbd.kids = [k', s'])
    (hZ : onlyT s₁.sh z = true) (hT : onlyT s₁.sh t = true) {n : Nat}
    (trK' : Tr s₁ s₂ L n z k') (trK'' : Tr s₁ s₂ L n z k'') (trS : Tr s₁ s₂ L n t s') (c : Bool)
    (hnt : ∀ n₁ n₂ p₀ v₀ q v₁ p₁, parse s₁.g L n₁ z c p₀ = .ok v₀ q → parse s₁.g L n₂ t c q = .ok v₁ p₁ →
      ∀ m, parse s₁.g L m z c p₁ ≠ .fail) :
    ∀ j p' q, parse s₁.g L n z c p' = .ok .T q →
      repLoop (fun q => parse s₁.g L n z c q) (some fun q => parse s₁.g L n t c q) j q .T false true ≠ .fuel →
      ∃ m₀, ∀ mB mK, m₀ ≤ mB → m₀ ≤ mK → ∀ j', j < j' → ∀ accR prevR,
        thenK (repLoop (fun q => parse s₂.g L (mB+1) bd c q) none j' p' accR false prevR)
          (fun r => parse s₂.g L mK k'' c r) =
        repLoop (fun q => parse s₁.g L n z c q) (some fun q => parse s₁.g L n t c q) j q .T false true := by
  intro j
  induction j with
  | zero => intro p' q _ h; simp [repLoop] at h
  | succ j ih =>
    intro p' q hK hne
    simp only [repLoop, sepStep, if_true] at hne ⊢
    obtain ⟨mk1, hmk1⟩ := trK' n (Nat.le_refl n) c p' (by rw [hK]; simp)
    rw [hK] at hmk1
    obtain ⟨mk2, hmk2⟩ := trK'' n (Nat.le_refl n) c p' (by rw [hK]; simp)
    rw [hK] at hmk2
    cases h1 : parse s₁.g L n t c q with
    | ok v p1 =>
      have hv := onlyT_val hs₁ hT h1
      subst hv
      rw [h1] at hne
      simp only [T_add] at hne ⊢
      obtain ⟨m1, hm1⟩ := trS n (Nat.le_refl n) c q (by rw [h1]; simp)
      rw [h1] at hm1
      cases h2 : parse s₁.g L n z c p1 with
      | ok w q2 =>
        have hw := onlyT_val hs₁ hZ h2
        subst hw
        rw [h2] at hne
        simp only [Sh.truthy, if_true] at hne ⊢
        obtain ⟨m3, hm3⟩ := ih p1 q2 h2 hne
        refine ⟨max mk1 (max m1 m3), fun mB mK hB hK' j' hj' accR prevR => ?_⟩
        obtain ⟨j'', rfl⟩ : ∃ j'', j' = j'' + 1 := ⟨j' - 1, by omega⟩
        have hbody := body_TT (L := L) hb ht hk (hmk1 mB (by omega)) (hm1 mB (by omega))
        simp only [repLoop, sepStep, hbody, Sh.truthy, if_true]
        exact hm3 mB mK (by omega) (by omega) j'' (by omega) _ _
      | fail => exact absurd h2 (hnt n n p' _ q _ p1 hK h1 n)
      | bad =>
        obtain ⟨m2, hm2⟩ := trK' n (Nat.le_refl n) c p1 (by rw [h2]; simp)
        rw [h2] at hm2
        refine ⟨max mk1 (max m1 m2), fun mB mK hB hK' j' hj' accR prevR => ?_⟩
        obtain ⟨j'', rfl⟩ : ∃ j'', j' = j'' + 1 + 1 := ⟨j' - 2, by omega⟩
        have hbody := body_TT (L := L) hb ht hk (hmk1 mB (by omega)) (hm1 mB (by omega))
        have hbody2 := body_first (L := L) hb ht hk (hm2 mB (by omega)) (Or.inr rfl)
        simp [repLoop, sepStep, hbody, hbody2, thenK, Sh.truthy]
      | fuel => rw [h2] at hne; simp at hne
    | fail =>
      obtain ⟨m1, hm1⟩ := trS n (Nat.le_refl n) c q (by rw [h1]; simp)
      rw [h1] at hm1
      refine ⟨max mk1 (max mk2 m1), fun mB mK hB hK' j' hj' accR prevR => ?_⟩
      obtain ⟨j'', rfl⟩ : ∃ j'', j' = j'' + 1 := ⟨j' - 1, by omega⟩
      have hbody := body_second (L := L) hb ht hk (hmk1 mB (by omega)) (hm1 mB (by omega)) (Or.inl rfl)
      simp [repLoop, sepStep, hbody, thenK, hmk2 mK (by omega), add_T]
    | bad =>
      obtain ⟨m1, hm1⟩ := trS n (Nat.le_refl n) c q (by rw [h1]; simp)
      rw [h1] at hm1
      refine ⟨max mk1 m1, fun mB mK hB hK' j' hj' accR prevR => ?_⟩
      obtain ⟨j'', rfl⟩ : ∃ j'', j' = j'' + 1 := ⟨j' - 1, by omega⟩
      have hbody := body_second (L := L) hb ht hk (hmk1 mB (by omega)) (hm1 mB (by omega)) (Or.inr rfl)
      simp [repLoop, sepStep, hbody, thenK]
    | fuel => rw [h1] at hne; simp at hne

theorem sepC_unfold {s₁ s₂ : Side} {d : Nat} {R : Rel} {a b : Nat} (h : sepC s₁ s₂ d R a b = true) :
    ∃ z t k' s' k'', plusSep s₁.g a = some (z, t) ∧ starThen s₂.g b = some (k', s', k'') ∧
      onlyT s₁.sh z = true ∧ onlyT s₁.sh t = true ∧ onlyT s₂.sh k' = true ∧ onlyT s₂.sh s' = true ∧
      onlyT s₂.sh k'' = true ∧
      inR s₁ s₂ d R z k' = true ∧ inR s₁ s₂ d R z k'' = true ∧ inR s₁ s₂ d R t s' = true := by
  unfold sepC at h
  cases h1 : plusSep s₁.g a with
  | none => simp [h1] at h
  | some zt =>
    obtain ⟨z, t⟩ := zt
    cases h2 : starThen s₂.g b with
    | none => simp [h1, h2] at h
    | some tr =>
      obtain ⟨k', s', k''⟩ := tr
      simp only [h1, h2, Bool.and_eq_true] at h
      obtain ⟨⟨⟨⟨⟨⟨⟨a1, a2⟩, a3⟩, a4⟩, a5⟩, a6⟩, a7⟩, a8⟩ := h
      exact ⟨z, t, k', s', k'', rfl, rfl, a1, a2, a3, a4, a5, a6, a7, a8⟩

section cases
variable {s₁ s₂ : Side} {H : Hyps} {L : Lex} {d : Nat} {R : Rel}

theorem case_sepC (hs₁ : s₁.Ok H L) (hs₂ : s₂.Ok H L) {n a b : Nat} (hP : P s₁ s₂ L R n)
    (hsep : sepC s₁ s₂ d R a b = true) (hnt : NoTrailingSep s₁.g a L) : Goal s₁ s₂ L n a b := by
  intro c p hne
  obtain ⟨z, t, k', s', k'', hpl, hstt, hZ, hT, hK', hS', hK'', r1, r2, r3⟩ := sepC_unfold hsep
  obtain ⟨na, hga, hka, hsupa, hsa, hkidsa, hsepa⟩ := plusSep_some hpl
  obtain ⟨nb, st, hgb, htb, hkb, hst⟩ := starThen_some hstt
  obtain ⟨nst, bd, nbd, hgst, hkst, hsupst, hsst, hsepst, hkidsst, hbd, htbd, hkbd⟩ := starSepBody_some hst
  have trK' : Tr s₁ s₂ L n z k' := inR_tr hs₁ hs₂ hP r1
  have trK'' : Tr s₁ s₂ L n z k'' := inR_tr hs₁ hs₂ hP r2
  have trS : Tr s₁ s₂ L n t s' := inR_tr hs₁ hs₂ hP r3
  have hnt' := fun n₁ n₂ p₀ v₀ q v₁ p₁ => hnt na z t hga hkidsa hsepa n₁ n₂ c p₀ v₀ q v₁ p₁
  have hpp := parse_plus (L := L) (n := n) (c := c) (p := p) hga hka hsupa hkidsa
  simp only [hsepa, Option.map] at hpp
  have hrl : repLoop (fun q => parse s₁.g L n z c q) (some fun q => parse s₁.g L n t c q) n p .E true false ≠ .fuel := by
    intro h; rw [hpp, h] at hne; simp [finish] at hne
  have heval := starThen_eval (L := L) hs₂ hgb htb hkb hgst hkst hsupst hsst hsepst hkidsst hbd htbd hkbd hK' hS' hK''
  cases n with
  | zero => simp [repLoop] at hrl
  | succ j =>
    simp only [repLoop, sepStep, Bool.false_eq_true, if_false] at hpp hrl
    cases hz : parse s₁.g L (j+1) z c p with
    | ok v p1 =>
      have hv := onlyT_val hs₁ hZ hz
      subst hv
      rw [hz] at hpp hrl
      simp only [Sh.truthy, if_true] at hpp hrl
      have hET : Sh.E.add .T = .T := rfl
      rw [hET] at hpp hrl
      obtain ⟨m2, hm2⟩ := sepC_loop hs₁ hbd htbd hkbd hZ hT trK' trK'' trS c hnt' j p p1 hz hrl
      refine ⟨max m2 j + 3, fun m hm => ?_⟩
      obtain ⟨mB, rfl⟩ : ∃ mB, m = mB + 1 + 2 := ⟨m - 3, by omega⟩
      have hloop := hm2 mB (mB+1+1) (by omega) (by omega) (mB+1) (by omega) .E false
      rw [heval (mB+1) c p, hloop, hpp]
      cases hl2 : repLoop (fun q => parse s₁.g L (j+1) z c q) (some fun q => parse s₁.g L (j+1) t c q) j p1 .T false true with
      | ok w p2 =>
        rw [hl2] at hloop
        have hw : w = .T := by
          simp only [thenK] at hloop
          cases hX : repLoop (fun q => parse s₂.g L (mB + 1) bd c q) none (mB + 1) p .E false false with
          | ok a r =>
            rw [hX] at hloop
            simp only at hloop
            cases hk2 : parse s₂.g L (mB + 1 + 1) k'' c r with
            | ok w' p' =>
              rw [hk2] at hloop
              have hw' := onlyT_val hs₂ hK'' hk2
              subst hw'
              simp only [add_T, Res.ok.injEq] at hloop
              exact hloop.1.symm
            | fail => rw [hk2] at hloop; simp at hloop
            | bad => rw [hk2] at hloop; simp at hloop
            | fuel => rw [hk2] at hloop; simp at hloop
          | fail => rw [hX] at hloop; simp at hloop
          | bad => rw [hX] at hloop; simp at hloop
          | fuel => rw [hX] at hloop; simp at hloop
        subst hw
        simp [finish, hsa]
      | fail => simp [finish]
      | bad => simp [finish]
      | fuel => exact absurd hl2 hrl
    | fail =>
      rw [hz] at hpp
      simp only [if_true, finish] at hpp
      obtain ⟨m1, hm1⟩ := trK' (j+1) (Nat.le_refl _) c p (by rw [hz]; simp)
      rw [hz] at hm1
      obtain ⟨m1', hm1'⟩ := trK'' (j+1) (Nat.le_refl _) c p (by rw [hz]; simp)
      rw [hz] at hm1'
      refine ⟨max m1 m1' + 3, fun m hm => ?_⟩
      obtain ⟨mB, rfl⟩ : ∃ mB, m = mB + 1 + 2 := ⟨m - 3, by omega⟩
      have hbody := body_first (L := L) hbd htbd hkbd (hm1 mB (by omega)) (Or.inl rfl)
      rw [heval (mB+1) c p, hpp]
      simp [repLoop, sepStep, hbody, thenK, hm1' (mB+1+1) (by omega)]
    | bad =>
      rw [hz] at hpp
      simp only [finish] at hpp
      obtain ⟨m1, hm1⟩ := trK' (j+1) (Nat.le_refl _) c p (by rw [hz]; simp)
      rw [hz] at hm1
      refine ⟨m1 + 3, fun m hm => ?_⟩
      obtain ⟨mB, rfl⟩ : ∃ mB, m = mB + 1 + 2 := ⟨m - 3, by omega⟩
      have hbody := body_first (L := L) hbd htbd hkbd (hm1 mB (by omega)) (Or.inr rfl)
      rw [heval (mB+1) c p, hpp]
      simp [repLoop, sepStep, hbody, thenK]
    | fuel => rw [hz] at hrl; simp at hrl

end cases

/-! ### `OneOrMore(z, sep=t)` on the right -/

theorem sepD_loop {s₁ s₂ : Side} {H : Hyps} {L : Lex} (hs₁ : s₁.Ok H L) {bd k' s' k'' z t : Nat} {nbd : Node}
    (hb : s₁.g.get bd = some nbd) (ht : transparentSeq nbd = true) (hk : nbd.kids = [k', s'])
    (hK' : onlyT s₁.sh k' = true) (hS' : onlyT s₁.sh s' = true) (hK'' : onlyT s₁.sh k'' = true) {N : Nat}
    (trK' : Tr s₁ s₂ L N k' z) (trK'' : Tr s₁ s₂ L N k'' z) (trS : Tr s₁ s₂ L N s' t) (c : Bool)
    (hnt : ∀ n₁ n₂ p₀ v₀ q v₁ p₁, parse s₂.g L n₁ z c p₀ = .ok v₀ q → parse s₂.g L n₂ t c q = .ok v₁ p₁ →
      ∀ m, parse s₂.g L m z c p₁ ≠ .fail)
    (nB nK : Nat) (hnB : nB ≤ N) (hnK : nK ≤ N) :
    ∀ j p' accL prevL q0 n₁ n₂ p00 v₀ v₁, parse s₂.g L n₁ z c p00 = .ok v₀ q0 →
      parse s₂.g L n₂ t c q0 = .ok v₁ p' →
      thenK (repLoop (fun q => parse s₁.g L (nB+1) bd c q) none j p' accL false prevL)
        (fun r => parse s₁.g L nK k'' c r) ≠ .fuel →
      ∃ m₀, ∀ m, m₀ ≤ m → ∀ j', j < j' →
        repLoop (fun q => parse s₂.g L m z c q) (some fun q => parse s₂.g L m t c q) j' q0 .T false true =
        thenK (repLoop (fun q => parse s₁.g L (nB+1) bd c q) none j p' accL false prevL)
          (fun r => parse s₁.g L nK k'' c r) := by
  intro j
  induction j with
  | zero => intro p' accL prevL q0 n₁ n₂ p00 v₀ v₁ _ _ h; simp [repLoop, thenK] at h
  | succ j ih =>
    intro p' accL prevL q0 n₁ n₂ p00 v₀ v₁ hz0 ht0 hne
    simp only [repLoop, sepStep] at hne ⊢
    rw [body_eval hs₁ hb ht hk hK' hS' nB c p'] at hne ⊢
    have ht0' : ∀ m, n₂ ≤ m → parse s₂.g L m t c q0 = .ok v₁ p' := ev_of_ex ht0 (by simp)
    cases h1 : parse s₁.g L nB k' c p' with
    | ok v q =>
      have hv := onlyT_val hs₁ hK' h1
      subst hv
      rw [h1] at hne
      simp only at hne ⊢
      obtain ⟨m1, hm1⟩ := trK' nB hnB c p' (by rw [h1]; simp)
      rw [h1] at hm1
      cases h2 : parse s₁.g L nB s' c q with
      | ok w p1 =>
        have hw := onlyT_val hs₁ hS' h2
        subst hw
        rw [h2] at hne
        simp only [Sh.truthy, if_true] at hne ⊢
        obtain ⟨m2, hm2⟩ := trS nB hnB c q (by rw [h2]; simp)
        rw [h2] at hm2
        obtain ⟨m3, hm3⟩ := ih p1 (accL.add .T) true q m1 m2 p' .T .T (hm1 m1 (Nat.le_refl _))
          (hm2 m2 (Nat.le_refl _)) hne
        refine ⟨max (max m1 m2) (max m3 n₂), fun m hm j' hj' => ?_⟩
        obtain ⟨j'', rfl⟩ : ∃ j'', j' = j'' + 1 := ⟨j' - 1, by omega⟩
        simp only [repLoop, sepStep, if_true, ht0' m (by omega), hm1 m (by omega), Sh.truthy, T_add]
        exact hm3 m (by omega) j'' (by omega)
      | fail =>
        rw [h2] at hne
        simp only [Bool.false_eq_true, if_false, thenK] at hne ⊢
        obtain ⟨m2, hm2⟩ := trS nB hnB c q (by rw [h2]; simp)
        rw [h2] at hm2
        cases h3 : parse s₁.g L nK k'' c p' with
        | ok w q' =>
          have hw := onlyT_val hs₁ hK'' h3
          subst hw
          obtain ⟨m3, hm3⟩ := trK'' nK hnK c p' (by rw [h3]; simp)
          rw [h3] at hm3
          have heq := (hm1 (max m1 m3) (by omega)).symm.trans (hm3 (max m1 m3) (by omega))
          simp only [Res.ok.injEq, true_and] at heq
          subst heq
          refine ⟨max (max m1 m2) n₂, fun m hm j' hj' => ?_⟩
          obtain ⟨j'', rfl⟩ : ∃ j'', j' = j'' + 1 + 1 := ⟨j' - 2, by omega⟩
          simp [repLoop, sepStep, ht0' m (by omega), hm1 m (by omega), hm2 m (by omega), Sh.truthy, T_add, add_T]
        | fail =>
          exfalso
          obtain ⟨m3, hm3⟩ := trK'' nK hnK c p' (by rw [h3]; simp)
          rw [h3] at hm3
          have heq := (hm1 (max m1 m3) (by omega)).symm.trans (hm3 (max m1 m3) (by omega))
          simp at heq
        | bad =>
          exfalso
          obtain ⟨m3, hm3⟩ := trK'' nK hnK c p' (by rw [h3]; simp)
          rw [h3] at hm3
          have heq := (hm1 (max m1 m3) (by omega)).symm.trans (hm3 (max m1 m3) (by omega))
          simp at heq
        | fuel => rw [h3] at hne; simp at hne
      | bad =>
        obtain ⟨m2, hm2⟩ := trS nB hnB c q (by rw [h2]; simp)
        rw [h2] at hm2
        refine ⟨max (max m1 m2) n₂, fun m hm j' hj' => ?_⟩
        obtain ⟨j'', rfl⟩ : ∃ j'', j' = j'' + 1 + 1 := ⟨j' - 2, by omega⟩
        simp [repLoop, sepStep, ht0' m (by omega), hm1 m (by omega), hm2 m (by omega), Sh.truthy, T_add, thenK]
      | fuel => rw [h2] at hne; simp [thenK] at hne
    | fail =>
      exfalso
      obtain ⟨m1, hm1⟩ := trK' nB hnB c p' (by rw [h1]; simp)
      rw [h1] at hm1
      exact hnt n₁ n₂ p00 v₀ q0 v₁ p' hz0 ht0 m1 (hm1 m1 (Nat.le_refl _))
    | bad =>
      obtain ⟨m1, hm1⟩ := trK' nB hnB c p' (by rw [h1]; simp)
      rw [h1] at hm1
      refine ⟨max m1 n₂, fun m hm j' hj' => ?_⟩
      obtain ⟨j'', rfl⟩ : ∃ j'', j' = j'' + 1 := ⟨j' - 1, by omega⟩
      simp [repLoop, sepStep, ht0' m (by omega), hm1 m (by omega), thenK]
    | fuel => rw [h1] at hne; simp [thenK] at hne

theorem sepD_unfold {s₁ s₂ : Side} {d : Nat} {R : Rel} {a b : Nat} (h : sepD s₁ s₂ d R a b = true) :
    ∃ k' s' k'' z t, starThen s₁.g a = some (k', s', k'') ∧ plusSep s₂.g b = some (z, t) ∧
      onlyT s₁.sh k' = true ∧ onlyT s₁.sh s' = true ∧ onlyT s₁.sh k'' = true ∧
      inR s₁ s₂ d R k' z = true ∧ inR s₁ s₂ d R k'' z = true ∧ inR s₁ s₂ d R s' t = true := by
  unfold sepD at h
  cases h1 : starThen s₁.g a with
  | none => simp [h1] at h
  | some tr =>
    obtain ⟨k', s', k''⟩ := tr
    cases h2 : plusSep s₂.g b with
    | none => simp [h1, h2] at h
    | some zt =>
      obtain ⟨z, t⟩ := zt
      simp only [h1, h2, Bool.and_eq_true] at h
      obtain ⟨⟨⟨⟨⟨a1, a2⟩, a3⟩, a4⟩, a5⟩, a6⟩ := h
      exact ⟨k', s', k'', z, t, rfl, rfl, a1, a2, a3, a4, a5, a6⟩

section cases
variable {s₁ s₂ : Side} {H : Hyps} {L : Lex} {d : Nat} {R : Rel}

theorem case_sepD (hs₁ : s₁.Ok H L) (hs₂ : s₂.Ok H L) {n a b : Nat} (hP : P s₁ s₂ L R n)
    (hsep : sepD s₁ s₂ d R a b = true) (hnt : NoTrailingSep s₂.g b L) : Goal s₁ s₂ L n a b := by
  intro c p hne
  obtain ⟨k', s', k'', z, t, hstt, hpl, hK', hS', hK'', r1, r2, r3⟩ := sepD_unfold hsep
  obtain ⟨ny, hgy, hky, hsupy, hsy, hkidsy, hsepy⟩ := plusSep_some hpl
  obtain ⟨na, st, hga, hta, hka, hst⟩ := starThen_some hstt
  obtain ⟨nst, bd, nbd, hgst, hkst, hsupst, hsst, hsepst, hkidsst, hbd, htbd, hkbd⟩ := starSepBody_some hst
  have trK' : Tr s₁ s₂ L n k' z := inR_tr hs₁ hs₂ hP r1
  have trK'' : Tr s₁ s₂ L n k'' z := inR_tr hs₁ hs₂ hP r2
  have trS : Tr s₁ s₂ L n s' t := inR_tr hs₁ hs₂ hP r3
  have hnt' := fun n₁ n₂ p₀ v₀ q v₁ p₁ => hnt ny z t hgy hkidsy hsepy n₁ n₂ c p₀ v₀ q v₁ p₁
  have heval := starThen_eval (L := L) hs₁ hga hta hka hgst hkst hsupst hsst hsepst hkidsst hbd htbd hkbd hK' hS' hK''
  -- right-hand side: the plus node
  have hright : ∀ m, parse s₂.g L (m+1) b c p = finish ny (repLoop (fun q => parse s₂.g L m z c q)
      (some fun q => parse s₂.g L m t c q) m p .E true false) := by
    intro m
    have := parse_plus (L := L) (n := m) (c := c) (p := p) hgy hky hsupy hkidsy
    simpa only [hsepy, Option.map] using this
  cases n with
  | zero =>
    exfalso; apply hne
    rw [parse_seq hga hta, hka]
    simp [seqLoop, parse, seqRes, finish]
  | succ n1 =>
    cases n1 with
    | zero =>
      exfalso; apply hne
      rw [parse_seq hga hta, hka]
      have hps := parse_star (L := L) (n := 0) (c := c) (p := p) hgst hkst hsupst hkidsst
      simp [seqLoop, hps, repLoop, seqRes, finish]
    | succ nB =>
      -- a at nB+3, st and k'' at nB+2, loop fuel and bd at nB+1, k' and s' at nB
      have hev := heval (nB+1) c p
      rw [hev] at hne ⊢
      simp only [repLoop, sepStep] at hne ⊢
      rw [body_eval hs₁ hbd htbd hkbd hK' hS' nB c p] at hne ⊢
      cases h1 : parse s₁.g L nB k' c p with
      | ok v q =>
        have hv := onlyT_val hs₁ hK' h1
        subst hv
        rw [h1] at hne
        simp only at hne ⊢
        obtain ⟨m1, hm1⟩ := trK' nB (by omega) c p (by rw [h1]; simp)
        rw [h1] at hm1
        cases h2 : parse s₁.g L nB s' c q with
        | ok w p1 =>
          have hw := onlyT_val hs₁ hS' h2
          subst hw
          rw [h2] at hne
          simp only [Sh.truthy, if_true] at hne ⊢
          obtain ⟨m2, hm2⟩ := trS nB (by omega) c q (by rw [h2]; simp)
          rw [h2] at hm2
          obtain ⟨m3, hm3⟩ := sepD_loop hs₁ hbd htbd hkbd hK' hS' hK'' trK' trK'' trS c hnt' nB (nB+1+1)
            (by omega) (by omega) nB p1 (Sh.E.add .T) true q m1 m2 p .T .T (hm1 m1 (Nat.le_refl _))
            (hm2 m2 (Nat.le_refl _)) hne
          refine ⟨max (max m1 m3) nB + 3, fun m hm => ?_⟩
          obtain ⟨M, rfl⟩ : ∃ M, m = M + 1 + 1 := ⟨m - 2, by omega⟩
          rw [hright (M+1)]
          have hloop := hm3 (M+1) (by omega) M (by omega)
          simp only [repLoop, sepStep, Bool.false_eq_true, if_false, hm1 (M+1) (by omega), Sh.truthy, if_true]
          have hET : Sh.E.add .T = .T := rfl
          rw [hET] at hloop ⊢
          rw [hloop]
          -- the result of `thenK` is `ok T _`, `fail` or `bad`
          cases hX : thenK (repLoop (fun q => parse s₁.g L (nB + 1) bd c q) none nB p1 .T false true)
              (fun r => parse s₁.g L (nB + 1 + 1) k'' c r) with
          | ok w p2 =>
            have hw : w = .T := by
              simp only [thenK] at hX
              cases hY : repLoop (fun q => parse s₁.g L (nB + 1) bd c q) none nB p1 .T false true with
              | ok a r =>
                rw [hY] at hX
                simp only at hX
                cases hk2 : parse s₁.g L (nB + 1 + 1) k'' c r with
                | ok w' p' =>
                  rw [hk2] at hX
                  have hw' := onlyT_val hs₁ hK'' hk2
                  subst hw'
                  simp only [add_T, Res.ok.injEq] at hX
                  exact hX.1.symm
                | fail => rw [hk2] at hX; simp at hX
                | bad => rw [hk2] at hX; simp at hX
                | fuel => rw [hk2] at hX; simp at hX
              | fail => rw [hY] at hX; simp at hX
              | bad => rw [hY] at hX; simp at hX
              | fuel => rw [hY] at hX; simp at hX
            subst hw
            simp [finish, hsy]
          | fail => simp [finish]
          | bad => simp [finish]
          | fuel => rw [hET, hX] at hne; exact absurd rfl hne
        | fail =>
          rw [h2] at hne
          simp only [Bool.false_eq_true, if_false, thenK] at hne ⊢
          obtain ⟨m2, hm2⟩ := trS nB (by omega) c q (by rw [h2]; simp)
          rw [h2] at hm2
          cases h3 : parse s₁.g L (nB+1+1) k'' c p with
          | ok w q' =>
            have hw := onlyT_val hs₁ hK'' h3
            subst hw
            obtain ⟨m3, hm3⟩ := trK'' (nB+1+1) (by omega) c p (by rw [h3]; simp)
            rw [h3] at hm3
            have heq := (hm1 (max m1 m3) (by omega)).symm.trans (hm3 (max m1 m3) (by omega))
            simp only [Res.ok.injEq, true_and] at heq
            subst heq
            refine ⟨max m1 m2 + 3, fun m hm => ?_⟩
            obtain ⟨M, rfl⟩ : ∃ M, m = M + 1 + 1 + 1 := ⟨m - 3, by omega⟩
            rw [hright (M+1+1)]
            simp [repLoop, sepStep, hm1 (M+1+1) (by omega), hm2 (M+1+1) (by omega), Sh.truthy, Sh.add, finish, hsy]
          | fail =>
            exfalso
            obtain ⟨m3, hm3⟩ := trK'' (nB+1+1) (by omega) c p (by rw [h3]; simp)
            rw [h3] at hm3
            have heq := (hm1 (max m1 m3) (by omega)).symm.trans (hm3 (max m1 m3) (by omega))
            simp at heq
          | bad =>
            exfalso
            obtain ⟨m3, hm3⟩ := trK'' (nB+1+1) (by omega) c p (by rw [h3]; simp)
            rw [h3] at hm3
            have heq := (hm1 (max m1 m3) (by omega)).symm.trans (hm3 (max m1 m3) (by omega))
            simp at heq
          | fuel => rw [h3] at hne; simp at hne
        | bad =>
          obtain ⟨m2, hm2⟩ := trS nB (by omega) c q (by rw [h2]; simp)
          rw [h2] at hm2
          refine ⟨max m1 m2 + 3, fun m hm => ?_⟩
          obtain ⟨M, rfl⟩ : ∃ M, m = M + 1 + 1 + 1 := ⟨m - 3, by omega⟩
          rw [hright (M+1+1)]
          simp [repLoop, sepStep, hm1 (M+1+1) (by omega), hm2 (M+1+1) (by omega), Sh.truthy, thenK, finish]
        | fuel => rw [h2] at hne; simp [thenK] at hne
      | fail =>
        rw [h1] at hne
        simp only [Bool.false_eq_true, if_false, thenK] at hne ⊢
        obtain ⟨m1, hm1⟩ := trK' nB (by omega) c p (by rw [h1]; simp)
        rw [h1] at hm1
        cases h3 : parse s₁.g L (nB+1+1) k'' c p with
        | ok w q' =>
          exfalso
          obtain ⟨m3, hm3⟩ := trK'' (nB+1+1) (by omega) c p (by rw [h3]; simp)
          rw [h3] at hm3
          have heq := (hm1 (max m1 m3) (by omega)).symm.trans (hm3 (max m1 m3) (by omega))
          simp at heq
        | fail =>
          refine ⟨m1 + 2, fun m hm => ?_⟩
          obtain ⟨M, rfl⟩ : ∃ M, m = M + 1 + 1 := ⟨m - 2, by omega⟩
          rw [hright (M+1)]
          simp [repLoop, sepStep, hm1 (M+1) (by omega), finish]
        | bad =>
          exfalso
          obtain ⟨m3, hm3⟩ := trK'' (nB+1+1) (by omega) c p (by rw [h3]; simp)
          rw [h3] at hm3
          have heq := (hm1 (max m1 m3) (by omega)).symm.trans (hm3 (max m1 m3) (by omega))
          simp at heq
        | fuel => rw [h3] at hne; simp at hne
      | bad =>
        obtain ⟨m1, hm1⟩ := trK' nB (by omega) c p (by rw [h1]; simp)
        rw [h1] at hm1
        refine ⟨m1 + 2, fun m hm => ?_⟩
        obtain ⟨M, rfl⟩ : ∃ M, m = M + 1 + 1 := ⟨m - 2, by omega⟩
        rw [hright (M+1)]
        simp [repLoop, sepStep, hm1 (M+1) (by omega), finish, thenK]
      | fuel => rw [h1] at hne; simp [thenK] at hne

end cases

/-! ### graphs that never yield `.bad` -/

theorem finish_ne_bad {nd : Node} {r : Res} (h : r ≠ .bad) : finish nd r ≠ .bad := by
  cases r <;> simp [finish] at h ⊢

theorem seqLoop_nb {f : Nat → Nat → Res} :
    ∀ es p acc, (∀ e, e ∈ es → ∀ q, f e q ≠ .bad) → seqLoop f es p acc ≠ .bad := by
  intro es
  induction es with
  | nil => intro p acc _; simp [seqLoop]
  | cons e es ih =>
    intro p acc h
    simp only [seqLoop]
    cases hf : f e p with
    | ok v q => exact ih q _ (fun e' he' => h e' (List.mem_cons_of_mem _ he'))
    | fail => simp
    | fuel => simp
    | bad => exact absurd hf (h e (List.mem_cons_self ..) p)

theorem choiceLoop_nb {f : Nat → Nat → Res} :
    ∀ es cpos p, (∀ e, e ∈ es → ∀ q, f e q ≠ .bad) → choiceLoop f es cpos p ≠ .bad := by
  intro es
  induction es with
  | nil => intro cpos p _; simp [choiceLoop]
  | cons e es ih =>
    intro cpos p h
    simp only [choiceLoop]
    have h' : ∀ e', e' ∈ es → ∀ q, f e' q ≠ .bad := fun e' he' => h e' (List.mem_cons_of_mem _ he')
    cases hf : f e p with
    | ok v q =>
      by_cases hv : v = .N
      · simp only [hv, if_true]; exact ih cpos q h'
      · simp [hv]
    | fail => exact ih cpos cpos h'
    | fuel => simp
    | bad => exact absurd hf (h e (List.mem_cons_self ..) p)

theorem sepStep_nb {fs : Option (Nat → Res)} (h : ∀ f, fs = some f → ∀ q, f q ≠ .bad) (pos : Nat) (acc : Sh)
    (prev : Bool) : sepStep fs pos acc prev ≠ .bad := by
  cases fs with
  | none => simp [sepStep]
  | some f =>
    simp only [sepStep]
    by_cases hp : prev = true
    · simp only [hp, if_true]
      cases hf : f pos with
      | ok v q => simp
      | fail => simp
      | fuel => simp
      | bad => exact absurd hf (h f rfl pos)
    · simp [hp]

theorem repLoop_nb {fk : Nat → Res} {fs : Option (Nat → Res)} (hk : ∀ q, fk q ≠ .bad)
    (hs : ∀ f, fs = some f → ∀ q, f q ≠ .bad) :
    ∀ j pos acc first prev, repLoop fk fs j pos acc first prev ≠ .bad := by
  intro j
  induction j with
  | zero => intro pos acc first prev; simp [repLoop]
  | succ j ih =>
    intro pos acc first prev
    simp only [repLoop]
    cases hsp : sepStep fs pos acc prev with
    | ok acc1 p1 =>
      simp only
      cases hf : fk p1 with
      | ok v p2 =>
        simp only
        by_cases hv : v.truthy = true
        · simp only [hv, if_true]; exact ih p2 _ false true
        · simp [hv]
      | fail => by_cases hfi : first = true <;> simp [hfi]
      | fuel => simp
      | bad => exact absurd hf (hk p1)
    | fail => by_cases hfi : first = true <;> simp [hfi]
    | fuel => simp
    | bad => exact absurd hsp (sepStep_nb hs pos acc prev)

theorem commentsLoop_nb {f : Nat → Res} {skip : Nat → Nat} (h : ∀ q, f q ≠ .bad) :
    ∀ j pos, commentsLoop f skip j pos ≠ .bad := by
  intro j
  induction j with
  | zero => intro pos; simp [commentsLoop]
  | succ j ih =>
    intro pos
    simp only [commentsLoop]
    cases hf : f pos with
    | ok v q => exact ih _
    | fail => simp
    | fuel => simp
    | bad => exact absurd hf (h pos)

theorem wf_get {g : Graph} (h : noBadB g = true) {a : Nat} (ha : a < g.size) :
    ∃ nd, g.get a = some nd ∧ wfNode g nd = true := by
  simp only [noBadB, Bool.and_eq_true, List.all_eq_true, List.mem_range] at h
  have := h.2 a ha
  cases hg : g.get a with
  | none => simp [hg] at this
  | some nd => simp only [hg] at this; exact ⟨nd, rfl, this⟩

theorem lexTok_ne_bad (nd : Node) (L : Lex) (p : Nat) : lexTok nd L p ≠ .bad := by
  unfold lexTok
  cases nd.kind <;> simp only <;> (first | (split <;> simp) | (cases L.tok nd.tok p <;> simp))

/-- a graph accepted by `noBadB` never yields `.bad` -/
theorem parse_ne_bad {g : Graph} {L : Lex} (h : noBadB g = true) :
    ∀ n a c p, a < g.size → parse g L n a c p ≠ .bad := by
  intro n
  induction n with
  | zero => intro a c p _; simp [parse]
  | succ n ih =>
    intro a c p ha
    obtain ⟨nd, hnd, hwf⟩ := wf_get h ha
    simp only [wfNode, Bool.and_eq_true, List.all_eq_true, decide_eq_true_eq] at hwf
    obtain ⟨⟨⟨hsup, hkids⟩, hsep⟩, harity⟩ := hwf
    have hcom : ∀ cm, g.comments = some cm → cm < g.size := by
      intro cm hcm
      simp only [noBadB, Bool.and_eq_true] at h
      have := h.1
      simpa [hcm] using this
    have hsepf : ∀ f, (nd.sep.map fun s q => parse g L n s c q) = some f → ∀ q, f q ≠ .bad := by
      intro f hf q
      cases hs : nd.sep with
      | none => simp [hs] at hf
      | some s =>
        simp only [hs, Option.map, Option.some.injEq] at hf
        subst hf
        simp only [hs, decide_eq_true_eq] at hsep
        exact ih s c q hsep
    have hmatch : (match skipGen g L (fun e q => parse g L n e true q) n c p with
        | .ok _ p => finish nd (lexTok nd L p)
        | r => r) ≠ .bad := by
      have hsk : skipGen g L (fun e q => parse g L n e true q) n c p ≠ .bad := by
        unfold skipGen
        by_cases hc : c = true
        · simp [hc]
        · simp only [hc]
          cases hcm : g.comments with
          | none => simp
          | some cm => exact commentsLoop_nb (fun q => ih cm true q (hcom cm hcm)) _ _
      cases hr : skipGen g L (fun e q => parse g L n e true q) n c p with
      | ok v q => exact finish_ne_bad (lexTok_ne_bad nd L q)
      | fail => simp
      | fuel => simp
      | bad => exact absurd hr hsk
    unfold parse
    simp only [hnd, hsup, Bool.not_true, Bool.false_eq_true, if_false]
    cases hk : nd.kind <;> simp only [hk] at harity ⊢
    case str => exact hmatch
    case re => exact hmatch
    case eof => exact hmatch
    case seq =>
      apply finish_ne_bad
      have := seqLoop_nb (f := fun e p => parse g L n e c p) nd.kids p .E (fun e he q => ih e c q (hkids e he))
      cases hr : seqLoop (fun e p => parse g L n e c p) nd.kids p .E with
      | ok v q => simp
      | fail => simp
      | fuel => simp
      | bad => exact absurd hr this
    case choice =>
      exact finish_ne_bad (choiceLoop_nb (f := fun e p => parse g L n e c p) nd.kids p p
        (fun e he q => ih e c q (hkids e he)))
    case unord => exact absurd harity (by simp)
    all_goals (
      cases hkk : nd.kids with
      | nil => simp [hkk] at harity
      | cons k ks =>
        cases ks with
        | cons _ _ => simp [hkk] at harity
        | nil =>
          have hklt : k < g.size := hkids k (by simp [hkk])
          simp only
          first
            | exact finish_ne_bad (repLoop_nb (fun q => ih k c q hklt) hsepf _ _ _ _ _)
            | (apply finish_ne_bad
               cases hr : parse g L n k c p with
               | ok v q => simp
               | fail => simp
               | fuel => simp
               | bad => exact absurd hr (ih k c p hklt)))

/-! ### the guarded separator -/

theorem get_match {g : Graph} {x : Nat} {P : Node → Bool}
    (h : (match g.get x with
          | some nd => P nd
          | none => false) = true) : ∃ nd, g.get x = some nd ∧ P nd = true := by
  cases hx : g.get x with
  | none => simp [hx] at h
  | some nd => simp only [hx] at h; exact ⟨nd, rfl, h⟩

theorem omega_fuel {g : Graph} {L : Lex} {w : Nat} {nw : Node} (hw : g.get w = some nw)
    (ht : transparentSeq nw = true) (hk : nw.kids = [w]) : ∀ n c p, parse g L n w c p = .fuel := by
  intro n
  induction n with
  | zero => intro c p; simp [parse]
  | succ n ih => intro c p; rw [parse_seq hw ht, hk]; simp [seqLoop, ih, seqRes, finish]

theorem parse_andP {g : Graph} {L : Lex} {n a c p} {nd : Node} {k : Nat} (hnd : g.get a = some nd)
    (hk : nd.kind = .andP) (hs : supported nd = true) (hkids : nd.kids = [k]) :
    parse g L (n+1) a c p = finish nd (match parse g L n k c p with
      | .ok _ _ => .ok .N p
      | r => r) := by
  rw [parse]
  simp only [hnd, hs, Bool.not_true, Bool.false_eq_true, if_false, hk, hkids]
  rfl

/-- the lookahead `And(OrderedChoice[z, ω])` of a guarded separator -/
def andRes (g : Graph) (L : Lex) (z : Nat) (n : Nat) (c : Bool) (q : Nat) : Res :=
  match n with
  | n' + 2 =>
    (match parse g L n' z c q with
     | .ok _ _ => .ok .N q
     | .fail => .fuel
     | r => r)
  | _ => .fuel

theorem andRes_ok {g : Graph} {L : Lex} {z n : Nat} {c : Bool} {q : Nat} {v : Sh} {r : Nat}
    (h : andRes g L z n c q = .ok v r) : v = .N ∧ r = q ∧ ∃ n' v' r', parse g L n' z c q = .ok v' r' := by
  unfold andRes at h
  split at h
  · rename_i n'
    cases h2 : parse g L n' z c q with
    | ok v' r' =>
      rw [h2] at h
      simp only [Res.ok.injEq] at h
      exact ⟨h.1.symm, h.2.symm, n', v', r', h2⟩
    | fail => rw [h2] at h; simp at h
    | bad => rw [h2] at h; simp at h
    | fuel => rw [h2] at h; simp at h
  · simp at h

theorem guard_eval {g : Graph} {L : Lex} {a t an ch z w : Nat} (hg : isGuard g a t an ch z w = true)
    (hz : ∀ n c q v r, parse g L n z c q = .ok v r → v = .T)
    (ht : ∀ n c q v r, parse g L n t c q = .ok v r → v = .T) (n : Nat) (c : Bool) (p : Nat) :
    parse g L (n+1) a c p =
      match parse g L n t c p with
      | .ok _ q =>
        (match andRes g L z n c q with
         | .ok _ _ => .ok .T q
         | r => r)
      | r => r := by
  simp only [isGuard, Bool.and_eq_true] at hg
  obtain ⟨⟨⟨h1, h2⟩, h3⟩, h4⟩ := hg
  obtain ⟨na, hna, hpa⟩ := get_match h1
  obtain ⟨nan, hnan, hpan⟩ := get_match h2
  obtain ⟨nch, hnch, hpch⟩ := get_match h3
  obtain ⟨nw, hnw, hpw⟩ := get_match h4
  simp only [Bool.and_eq_true, beq_iff_eq, Bool.not_eq_true'] at hpa hpan hpch hpw
  obtain ⟨hta, hka⟩ := hpa
  obtain ⟨⟨⟨hkan, hsan⟩, hspan⟩, hkidsan⟩ := hpan
  obtain ⟨⟨⟨hkch, hsch⟩, hspch⟩, hkidsch⟩ := hpch
  obtain ⟨htw, hkw⟩ := hpw
  have hsa := (transparent_iff hta).2.2
  have hand : ∀ q, parse g L n an c q = andRes g L z n c q := by
    intro q
    cases n with
    | zero => simp [parse, andRes]
    | succ n1 =>
      rw [parse_andP hnan hkan hsan hkidsan]
      cases n1 with
      | zero => simp [parse, andRes, finish]
      | succ n2 =>
        rw [parse_choice hnch hkch hsch, hkidsch]
        simp only [choiceLoop, andRes]
        cases h2 : parse g L n2 z c q with
        | ok vz r =>
          have := hz n2 c q vz r h2
          subst this
          simp [Sh.wrap1, finish, hspch, hspan]
        | fail => simp [omega_fuel hnw htw hkw, finish]
        | bad => simp [finish]
        | fuel => simp [finish]
  rw [parse_seq hna hta, hka]
  simp only [seqLoop, hand]
  cases h1' : parse g L n t c p with
  | ok v q =>
    have := ht n c p v q h1'
    subst this
    simp only
    cases h2' : andRes g L z n c q with
    | ok va qa =>
      obtain ⟨rfl, rfl, _⟩ := andRes_ok h2'
      simp [Sh.add, seqRes, finish, hsa]
    | fail => simp [seqRes, finish]
    | bad => simp [seqRes, finish]
    | fuel => simp [seqRes, finish]
  | fail => simp [seqRes, finish]
  | bad => simp [seqRes, finish]
  | fuel => simp [seqRes, finish]

theorem guardC_unfold {s₁ s₂ : Side} {d : Nat} {R : Rel} {a b : Nat} (h : guardC s₁ s₂ d R a b = true) :
    ∃ t an ch z w, isGuard s₁.g a t an ch z w = true ∧ onlyT s₁.sh t = true ∧ onlyT s₁.sh z = true ∧
      noBadB s₁.g = true ∧ z < s₁.g.size ∧ inR s₁ s₂ d R t b = true := by
  unfold guardC at h
  cases hp : guardParts s₁.g a with
  | none => simp [hp] at h
  | some tup =>
    obtain ⟨t, an, ch, z, w⟩ := tup
    simp only [hp, Bool.and_eq_true, decide_eq_true_eq] at h
    obtain ⟨⟨⟨⟨⟨a1, a2⟩, a3⟩, a4⟩, a5⟩, a6⟩ := h
    exact ⟨t, an, ch, z, w, a1, a2, a3, a4, a5, a6⟩

section cases
variable {s₁ s₂ : Side} {H : Hyps} {L : Lex} {d : Nat} {R : Rel}

theorem case_guardC (hs₁ : s₁.Ok H L) (hs₂ : s₂.Ok H L) {n a b : Nat} (hP : P s₁ s₂ L R n)
    (h : guardC s₁ s₂ d R a b = true) : Goal s₁ s₂ L n a b := by
  intro c p hne
  obtain ⟨t, an, ch, z, w, hg, hT, hZ, hnb, hzlt, hin⟩ := guardC_unfold h
  have trT : Tr s₁ s₂ L n t b := inR_tr hs₁ hs₂ hP hin
  have hev := guard_eval (L := L) hg (fun n c q v r h => onlyT_val hs₁ hZ h) (fun n c q v r h => onlyT_val hs₁ hT h) n c p
  rw [hev] at hne ⊢
  cases h1 : parse s₁.g L n t c p with
  | ok v q =>
    have hv := onlyT_val hs₁ hT h1
    subst hv
    rw [h1] at hne
    simp only at hne ⊢
    obtain ⟨m1, hm1⟩ := trT n (Nat.le_refl n) c p (by rw [h1]; simp)
    rw [h1] at hm1
    cases h2 : andRes s₁.g L z n c q with
    | ok va qa => exact ⟨m1, fun m hm => by simp [hm1 m hm]⟩
    | fail =>
      exfalso
      unfold andRes at h2
      split at h2
      · rename_i n'
        cases h3 : parse s₁.g L n' z c q <;> rw [h3] at h2 <;> simp at h2
      · simp at h2
    | bad =>
      exfalso
      unfold andRes at h2
      split at h2
      · rename_i n'
        cases h3 : parse s₁.g L n' z c q with
        | bad => exact parse_ne_bad hnb n' z c q hzlt h3
        | ok _ _ => rw [h3] at h2; simp at h2
        | fail => rw [h3] at h2; simp at h2
        | fuel => rw [h3] at h2; simp at h2
      · simp at h2
    | fuel => rw [h2] at hne; simp at hne
  | fail =>
    obtain ⟨m1, hm1⟩ := trT n (Nat.le_refl n) c p (by rw [h1]; simp)
    rw [h1] at hm1
    exact ⟨m1, fun m hm => by simp [hm1 m hm]⟩
  | bad =>
    obtain ⟨m1, hm1⟩ := trT n (Nat.le_refl n) c p (by rw [h1]; simp)
    rw [h1] at hm1
    exact ⟨m1, fun m hm => by simp [hm1 m hm]⟩
  | fuel => rw [h1] at hne; simp at hne

end cases

/-- a repetition whose separator is guarded by a lookahead for its own element has no trailing
separator, whatever the lexer -/
theorem trap_notrail {s : Side} {H : Hyps} {L : Lex} (hs : s.Ok H L) {i : Nat} (h : trapOk s i = true) :
    NoTrailingSep s.g i L := by
  unfold trapOk at h
  cases hpl : plusSep s.g i with
  | none => simp [hpl] at h
  | some zG =>
    obtain ⟨z, G⟩ := zG
    simp only [hpl] at h
    cases hp : guardParts s.g G with
    | none => simp [hp] at h
    | some tup =>
      obtain ⟨t, an, ch, z', w⟩ := tup
      simp only [hp, Bool.and_eq_true, beq_iff_eq] at h
      obtain ⟨⟨⟨hg, hzz⟩, hT⟩, hZ⟩ := h
      subst hzz
      obtain ⟨ny, hgy, _, _, _, hkidsy, hsepy⟩ := plusSep_some hpl
      intro nd k s' hi hk hsep n₁ n₂ c p₀ v₀ q v₁ p₁ _ hS m hm
      rw [hgy] at hi
      simp only [Option.some.injEq] at hi
      subst hi
      rw [hkidsy] at hk
      rw [hsepy] at hsep
      simp only [List.cons.injEq, and_true, Option.some.injEq] at hk hsep
      subst hk; subst hsep
      cases n₂ with
      | zero => simp [parse] at hS
      | succ n =>
        rw [guard_eval (L := L) hg (fun n c q v r h => onlyT_val hs hZ h) (fun n c q v r h => onlyT_val hs hT h) n c q] at hS
        cases h1 : parse s.g L n t c q with
        | ok v q' =>
          rw [h1] at hS
          simp only at hS
          cases h2 : andRes s.g L z' n c q' with
          | ok va qa =>
            rw [h2] at hS
            simp only [Res.ok.injEq] at hS
            obtain ⟨_, _, n', v', r', h3⟩ := andRes_ok h2
            rw [← hS.2] at hm
            have := parse_det s.g L (n := n') (m := m) (a := z') (c := c) (p := q') (by rw [h3]; simp) (by rw [hm]; simp)
            rw [h3, hm] at this
            exact absurd this (by simp)
          | fail => rw [h2] at hS; simp at hS
          | bad => rw [h2] at hS; simp at hS
          | fuel => rw [h2] at hS; simp at hS
        | fail => rw [h1] at hS; simp at hS
        | bad => rw [h1] at hS; simp at hS
        | fuel => rw [h1] at hS; simp at hS

section cases
variable {s₁ s₂ : Side} {H : Hyps} {L : Lex} {d : Nat} {R : Rel}

/-! ### assembling -/

theorem okPairX_goal (hs₁ : s₁.Ok H L) (hs₂ : s₂.Ok H L) (hb : Base s₁ s₂ d R) {exC exD : List (Nat × Nat)}
    (hC : ∀ ab, ab ∈ exC → NoTrailingSep s₁.g ab.1 L) (hD : ∀ ab, ab ∈ exD → NoTrailingSep s₂.g ab.2 L)
    {n a b : Nat} (hP : P s₁ s₂ L R n) (hok : okPairX s₁ s₂ H d R exC exD a b = true) :
    Goal s₁ s₂ L n a b := by
  unfold okPairX at hok
  by_cases h1 : exC.contains (a, b) = true
  · rw [if_pos h1] at hok
    exact case_sepC hs₁ hs₂ hP hok (hC (a, b) (by simpa using h1))
  · rw [if_neg h1] at hok
    by_cases h2 : exD.contains (a, b) = true
    · rw [if_pos h2] at hok
      exact case_sepD hs₁ hs₂ hP hok (hD (a, b) (by simpa using h2))
    · rw [if_neg h2] at hok
      rcases Bool.or_eq_true _ _ |>.mp hok with h3 | h3
      · exact okPair_goal hs₁ hs₂ hb hP h3
      · exact case_guardC hs₁ hs₂ hP h3

theorem simX_all (hs₁ : s₁.Ok H L) (hs₂ : s₂.Ok H L) (hb : Base s₁ s₂ d R) {exC exD : List (Nat × Nat)}
    (hC : ∀ ab, ab ∈ exC → NoTrailingSep s₁.g ab.1 L) (hD : ∀ ab, ab ∈ exD → NoTrailingSep s₂.g ab.2 L)
    (hpairs : ∀ a, a < s₁.g.size → ∀ b, b ∈ R a → okPairX s₁ s₂ H d R exC exD a b = true) :
    ∀ N, P s₁ s₂ L R N := by
  intro N
  induction N with
  | zero =>
    intro a b _ _ k hk c p hne
    have : k = 0 := by omega
    subst this
    simp [parse] at hne
  | succ n ih =>
    intro a b ha hbR k hk c p hne
    by_cases hkn : k ≤ n
    · exact ih a b ha hbR k hkn c p hne
    · have : k = n + 1 := by omega
      subst this
      exact okPairX_goal hs₁ hs₂ hb hC hD ih (hpairs a ha b hbR) c p hne

end cases

theorem checkX_base {s₁ s₂ : Side} {H : Hyps} {d : Nat} {R : Rel} {exC exD : List (Nat × Nat)}
    (h : checkX s₁ s₂ H d R exC exD = true) :
    Base s₁ s₂ d R ∧ inR s₁ s₂ d R s₁.g.top s₂.g.top = true ∧
      ∀ a, a < s₁.g.size → ∀ b, b ∈ R a → okPairX s₁ s₂ H d R exC exD a b = true := by
  simp only [checkX, Bool.and_eq_true, beq_iff_eq, List.all_eq_true, List.mem_range] at h
  obtain ⟨⟨⟨⟨hws, hsk⟩, hcom⟩, htop⟩, hall⟩ := h
  refine ⟨⟨hws, hsk, ?_⟩, htop, hall⟩
  cases h1 : s₁.g.comments <;> cases h2 : s₂.g.comments <;> simp_all

/-- **Soundness of `checkX`**: as `sim_sound`, with the exceptional pairs justified by `NoTrailingSep`. -/
theorem simX_sound {s₁ s₂ : Side} {H : Hyps} {d : Nat} {R : Rel} {L : Lex} {exC exD : List (Nat × Nat)}
    (hwf₁ : wfSh s₁.g H s₁.sh = true) (hwf₂ : wfSh s₂.g H s₂.sh = true)
    (hchk : checkX s₁ s₂ H d R exC exD = true) (hL : LexOk H L)
    (hC : ∀ ab, ab ∈ exC → NoTrailingSep s₁.g ab.1 L) (hD : ∀ ab, ab ∈ exD → NoTrailingSep s₂.g ab.2 L)
    {x y : Nat} (hxy : inR s₁ s₂ d R x y = true) :
    ∀ n c p, parse s₁.g L n x c p ≠ .fuel →
      ∃ m₀, ∀ m, m₀ ≤ m → parse s₂.g L m y c p = parse s₁.g L n x c p := by
  intro n c p hne
  obtain ⟨hb, _, hpairs⟩ := checkX_base hchk
  have hs₁ : s₁.Ok H L := ⟨hwf₁, hL⟩
  have hs₂ : s₂.Ok H L := ⟨hwf₂, hL⟩
  exact inR_tr hs₁ hs₂ (simX_all hs₁ hs₂ hb hC hD hpairs n) hxy n (Nat.le_refl n) c p hne

/-! ### the hypotheses on concrete lexers -/

/-- a string-match node yields `ok` only at `p' + len` for a position `p'` where its token matches -/
theorem str_ok_end {g : Graph} {L : Lex} {s : Nat} {ns : Node} (hs : g.get s = some ns)
    (hk : ns.kind = .str) (hsup : supported ns = true) {n : Nat} {c : Bool} {q : Nat} {v : Sh} {p₁ : Nat}
    (h : parse g L n s c q = .ok v p₁) : ∃ p' len, L.tok ns.tok p' = some len ∧ p₁ = p' + len := by
  cases n with
  | zero => simp [parse] at h
  | succ n =>
    rw [parse_match hs hsup (Or.inl hk)] at h
    cases hsk : skipGen g L (fun e q => parse g L n e true q) n c q with
    | ok w p' =>
      rw [hsk] at h
      simp only [lexTok, hk] at h
      cases ht : L.tok ns.tok p' with
      | some len =>
        rw [ht] at h
        obtain ⟨v', hv', _, _⟩ := finish_inv h
        simp only [Res.ok.injEq] at hv'
        exact ⟨p', len, ht, hv'.2.symm⟩
      | none => rw [ht] at h; simp [finish] at h
    | fail => rw [hsk] at h; simp at h
    | bad => rw [hsk] at h; simp at h
    | fuel => rw [hsk] at h; simp at h

/-- `noTrailEndsB` is a sufficient condition for `NoTrailingSep` -/
theorem noTrailEnds_sound {g : Graph} {i : Nat} {L : Lex} {F : Nat} {ends : List Nat}
    (hends : ∀ nd s ns, g.get i = some nd → nd.sep = some s → g.get s = some ns →
      ∀ p len, L.tok ns.tok p = some len → p + len ∈ ends)
    (h : noTrailEndsB g i L F ends = true) : NoTrailingSep g i L := by
  intro nd k s hi hkids hsep n₁ n₂ c p₀ v₀ q v₁ p₁ _ hs m hm
  simp only [noTrailEndsB, hi, hkids, hsep, Bool.and_eq_true, List.all_eq_true] at h
  obtain ⟨hstr, hall⟩ := h
  cases hgs : g.get s with
  | none => simp [hgs] at hstr
  | some ns =>
    simp only [hgs, Bool.and_eq_true, beq_iff_eq] at hstr
    obtain ⟨p', len, htok, rfl⟩ := str_ok_end hgs hstr.1 hstr.2 hs
    have hin := hends nd s ns hi hsep hgs p' len htok
    have hok := hall _ hin c (by cases c <;> simp)
    cases hr : parse g L F k c (p' + len) with
    | ok w r =>
      have := parse_det g L (n := F) (m := m) (a := k) (c := c) (p := p' + len) (by rw [hr]; simp) (by rw [hm]; simp)
      rw [hr, hm] at this
      exact absurd this (by simp)
    | fail => rw [hr] at hok; simp [Res.isOk] at hok
    | bad => rw [hr] at hok; simp [Res.isOk] at hok
    | fuel => rw [hr] at hok; simp [Res.isOk] at hok

/-- the bounded scan is a necessary condition: if it evaluates to `false`, `NoTrailingSep` is false -/
theorem noTrailScan_of {g : Graph} {i : Nat} {L : Lex} (h : NoTrailingSep g i L) (F : Nat) :
    noTrailScanB g i L F = true := by
  unfold noTrailScanB
  cases hi : g.get i with
  | none => rfl
  | some nd =>
    simp only
    split
    · rename_i k s hk hs
      simp only [List.all_eq_true]
      intro p₀ _ c _
      split
      · rename_i v q hq
        split
        · rename_i v₁ p₁ hs₁
          simp only [bne_iff_ne, ne_eq]
          exact h nd k s hi hk hs F F c p₀ v q v₁ p₁ hq hs₁ F
        · rfl
      · rfl
    · rfl

theorem ofTable_tok {input : Array Char} {tbl : List (Nat × Nat × Nat)} {t p len : Nat}
    (h : (Lex.ofTable input tbl).tok t p = some len) : (t, p, len) ∈ tbl := by
  simp only [Lex.ofTable] at h
  cases hf : tbl.find? (fun e => e.1 == t && e.2.1 == p) with
  | none => rw [hf] at h; simp at h
  | some e =>
    rw [hf] at h
    simp only [Option.some.injEq] at h
    have hmem := List.mem_of_find?_eq_some hf
    have hp := List.find?_some hf
    simp only [Bool.and_eq_true, beq_iff_eq] at hp
    obtain ⟨e1, e2, e3⟩ := e
    simp only at hp h
    obtain ⟨rfl, rfl⟩ := hp
    subst h
    exact hmem

theorem ofTable_ends {input : Array Char} {tbl : List (Nat × Nat × Nat)} {t p len : Nat}
    (h : (Lex.ofTable input tbl).tok t p = some len) : p + len ∈ tableEnds tbl t := by
  have := ofTable_tok h
  simp only [tableEnds, List.mem_map, List.mem_filter, beq_iff_eq]
  exact ⟨(t, p, len), ⟨this, rfl⟩, rfl⟩

/-- `NoTrailingSep` for a table lexer, decided by evaluating the element after every separator token -/
theorem noTrailTable_sound {g : Graph} {i : Nat} {input : Array Char} {tbl : List (Nat × Nat × Nat)} {F : Nat}
    (h : noTrailEndsB g i (Lex.ofTable input tbl) F (tableEnds tbl (sepTok g i)) = true) :
    NoTrailingSep g i (Lex.ofTable input tbl) := by
  refine noTrailEnds_sound (fun nd s ns h1 h2 h3 p len htok => ?_) h
  have : sepTok g i = ns.tok := by simp [sepTok, h1, h2, h3]
  rw [this]
  exact ofTable_ends htok

theorem ofTable_none {input : Array Char} {tbl : List (Nat × Nat × Nat)} {p : Nat}
    (hp : ∀ e, e ∈ tbl → e.2.1 ≠ p) (t : Nat) : (Lex.ofTable input tbl).tok t p = none := by
  simp only [Lex.ofTable]
  cases hf : tbl.find? (fun e => e.1 == t && e.2.1 == p) with
  | none => rfl
  | some e =>
    have hmem := List.mem_of_find?_eq_some hf
    have hq := List.find?_some hf
    simp only [Bool.and_eq_true, beq_iff_eq] at hq
    exact absurd hq.2 (hp e hmem)

theorem firstTok_all_none {L : Lex} {p : Nat} (h : ∀ t, L.tok t p = none) (ts : List Nat) :
    firstTok L p ts = none := by
  induction ts with
  | nil => rfl
  | cons t ts ih => simp only [firstTok, h t]; exact ih

/-- `lexOkTable` decides `LexOk` for table lexers -/
theorem lexOkTable_sound {H : Hyps} {input : Array Char} {tbl : List (Nat × Nat × Nat)}
    (h : lexOkTable H input tbl = true) : LexOk H (Lex.ofTable input tbl) := by
  simp only [lexOkTable, Bool.and_eq_true, List.all_eq_true, Bool.or_eq_true, Bool.not_eq_true',
    decide_eq_true_eq, beq_iff_eq] at h
  obtain ⟨h1, h2⟩ := h
  constructor
  · intro t ht p len htok
    have hmem := ofTable_tok htok
    rcases h1 _ hmem with hc | hc
    · simp only [List.contains_eq_mem, decide_eq_false_iff_not] at hc
      exact absurd ht hc
    · exact hc
  · intro ta hta p
    by_cases hp : ∃ e, e ∈ tbl ∧ e.2.1 = p
    · obtain ⟨e, he, rfl⟩ := hp
      exact h2 e he ta hta
    · have hp' : ∀ e, e ∈ tbl → e.2.1 ≠ p := fun e he heq => hp ⟨e, he, heq⟩
      rw [ofTable_none hp', firstTok_all_none (fun t => ofTable_none hp' t)]

end Rec
