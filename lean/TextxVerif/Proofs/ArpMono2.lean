import TextxVerif.Proofs.ArpMono
/-! Fuel monotonicity, continued: node level and `parse`. -/
namespace Peg

/-- `f s (b s)` finishes ⇒ `b s` finished, for every post-processing `f` that passes `fuel` through -/
theorem post_le {b b' : PState → Res × PState} (h : LeB b b') (f : PState → Res × PState → Res × PState)
    (hf : ∀ s x, x.1 = .fuel → (f s x).1 = .fuel) : LeB (fun s => f s (b s)) (fun s => f s (b' s)) := by
  intro s r t h1 hr
  cases hb : b s with | mk r1 s1 =>
  have hne : r1 ≠ .fuel := by
    intro e
    have := hf s (b s) (by rw [hb]; exact e)
    simp only [] at h1
    rw [h1] at this; exact hr this
  simp only [] at h1 ⊢
  rw [h s r1 s1 hb hne, ← hb]; exact h1

theorem bodyNode_le {p p' : SubParser} (h : Le p p') {k k' : Nat} (hk : k ≤ k') (nd : Node) :
    LeB (bodyNode p k nd) (bodyNode p' k' nd) := by
  have hseq : LeB (fun s1 => seqLoop p nd.kids s1 []) (fun s1 => seqLoop p' nd.kids s1 []) :=
    fun s r t h1 hr => seqLoop_le h _ _ _ _ _ h1 hr
  have hch : ∀ c, LeB (fun s1 => choiceLoop p nd.kids c s1) (fun s1 => choiceLoop p' nd.kids c s1) :=
    fun c s r t h1 hr => choiceLoop_le h _ _ _ _ _ h1 hr
  have hrep : ∀ e f, LeB (fun s1 => repLoop p e nd.sep k s1 [] f false) (fun s1 => repLoop p' e nd.sep k' s1 [] f false) :=
    fun e f s r t h1 hr => repLoop_le h e nd.sep k k' hk _ _ _ _ _ _ h1 hr
  have hun : LeB (fun s1 => unordLoop p nd.sep k nd.kids s1 [] true .none)
      (fun s1 => unordLoop p' nd.sep k' nd.kids s1 [] true .none) :=
    fun s r t h1 hr => unordLoop_le h nd.sep k k' hk _ _ _ _ _ _ _ h1 hr
  have hp : ∀ e, LeB (fun s => p e s) (fun s => p' e s) := fun e s r t h1 hr => h e s r t h1 hr
  intro s r t h1 hr
  unfold bodyNode at h1 ⊢
  cases hkind : nd.kind <;> simp only [hkind] at h1 ⊢
  case seq =>
    exact post_le (withWsCtx_le nd hseq)
      (fun s x => match x with | (.nomatch, s2) => (.nomatch, { s2 with pos := s.pos }) | r => r)
      (by intro s x hx; obtain ⟨r, s2⟩ := x; simp at hx; subst hx; rfl) s r t h1 hr
  case choice =>
    have := fun c => withWsCtx_le nd (hch c)
    cases hb : withWsCtx nd (fun s1 => choiceLoop p nd.kids s.pos s1) s with | mk r1 s1 =>
    rw [hb] at h1
    have hne : r1 ≠ .fuel := by intro e; subst e; simp at h1; exact hr h1.1.symm
    rw [this s.pos s r1 s1 hb hne]; exact h1
  case opt =>
    cases hkids : nd.kids with
    | nil => simp only [hkids] at h1 ⊢; exact h1
    | cons e es =>
      cases es with
      | nil =>
        simp only [hkids] at h1 ⊢
        exact post_le (hp e)
          (fun s x => match x with | (.ok v, s2) => (.ok (.list [v]), s2)
                                    | (.nomatch, s2) => (.ok .none, { s2 with pos := s.pos }) | r => r)
          (by intro s x hx; obtain ⟨r, s2⟩ := x; simp at hx; subst hx; rfl) s r t h1 hr
      | cons e2 es2 => simp only [hkids] at h1 ⊢; exact h1
  case star =>
    cases hkids : nd.kids with
    | nil => simp only [hkids] at h1 ⊢; exact h1
    | cons e es =>
      cases es with
      | nil => simp only [hkids] at h1 ⊢; exact withEol_le nd (hrep e false) s r t h1 hr
      | cons e2 es2 => simp only [hkids] at h1 ⊢; exact h1
  case plus =>
    cases hkids : nd.kids with
    | nil => simp only [hkids] at h1 ⊢; exact h1
    | cons e es =>
      cases es with
      | nil => simp only [hkids] at h1 ⊢; exact withEol_le nd (hrep e true) s r t h1 hr
      | cons e2 es2 => simp only [hkids] at h1 ⊢; exact h1
  case unord =>
    exact post_le (withEol_le nd hun)
      (fun s x => match x with | (.nomatch, s2) => (.nomatch, ({ s2 with pos := s.pos }).nmRaise s.pos) | r => r)
      (by intro s x hx; obtain ⟨r, s2⟩ := x; simp at hx; subst hx; rfl) s r t h1 hr
  case andP =>
    cases hkids : nd.kids with
    | nil => simp only [hkids] at h1 ⊢; exact h1
    | cons e es =>
      cases es with
      | nil =>
        simp only [hkids] at h1 ⊢
        exact post_le (hp e)
          (fun s x => match x with | (.ok _, s2) => (.ok .none, { s2 with pos := s.pos })
                                    | (.nomatch, s2) => (.nomatch, { s2 with pos := s.pos }) | r => r)
          (by intro s x hx; obtain ⟨r, s2⟩ := x; simp at hx; subst hx; rfl) s r t h1 hr
      | cons e2 es2 => simp only [hkids] at h1 ⊢; exact h1
  case notP =>
    cases hkids : nd.kids with
    | nil => simp only [hkids] at h1 ⊢; exact h1
    | cons e es =>
      cases es with
      | nil =>
        simp only [hkids] at h1 ⊢
        exact post_le (hp e)
          (fun s x => match x with | (.ok _, s2) => (.nomatch, ({ s2 with pos := s.pos }).nmRaise s.pos)
                                    | (.nomatch, s2) => (.ok .none, { s2 with pos := s.pos }) | r => r)
          (by intro s x hx; obtain ⟨r, s2⟩ := x; simp at hx; subst hx; rfl) s r t h1 hr
      | cons e2 es2 => simp only [hkids] at h1 ⊢; exact h1
  all_goals exact h1

theorem cacheStore_fuel (memo : Bool) (id : Nat) (nd : Node) (c : Nat) (x : Res × PState) :
    (cacheStore memo id nd c x).1 = .fuel ↔ x.1 = .fuel := by
  obtain ⟨r, s⟩ := x
  cases r <;> simp [cacheStore]

theorem wrap_le (memo : Bool) (id : Nat) (nd : Node) {b b' : PState → Res × PState} (h : LeB b b') :
    LeB (wrap memo id nd b) (wrap memo id nd b') := by
  intro s r t h1 hr
  unfold wrap at h1 ⊢
  cases hh : cacheHit memo id s with
  | some x => simp only [hh] at h1 ⊢; exact h1
  | none =>
    simp only [hh] at h1 ⊢
    cases hb : b s with | mk r1 s1 =>
    have hne : r1 ≠ .fuel := by
      intro e
      have := (cacheStore_fuel memo id nd s.pos (b s)).2 (by rw [hb]; exact e)
      rw [h1] at this; exact hr this
    rw [h s r1 s1 hb hne, ← hb]; exact h1

theorem nodeParse_le (g : Grammar) {p p' : SubParser} (h : Le p p') {k k' : Nat} (hk : k ≤ k') :
    Le (nodeParse g p k) (nodeParse g p' k') := by
  intro id s r t h1 hr
  unfold nodeParse at h1 ⊢
  cases hn : g.nodes[id]? with
  | none => simp only [hn] at h1 ⊢; exact h1
  | some nd =>
    simp only [hn] at h1 ⊢
    have hm := matchNode_le g (commentsLoop_le g h k k' hk) id nd
    have hw := wrap_le g.memo id nd (bodyNode_le h hk nd)
    cases hkind : nd.kind <;> simp only [hkind] at h1 ⊢
    all_goals first | exact hm s r t h1 hr | exact hw s r t h1 hr

/-- one more unit of fuel never changes a finished run -/
theorem parse_le_succ (g : Grammar) : ∀ n, Le (parse g n) (parse g (n+1))
  | 0 => by intro e s r t h1 hr; simp [parse] at h1; exact absurd h1.1.symm hr
  | n+1 => by
      have ih := parse_le_succ g n
      intro e s r t h1 hr
      simp only [parse] at h1 ⊢
      exact nodeParse_le g ih (Nat.le_succ n) e s r t h1 hr

/-- **Fuel monotonicity**: a run that finished with fuel `n` gives the same result and state with any `m ≥ n`. -/
theorem parse_le (g : Grammar) {n m : Nat} (h : n ≤ m) : Le (parse g n) (parse g m) := by
  induction m with
  | zero => have : n = 0 := by omega
            subst this; exact Le.refl _
  | succ m ih =>
    by_cases hnm : n = m + 1
    · subst hnm; exact Le.refl _
    · intro e s r t h1 hr
      exact parse_le_succ g m e s r t (ih (by omega) e s r t h1 hr) hr

end Peg
